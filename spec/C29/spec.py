from vlib import Job

META = dict(
    level="proof",
    functions=["parsec_base_future_init", "parsec_base_future_is_ready", "parsec_base_future_set", "parsec_base_future_get",
               "parsec_countable_future_init", "parsec_countable_future_set",
               "parsec_datacopy_future_init", "parsec_datacopy_future_set",
               "parsec_datacopy_future_get_or_trigger_internal", "parsec_datacopy_future_get_or_trigger"],
    explanation="Rely/guarantee contracts (route harness: assume pre / call the real function / assert post, ghost state in the "
                "verif_rg.h hooks) on the real future code of parsec/class/parsec_future.c and parsec_datacopy_future.c, included "
                "verbatim (the datacopy harness also includes the real parsec_object.c and parsec_list.c, so class initialisation, "
                "PARSEC_OBJ_NEW/CONSTRUCT and the list operations are the code that runs). "
                "Base future: the environment (any number of other setters) may win the CAS on tracked_data, publish COMPLETED and "
                "run the callback before the call and before each atomic step of it; obligations: one CAS, winner iff the slot was "
                "empty, winner stores value + COMPLETED + runs the callback once seeing both, loser changes nothing, callback at most "
                "once overall, get returns the winner's value only after observing COMPLETED. "
                "Countable future: ghost sets with invariant count == n0 - sets for every n0 in 1..2^31-1 and every number of earlier / "
                "concurrent sets (also more than n0); COMPLETED and the callback happen exactly in the call whose fetch-dec is number n0. "
                "Datacopy future: per future invariant 'callback invocations == TRIGGERED' checked at every unlock and at return under "
                "interference at lock acquisition and after release; callback iff TRIGGERED was clear under the lock, TRIGGERED set "
                "before the callback, value returned iff COMPLETED observed. get_or_trigger: base + nested list of n futures (n fixed "
                "per cbmc process, enumerated 0..4, thorough 0..12; all statuses, shapes, requested shape, synchronous/asynchronous "
                "fulfilment and interference symbolic): a nested future is created (under the base lock, appended, in the list when "
                "the lock is released) only if no listed one has the requested shape and none is in progress, so the listed shapes "
                "stay pairwise distinct = one fulfilment per shape.",
    trusted_base=[
        "rely/guarantee soundness theorem (per-thread obligations imply the invariants for every interleaving and any number of threads)",
        "user callbacks are stubs: cb_fulfill (counts, checks lock/TRIGGERED/arguments, optionally calls the real "
        "parsec_datacopy_future_set), cb_match (shape equality = descriptor identity, deterministic), cb_setup_nested (builds a fresh "
        "future with the real construct+init, tracking exactly the requested shape), cb_cleanup (no-op)",
        "parsec_output_verbose (warning/debug output) stubbed as no-op",
        "CBMC's model of va_arg for the variadic init/get_or_trigger/callback signatures",
    ],
    assumptions=[
        "base future: the value passed to set is not NULL (NULL is the 'empty' marker of the CAS-once slot); the case of a NULL first "
        "value is the separate job base.set.null_first_value, which FAILS on the code (see MANIFEST note)",
        "countable future: init is given a count >= 1 and fewer than 2^31-2 sets are performed in total (no wrap-around of the 32-bit counter)",
        "datacopy future: parsec_datacopy_future_set is called once per future, either by its fulfilment (after TRIGGERED was set) or "
        "before the future is visible to other threads, with a non-NULL data copy (documented protocol of the function; callers in "
        "parsec_reshape.c / remote_dep_mpi.c are not checked here)",
        "init functions are called before the future is shared (documented as not thread-safe)",
        "blocked executions (spinning get on a future nobody completes, lock never released) are not explored: no liveness claim",
        "interference is injected before and after each wrapped atomic/barrier operation (VERIF_RG_POST_STEP), before each lock acquisition and after each unlock; the two consecutive plain reads "
        "'status & COMPLETED' then 'tracked_data' at the end of get_or_trigger_internal have no injection point between them (covered by "
        "the rely: the value is stable once COMPLETED)",
    ],
)


def jobs(tier):
    full = tier == "thorough"
    NN = 12 if full else 4
    J = [
        Job("base.init_is_ready", "h_future.c", entry="h_base_init", unwind=2,
            functions=["parsec_base_future_init", "parsec_base_future_is_ready"], timeout=300, min_obligations=8),
        Job("base.set.rg", "h_future.c", entry="h_base_set", unwind=2, canaries=3,
            functions=["parsec_base_future_set"], timeout=300, min_obligations=14),
        Job("base.get.rg", "h_future.c", entry="h_base_get", unwind=2,
            functions=["parsec_base_future_get"], timeout=300, min_obligations=5),
        Job("base.set_twice.lemma", "h_future.c", entry="h_base_set_twice", unwind=2,
            functions=["parsec_base_future_set", "parsec_base_future_get"], timeout=300, min_obligations=4),
        Job("countable.init_set.rg", "h_future.c", entry="h_count_set", unwind=2, canaries=4,
            functions=["parsec_countable_future_init", "parsec_countable_future_set"], timeout=300, min_obligations=14),
        Job("datacopy.init_set", "h_datacopy.c", entry="h_dc_init_set", unwind=12,
            functions=["parsec_datacopy_future_init", "parsec_datacopy_future_set"], timeout=300, min_obligations=8),
        Job("datacopy.internal.rg", "h_datacopy.c", entry="h_dc_internal", unwind=12, canaries=3,
            functions=["parsec_datacopy_future_get_or_trigger_internal"], timeout=300, min_obligations=14),
    ]
    # nested list: length n (and, for n == 0, whether the list object exists) fixed per cbmc process
    for n, l in [(0, 0)] + [(n, 1) for n in range(0, NN + 1)]:
        J.append(Job("datacopy.get_or_trigger.rg.n%d%s" % (n, "" if (n or l) else ".nolist"), "h_datacopy.c",
                     entry="h_dc_get_or_trigger", unwind=max(12, NN + 4), canaries=(6 if n else 5),
                     defines={"NN": NN, "FIX_N": n, "FIX_LIST": l},
                     bounded="nested list of the base future holds %d futures (enumerated 0..%d; the property's own domain is <= 4 "
                             "distinct requested shapes, the code admits longer lists)" % (n, NN),
                     functions=["parsec_datacopy_future_get_or_trigger", "parsec_datacopy_future_get_or_trigger_internal"],
                     timeout=600, min_obligations=40))
    # Obligation of the property statement that FAILS on the unchanged tree (first value NULL): kept in its own job,
    # registered in /verif/known_findings.json as C29-null-first-value (KNOWN-FINDING line, exit 0).
    J.append(Job("base.set.null_first_value", "h_future.c", entry="h_base_set_null_first", unwind=2,
                 functions=["parsec_base_future_set", "parsec_base_future_get"], timeout=300, min_obligations=4))
    return J


MANIFEST = dict(
    category="proof",
    text="Every obligation of the rely/guarantee contracts of the base, countable and data-copy future functions is discharged by CBMC "
         "on the real code under arbitrary interference permitted by the rely, for any number of threads: base set = one CAS, the CAS "
         "from empty decides, winner publishes value + COMPLETED and runs the callback exactly once, loser changes nothing, get returns "
         "the winner's value only after observing COMPLETED; countable set = ready and callback exactly in the set numbered `count` "
         "(all counts 1..2^31-1, also surplus sets); datacopy get_or_trigger_internal = fulfil callback iff TRIGGERED was clear under "
         "the future lock, invariant 'invocations == TRIGGERED' at every unlock (all loop-free: complete). The nested-shape clause of "
         "get_or_trigger (new nested future only if no listed one matches or is in progress; listed shapes stay pairwise distinct) is "
         "discharged per list length 0..4 (thorough 0..12) and reported as bounded; 4 is the property's own shape bound.",
    note="NOT decided: liveness (get spins / get_or_trigger returns NULL while in progress); hardware memory ordering (sequentially "
         "consistent atomics assumed; datacopy set/get have no barriers between value and status); the callers' obligation to call "
         "parsec_datacopy_future_set once; parsec_datacopy_future_cleanup_nested / destruct (reclamation, not part of the statement); "
         "lists longer than the bound. Callbacks are stubs. KNOWN FAILING OBLIGATION (own job base.set.null_first_value): a base "
         "future whose first value is NULL becomes COMPLETED but a later set wins again (callback twice, readers see two values).",
    technique="function contracts as assume/assert around the real functions + rely/guarantee ghost state on the wrapped atomic layer, "
              "discharged by CBMC (SAT); list length enumerated per process (shape-bounded clause)",
    design_ref="DESIGN.md section 5, C29")
