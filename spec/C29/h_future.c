/* C29 (base and countable futures): rely/guarantee contracts on the real
 * parsec_base_future_set/_get/_is_ready/_init and parsec_countable_future_set/_init
 * (parsec/class/parsec_future.c, included verbatim).
 *
 * Shared state of a base future: the value slot `tracked_data` (written by CAS from
 * NULL), the status byte (written only by the winner of that CAS) and the callback.
 *   Inv_base : COMPLETED => tracked_data == value of the (unique) winner, != NULL
 *   Rely     : other setters change tracked_data only NULL -> v (v != NULL), once;
 *              only the thread that did so sets COMPLETED and runs the callback (once).
 * Shared state of a countable future: count (fetch-dec), status.
 *   ghost sets = number of set calls linearised (their fetch-dec) so far
 *   Inv_cnt  : count == n0 - sets ;  COMPLETED => sets >= n0
 *   Rely     : other setters perform fetch-dec steps; the one whose step is number n0
 *              sets COMPLETED and runs the callback once.
 * The environment acts before the function starts and before AND after each wrapped atomic
 * operation / barrier of the function (verif_rg.h with VERIF_RG_POST_STEP).
 */
#include "verif.h"
#define VERIF_RG_POST_STEP      /* the environment also acts right AFTER each of my atomic operations */
#include "verif_rg.h"
#include "parsec/class/parsec_future.c"

#ifndef VERIF_REPLAY
/* warning/debug output (variadic, no effect on the future): no-op */
void parsec_output_verbose(int level, int id, const char *format, ...) { (void)level; (void)id; (void)format; }
#endif

#define NV 4
struct vin {
    uint8_t  has_cb;          /* future initialised with a completion callback?      */
    uint8_t  my_val;          /* index of the value I set                            */
    uint8_t  env_val;         /* index of the value another setter uses              */
    uint8_t  env[6];          /* environment actions at each step (bit set)          */
    uint8_t  status;          /* is_ready: any status byte                           */
    int32_t  n0;              /* countable: count given to init                      */
    int32_t  r0;              /* countable: sets linearised before my call           */
    uint8_t  r0_completed;    /* countable: did the n0-th setter already publish?    */
    int32_t  envk[3];         /* countable: further sets by others at each env step  */
} vin;
#include "verif_vin.h"

static int vals[NV];                    /* the values futures may carry (addresses only) */
static parsec_base_future_t      bf;
static parsec_countable_future_t cf;

enum { M_NONE = 0, M_BASE, M_COUNT };
enum { W_NONE = 0, W_ME, W_ENV };
static int g_mode;
static int g_env_k;
static int g_post;                      /* the env step now running is the one right after my own step */
/* base */
static int   g_winner;                  /* who moved tracked_data away from NULL            */
static void *g_winner_val;
static int   g_lin;                     /* my linearisation points                          */
static int   g_slot_empty_at_my_cas;    /* tracked_data == NULL just before my CAS          */
static int   g_my_cas_ok;
static int   g_env_completed;           /* environment (as winner) set COMPLETED            */
static int   g_cb_me, g_cb_env;         /* callback invocations by me / by the environment  */
static int   g_cb_arg_bad, g_cb_state_bad;
static int   g_in_call;                 /* inside the function under contract               */
static int   g_get_fence_bad;
/* countable */
static int64_t g_n0, g_sets, g_my_no;

/* completion callback given to init: counts, checks what the callee can observe */
static void stub_cb(parsec_base_future_t *f, ...)
{
    if (g_in_call) g_cb_me++; else g_cb_env++;
    if (g_mode == M_BASE) {
        if (f != &bf) g_cb_arg_bad = 1;
        if (!(bf.status & PARSEC_DATA_FUTURE_STATUS_COMPLETED) || bf.tracked_data != g_winner_val) g_cb_state_bad = 1;
    } else {
        if (f != &cf.super) g_cb_arg_bad = 1;
        if (!(cf.super.status & PARSEC_DATA_FUTURE_STATUS_COMPLETED)) g_cb_state_bad = 1;
    }
}

/* one step of the other threads, constrained by the rely */
static void env_base(uint8_t a)
{
    if ((a & 1) && bf.tracked_data == NULL) {             /* another setter wins the CAS */
        bf.tracked_data = &vals[vin.env_val];
        g_winner = W_ENV; g_winner_val = bf.tracked_data;
    }
    if ((a & 2) && g_winner == W_ENV && !g_env_completed) {   /* ... later publishes COMPLETED */
        bf.status |= PARSEC_DATA_FUTURE_STATUS_COMPLETED;
        g_env_completed = 1;
    }
    if ((a & 4) && g_env_completed && g_cb_env == 0 && bf.cb_fulfill != NULL) {   /* ... and runs the callback once */
        int s = g_in_call; g_in_call = 0; bf.cb_fulfill(&bf); g_in_call = s;
    }
}
static int g_env_last, g_env_published;
static void env_count(int32_t k, int publish)
{
    /* k further sets by others; no wrap-around of the 32-bit counter (total sets < 2^31-1) */
    V_ASSUME(k >= 0 && g_sets + k <= (int64_t)INT32_MAX - 2);
    if (k > 0) {
        if (g_sets < g_n0 && g_sets + k >= g_n0) g_env_last = 1;   /* the setter numbered n0 is among them */
        g_sets += k;
        cf.count = (int32_t)(g_n0 - g_sets);
    }
    if (publish && g_env_last && !g_env_published) {   /* ... it publishes and calls back, once, now or later */
        g_env_published = 1;
        cf.super.status |= PARSEC_DATA_FUTURE_STATUS_COMPLETED;
        if (cf.super.cb_fulfill != NULL) { int s = g_in_call; g_in_call = 0; cf.super.cb_fulfill(&cf.super); g_in_call = s; }
    }
}
#define NENV_BASE 6
#define NENV_COUNT 3
void verif_env_step(int op, volatile void *loc)
{
    int post = g_post; g_post = 0;
    if (g_mode == M_BASE) {
        if (g_env_k < NENV_BASE) env_base(vin.env[g_env_k++]);
        /* the slot as my CAS finds it: sampled at the step BEFORE the operation only */
        if (!post && op == V_OP_CAS && loc == (volatile void *)&bf.tracked_data) g_slot_empty_at_my_cas = (bf.tracked_data == NULL);
    } else if (g_mode == M_COUNT) {
        if (g_env_k < NENV_COUNT) { env_count(vin.envk[g_env_k], vin.env[g_env_k] & 1); g_env_k++; }
    }
}
void verif_own_step(int op, volatile void *loc, int success)
{
    g_post = 1;                           /* with VERIF_RG_POST_STEP the next env step is the post step of this operation */
    if (g_mode == M_BASE) {
        if (op == V_OP_CAS && loc == (volatile void *)&bf.tracked_data) {
            g_lin++; g_my_cas_ok = success;
            if (success) { g_winner = W_ME; g_winner_val = bf.tracked_data; }
        }
        if (op == V_OP_FENCE && g_in_call == 2) {   /* get: the read barrier before the value is read */
            if (!(bf.status & PARSEC_DATA_FUTURE_STATUS_COMPLETED)) g_get_fence_bad = 1;
        }
    } else if (g_mode == M_COUNT) {
        if (op == V_OP_FETCH && loc == (volatile void *)&cf.count) { g_lin++; g_sets++; g_my_no = g_sets; }
    }
}

static void base_prestate(void)
{
    V_ASSUME(vin.my_val < NV && vin.env_val < NV);
    g_mode = M_NONE;
    parsec_base_future_construct(&bf);
    parsec_base_future_init(&bf, vin.has_cb ? stub_cb : NULL);
    g_mode = M_BASE; g_env_k = 0; g_winner = W_NONE; g_winner_val = NULL; g_lin = 0; g_env_completed = 0;
    g_cb_me = g_cb_env = 0; g_cb_arg_bad = g_cb_state_bad = 0; g_get_fence_bad = 0; g_in_call = 0; g_post = 0;
}

/* ------------------------------------------------------------------ */
/* parsec_base_future_init / _is_ready                                  */
/* ------------------------------------------------------------------ */
void h_base_init(void)
{
    vin_load();
    g_mode = M_NONE;
    parsec_base_future_construct(&bf);
    V_ASSERT(bf.tracked_data == NULL && bf.status == 0 && bf.cb_fulfill == NULL, "C29.base_future_construct.post.empty_not_ready_no_callback");
    V_ASSERT(bf.future_class->set == parsec_base_future_set && bf.future_class->get == parsec_base_future_get,
             "C29.base_future_construct.post.class_functions_are_the_base_ones");
    parsec_base_future_init(&bf, vin.has_cb ? stub_cb : NULL);
    V_ASSERT(bf.status == PARSEC_DATA_FUTURE_STATUS_INIT, "C29.base_future_init.post.status_is_INIT_only");
    V_ASSERT(bf.cb_fulfill == (vin.has_cb ? stub_cb : NULL), "C29.base_future_init.post.callback_recorded");
    V_ASSERT(bf.tracked_data == NULL, "C29.base_future_init.post.value_slot_still_empty");
    V_ASSERT(!parsec_base_future_is_ready(&bf), "C29.base_future_init.post.not_ready");
    bf.status = vin.status;
    V_ASSERT(V_IFF(parsec_base_future_is_ready(&bf), vin.status & PARSEC_DATA_FUTURE_STATUS_COMPLETED),
             "C29.base_future_is_ready.post.ready_iff_COMPLETED_bit");
    V_ASSERT(bf.status == vin.status, "C29.base_future_is_ready.post.status_unchanged");
    V_CANARY("base_init");
}

/* ------------------------------------------------------------------ */
/* parsec_base_future_set under interference                            */
/* ------------------------------------------------------------------ */
void h_base_set(void)
{
    vin_load();
    base_prestate();
    verif_env_step(-1, NULL);                 /* others may have acted before my call starts */
    g_in_call = 1;
    parsec_base_future_set(&bf, &vals[vin.my_val]);     /* PRE: value != NULL (NULL is the empty marker of the slot) */
    g_in_call = 0;

    V_ASSERT(g_lin == 1, "C29.base_future_set.post.exactly_one_CAS_on_the_value_slot");
    V_ASSERT(V_IFF(g_my_cas_ok, g_slot_empty_at_my_cas), "C29.base_future_set.post.CAS_from_empty_decides_the_winner");
    V_ASSERT(g_winner != W_NONE, "C29.base_future_set.post.some_setter_has_won");
    V_ASSERT(bf.tracked_data == g_winner_val && g_winner_val != NULL, "C29.base_future_set.inv.slot_holds_the_winners_value");
    if (g_my_cas_ok) {
        V_ASSERT(g_winner == W_ME && bf.tracked_data == &vals[vin.my_val], "C29.base_future_set.post.winner_value_stored");
        V_ASSERT(bf.status == (PARSEC_DATA_FUTURE_STATUS_INIT | PARSEC_DATA_FUTURE_STATUS_COMPLETED),
                 "C29.base_future_set.post.winner_sets_COMPLETED_keeps_INIT");
        V_ASSERT(g_cb_me == (vin.has_cb ? 1 : 0), "C29.base_future_set.post.winner_runs_callback_exactly_once");
        V_ASSERT(g_cb_env == 0, "C29.base_future_set.post.nobody_else_runs_the_callback");
        V_CANARY("base_set.winner");
    } else {
        V_ASSERT(g_winner == W_ENV && bf.tracked_data == &vals[vin.env_val], "C29.base_future_set.post.loser_leaves_the_value");
        V_ASSERT(bf.status == (PARSEC_DATA_FUTURE_STATUS_INIT | (g_env_completed ? PARSEC_DATA_FUTURE_STATUS_COMPLETED : 0)),
                 "C29.base_future_set.post.loser_leaves_the_status");
        V_ASSERT(g_cb_me == 0, "C29.base_future_set.post.loser_runs_no_callback");
        V_CANARY("base_set.loser");
    }
    V_ASSERT(g_cb_me + g_cb_env <= 1, "C29.base_future_set.post.callback_at_most_once_overall");
    V_ASSERT(!g_cb_arg_bad, "C29.base_future_set.post.callback_receives_the_future");
    V_ASSERT(!g_cb_state_bad, "C29.base_future_set.post.callback_sees_COMPLETED_and_the_value");
    V_ASSERT(V_IMPLIES(bf.status & PARSEC_DATA_FUTURE_STATUS_COMPLETED, bf.tracked_data == g_winner_val && g_winner_val != NULL),
             "C29.base_future_set.inv.COMPLETED_implies_value_present");
    V_CANARY("base_set");
}

/* ------------------------------------------------------------------ */
/* parsec_base_future_get: every reader gets the winner's value          */
/* ------------------------------------------------------------------ */
void h_base_get(void)
{
    vin_load();
    base_prestate();
    verif_env_step(-1, NULL);
    /* blocking call: executions in which nobody ever completes the future do not return and are not
     * explored (liveness is not claimed); the completion happened before the poll that sees it */
    V_ASSUME(bf.status & PARSEC_DATA_FUTURE_STATUS_COMPLETED);
    uint8_t st = bf.status;
    g_in_call = 2;
    void *r = parsec_base_future_get(&bf);
    g_in_call = 0;
    V_ASSERT(r == g_winner_val && r == &vals[vin.env_val], "C29.base_future_get.post.returns_the_winners_value");
    V_ASSERT(r != NULL, "C29.base_future_get.post.never_returns_empty");
    V_ASSERT(!g_get_fence_bad, "C29.base_future_get.post.value_read_only_after_COMPLETED_observed");
    V_ASSERT(bf.status == st && bf.tracked_data == g_winner_val, "C29.base_future_get.post.reader_changes_nothing");
    V_ASSERT(g_cb_me == 0, "C29.base_future_get.post.reader_runs_no_callback");
    V_CANARY("base_get");
}

/* ------------------------------------------------------------------ */
/* parsec_countable_future_init / _set                                  */
/* ------------------------------------------------------------------ */
void h_count_set(void)
{
    vin_load();
    g_mode = M_NONE;
    parsec_countable_future_construct(&cf.super);
    V_ASSERT(cf.super.future_class->set == parsec_countable_future_set, "C29.countable_future_construct.post.class_set_is_countable_set");
    V_ASSUME(vin.n0 >= 1);                                   /* PRE of init: a positive number of sets is awaited */
    parsec_countable_future_init(&cf.super, vin.has_cb ? stub_cb : NULL, vin.n0);
    V_ASSERT(cf.count == vin.n0, "C29.countable_future_init.post.count_recorded");
    V_ASSERT(cf.super.status == PARSEC_DATA_FUTURE_STATUS_INIT && cf.super.cb_fulfill == (vin.has_cb ? stub_cb : NULL),
             "C29.countable_future_init.post.status_INIT_callback_recorded");
    V_ASSERT(!parsec_base_future_is_ready(&cf.super), "C29.countable_future_init.post.not_ready");

    /* symbolic history: r0 sets already linearised (Inv_cnt), the n0-th of them has (or has not yet) published */
    g_n0 = vin.n0; g_sets = 0; g_lin = 0; g_my_no = 0; g_cb_me = g_cb_env = 0; g_cb_arg_bad = g_cb_state_bad = 0; g_env_k = NENV_COUNT; g_post = 0;
    g_mode = M_COUNT; g_in_call = 0;
    g_env_last = g_env_published = 0;
    env_count(vin.r0, vin.r0_completed);
    g_env_k = 0;
    verif_env_step(-1, NULL);
    int64_t sets_before = g_sets;

    g_in_call = 1;
    parsec_countable_future_set(&cf.super, &vals[0]);
    g_in_call = 0;

    int mine_is_last = (g_my_no == g_n0);
    V_ASSERT(g_lin == 1, "C29.countable_future_set.post.exactly_one_fetch_dec");
    V_ASSERT(cf.count == (int32_t)(g_n0 - g_sets), "C29.countable_future_set.inv.count_is_n0_minus_sets");
    V_ASSERT(g_my_no >= sets_before + 1, "C29.countable_future_set.post.my_set_is_counted_once");
    V_ASSERT(V_IFF(g_cb_me == 1, mine_is_last && vin.has_cb) && g_cb_me <= 1,
             "C29.countable_future_set.post.callback_exactly_in_the_set_numbered_count");
    V_ASSERT(V_IMPLIES(mine_is_last, cf.super.status == (PARSEC_DATA_FUTURE_STATUS_INIT | PARSEC_DATA_FUTURE_STATUS_COMPLETED)),
             "C29.countable_future_set.post.set_numbered_count_makes_it_ready");
    V_ASSERT(V_IMPLIES(cf.super.status & PARSEC_DATA_FUTURE_STATUS_COMPLETED, g_sets >= g_n0),
             "C29.countable_future_set.inv.not_ready_before_count_sets");
    V_ASSERT(V_IMPLIES(!mine_is_last, cf.super.status == (PARSEC_DATA_FUTURE_STATUS_INIT | (g_env_published ? PARSEC_DATA_FUTURE_STATUS_COMPLETED : 0))),
             "C29.countable_future_set.post.other_sets_leave_the_status");
    V_ASSERT((cf.super.status & ~PARSEC_DATA_FUTURE_STATUS_COMPLETED) == PARSEC_DATA_FUTURE_STATUS_INIT,
             "C29.countable_future_set.post.other_status_bits_untouched");
    V_ASSERT(g_cb_me + g_cb_env <= 1 && V_IMPLIES(mine_is_last, g_cb_env == 0), "C29.countable_future_set.post.callback_at_most_once_overall");
    V_ASSERT(!g_cb_arg_bad, "C29.countable_future_set.post.callback_receives_the_future");
    V_ASSERT(!g_cb_state_bad, "C29.countable_future_set.post.callback_sees_COMPLETED");
    if (mine_is_last) V_CANARY("count_set.last");
    if (g_my_no > g_n0) V_CANARY("count_set.extra");
    if (g_my_no < g_n0) V_CANARY("count_set.early");
    V_CANARY("count_set");
}

/* ------------------------------------------------------------------ */
/* two sets in sequence on one base future (history lemma): the second  */
/* loses, the callback has run once, readers before and after agree.    */
/* FIRST_NULL: the first value is NULL -- see the note in spec.py.       */
/* ------------------------------------------------------------------ */
static void two_sets(void *first)
{
    base_prestate();
    g_env_k = NENV_BASE;                          /* no interference: a sequential history */
    g_in_call = 1;
    parsec_base_future_set(&bf, first);
    V_ASSERT(parsec_base_future_is_ready(&bf), "C29.base_future_set.post.first_set_makes_it_ready");
    void *r1 = parsec_base_future_get(&bf);
    parsec_base_future_set(&bf, &vals[vin.env_val]);
    void *r2 = parsec_base_future_get(&bf);
    g_in_call = 0;
    V_ASSERT(g_cb_me == (vin.has_cb ? 1 : 0), "C29.base_future_set.post.second_set_loses_callback_ran_once");
    V_ASSERT(bf.tracked_data == first, "C29.base_future_set.post.second_set_loses_value_of_first_kept");
    V_ASSERT(r1 == first && r2 == r1, "C29.base_future_get.post.readers_before_and_after_a_second_set_agree");
}
void h_base_set_twice(void)
{
    vin_load();
    V_ASSUME(vin.my_val < NV && vin.env_val < NV);
    two_sets(&vals[vin.my_val]);
    V_CANARY("base_set_twice");
}
void h_base_set_null_first(void)
{
    vin_load();
    V_ASSUME(vin.my_val < NV && vin.env_val < NV);
    two_sets(NULL);
    V_CANARY("base_set_null_first");
}
