/* C29 (reshape / data-copy futures): rely/guarantee contracts on the real
 * parsec_datacopy_future_init/_set/_get_or_trigger_internal/_get_or_trigger
 * (parsec/class/parsec_datacopy_future.c, included verbatim, together with the real
 * object and list classes it uses: parsec_object.c, parsec_list.c, list.h).
 *
 * Per future f (ghost cb[f] = fulfil-callback invocations on f by anybody):
 *   Inv_f   : cb[f] == (TRIGGERED(f) ? 1 : 0)            -- one fulfilment per future
 *             COMPLETED(f) => tracked_data(f) == val(f) != NULL
 *   Rely    : others change TRIGGERED(f) only while holding f's lock, only 0 -> 1, together with
 *             their single callback invocation; f is completed (tracked_data := val(f), then
 *             COMPLETED) once, as a consequence of its fulfilment (after TRIGGERED) or before f
 *             is visible to other threads (documented protocol of parsec_datacopy_future_set).
 * Base future with nested list L (guarded by the base lock):
 *   Inv_L   : the shapes of the futures in L are pairwise distinct and differ from the base shape
 *             -- one nested future, hence (Inv_f) one fulfilment, per requested shape.
 * The environment acts on f before I acquire f's lock and right after I release it.
 */
#include "verif.h"
#define VERIF_RG_POST_STEP      /* framework rule; this code has no atomics besides lock/unlock, whose hooks act before lock and after unlock */
#include "verif_rg.h"
#include "parsec/class/parsec_object.c"
#include "parsec/class/parsec_list.c"
#include "parsec/class/parsec_datacopy_future.c"

#ifndef VERIF_REPLAY
/* debug output (variadic, no effect on futures): no-op */
void parsec_output_verbose(int level, int id, const char *format, ...) { (void)level; (void)id; (void)format; }
#endif

#ifndef NN
#define NN 4                 /* futures already in the nested list: 0..NN                     */
#endif
#ifndef FIX_N
#define FIX_N 0
#endif
#ifndef FIX_LIST
#define FIX_LIST 0
#endif
#define NP (NN + 2)          /* pool: [0] base, [1..NN] listed, [NN+1] handed out by setup cb  */
#define NEWI (NN + 1)
#define NS (NN + 3)          /* shape descriptors 1..NN+2 (0 = no request): one more than futures */

struct vin {
    uint8_t n;               /* futures in the nested list                                     */
    uint8_t has_list;        /* list object exists although empty                              */
    uint8_t shape[NP];       /* shape of base [0] and of listed futures                        */
    uint8_t req;             /* requested shape, 0 = none (cb_data_in == NULL)                  */
    uint8_t st[NP];          /* bit0 TRIGGERED, bit1 COMPLETED, bit2 value already written      */
    uint8_t cb_sync[NP];     /* fulfil callback completes the future synchronously?             */
    uint8_t env_lock[NP];    /* actions of others on future i before I get its lock             */
    uint8_t env_unlock[NP];  /* ... right after I release it                                    */
    uint8_t has_cleanup;
    uint8_t set_status;      /* set: any status byte without COMPLETED                          */
} vin;
#include "verif_vin.h"

static parsec_datacopy_future_t pool[NP];
static parsec_list_t the_list;
static parsec_list_item_t dummy_item;
static int  vals[NP];        /* val(f): the data copy future f delivers (address only)          */
static int  shapes[NS];      /* shape descriptors (identity = address)                          */
static int  fulfil_in[NP];   /* cb_fulfill_data_in of each future                               */
static int  g_es, g_task;

/* ghost */
static int g_cb_me[NP], g_cb_env[NP];
static int g_published[NP], g_env_comp[NP];
static int g_trig_at_lock[NP], g_locked[NP], g_lock_cnt[NP], g_comp_after_unlock[NP];
static int g_inv_bad_at_unlock, g_cb_nolock, g_cb_untriggered, g_cb_arg_bad;
static int g_created, g_setup_nolock, g_setup_arg_bad, g_created_unlisted_at_unlock;
static int g_match_arg_bad;
static int g_in_call;

#define TRIG PARSEC_DATA_FUTURE_STATUS_TRIGGERED
#define COMP PARSEC_DATA_FUTURE_STATUS_COMPLETED
#define INIT PARSEC_DATA_FUTURE_STATUS_INIT

static int idx_of_future(void *f)
{
    for (int i = 0; i < NP; i++) if (f == (void *)&pool[i]) return i;
    return -1;
}
static int idx_of_lock(volatile void *l)
{
    for (int i = 0; i < NP; i++) if (l == (volatile void *)&pool[i].super.future_lock) return i;
    return -1;
}
static int in_list(parsec_list_t *l, void *f)
{
    int k = 0;
    if (l == NULL) return 0;
    for (parsec_list_item_t *it = PARSEC_LIST_ITERATOR_FIRST(l); it != PARSEC_LIST_ITERATOR_END(l) && k <= NP; it = PARSEC_LIST_ITERATOR_NEXT(it), k++)
        if ((void *)it == f) return 1;
    return 0;
}

/* ---- callbacks supplied by the user of the future: stubs (trusted base) ---- */
static void stub_fulfill(parsec_base_future_t *f, ...)
{
    va_list ap; va_start(ap, f);
    void **pin = va_arg(ap, void **); void *es = va_arg(ap, void *); void *task = va_arg(ap, void *);
    va_end(ap);
    int i = idx_of_future(f);
    if (i < 0) { g_cb_arg_bad = 1; return; }
    g_cb_me[i]++;
    if (pin != &pool[i].cb_fulfill_data_in || es != (void *)&g_es || task != (void *)&g_task) g_cb_arg_bad = 1;
    if (!g_locked[i]) g_cb_nolock = 1;
    if (!(f->status & TRIG)) g_cb_untriggered = 1;
    if (vin.cb_sync[i] && !(f->status & COMP))
        parsec_datacopy_future_set(f, &vals[i]);        /* synchronous fulfilment (as the local reshape callback) */
}
static int stub_match(parsec_base_future_t *f, ...)
{
    va_list ap; va_start(ap, f);
    void *have = va_arg(ap, void *); void *want = va_arg(ap, void *);
    va_end(ap);
    if (f != &pool[0].super) g_match_arg_bad = 1;
    return have == want;                                /* shapes are compared by descriptor identity */
}
static void stub_cleanup(parsec_base_future_t *f, ...) { (void)f; }
static void stub_setup_nested(parsec_base_future_t **out, ...)
{
    va_list ap; va_start(ap, out);
    void *parent = va_arg(ap, void *); void *spec = va_arg(ap, void *);
    va_end(ap);
    g_created++;
    if (!g_locked[0]) g_setup_nolock = 1;
    if (parent != (void *)&pool[0] || spec != (void *)&shapes[vin.req]) g_setup_arg_bad = 1;
    /* what the user callback does: build a fresh future tracking the requested shape */
    parsec_datacopy_future_construct(&pool[NEWI].super);
    parsec_datacopy_future_init(&pool[NEWI].super, stub_fulfill, (void *)&fulfil_in[NEWI], stub_match, spec, stub_cleanup);
    *out = &pool[NEWI].super;
}

/* ---- the other threads ---- */
static void env_act(int i, uint8_t a)
{
    parsec_base_future_t *f = &pool[i].super;
    if (!g_published[i]) return;
    if ((a & 1) && !(f->status & TRIG) && !(f->status & COMP)) {   /* another get_or_trigger fulfils it */
        f->status |= TRIG; g_cb_env[i]++;
    }
    if ((a & 2) && (f->status & TRIG) && !(f->status & COMP)) {    /* the fulfilment finishes: set() */
        f->tracked_data = &vals[i];
        f->status |= COMP; g_env_comp[i] = 1;
    }
}
static int inv_f(int i)
{
    parsec_base_future_t *f = &pool[i].super;
    if (g_cb_me[i] + g_cb_env[i] != ((f->status & TRIG) ? 1 : 0)) return 0;
    if ((f->status & COMP) && f->tracked_data != (void *)&vals[i]) return 0;
    return 1;
}
void verif_env_step(int op, volatile void *loc)
{
    if (!g_in_call) return;
    int i = idx_of_lock(loc);
    if (op == V_OP_LOCK && i >= 0) env_act(i, vin.env_lock[i]);
}
void verif_own_step(int op, volatile void *loc, int success)
{
    (void)success;
    if (!g_in_call) return;
    int i = idx_of_lock(loc);
    if (i < 0) return;
    if (op == V_OP_LOCK) {
        g_locked[i] = 1; g_lock_cnt[i]++;
        g_trig_at_lock[i] = (pool[i].super.status & TRIG) ? 1 : 0;
    } else if (op == V_OP_UNLOCK) {
        g_locked[i] = 0;
        if (!inv_f(i)) g_inv_bad_at_unlock = 1;                    /* guarantee: Inv_f holds when I release f's lock */
        if (i == 0) {
            if (g_created && !in_list(pool[0].nested_futures, &pool[NEWI])) g_created_unlisted_at_unlock = 1;
            if (g_created) g_published[NEWI] = 1;                  /* guarantee: a created future is in L on release */
        }
        env_act(i, vin.env_unlock[i]);
        g_comp_after_unlock[i] = (pool[i].super.status & COMP) ? 1 : 0;
    }
}

/* ---- pre-state of one future: constructed + initialised by the real code, then any reachable status ---- */
static void make_future(int i, int shape)
{
    parsec_datacopy_future_construct(&pool[i].super);
    parsec_datacopy_future_init(&pool[i].super, stub_fulfill, (void *)&fulfil_in[i], stub_match, (void *)&shapes[shape],
                                vin.has_cleanup ? stub_cleanup : NULL);
    if (vin.st[i] & 1) { pool[i].super.status |= TRIG; g_cb_env[i] = 1; }    /* Inv_f */
    if (vin.st[i] & 2) { pool[i].super.status |= COMP; pool[i].super.tracked_data = &vals[i]; }
    else if (vin.st[i] & 4) pool[i].super.tracked_data = &vals[i];            /* value written, COMPLETED not yet */
    g_published[i] = 1;
}

/* ------------------------------------------------------------------ */
/* parsec_datacopy_future_init / _set                                   */
/* ------------------------------------------------------------------ */
void h_dc_init_set(void)
{
    vin_load();
    parsec_datacopy_future_t *d = &pool[0];
    parsec_datacopy_future_construct(&d->super);
    V_ASSERT(d->super.status == 0 && d->super.tracked_data == NULL && d->super.future_lock == 0,
             "C29.datacopy_future_construct.post.empty_unlocked_not_ready");
    V_ASSERT(d->super.future_class->get_or_trigger == parsec_datacopy_future_get_or_trigger &&
             d->super.future_class->set == parsec_datacopy_future_set, "C29.datacopy_future_construct.post.class_functions");
    V_ASSUME(vin.req < NS);
    parsec_datacopy_future_init(&d->super, stub_fulfill, (void *)&fulfil_in[0], stub_match, (void *)&shapes[vin.req],
                                vin.has_cleanup ? stub_cleanup : NULL);
    V_ASSERT(d->super.status == INIT, "C29.datacopy_future_init.post.status_INIT_not_triggered_not_completed");
    V_ASSERT(d->super.cb_fulfill == stub_fulfill && d->cb_fulfill_data_in == (void *)&fulfil_in[0] && d->cb_match == stub_match &&
             d->cb_match_data_in == (void *)&shapes[vin.req] && d->cb_cleanup == (vin.has_cleanup ? stub_cleanup : NULL),
             "C29.datacopy_future_init.post.callbacks_and_their_inputs_recorded");
    V_ASSERT(d->nested_enable == 1 && d->nested_futures == NULL, "C29.datacopy_future_init.post.may_nest_and_has_no_nested_yet");
    V_ASSERT(d->super.tracked_data == NULL, "C29.datacopy_future_init.post.no_value");
    /* set: PRE (the code's assert) not COMPLETED */
    V_ASSUME(!(vin.set_status & COMP));
    d->super.status = vin.set_status;
    parsec_datacopy_future_set(&d->super, &vals[0]);
    V_ASSERT(d->super.tracked_data == (void *)&vals[0], "C29.datacopy_future_set.post.value_stored");
    V_ASSERT(d->super.status == (vin.set_status | COMP), "C29.datacopy_future_set.post.COMPLETED_added_other_bits_kept");
    V_CANARY("dc_init_set");
}

/* ------------------------------------------------------------------ */
/* parsec_datacopy_future_get_or_trigger_internal under interference    */
/* ------------------------------------------------------------------ */
static void check_internal_post(int i, void *r, uint8_t st0)
{
    parsec_base_future_t *f = &pool[i].super;
    int comp0 = (st0 & COMP) != 0;
    if (comp0) {
        V_ASSERT(g_lock_cnt[i] == 0 && g_cb_me[i] == 0, "C29.get_or_trigger_internal.post.completed_future_is_not_triggered");
        V_ASSERT(r == (void *)&vals[i], "C29.get_or_trigger_internal.post.completed_future_delivers_its_value");
        V_CANARY("internal.fast");
    } else {
        V_ASSERT(g_lock_cnt[i] == 1, "C29.get_or_trigger_internal.post.lock_taken_once");
        V_ASSERT(g_cb_me[i] == (g_trig_at_lock[i] ? 0 : 1),
                 "C29.get_or_trigger_internal.post.fulfil_callback_iff_TRIGGERED_was_clear_under_the_lock");
        V_ASSERT(f->status & TRIG, "C29.get_or_trigger_internal.post.TRIGGERED_set");
        V_ASSERT(r == (g_comp_after_unlock[i] ? (void *)&vals[i] : NULL),
                 "C29.get_or_trigger_internal.post.value_iff_COMPLETED_observed_else_NULL");
        V_CANARY("internal.slow");
    }
    V_ASSERT(g_cb_me[i] <= 1, "C29.get_or_trigger_internal.post.at_most_one_fulfil_callback");
    V_ASSERT(inv_f(i), "C29.get_or_trigger_internal.inv.one_fulfilment_per_future");
    V_ASSERT(!g_locked[i] && f->future_lock == 0, "C29.get_or_trigger_internal.post.lock_released");
    V_ASSERT((f->status & ~(TRIG | COMP)) == (st0 & ~(TRIG | COMP)) && (f->status & st0) == st0,
             "C29.get_or_trigger_internal.guar.status_bits_only_added_TRIGGERED_COMPLETED");
    V_ASSERT(V_IMPLIES(r != NULL, (f->status & COMP) && r == f->tracked_data), "C29.get_or_trigger_internal.post.non_NULL_only_if_COMPLETED");
}
static void check_hooks(void)
{
    V_ASSERT(!g_inv_bad_at_unlock, "C29.get_or_trigger_internal.guar.one_fulfilment_invariant_holds_at_unlock");
    V_ASSERT(!g_cb_nolock, "C29.get_or_trigger_internal.guar.fulfil_callback_runs_under_the_future_lock");
    V_ASSERT(!g_cb_untriggered, "C29.get_or_trigger_internal.guar.TRIGGERED_set_before_the_callback");
    V_ASSERT(!g_cb_arg_bad, "C29.get_or_trigger_internal.post.callback_gets_future_input_slot_es_task");
}

void h_dc_internal(void)
{
    vin_load();
    make_future(0, 1);
    uint8_t st0 = pool[0].super.status;
    g_in_call = 1;
    void *r = parsec_datacopy_future_get_or_trigger_internal(&pool[0].super, &g_es, &g_task);
    g_in_call = 0;
    check_internal_post(0, r, st0);
    check_hooks();
    V_CANARY("dc_internal");
}

/* ------------------------------------------------------------------ */
/* parsec_datacopy_future_get_or_trigger: nested futures, one per shape */
/* ------------------------------------------------------------------ */
void h_dc_get_or_trigger(void)
{
    vin_load();
    /* the list length (and whether an empty list object exists) is fixed per cbmc process and enumerated
     * 0..NN by spec.py: it keeps the list pointers concrete for the symbolic execution (DESIGN 4.2, rung 3) */
    int n = FIX_N;
    V_ASSUME(vin.n == FIX_N);
    V_ASSUME(vin.req < NS);
    /* initialise the list / item classes (real parsec_class_initialize) before the symbolic part */
    PARSEC_OBJ_CONSTRUCT(&the_list, parsec_list_t);
    PARSEC_OBJ_CONSTRUCT(&dummy_item, parsec_list_item_t);
    uint8_t st0[NP];
    for (int i = 0; i < NP; i++) {
        if (i <= n) {
            V_ASSUME(vin.shape[i] >= 1 && vin.shape[i] < NS);
            for (int j = 0; j < i; j++) V_ASSUME(vin.shape[i] != vin.shape[j]);      /* Inv_L (pre) */
            make_future(i, vin.shape[i]);
            if (i > 0) {
                PARSEC_OBJ_CONSTRUCT(&pool[i].super.item, parsec_list_item_t);
                pool[i].nested_enable = 0;
                parsec_list_nolock_push_back(&the_list, &pool[i].super.item);
            }
        }
        st0[i] = pool[i].super.status;
    }
    int has_list = (FIX_N > 0) || FIX_LIST;
    V_ASSUME(!!vin.has_list == has_list);
    if (has_list) pool[0].nested_futures = &the_list;
    int match_base = (vin.req != 0 && vin.req == vin.shape[0]);
    int listed_match = -1, all_listed_complete = 1;
    for (int i = 1; i <= NN; i++) if (i <= n) {
        if (vin.shape[i] == vin.req) listed_match = i;
        if (!(st0[i] & COMP)) all_listed_complete = 0;
    }

    g_in_call = 1;
    void *r = parsec_datacopy_future_get_or_trigger(&pool[0].super, stub_setup_nested,
                                                    vin.req ? (void *)&shapes[vin.req] : NULL, (void *)&g_es, (void *)&g_task);
    g_in_call = 0;

    check_hooks();
    V_ASSERT(!g_match_arg_bad, "C29.get_or_trigger.post.match_callback_gets_the_base_future");
    for (int i = 0; i < NP; i++) {
        V_ASSERT(!g_locked[i] && pool[i].super.future_lock == 0, "C29.get_or_trigger.post.every_lock_released");
        V_ASSERT(g_cb_me[i] <= 1, "C29.get_or_trigger.post.at_most_one_fulfil_callback_per_future");
        V_ASSERT(V_IMPLIES(g_cb_me[i] == 1, !(st0[i] & TRIG) && g_trig_at_lock[i] == 0),
                 "C29.get_or_trigger.post.fulfil_callback_only_if_TRIGGERED_was_clear_under_the_lock");
        if (i <= n || (i == NEWI && g_created))
            V_ASSERT(inv_f(i), "C29.get_or_trigger.inv.one_fulfilment_per_future");
    }
    if (vin.req == 0 || match_base) {
        /* no specific shape requested, or the base has it: exactly get_or_trigger_internal(base) */
        check_internal_post(0, r, st0[0]);
        V_ASSERT(g_created == 0, "C29.get_or_trigger.post.no_nested_future_when_base_matches");
        for (int i = 1; i < NP; i++)
            V_ASSERT(g_cb_me[i] == 0 && g_lock_cnt[i] == 0, "C29.get_or_trigger.post.nested_futures_untouched_when_base_matches");
        V_ASSERT(pool[0].nested_futures == (has_list ? &the_list : NULL), "C29.get_or_trigger.post.list_untouched_when_base_matches");
        V_CANARY("get_or_trigger.base");
    } else {
        parsec_list_t *L = pool[0].nested_futures;
        V_ASSERT(g_cb_me[0] == 0 &&
                 pool[0].super.status == (st0[0] | (g_cb_env[0] && !(st0[0] & TRIG) ? TRIG : 0) | (g_env_comp[0] ? COMP : 0)) &&
                 pool[0].super.tracked_data == (void *)((st0[0] & COMP) || (vin.st[0] & 4) || g_env_comp[0] ? &vals[0] : NULL),
                 "C29.get_or_trigger.post.base_not_fulfilled_for_another_shape");
        V_ASSERT(g_lock_cnt[0] == 1, "C29.get_or_trigger.post.base_lock_taken_once");
        V_ASSERT(g_created <= 1, "C29.get_or_trigger.post.at_most_one_nested_future_created");
        V_ASSERT(!g_setup_nolock, "C29.get_or_trigger.guar.nested_future_created_under_the_base_lock");
        V_ASSERT(!g_setup_arg_bad, "C29.get_or_trigger.post.setup_callback_gets_parent_and_requested_shape");
        V_ASSERT(!g_created_unlisted_at_unlock, "C29.get_or_trigger.guar.created_future_is_in_the_list_when_the_lock_is_released");
        V_ASSERT(L != NULL, "C29.get_or_trigger.post.nested_list_exists");
        /* the list: old members in order, then the new one (if any) */
        {
            parsec_list_item_t *it = PARSEC_LIST_ITERATOR_FIRST(L);
            int ok = 1;
            for (int i = 1; i <= NN; i++) if (i <= n) { if (it != &pool[i].super.item) ok = 0; else it = PARSEC_LIST_ITERATOR_NEXT(it); }
            V_ASSERT(ok, "C29.get_or_trigger.post.listed_futures_kept_in_order");
            if (g_created) {
                V_ASSERT(ok && it == &pool[NEWI].super.item && PARSEC_LIST_ITERATOR_NEXT(it) == PARSEC_LIST_ITERATOR_END(L),
                         "C29.get_or_trigger.post.new_nested_future_appended_last");
            } else {
                V_ASSERT(ok && it == PARSEC_LIST_ITERATOR_END(L), "C29.get_or_trigger.post.list_unchanged_when_nothing_created");
            }
        }
        if (g_created) {
            V_ASSERT(listed_match < 0, "C29.get_or_trigger.post.new_nested_only_if_no_listed_future_has_the_shape");
            for (int i = 1; i <= NN; i++) if (i <= n)
                V_ASSERT(pool[i].super.status & COMP, "C29.get_or_trigger.post.new_nested_only_if_no_listed_future_in_progress");
            V_ASSERT(pool[NEWI].cb_match_data_in == (void *)&shapes[vin.req], "C29.get_or_trigger.post.new_nested_tracks_the_requested_shape");
            V_ASSERT(pool[NEWI].nested_enable == 0, "C29.get_or_trigger.post.new_nested_cannot_nest");
            V_ASSERT((pool[NEWI].super.status & TRIG) && g_cb_me[NEWI] + g_cb_env[NEWI] == 1,
                     "C29.get_or_trigger.post.new_nested_fulfilment_started_exactly_once");
            V_ASSERT(r == (g_comp_after_unlock[NEWI] ? (void *)&vals[NEWI] : NULL), "C29.get_or_trigger.post.new_nested_value_iff_COMPLETED_observed");
            /* Inv_L re-established: all shapes in L pairwise distinct and different from the base */
            for (int i = 0; i <= NN; i++) if (i <= n)
                V_ASSERT(pool[NEWI].cb_match_data_in != pool[i].cb_match_data_in, "C29.get_or_trigger.inv.one_nested_future_per_shape");
            V_CANARY("get_or_trigger.created");
        } else {
            V_ASSERT(!(listed_match < 0 && all_listed_complete), "C29.get_or_trigger.post.creates_when_no_match_and_all_listed_complete");
            V_ASSERT(V_IMPLIES(r != NULL, listed_match > 0 && r == (void *)&vals[listed_match] && (pool[listed_match].super.status & COMP)),
                     "C29.get_or_trigger.post.value_is_the_one_of_the_future_with_the_requested_shape");
            V_ASSERT(g_cb_me[NEWI] == 0, "C29.get_or_trigger.post.no_fulfilment_of_an_unlisted_future");
#if FIX_N > 0
            V_CANARY("get_or_trigger.scan");
#endif
        }
        /* scan order: futures behind the one that ended the scan are not touched */
        V_ASSERT(V_IMPLIES(listed_match > 0, g_created == 0), "C29.get_or_trigger.post.listed_shape_is_never_duplicated");
    }
    V_CANARY("dc_get_or_trigger");
}
