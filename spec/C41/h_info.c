/* C41: contracts on the real info registry (parsec/class/info.c), with the real
 * object system, list class and ticket rwlock compiled in (parsec_object.c,
 * parsec_list.c, parsec_rwlock.c are included verbatim as well).
 *
 * Registry well-formedness wf(nfo) (the inductive invariant behind "distinct ids"):
 *   entries are sorted by strictly increasing iid, names pairwise distinct,
 *   max_id == largest iid (or -1 when empty).
 * Shape bound: at most NREG entries in the pre-state, names of at most 1 char.
 */
#include "verif.h"
#define VERIF_RG_POST_STEP   /* environment also acts after each of my atomic operations */
#include "verif_rg.h"
/* Guarantee hooks (no interference is injected: the contracts are call-atomic).  While a slot is "watched",
 * every change of its value must be the effect of my own atomic compare-and-swap on that very slot: the slot
 * is compared with its expected value at every atomic operation / fence of the function, so a plain store
 * (legal only under the write lock) is detected at the next lock operation. */
static void *volatile *g_watch; static void *g_watch_expected; static int g_watch_on, g_plain_write;
static void watch_check(void) { if (g_watch_on && *g_watch != g_watch_expected) g_plain_write = 1; }
void verif_env_step(int op, volatile void *loc) { (void)op; (void)loc; watch_check(); }
void verif_own_step(int op, volatile void *loc, int success)
{
    (void)success;
    if (g_watch_on && op == V_OP_CAS && loc == (volatile void *)g_watch) g_watch_expected = *g_watch;
    else watch_check();
}
#include "parsec/class/parsec_object.c"
#include "parsec/class/parsec_list.c"
#include "parsec/class/parsec_rwlock.c"
#include "parsec/class/info.c"

#ifndef NREG
#define NREG 3
#endif
#define NSLOT 4

struct vin {
    uint8_t n;                 /* entries in the pre-state registry */
    int32_t iid[NREG];
    char    name[NREG];        /* one-character names 'a'.. */
    char    new1, new2;        /* names registered by the calls */
    uint8_t unreg_idx;         /* which entry unregister removes */
    /* object array */
    int32_t known;             /* oa->known_infos in the pre-state */
    int32_t max_id;            /* registry max id */
    int32_t set_iid;           /* slot addressed */
    uint64_t slot[NSLOT];      /* previous slot contents */
    uint64_t newval, oldval;
    uint8_t ghost;
} vin;
#include "verif_vin.h"

static parsec_info_t nfo;
static parsec_info_entry_t pool[NREG];
static char names[NREG][2];

static void build_registry(void)
{
    PARSEC_OBJ_CONSTRUCT(&nfo, parsec_info_t);
    V_ASSUME(vin.n <= NREG);
#ifdef NFIX
    V_ASSUME(vin.n == NFIX);     /* registry size fixed per cbmc process (DESIGN 4.2 rung 3) */
#endif
    int prev = -1;
    for (int i = 0; i < NREG; i++) {
#ifdef NFIX
        if (i >= NFIX) break;
#else
        if (i >= vin.n) break;
#endif
        V_ASSUME(vin.iid[i] > prev && vin.iid[i] <= 6);      /* sorted, strictly increasing */
        prev = vin.iid[i];
        V_ASSUME(vin.name[i] >= 'a' && vin.name[i] <= 'h');
        for (int k = 0; k < i; k++) V_ASSUME(vin.name[k] != vin.name[i]);
        names[i][0] = vin.name[i]; names[i][1] = 0;
        PARSEC_OBJ_CONSTRUCT(&pool[i], parsec_list_item_t);
        pool[i].info = &nfo; pool[i].name = names[i]; pool[i].iid = vin.iid[i];
        pool[i].constructor = NULL; pool[i].destructor = NULL; pool[i].cb_data = NULL;
        parsec_list_nolock_push_back(&nfo.info_list, &pool[i].list_item);
    }
    nfo.max_id = prev;
}

/* walk the real list: collects ids/names in order, returns length or -1 if malformed */
#define MAXWALK (NREG + 3)
static int32_t w_id[MAXWALK];
static char    w_name[MAXWALK];
static int walk(void)
{
    int k = 0;
    parsec_list_item_t *it = PARSEC_LIST_ITERATOR_FIRST(&nfo.info_list);
    for (int s = 0; s < MAXWALK; s++) {
        if (it == PARSEC_LIST_ITERATOR_END(&nfo.info_list)) return k;
        parsec_info_entry_t *e = (parsec_info_entry_t *)it;
        w_id[k] = e->iid; w_name[k] = e->name[0]; k++;
        it = PARSEC_LIST_ITERATOR_NEXT(it);
    }
    return -1;
}
static int ids_distinct(int k)
{
    for (int a = 0; a < MAXWALK; a++) for (int b = a + 1; b < MAXWALK; b++)
        if (b < k && w_id[a] == w_id[b]) return 0;
    return 1;
}
static int sorted_and_max(int k)
{
    int prev = -1;
    for (int a = 0; a < MAXWALK; a++) { if (a >= k) break; if (w_id[a] <= prev) return 0; prev = w_id[a]; }
    return nfo.max_id == prev;
}

/* ---- register: two successive registrations of fresh names ---- */
void h_register(void)
{
    vin_load();
    build_registry();
    char n1[2] = { vin.new1, 0 }, n2[2] = { vin.new2, 0 };
    V_ASSUME(vin.new1 >= 'a' && vin.new1 <= 'z' && vin.new2 >= 'a' && vin.new2 <= 'z');
    int dup1 = 0;
    for (int i = 0; i < NREG; i++) if (i < vin.n && vin.name[i] == vin.new1) dup1 = 1;
    int n0 = vin.n;

    parsec_info_id_t r1 = parsec_info_register(&nfo, n1, NULL, NULL, NULL, NULL, NULL);
    int k1 = walk();
    V_ASSERT(k1 >= 0, "C41.register.inv.list_closed");
    V_ASSERT(nfo.info_list.atomic_lock == 0, "C41.register.post.lock_released");
    if (dup1) {
        V_ASSERT(r1 == PARSEC_INFO_ID_UNDEFINED && k1 == n0, "C41.register.post.duplicate_name_rejected_nothing_changes");
    } else {
        V_ASSERT(r1 >= 0 && k1 == n0 + 1, "C41.register.post.entry_added");
        V_ASSERT(ids_distinct(k1), "C41.register.post.identifiers_pairwise_distinct");
        /* smallest unused id */
        int used_below = 1;
        for (int v = 0; v < 8; v++) {
            if (v >= r1) break;
            int present = 0;
            for (int i = 0; i < NREG; i++) if (i < n0 && vin.iid[i] == v) present = 1;
            if (!present) used_below = 0;
        }
        V_ASSERT(used_below, "C41.register.post.smallest_unused_identifier");
        V_ASSERT(parsec_info_lookup(&nfo, n1, NULL) == r1, "C41.register.post.lookup_returns_registered_id");
        V_ASSERT(sorted_and_max(k1), "C41.register.inv.sorted_by_id_and_max_id");
    }
    /* second registration: the property over a 2-step history (distinct ids) */
    int dup2 = (vin.new2 == vin.new1);
    for (int i = 0; i < NREG; i++) if (i < vin.n && vin.name[i] == vin.new2) dup2 = 1;
    if (!dup1 && !dup2) {
        parsec_info_id_t r2 = parsec_info_register(&nfo, n2, NULL, NULL, NULL, NULL, NULL);
        int k2 = walk();
        V_ASSERT(k2 == n0 + 2, "C41.register.post.second_entry_added");
        V_ASSERT(r2 != r1, "C41.register.post.two_registrations_get_different_ids");
        V_ASSERT(ids_distinct(k2), "C41.register.post.identifiers_pairwise_distinct_after_two");
        V_ASSERT(parsec_info_lookup(&nfo, n1, NULL) == r1 && parsec_info_lookup(&nfo, n2, NULL) == r2,
                 "C41.register.post.lookups_return_their_ids");
    }
    V_CANARY("register");
}

/* ---- unregister, then register: ids stay distinct, exactly that entry is removed ---- */
void h_unregister(void)
{
    vin_load();
    build_registry();
    V_ASSUME(vin.n >= 1 && vin.unreg_idx < vin.n);
    int victim = vin.iid[vin.unreg_idx];
    int n0 = vin.n;
    /* entries of the pool are static: the real code free()s the entry and its name; give it heap copies */
    parsec_info_entry_t *heap = malloc(sizeof(parsec_info_entry_t));
    *heap = pool[vin.unreg_idx];
    heap->name = strdup(names[vin.unreg_idx]);
    /* splice the heap copy in place of the pool entry */
    parsec_list_item_t *old = &pool[vin.unreg_idx].list_item;
    heap->list_item.list_next = old->list_next; heap->list_item.list_prev = old->list_prev;
    old->list_prev->list_next = &heap->list_item; old->list_next->list_prev = &heap->list_item;

    parsec_info_id_t r = parsec_info_unregister(&nfo, victim, NULL);
    int k = walk();
    V_ASSERT(r == victim, "C41.unregister.post.returns_id");
    V_ASSERT(k == n0 - 1, "C41.unregister.post.one_entry_removed");
    int still = 0;
    for (int a = 0; a < MAXWALK; a++) if (a < k && w_id[a] == victim) still = 1;
    V_ASSERT(!still, "C41.unregister.post.that_entry_removed");
    V_ASSERT(sorted_and_max(k), "C41.unregister.inv.sorted_by_id_and_max_id");
    V_ASSERT(nfo.info_list.atomic_lock == 0, "C41.unregister.post.lock_released");
    V_CANARY("unregister");
}

/* unregister of an id that is not registered changes nothing */
void h_unregister_unknown(void)
{
    vin_load();
    build_registry();
    int unknown = vin.set_iid;
    for (int i = 0; i < NREG; i++) if (i < vin.n) V_ASSUME(vin.iid[i] != unknown);
    int n0 = vin.n, m0 = nfo.max_id;
    V_ASSERT(parsec_info_unregister(&nfo, unknown, NULL) == PARSEC_INFO_ID_UNDEFINED, "C41.unregister.post.unknown_id_reported");
    V_ASSERT(walk() == n0 && sorted_and_max(n0) && nfo.max_id == m0, "C41.unregister.post.unknown_id_changes_nothing");
    V_CANARY("unregister_unknown");
}

/* ---- object array: set / test_and_set / growth ---- */
static parsec_info_object_array_t oa;
void h_set(void)
{
    vin_load();
    PARSEC_OBJ_CONSTRUCT(&nfo, parsec_info_t);
    PARSEC_OBJ_CONSTRUCT(&oa, parsec_info_object_array_t);
#ifdef KNOWN   /* array sizes fixed per cbmc process: realloc/memset with symbolic sizes do not scale */
    V_ASSUME(vin.known == KNOWN && vin.max_id == MAXID);
#endif
    V_ASSUME(vin.known >= 0 && vin.known <= NSLOT - 1);
    V_ASSUME(vin.max_id >= vin.known - 1 && vin.max_id <= NSLOT - 1);
    V_ASSUME(vin.set_iid >= 0 && vin.set_iid <= vin.max_id);             /* PRE: iid is a registered id */
    nfo.max_id = vin.max_id;
    oa.infos = &nfo; oa.known_infos = vin.known;
    oa.info_objects = vin.known ? malloc(sizeof(void *) * vin.known) : NULL;
    for (int i = 0; i < NSLOT; i++) if (i < vin.known) oa.info_objects[i] = (void *)(uintptr_t)vin.slot[i];
    V_ASSUME(vin.newval != 0);

    void *prev = parsec_info_set(&oa, vin.set_iid, (void *)(uintptr_t)vin.newval);

    V_ASSERT(oa.known_infos >= vin.set_iid + 1 && oa.known_infos <= vin.max_id + 1, "C41.set.post.array_covers_id");
    V_ASSERT(prev == (vin.set_iid < vin.known ? (void *)(uintptr_t)vin.slot[vin.set_iid] : NULL),
             "C41.set.post.returns_previous_value_null_for_new_slot");
    V_ASSERT(oa.info_objects[vin.set_iid] == (void *)(uintptr_t)vin.newval, "C41.set.post.slot_holds_last_value_set");
    int g = vin.ghost;
    if (g < oa.known_infos && g != vin.set_iid) {
        if (g < vin.known)
            V_ASSERT(oa.info_objects[g] == (void *)(uintptr_t)vin.slot[g], "C41.resize.post.existing_slots_preserved");
        else
            V_ASSERT(oa.info_objects[g] == NULL, "C41.resize.post.new_slots_are_null");
    }
#if PARSEC_RWLOCK_IMPL == PARSEC_RWLOCK_IMPL_TICKET
    V_ASSERT((oa.rw_lock.rin >> 8) == (oa.rw_lock.rout >> 8) && (oa.rw_lock.rin & 0xFF) == 0 && oa.rw_lock.win == oa.rw_lock.wout,
             "C41.set.post.rwlock_released");
#endif
    /* get returns the last value set */
    V_ASSERT(parsec_info_get(&oa, vin.set_iid) == (void *)(uintptr_t)vin.newval, "C41.get.post.returns_last_value_set");
    /* test-and-set replaces only on match */
    g_watch = (void *volatile *)&oa.info_objects[vin.set_iid]; g_watch_expected = *g_watch; g_plain_write = 0; g_watch_on = 1;
    void *t = parsec_info_test_and_set(&oa, vin.set_iid, (void *)(uintptr_t)vin.oldval, (void *)(uintptr_t)vin.slot[0]);
    g_watch_on = 0;
    V_ASSERT(!g_plain_write && oa.info_objects[vin.set_iid] == g_watch_expected,
             "C41.test_and_set.guar.slot_changed_only_by_its_atomic_compare_and_swap");
    if (vin.slot[0] == vin.newval)
        V_ASSERT(t == (void *)(uintptr_t)vin.oldval && oa.info_objects[vin.set_iid] == (void *)(uintptr_t)vin.oldval,
                 "C41.test_and_set.post.replaces_on_match");
    else
        V_ASSERT(t == (void *)(uintptr_t)vin.newval && oa.info_objects[vin.set_iid] == (void *)(uintptr_t)vin.newval,
                 "C41.test_and_set.post.keeps_on_mismatch");
    V_CANARY("set");
}

/* ---- parsec_info_get on an EMPTY slot of an info that has a constructor, under interference: while my
 * constructor runs (no lock is held) another thread may fill the slot.  From the property ("each object's info
 * slot returns the last value set or the constructed default"): get returns what the slot holds afterwards; the
 * candidate it built is installed (and then returned) or destroyed exactly once (and then NOT returned). ---- */
static int g_cons_calls, g_des_calls; static void *g_cons_obj; static void *g_destroyed;
static void *stub_constructor(void *obj, void *cb_data)
{
    (void)obj; (void)cb_data;
    g_cons_calls++;
    g_cons_obj = (void *)(uintptr_t)vin.newval;
    /* environment step inside the unlocked window: another thread's set / racing get fills the slot */
    if (vin.ghost & 1) oa.info_objects[vin.set_iid] = (void *)(uintptr_t)vin.oldval;
    return g_cons_obj;
}
static void stub_destructor(void *elt, void *cb_data) { (void)cb_data; g_des_calls++; g_destroyed = elt; }
void h_get_default(void)
{
    vin_load();
    PARSEC_OBJ_CONSTRUCT(&nfo, parsec_info_t);
    PARSEC_OBJ_CONSTRUCT(&oa, parsec_info_object_array_t);
    /* one registered info (id 0) with constructor and destructor, array of one empty slot */
    static parsec_info_entry_t ent; static char nm[2] = "a";
    PARSEC_OBJ_CONSTRUCT(&ent, parsec_list_item_t);
    ent.info = &nfo; ent.name = nm; ent.iid = 0; ent.constructor = stub_constructor; ent.destructor = stub_destructor;
    parsec_list_nolock_push_back(&nfo.info_list, &ent.list_item);
    nfo.max_id = 0; vin.set_iid = 0;
    oa.infos = &nfo; oa.known_infos = 1; oa.info_objects = malloc(sizeof(void *)); oa.info_objects[0] = NULL;
    V_ASSUME(vin.newval != 0 && vin.oldval != 0 && vin.oldval != vin.newval);
    g_cons_calls = g_des_calls = 0; g_destroyed = NULL;

    void *r = parsec_info_get(&oa, 0);

    V_ASSERT(g_cons_calls == 1, "C41.get.post.default_constructed_once_for_an_empty_slot");
    V_ASSERT(r == oa.info_objects[0] && r != NULL, "C41.get.post.returns_what_the_slot_holds");
    if (vin.ghost & 1) {   /* somebody else filled the slot first: their value stays, mine is destroyed once and not returned */
        V_ASSERT(oa.info_objects[0] == (void *)(uintptr_t)vin.oldval, "C41.get.post.value_set_by_the_other_thread_is_kept");
        V_ASSERT(g_des_calls == 1 && g_destroyed == g_cons_obj, "C41.get.post.unused_default_destroyed_exactly_once");
        V_ASSERT(r != g_destroyed, "C41.get.post.never_returns_a_destroyed_object");
    } else {
        V_ASSERT(oa.info_objects[0] == g_cons_obj && g_des_calls == 0, "C41.get.post.constructed_default_installed_and_kept");
    }
    V_CANARY("get_default");
}
