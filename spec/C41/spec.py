from vlib import Job

META = dict(
    level="other",
    functions=["parsec_info_register", "parsec_info_unregister", "parsec_info_lookup", "parsec_info_lookup_by_iid",
               "parsec_ioa_resize_and_rdlock", "parsec_info_set", "parsec_info_get", "parsec_info_test_and_set",
               "parsec_list_nolock_add_before", "parsec_list_nolock_remove", "parsec_atomic_rwlock_rdlock/rdunlock/wrlock/wrunlock (call-atomic)"],
    explanation="Inductive data-structure contracts on the real info.c (with the real object system, list class and ticket rwlock "
                "compiled in): for every well-formed registry (ids strictly increasing along the list, names distinct, max_id = "
                "largest id) of at most N entries with arbitrary ids, one or two registrations / an unregistration re-establish "
                "well-formedness, hand out the smallest unused identifier, keep identifiers pairwise distinct and lookups exact; "
                "for every object array of at most 3 slots with arbitrary contents, set / get / test_and_set address exactly one "
                "slot, growth preserves old slots and zero-fills new ones. History length is unbounded (inductive step); the "
                "shape (registry size, slots, 1-character names) is bounded, so the level is 'other', not 'proof'.",
    trusted_base=["CBMC's models of malloc/calloc/realloc/free/strdup/strcmp/memset",
                  "constructors/destructors of info objects are not invoked in the harness (NULL callbacks)"],
    assumptions=["call-atomic: no interference between lock acquisition and release (mutual exclusion of parsec_atomic_lock and of "
                 "the rwlock is assumed here; the rwlock itself is C33)",
                 "names are 1 character long (strcmp/strdup loops unwound)"],
)

MANIFEST = dict(
    category="other",
    text="Inductive-step contracts on the real registry and object-array functions, discharged by CBMC for every well-formed "
         "pre-state up to a small shape bound (registry <= 3 entries quick / 4 thorough, arrays <= 3 slots, all ids and slot "
         "values symbolic): unbounded in history length, bounded in shape, therefore 'other' rather than 'proof'.",
    note="Concurrent use is covered only through the lock discipline (locks released on return, all accesses inside the critical "
         "sections are call-atomic); constructor/destructor callbacks are NULL; names are single characters.",
    technique="inductive data-structure invariants + pre/post contracts on the real info.c, discharged by CBMC (shape-bounded)",
    design_ref="DESIGN.md section 5, C41")

US = {"expand_array.0": 11}   # class table growth loop of parsec_object.c (increment = 10)

def jobs(tier):
    J = []
    nmax = 3 if tier == "thorough" else 2
    for n in range(0, nmax + 1):
        J.append(Job("register.n%d" % n, "h_info.c", entry="h_register", defines={"NFIX": n, "NREG": max(n, 1)}, unwind=8, unwindset=US,
                     bounded="registry pre-state of exactly %d entries, 1-char names, ids <= 6" % n,
                     functions=["parsec_info_register", "parsec_info_lookup"], timeout=1800, mem_gb=10, min_obligations=8))
    for n in range(0, nmax + 1):
        J.append(Job("unregister_unknown.n%d" % n, "h_info.c", entry="h_unregister_unknown", defines={"NFIX": n, "NREG": max(n, 1)},
                     unwind=8, unwindset=US, bounded="registry pre-state of exactly %d entries" % n,
                     functions=["parsec_info_unregister"], timeout=1800, mem_gb=10, min_obligations=2))
    # unregister with 3 pre-state entries does not get through the back end (cbmc status ERROR after ~14 min / 16 GB): n <= 2
    for n in range(1, (2 if tier == "thorough" else 1) + 1):
        J.append(Job("unregister.n%d" % n, "h_info.c", entry="h_unregister", defines={"NFIX": n, "NREG": n}, unwind=8, unwindset=US,
                     bounded="registry pre-state of exactly %d entries" % n,
                     functions=["parsec_info_unregister"], timeout=3600, mem_gb=16, min_obligations=5))
    for known in range(0, 4):
        for maxid in range(max(known - 1, 0), 4):
            J.append(Job("object_array.k%d.m%d" % (known, maxid), "h_info.c", entry="h_set", unwind=6, unwindset=US,
                         defines={"NREG": 1, "KNOWN": known, "MAXID": maxid},
                         bounded="object array of %d slots, registry max id %d (sizes enumerated, <= 3; slot contents, addressed id and values symbolic)" % (known, maxid),
                         functions=["parsec_ioa_resize_and_rdlock", "parsec_info_set", "parsec_info_get", "parsec_info_test_and_set"],
                         timeout=900, mem_gb=8, min_obligations=6))
    J.append(Job("get_default.rg", "h_info.c", entry="h_get_default", unwind=8, unwindset=US, defines={"NREG": 1},
                 bounded="one registered info, object array of one slot (the constructor path does not depend on the sizes)",
                 functions=["parsec_info_get", "parsec_info_test_and_set", "parsec_info_lookup_by_iid"], timeout=900, mem_gb=8, min_obligations=4))
    return J
