#include "parsec.h"
#include "parsec/parsec_internal.h"
#include "parsec/execution_stream.h"
#include "parsec/data_dist/matrix/two_dim_rectangle_cyclic.h"
#include <string.h>
#include <stdarg.h>
#define TYPE  PARSEC_MATRIX_INTEGER
static parsec_matrix_block_cyclic_t dcA;
static int N = 40, block = 10;
static volatile int seq = 0;
static int op(struct parsec_execution_stream_s *es, const void* src, void* dst, void* op_data, ... )
{
    int s = __sync_fetch_and_add(&seq, 1);
    printf("[%d] task of %s runs\n", s, (char*)op_data); fflush(stdout);
    return PARSEC_HOOK_RETURN_DONE;
}
static int compound_done(parsec_taskpool_t *tp, void *d)
{
    int s = __sync_fetch_and_add(&seq, 1);
    printf("[%d] COMPOUND on_complete fired (tasks run so far: %d)\n", s, s); fflush(stdout);
    return 0;
}
int main(int argc, char* argv[])
{
    parsec_context_t* parsec; parsec_taskpool_t *tp1, *tp2, *tp3; int nodes=1, rank=0, rc;
#if defined(PARSEC_HAVE_MPI)
    MPI_Init_thread(&argc, &argv, MPI_THREAD_SERIALIZED, &nodes);
    MPI_Comm_size(MPI_COMM_WORLD, &nodes); MPI_Comm_rank(MPI_COMM_WORLD, &rank);
#endif
    int pargc = 0; char **pargv = NULL;
    parsec = parsec_init(2, &pargc, &pargv);
    parsec_matrix_block_cyclic_init( &dcA, TYPE, PARSEC_MATRIX_TILE, rank, block, 1, N, 1, 0, 0, N, 1, nodes, 1, 1, 1, 0, 0);
    parsec_data_collection_set_key(&dcA.super.super, "A");
    dcA.mat = parsec_data_allocate( N * parsec_datadist_getsizeoftype(TYPE) );
    tp1 = parsec_map_operator_New((parsec_tiled_matrix_t*)&dcA, NULL, op, "tp1");
    tp2 = parsec_map_operator_New((parsec_tiled_matrix_t*)&dcA, NULL, op, "tp2");
    tp3 = parsec_compose(tp1, tp2);
    tp3->on_complete = compound_done;
    printf("adding compound\n"); fflush(stdout);
    rc = parsec_context_add_taskpool(parsec, tp3);
    printf("compound added; tdm state of compound = %d (TERMINATED=%d)\n", (int)tp3->tdm.module->taskpool_state(tp3), (int)PARSEC_TERM_TP_TERMINATED); fflush(stdout);
    rc = parsec_context_start(parsec);
    rc = parsec_context_wait(parsec);
    printf("wait returned, seq=%d\n", seq);
    parsec_fini(&parsec);
#ifdef PARSEC_HAVE_MPI
    MPI_Finalize();
#endif
    return 0;
}
