/* C15: composed taskpools run strictly one after another.
 * Contracts on the REAL parsec_compose, parsec_compound_taskpool_startup and
 * parsec_composed_taskpool_cb (parsec/compound.c, included verbatim), route harness
 * (requires = V_ASSUME on the symbolic pre-state, ensures = V_ASSERT after the real call,
 * frame by snapshot comparison with ghost indexes).
 *
 * wf(compound):  taskpool_array[0..nb) non-NULL, pairwise distinct, [nb] == NULL,
 *                capacity(taskpool_array) >= cap(nb) = 16*(nb/16+1) >= nb+1 slots,
 *                completed <= nb,  after startup: nb_pending_actions == nb - completed.
 *
 * Callees outside compound.c are replaced by their contracts (stubs below):
 *   parsec_context_add_taskpool (C06): records the call (ghost), then the ENVIRONMENT runs: the
 *     added member and its successors may complete at once, in this or any other thread (each such
 *     completion is a call of the callback: completed++, one action removed) -> rely step inside the stub;
 *   tdm.module->taskpool_set_runtime_actions / taskpool_addto_runtime_actions (C10): counter := v /
 *     counter += v atomically, return the new value, the detector fires iff the new value is 0.
 */
#include "verif.h"
#define VERIF_RG_POST_STEP   /* environment also acts after each of my atomic operations */
#include "verif_rg.h"
#include "parsec/parsec_internal.h"
#include "parsec/mca/termdet/termdet.h"
#include "parsec/execution_stream.h"

#ifndef VERIF_REPLAY
/* libc: the CBMC model of vasprintf loops over a nondeterministic length; the name of the compound is
 * irrelevant to the property: trusted stub */
int asprintf(char **strp, const char *fmt, ...) { (void)fmt; *strp = (char*)malloc(1); return 0; }
#endif

#include "parsec/compound.c"
#ifdef C15_REAL_CLASSES
/* the real object system and the real parent-class constructors (parsec_taskpool_t, parsec_list_item_t) */
#include "parsec/class/parsec_object.c"
#include "parsec/class/parsec_list.c"
#include "parsec/parsec.c"
#endif

#ifndef NBMAX
#define NBMAX 64                       /* largest number of composed taskpools considered (property: 20) */
#endif
#define CAPMAX (16 * (NBMAX / 16 + 1)) /* slots of the array when nb == NBMAX */
#define CAP_OF(n) (16 * ((n) / 16 + 1))/* ghost capacity: malloc(16), realloc(nb+16) whenever nb%16==0 */
#ifndef BUCKET
#define BUCKET 0
#endif

struct vin {
    int32_t  nb;               /* compound->nb_taskpools                                  */
    int32_t  completed;        /* compound->completed_taskpools when the callback starts  */
    int32_t  pending0;         /* compound nb_pending_actions before startup              */
    uint8_t  ctx_sel;          /* which context                                           */
    uint8_t  g;                /* ghost index into the member pool / the array            */
    uint8_t  junk[CAPMAX];     /* contents of the array beyond the terminator             */
    uint8_t  oc[NBMAX + 1];    /* on_complete of non-members before the call              */
    int32_t  env_adv;          /* members completed by the environment after a hand-over  */
    int32_t  add_ret;          /* value returned by parsec_context_add_taskpool           */
    int16_t  type_start, type_next;
    uint8_t  start_null, next_null, start_is_compound;
    int32_t  next_pending;
} vin;
#include "verif_vin.h"

void verif_env_step(int op, volatile void *loc) { (void)op; (void)loc; }
void verif_own_step(int op, volatile void *loc, int success) { (void)op; (void)loc; (void)success; }

/* ---------------- symbolic pre-state ---------------- */
static parsec_taskpool_t          *pool[NBMAX + 1];     /* the member taskpools: pairwise distinct objects (one object each:
                                                          * a single array of structs makes every write through array[i] a whole-array update) */
static parsec_compound_taskpool_t  cmp;
static parsec_compound_taskpool_t *gc = &cmp;             /* the compound observed by the stubs */
static parsec_taskpool_t          *arr[CAPMAX + 1];
static parsec_context_t            ctxs[2];
static int other_cb(parsec_taskpool_t *o, void *d) { (void)o; (void)d; return 0; }

/* ---------------- ghost state ---------------- */
static int       g_set_calls, g_addto_calls, g_detected, g_add_calls;
static parsec_taskpool_t *g_set_tp, *g_addto_tp, *g_added;
static int32_t   g_set_v, g_addto_v;
static parsec_context_t  *g_add_ctx;
/* snapshot taken at the hand-over (= call of parsec_context_add_taskpool) */
static int       h_set_calls, h_addto_calls, h_cb_installed;
static uint32_t  h_completed, e_completed;
static int32_t   h_pending, e_pending, h_nb;
static parsec_context_t *h_ctx;

/* C10 contract of the termination detector's counter */
static int stub_set_runtime_actions(parsec_taskpool_t *tp, int v)
{
    g_set_calls++; g_set_tp = tp; g_set_v = v;
    tp->nb_pending_actions = v;
    if (v == 0) g_detected++;
    return v;
}
static int stub_addto_runtime_actions(parsec_taskpool_t *tp, int v)
{
    g_addto_calls++; g_addto_tp = tp; g_addto_v = v;
    int32_t nv = tp->nb_pending_actions + v;
    tp->nb_pending_actions = nv;
    if (nv == 0) g_detected++;
    return nv;
}
static const parsec_termdet_module_t stub_tdm = { NULL, {
    .taskpool_addto_runtime_actions = stub_addto_runtime_actions,
    .taskpool_set_runtime_actions   = stub_set_runtime_actions } };

/* C06 contract of parsec_context_add_taskpool + rely step */
int parsec_context_add_taskpool(parsec_context_t *context, parsec_taskpool_t *tp)
{
    if (g_add_calls == 0) { g_added = tp; g_add_ctx = context; }
    g_add_calls++;
    h_set_calls = g_set_calls; h_addto_calls = g_addto_calls;
    h_completed = gc->completed_taskpools; h_pending = gc->super.nb_pending_actions;
    h_nb = gc->nb_taskpools; h_ctx = gc->ctx;
    h_cb_installed = (pool[vin.g % (NBMAX + 1)]->on_complete == parsec_composed_taskpool_cb &&
                      pool[vin.g % (NBMAX + 1)]->on_complete_data == (void*)gc);
    /* RELY: from now on `tp` runs; it and every later member may complete before this call returns
     * (synchronously for an empty taskpool, or in another thread): each completion is one callback */
    if (h_completed <= (uint32_t)vin.nb) {
        int32_t adv = vin.env_adv;
        V_ASSUME(adv >= 0 && (uint32_t)adv <= (uint32_t)vin.nb - h_completed);
        gc->completed_taskpools += (uint32_t)adv;
        gc->super.nb_pending_actions -= adv;
    }
    e_completed = gc->completed_taskpools; e_pending = gc->super.nb_pending_actions;
    return vin.add_ret;
}

static void ghost_reset(void)
{
    g_set_calls = g_addto_calls = g_detected = g_add_calls = 0;
    g_set_tp = g_addto_tp = g_added = NULL; g_add_ctx = NULL;
    h_set_calls = h_addto_calls = h_cb_installed = 0;
}

static void alloc_pool(void)
{
    for (int i = 0; i <= NBMAX; i++) pool[i] = (parsec_taskpool_t*)calloc(1, sizeof(parsec_taskpool_t));
}

/* wf compound with nb members pool[0..nb), array = static arr[] */
static void build_compound(int32_t nb, uint32_t completed, int32_t pending)
{
    alloc_pool();
    for (int i = 0; i <= CAPMAX; i++) {
        if (i < nb) arr[i] = pool[i];
        else if (i == nb) arr[i] = NULL;
        else arr[i] = vin.junk[i % CAPMAX] ? pool[NBMAX] : NULL;   /* beyond the terminator: anything */
    }
    for (int i = 0; i <= NBMAX; i++) {
        pool[i]->taskpool_type = PARSEC_TASKPOOL_TYPE_PTG;
        if (i < nb) { pool[i]->on_complete = NULL; pool[i]->on_complete_data = NULL; }          /* the code's assert */
        else { pool[i]->on_complete = vin.oc[i] ? other_cb : NULL; pool[i]->on_complete_data = NULL; }
    }
    cmp.super.taskpool_type = PARSEC_TASKPOOL_TYPE_COMPOUND;
    cmp.super.tdm.module = &stub_tdm.module;
    cmp.super.nb_pending_actions = pending;
    cmp.super.startup_hook = parsec_compound_taskpool_startup;
    cmp.nb_taskpools = nb;
    cmp.completed_taskpools = completed;
    cmp.taskpool_array = arr;
    cmp.ctx = &ctxs[vin.ctx_sel & 1];
}

/* ------------------------------------------------------------------ */
/* contract of parsec_composed_taskpool_cb (completion of member k)    */
/* ------------------------------------------------------------------ */
void h_cb(void)
{
    vin_load();
    int32_t nb = vin.nb, k = vin.completed;
    /* PRE: wf, started (pending == nb - completed), the completing member is array[completed] */
    V_ASSUME(nb >= 1 && nb <= NBMAX && k >= 0 && k < nb);
    build_compound(nb, (uint32_t)k, nb - k);
    for (int i = 0; i < NBMAX; i++) if (i < nb) { pool[i]->on_complete = parsec_composed_taskpool_cb; pool[i]->on_complete_data = &cmp; }
    ghost_reset();
    int g = vin.g % (NBMAX + 1);
    parsec_event_cb_t oc_g = pool[g]->on_complete; void *ocd_g = pool[g]->on_complete_data;
    parsec_context_t *ctx0 = cmp.ctx;

    int ret = parsec_composed_taskpool_cb(arr[k], &cmp);

    V_ASSERT(ret == PARSEC_SUCCESS, "C15.parsec_composed_taskpool_cb.post.returns_success");
    V_ASSERT(g_addto_calls == 1 && g_addto_tp == &cmp.super && g_addto_v == -1 && g_set_calls == 0,
             "C15.parsec_composed_taskpool_cb.post.exactly_one_pending_action_of_the_compound_removed");
    if (k + 1 < nb) {
        V_ASSERT(g_add_calls == 1, "C15.parsec_composed_taskpool_cb.post.one_taskpool_added_when_members_remain");
        V_ASSERT(g_added == pool[k + 1], "C15.parsec_composed_taskpool_cb.post.added_taskpool_is_member_k_plus_1");
        V_ASSERT(g_add_ctx == ctx0, "C15.parsec_composed_taskpool_cb.post.added_to_the_compound_s_context");
        V_ASSERT(h_completed == (uint32_t)k + 1 && h_addto_calls == 1 && h_pending == nb - (k + 1),
                 "C15.parsec_composed_taskpool_cb.post.own_bookkeeping_done_before_next_member_is_added");
        V_ASSERT(cmp.completed_taskpools == e_completed && cmp.super.nb_pending_actions == e_pending,
                 "C15.parsec_composed_taskpool_cb.guar.no_write_to_compound_after_handing_over_to_next_member");
        V_ASSERT(g_detected == 0, "C15.parsec_composed_taskpool_cb.post.compound_not_complete_while_members_remain");
    } else {
        V_ASSERT(g_add_calls == 0, "C15.parsec_composed_taskpool_cb.post.nothing_added_after_last_member");
        V_ASSERT(cmp.completed_taskpools == (uint32_t)nb && cmp.super.nb_pending_actions == 0,
                 "C15.parsec_composed_taskpool_cb.post.all_members_completed_no_action_pending");
        V_ASSERT(g_detected == 1, "C15.parsec_composed_taskpool_cb.post.compound_detector_reaches_zero_exactly_once_in_last_member_call");
    }
    /* frame */
    V_ASSERT(cmp.nb_taskpools == nb && cmp.taskpool_array == arr && cmp.ctx == ctx0 &&
             cmp.super.tdm.module == &stub_tdm.module, "C15.parsec_composed_taskpool_cb.post.frame_compound_fields");
    {
        int a = vin.g % (CAPMAX + 1);
        V_ASSERT(arr[a] == (a < nb ? pool[a] : arr[a]) && arr[nb] == NULL, "C15.parsec_composed_taskpool_cb.post.frame_array_unchanged");
    }
    V_ASSERT(pool[g]->on_complete == oc_g && pool[g]->on_complete_data == ocd_g, "C15.parsec_composed_taskpool_cb.post.frame_members_untouched");
    V_CANARY("cb");
}

/* ------------------------------------------------------------------ */
/* contract of parsec_compound_taskpool_startup                        */
/* ------------------------------------------------------------------ */
void h_startup(void)
{
    vin_load();
    int32_t nb = vin.nb;
    V_ASSUME(nb >= 1 && nb <= NBMAX);
    build_compound(nb, 0, vin.pending0);
    cmp.ctx = NULL;
    ghost_reset();
    int g = vin.g % (NBMAX + 1);
    parsec_event_cb_t oc_g = pool[g]->on_complete;
    parsec_context_t *context = &ctxs[vin.ctx_sel & 1];
    parsec_task_t *sentinel = (parsec_task_t*)&ctxs[1];
    parsec_task_t *startup_list[1] = { sentinel };

    parsec_compound_taskpool_startup(context, &cmp.super, startup_list);

    V_ASSERT(g_set_calls == 1 && g_set_tp == &cmp.super && g_set_v == nb && g_addto_calls == 0,
             "C15.parsec_compound_taskpool_startup.post.pending_actions_set_to_number_of_members");
    V_ASSERT(g_add_calls == 1, "C15.parsec_compound_taskpool_startup.post.exactly_one_taskpool_added");
    V_ASSERT(g_added == pool[0], "C15.parsec_compound_taskpool_startup.post.only_first_member_added");
    V_ASSERT(g_add_ctx == context && h_ctx == context, "C15.parsec_compound_taskpool_startup.post.context_recorded_and_used_before_first_member_runs");
    V_ASSERT(h_set_calls == 1 && h_pending == nb && h_completed == 0 && h_nb == nb,
             "C15.parsec_compound_taskpool_startup.post.actions_set_before_first_member_added");
    if (g < nb)
        V_ASSERT(h_cb_installed, "C15.parsec_compound_taskpool_startup.post.callback_installed_on_every_member_before_first_member_added");
    else
        V_ASSERT(pool[g]->on_complete == oc_g, "C15.parsec_compound_taskpool_startup.post.frame_non_members_untouched");
    V_ASSERT(cmp.completed_taskpools == e_completed && cmp.super.nb_pending_actions == e_pending,
             "C15.parsec_compound_taskpool_startup.guar.no_write_to_compound_after_handing_over_to_first_member");
    V_ASSERT(g_detected == 0, "C15.parsec_compound_taskpool_startup.post.compound_not_complete_at_startup");
    V_ASSERT(cmp.nb_taskpools == nb && cmp.taskpool_array == arr && startup_list[0] == sentinel,
             "C15.parsec_compound_taskpool_startup.post.frame_compound_fields");
    {
        int a = vin.g % (CAPMAX + 1);
        V_ASSERT(arr[a] == (a < nb ? pool[a] : arr[a]) && arr[nb] == NULL, "C15.parsec_compound_taskpool_startup.post.frame_array_unchanged");
    }
    V_CANARY("startup");
}

/* ------------------------------------------------------------------ */
/* contract of parsec_compose: appending to an existing compound       */
/* ------------------------------------------------------------------ */
void h_compose_append(void)
{
    vin_load();
    int32_t nb = vin.nb;
    /* PRE: wf compound built by earlier parsec_compose calls (nb >= 2), not started (the code's assert) */
    V_ASSUME(nb >= 2 && nb < NBMAX);
    /* the allocation size is a discrete parameter: one process per 16-slot bucket (symbolic malloc/realloc sizes
     * do not finish), nb symbolic inside the bucket */
    V_ASSUME(nb / 16 == BUCKET);
    build_compound(nb, 0, vin.pending0);
    parsec_taskpool_t **heap = (parsec_taskpool_t**)malloc(CAP_OF(16 * BUCKET) * sizeof(parsec_taskpool_t*));
    for (int i = 0; i < NBMAX; i++) if (i < nb) heap[i] = pool[i];
    heap[nb] = NULL;
    cmp.taskpool_array = heap;
    parsec_taskpool_t *next = pool[NBMAX];
    next->taskpool_type = vin.type_next;
    next->on_complete = vin.oc[NBMAX] ? other_cb : NULL;
    next->nb_pending_actions = vin.next_pending;
    ghost_reset();

    parsec_taskpool_t *r = parsec_compose(&cmp.super, next);

    V_ASSERT(r == &cmp.super, "C15.parsec_compose.post.append_returns_the_same_compound");
    V_ASSERT(cmp.nb_taskpools == nb + 1, "C15.parsec_compose.post.append_one_more_member");
    V_ASSERT(cmp.taskpool_array != NULL, "C15.parsec_compose.post.append_array_valid");
    {
        int a = vin.g % NBMAX;
        if (a < nb) V_ASSERT(cmp.taskpool_array[a] == pool[a], "C15.parsec_compose.post.append_keeps_earlier_members_in_order");
    }
    V_ASSERT(cmp.taskpool_array[nb] == next, "C15.parsec_compose.post.append_next_is_last_member");
    V_ASSERT(cmp.taskpool_array[nb + 1] == NULL, "C15.parsec_compose.post.append_array_null_terminated");
#ifndef VERIF_REPLAY
    V_ASSERT(__CPROVER_POINTER_OFFSET(cmp.taskpool_array) == 0 &&
             __CPROVER_OBJECT_SIZE(cmp.taskpool_array) >= CAP_OF(nb + 1) * sizeof(parsec_taskpool_t*),
             "C15.parsec_compose.post.append_capacity_tracks_growth_wf_reestablished");
#endif
    V_ASSERT(cmp.completed_taskpools == 0 && cmp.super.taskpool_type == PARSEC_TASKPOOL_TYPE_COMPOUND &&
             cmp.super.startup_hook == parsec_compound_taskpool_startup, "C15.parsec_compose.post.append_frame_compound_fields");
    V_ASSERT(next->taskpool_type == vin.type_next && next->on_complete == (vin.oc[NBMAX] ? other_cb : NULL) &&
             next->nb_pending_actions == vin.next_pending, "C15.parsec_compose.post.append_frame_member_untouched");
    V_ASSERT(g_add_calls == 0 && g_set_calls == 0 && g_addto_calls == 0, "C15.parsec_compose.post.append_starts_nothing");
    V_CANARY("compose_append");
}

/* lemma (loop-free, every 31-bit n): the ghost capacity always leaves room for the terminator,
 * and it only changes when nb reaches a multiple of 16 (where the code reallocates) */
struct { int32_t n; } lin;
void h_lemma_capacity(void)
{
    __typeof__(lin) t; lin = t;
    int32_t n = lin.n;
    V_ASSUME(n >= 0 && n < 0x7fffff00);
    V_ASSERT(CAP_OF(n) >= n + 1, "C15.lemma.capacity_ge_nb_plus_1");
    V_ASSERT(V_IMPLIES((n + 1) % 16 != 0, CAP_OF(n + 1) == CAP_OF(n)), "C15.lemma.capacity_constant_between_multiples_of_16");
    V_ASSERT(V_IMPLIES((n + 1) % 16 == 0, CAP_OF(n + 1) == (n + 1) + 16), "C15.lemma.capacity_at_multiple_of_16_is_realloc_size");
    V_ASSERT(CAP_OF(2) == 16, "C15.lemma.capacity_initial_malloc");
    V_CANARY("lemma_capacity");
}

/* lemma (loop-free, every nb): the chain invariant  Inv(c, p, a, d):  p == nb - c,  members 0..a added with a == min(c, nb-1),
 * members 0..c-1 completed, d == (c == nb)  is established by the startup contract and preserved by the callback
 * contract; under Inv a member is added only when every earlier member has completed, and the only member that can
 * complete is array[c] (the callback's precondition). */
struct { int32_t nb, c, p, a, d, j; } lo;
void h_lemma_order(void)
{
    __typeof__(lo) t; lo = t;
    int32_t nb = lo.nb, c = lo.c, p = lo.p, a = lo.a, d = lo.d;
    V_ASSUME(nb >= 1 && nb < 0x7ffffff0);
    /* startup contract: c = 0, p = nb, member 0 added, nothing detected */
    V_ASSERT(V_IMPLIES(c == 0 && p == nb && a == 0 && d == 0, p == nb - c && a == (c < nb - 1 ? c : nb - 1) && d == (c == nb)),
             "C15.lemma.order.startup_establishes_chain_invariant");
    /* Inv and one callback (for the only running member, index c) */
    V_ASSUME(c >= 0 && c < nb && p == nb - c && a == c && d == 0);
    int32_t c1 = c + 1, p1 = p - 1, a1 = (p1 > 0) ? c + 1 : a, d1 = d + (p1 == 0);
    V_ASSERT(p1 == nb - c1 && a1 == (c1 < nb - 1 ? c1 : nb - 1) && d1 == (c1 == nb), "C15.lemma.order.callback_preserves_chain_invariant");
    V_ASSERT(V_IMPLIES(a1 != a, a1 == c1 && a1 - 1 == c), "C15.lemma.order.member_added_only_when_all_earlier_members_completed");
    V_ASSERT(V_IFF(d1 == 1, c1 == nb), "C15.lemma.order.compound_complete_iff_last_member_completed");
    /* the running (added, not completed) member is unique: j added and not completed => j == c1 (or none when c1 == nb) */
    V_ASSUME(lo.j >= 0 && lo.j <= a1 && lo.j >= c1);
    V_ASSERT(lo.j == c1 && c1 < nb, "C15.lemma.order.only_member_array_completed_can_complete_next");
    V_CANARY("lemma_order");
}

/* ------------------------------------------------------------------ */
/* parsec_compose with a NULL argument: nothing is composed            */
/* ------------------------------------------------------------------ */
void h_compose_null(void)
{
    vin_load();
    int32_t nb = vin.nb;
    V_ASSUME(nb >= 2 && nb <= NBMAX);
    build_compound(nb, 0, vin.pending0);
    V_ASSUME(vin.start_null || vin.next_null);
    parsec_taskpool_t *start = vin.start_null ? NULL : (vin.start_is_compound ? &cmp.super : pool[NBMAX]);
    parsec_taskpool_t *next = vin.next_null ? NULL : pool[0];
    pool[NBMAX]->taskpool_type = vin.type_start;
    ghost_reset();
    parsec_taskpool_t *r = parsec_compose(start, next);
    V_ASSERT(r == (next == NULL ? start : next), "C15.parsec_compose.post.null_argument_returns_the_other");
    V_ASSERT(cmp.nb_taskpools == nb && cmp.taskpool_array == arr && arr[vin.g % (CAPMAX + 1)] == (vin.g % (CAPMAX + 1) < nb ? pool[vin.g % (CAPMAX + 1)] : arr[vin.g % (CAPMAX + 1)]) && arr[nb] == NULL,
             "C15.parsec_compose.post.null_argument_changes_nothing");
    V_CANARY("compose_null");
}

#ifdef C15_REAL_CLASSES
/* ------------------------------------------------------------------ */
/* parsec_compose(start, next) creating a new compound                 */
/* (real PARSEC_OBJ_NEW, real class initialisation, real constructors) */
/* ------------------------------------------------------------------ */
static parsec_compound_taskpool_t *new_compound(parsec_taskpool_t **pstart, parsec_taskpool_t **pnext)
{
    alloc_pool();
    parsec_taskpool_t *start = pool[0], *next = pool[1];
    V_ASSUME(vin.type_start != PARSEC_TASKPOOL_TYPE_COMPOUND);
    start->taskpool_type = vin.type_start;
    next->taskpool_type = vin.type_next;
    start->on_complete = next->on_complete = NULL;
    ghost_reset();
    *pstart = start; *pnext = next;
    return (parsec_compound_taskpool_t*)parsec_compose(start, next);
}

void h_compose_new(void)
{
    vin_load();
    parsec_taskpool_t *start, *next;
    parsec_compound_taskpool_t *c = new_compound(&start, &next);
    V_ASSERT(c != NULL && &c->super != start && &c->super != next, "C15.parsec_compose.post.new_fresh_compound_returned");
    V_ASSERT(c->super.taskpool_type == PARSEC_TASKPOOL_TYPE_COMPOUND, "C15.parsec_compose.post.new_is_of_compound_type");
    V_ASSERT(c->super.startup_hook == parsec_compound_taskpool_startup, "C15.parsec_compose.post.new_startup_hook_is_compound_startup");
    V_ASSERT(c->nb_taskpools == 2 && c->completed_taskpools == 0, "C15.parsec_compose.post.new_two_members_none_completed");
    V_ASSERT(c->taskpool_array[0] == start && c->taskpool_array[1] == next && c->taskpool_array[2] == NULL,
             "C15.parsec_compose.post.new_members_in_composition_order_null_terminated");
#ifndef VERIF_REPLAY
    V_ASSERT(__CPROVER_POINTER_OFFSET(c->taskpool_array) == 0 &&
             __CPROVER_OBJECT_SIZE(c->taskpool_array) >= CAP_OF(2) * sizeof(parsec_taskpool_t*),
             "C15.parsec_compose.post.new_capacity_is_initial_capacity");
#endif
    V_ASSERT(c->super.on_complete == NULL && c->super.context == NULL, "C15.parsec_compose.post.new_not_attached_no_callback");
    V_ASSERT(start->taskpool_type == vin.type_start && next->taskpool_type == vin.type_next &&
             start->on_complete == NULL && next->on_complete == NULL, "C15.parsec_compose.post.new_frame_members_untouched");
    V_ASSERT(g_add_calls == 0 && g_set_calls == 0 && g_addto_calls == 0, "C15.parsec_compose.post.new_starts_nothing");
    V_CANARY("compose_new");
}

/* The compound must complete AFTER its last member.  parsec_context_add_taskpool (scheduling.c, C06 contract:
 * "default detector installed and made ready iff none present", which happens BEFORE the startup hook runs)
 * readies the local detector, whose contract (C10) is: ready with no pending action => termination detected.
 * So a compound handed to the context must either carry its own detector or hold a pending action. */
void h_compose_new_not_terminated(void)
{
    vin_load();
    parsec_taskpool_t *start, *next;
    parsec_compound_taskpool_t *c = new_compound(&start, &next);
    V_ASSERT(c->super.tdm.module != NULL || c->super.nb_pending_actions != 0,
             "C15.parsec_compose.post.compound_not_seen_terminated_by_default_detector_before_startup");
    V_CANARY("compose_new_not_terminated");
}

#endif
