import os
from vlib import Job

def jobs(tier):
    full = tier == "thorough"
    nb = 64 if full else 32
    cap = 16 * (nb // 16 + 1)
    d = {"NBMAX": nb}
    uw = cap + 3
    J = [
        Job("cb", "h_compound.c", entry="h_cb", defines=d, unwind=uw,
            functions=["parsec_composed_taskpool_cb"], timeout=600, min_obligations=10),
        Job("startup", "h_compound.c", entry="h_startup", defines=d, unwind=uw,
            functions=["parsec_compound_taskpool_startup"], timeout=900, min_obligations=10),
    ] + [
        Job("compose.append.b%d" % b, "h_compound.c", entry="h_compose_append", defines=dict(d, BUCKET=b), unwind=uw,
            functions=["parsec_compose"], timeout=900, min_obligations=9) for b in range(nb // 16)
    ] + [
        Job("compose.null", "h_compound.c", entry="h_compose_null", defines=d, unwind=uw,
            functions=["parsec_compose"], timeout=300, min_obligations=2),
        Job("compose.new", "h_compound.c", entry="h_compose_new", defines=dict(d, C15_REAL_CLASSES=None), unwind=uw,
            functions=["parsec_compose", "__parsec_compound_taskpool_constructor"], timeout=600, min_obligations=8),
        Job("lemma.capacity", "h_compound.c", entry="h_lemma_capacity", defines=d, unwind=2, functions=[], timeout=300,
            min_obligations=4),
        Job("lemma.order", "h_compound.c", entry="h_lemma_order", defines=d, unwind=2, functions=[], timeout=300,
            min_obligations=5),
    ]
    if not os.environ.get("C15_SKIP_DEFECT_JOBS"):
        # Obligations that FAIL on the unchanged tree (genuine defect, see MANIFEST note): kept in their own jobs.
        J += [
            Job("defect.compose_new_seen_terminated", "h_compound.c", entry="h_compose_new_not_terminated",
                defines=dict(d, C15_REAL_CLASSES=None), unwind=uw, functions=["parsec_compose"], timeout=600, min_obligations=1),
        ]
    return J

META = dict(
    level="proof",
    functions=["parsec_compose", "parsec_compound_taskpool_startup", "parsec_composed_taskpool_cb",
               "__parsec_compound_taskpool_constructor"],
    explanation="Pre/post contracts (route harness: assume wf pre-state, call the real function, assert post + frame by snapshot) on "
                "the three real functions of parsec/compound.c for every number of members nb <= NBMAX (quick 32, thorough 64; the "
                "property's domain is 1..20), every completed count, arbitrary array contents beyond the terminator. "
                "parsec_context_add_taskpool is replaced by its contract and performs a rely step: after a member is handed to the "
                "context, it and all later members may complete (synchronously or in other threads) before the call returns; the "
                "functions are shown to have finished their own bookkeeping before the hand-over and to write nothing afterwards. "
                "compose.append is split into one process per 16-slot allocation bucket (symbolic malloc/realloc sizes do not finish); "
                "compose.new runs the real PARSEC_OBJ_NEW, real class initialisation (class/parsec_object.c) and the real constructors "
                "of parsec_taskpool_t / parsec_list_item_t (parsec.c, class/parsec_list.c). Two loop-free lemmas close the induction: "
                "capacity ghost cap(nb)=16*(nb/16+1) >= nb+1 and equal to the code's realloc size; chain invariant (pending == nb - "
                "completed, members 0..completed added) established by startup, preserved by the callback, implying strict order.",
    trusted_base=["stub parsec_context_add_taskpool (scheduling.c): records context/taskpool, then environment step (C06 contract; "
                  "that a member's on_complete runs only after its last task is C06/C10, not checked here)",
                  "stub tdm module taskpool_set_runtime_actions / taskpool_addto_runtime_actions: counter := v / += v, returns new value, "
                  "detector fires iff new value is 0 (C10 contract of termdet/local)",
                  "stub asprintf (allocates 1 byte; the compound's name is irrelevant)",
                  "CBMC library models of malloc/calloc/realloc/free (realloc = new block + copy + free)",
                  "rely/guarantee soundness theorem for the hand-over step"],
    assumptions=["members of one compound are pairwise distinct taskpools and have no on_complete callback before startup (the code's assert)",
                 "parsec_compose is not called on a compound that was already started (the code's assert: completed_taskpools == 0), and not concurrently",
                 "each member's completion callback is invoked exactly once, after its last task (C06/C10)",
                 "parsec_context_add_taskpool readies the default local detector BEFORE calling the startup hook (scheduling.c; used only by the defect.* job)"],
)

MANIFEST = dict(
    category="proof",
    text="Every contract obligation on parsec_compose (append for all nb < NBMAX incl. each realloc boundary, fresh compound through the real "
         "object system, NULL arguments), parsec_compound_taskpool_startup and parsec_composed_taskpool_cb is discharged by CBMC for all nb up to "
         "32 (quick) / 64 (thorough), which contains the property's domain 1..20, with complete unwinding; interference after each hand-over to the "
         "context is covered by a rely step. Lemmas give: member k+1 enters the context only inside member k's completion callback, after the "
         "compound's own bookkeeping; the compound's pending-action counter reaches 0 exactly in the call for the last member. "
         "One obligation derived from the property FAILS on the unchanged tree and is kept in its own job (defect.compose_new_seen_terminated): "
         "a compound returned by parsec_compose has no detector and nb_pending_actions == 0, so parsec_context_add_taskpool's default local "
         "detector declares it terminated (on_complete fired, tdm state TERMINATED) before its startup hook runs, i.e. before any member ran; "
         "confirmed natively.",
    note="Not decided: that a member's completion callback runs only after its last task and exactly once (C06/C10 contracts assumed); the real "
         "parsec_context_add_taskpool and the real termination detector are not executed (stubs by contract); DTD members; destructor; "
         "nested compounds beyond the generic member case; concurrent parsec_compose calls (documented as not thread safe).",
    technique="function contracts (assume/assert harness on the real compound.c, ghost call log, rely step at hand-over, complete unwinding, "
              "allocation bucket enumerated per process), discharged by CBMC 6.11 SAT",
    design_ref="DESIGN.md section 5, C15")
