from vlib import Job

META = dict(
    level="proof",
    functions=["parsec_update_deps_with_mask", "parsec_check_IN_dependencies_with_mask",
               "parsec_update_deps_with_counter", "parsec_check_IN_dependencies_with_counter",
               "parsec_dependencies_mark_task_as_startup"],
    explanation="Rely/guarantee contracts on the real dependency-update functions of parsec/parsec.c, for every 32-bit "
                "dependency word, goal, flow index and release count; the environment (other releasers) may act before the "
                "function starts and before each of its atomic operations. The callee check_IN_* is replaced by its contract "
                "in the update jobs (goto-instrument --replace-call-with-contract) and that contract is discharged against "
                "the real body in the check_in jobs, for every task-class shape up to SHAPE_NF x SHAPE_ND input flows x deps "
                "(thorough: the code's own limits MAX_PARAM_COUNT x MAX_DEP_IN_COUNT = complete; quick: 8 x 4, labelled bounded).",
    trusted_base=["rely/guarantee soundness theorem (per-thread obligations imply the invariant for every interleaving)",
                  "guard / gather expressions of a task class are deterministic functions (stubbed as constants)"],
    assumptions=["each input flow of a task is released by exactly one predecessor, and exactly `goal` releases are performed in "
                 "counter mode (the code's own assert; established by the generated code: property C02, not checked here)",
                 "jdf2c gives the input flows of a class pairwise distinct flow_index values below MAX_PARAM_COUNT"],
)

def jobs(tier):
    full = tier == "thorough"
    shape = {} if full else {"SHAPE_NF": 8, "SHAPE_ND": 4}
    bnd = None if full else "task-class shape bounded to 8 input flows x 4 input deps (thorough: 20 x 10 = the code's limits)"
    to = 3600 if full else 600
    J = [
        Job("mask.update.rg", "h_mask.c", entry="h_update_mask", unwind=21,
            replace=["parsec_check_IN_dependencies_with_mask"],
            functions=["parsec_update_deps_with_mask"], timeout=300, min_obligations=8),
        Job("mask.check_in", "h_mask.c", entry="h_check_in_mask", unwind=21, defines=shape, bounded=bnd,
            functions=["parsec_check_IN_dependencies_with_mask"], timeout=to, min_obligations=4),
        Job("mask.lemma", "h_mask.c", entry="h_lemma_mask", unwind=2, functions=[], timeout=300, min_obligations=3),
        Job("counter.update.rg", "h_counter.c", entry="h_update_counter", unwind=21,
            replace=["parsec_check_IN_dependencies_with_counter"],
            functions=["parsec_update_deps_with_counter"], timeout=300, min_obligations=4),
        Job("counter.check_in", "h_counter.c", entry="h_check_in_counter", unwind=21,
            defines=({"SHAPE_NF": 8, "SHAPE_ND": 4, "GATHER_MAX": 15} if full else {"SHAPE_NF": 4, "SHAPE_ND": 3, "GATHER_MAX": 7}),
            solver="kissat" if full else None,
            # measured: 20 x 10 with gather <= 255 does not finish in 1 h (sum equality over adder chains); 8 x 4 / 15: ~3 min
            bounded=("task-class shape bounded to 8 input flows x 4 deps, control-gather width <= 15" if full else
                     "task-class shape bounded to 4 input flows x 3 deps, control-gather width <= 7"),
            functions=["parsec_check_IN_dependencies_with_counter"], timeout=to, min_obligations=2),
        Job("counter.lemma", "h_counter.c", entry="h_lemma_counter", unwind=2, functions=[], timeout=300, min_obligations=2),
        Job("mark_startup", "h_counter.c", entry="h_mark_startup", unwind=2,
            functions=["parsec_dependencies_mark_task_as_startup"], timeout=300, min_obligations=2),
    ]
    return J

MANIFEST = dict(
    category="proof",
    text="Every obligation of the rely/guarantee contracts of parsec_update_deps_with_mask / _with_counter / mark_task_as_startup is "
         "discharged by CBMC for all 32-bit dependency words, goals, flow indexes and release counts under arbitrary interference "
         "permitted by the rely (loop-free code: complete). The helper check_IN_* contracts are discharged for bounded task-class "
         "shapes in the quick tier (reported separately as bounded, not counted as proved) and for the code's full limits in the thorough tier.",
    note="Assumes rely/guarantee soundness and sequentially consistent atomics; assumes each flow is released once and exactly goal "
         "releases happen (generated code, C02); guards stubbed as constants; counter-mode check_IN shape and gather widths bounded (4x3/<=7 quick, 8x4/<=15 thorough; 20x10 did not finish in 1 h).",
    technique="function contracts + rely/guarantee ghost state on the real parsec.c, discharged by CBMC (SAT), callee replaced by contract via goto-instrument --dfcc",
    design_ref="DESIGN.md section 5, C07")
