/* C07 (mask mode): contracts on the real parsec_update_deps_with_mask and
 * parsec_check_IN_dependencies_with_mask (parsec/parsec.c, included verbatim).
 *
 * Rely/guarantee set-up (DESIGN 4.3): before the function starts and before each
 * of its atomic operations the environment (other releasers of the same task)
 * may OR further bits into the dependency word, never the bit of *this* flow
 * (each flow is released by exactly one predecessor: the code's own assert).
 */
#include "verif.h"
#define VERIF_RG_POST_STEP   /* the environment also acts between my atomic operation and my next access */
#include "verif_rg.h"
#include "parsec/parsec_internal.h"

/* Contract of the callee, used by --replace-call-with-contract in the update job
 * (discharged against the real body by the check_in job below): returns some set
 * of flow bits, recorded in a ghost for the caller's postcondition. */
static int32_t g_checkin_ret;
static int     g_checkin_calls;
static parsec_dependency_t
parsec_check_IN_dependencies_with_mask(const parsec_taskpool_t *tp, const parsec_task_t *task)
__CPROVER_ensures(__CPROVER_return_value == g_checkin_ret)
__CPROVER_ensures((g_checkin_ret & ~PARSEC_DEPENDENCIES_BITMASK) == 0)
__CPROVER_ensures(g_checkin_calls == __CPROVER_old(g_checkin_calls) + 1)
__CPROVER_assigns(g_checkin_ret, g_checkin_calls);

#include "parsec/parsec.c"

#define NF MAX_PARAM_COUNT
#define ND MAX_DEP_IN_COUNT
/* shape of the symbolic task class: SHAPE_NF input flows x SHAPE_ND input deps
 * (complete when equal to the code's limits MAX_PARAM_COUNT x MAX_DEP_IN_COUNT) */
#ifndef SHAPE_NF
#define SHAPE_NF NF
#endif
#ifndef SHAPE_ND
#define SHAPE_ND ND
#endif

struct vin {
    int32_t  word0;            /* dependency word when the call starts            */
    int32_t  goal;             /* tc->dependencies_goal                           */
    uint8_t  my_index;         /* dest_flow->flow_index                           */
    uint16_t tc_flags;
    int32_t  env[4];           /* bits OR-ed in by the environment at each step   */
    /* task class shape for check_IN */
    uint8_t  n_in;                       /* number of non-NULL tc->in[]            */
    uint8_t  flow_flags[NF];
    uint8_t  flow_index[NF];
    uint8_t  n_dep[NF];                  /* number of non-NULL dep_in[] per flow   */
    uint8_t  dep_has_cond[NF][ND];
    uint8_t  dep_cond_val[NF][ND];       /* truth value returned by the guard      */
    uint8_t  dep_class[NF][ND];          /* task_class_id                          */
    uint8_t  ghost_flow;                 /* ghost index for the per-flow clause    */
} vin;
#include "verif_vin.h"

/* ---- ghost state ---- */
static int32_t  g_word;            /* the shared dependency word                      */
static int      g_env_k;           /* environment steps consumed                      */
static int      g_lin;             /* number of linearisation points (own fetch-or)   */
static int32_t  g_before, g_after; /* word just before / after my fetch-or            */
static int32_t  g_mybit;

void verif_env_step(int op, volatile void *loc)
{
    (void)op; (void)loc;
    if (g_env_k < 4) {
        int32_t add = vin.env[g_env_k++];
        /* Rely: others only add bits, and never my bit */
        V_ASSUME((add & g_mybit) == 0);
        g_word |= add;
    }
    if (!g_lin) g_before = g_word;   /* value my atomic operation will see */
}
void verif_own_step(int op, volatile void *loc, int success)
{
    (void)success;
    if (op == V_OP_FETCH && loc == (volatile void *)&g_word) {
        g_lin++;
        g_after = g_word;
    }
}

/* two guard functions: one false, one true */
static int32_t guard_false(const struct parsec_taskpool_s *tp, const parsec_assignment_t *a) { (void)tp; (void)a; return 0; }
static int32_t guard_true(const struct parsec_taskpool_s *tp, const parsec_assignment_t *a) { (void)tp; (void)a; return 1; }

static parsec_expr_t  e_false, e_true;
static parsec_flow_t  flows[NF];
static parsec_dep_t   deps[NF][ND];
static parsec_task_class_t tc;
static parsec_task_t  task;
static parsec_taskpool_t tp;
static parsec_flow_t  dest_flow;

static void build_class(void)
{
    e_false.op = PARSEC_EXPR_OP_INLINE; e_false.inline_func32 = guard_false;
    e_true.op = PARSEC_EXPR_OP_INLINE;  e_true.inline_func32 = guard_true;
    V_ASSUME(vin.n_in <= SHAPE_NF);
    for (int i = 0; i < NF; i++) {
        if (i < SHAPE_NF && i < vin.n_in) {
            tc.in[i] = &flows[i];
            flows[i].flow_flags = vin.flow_flags[i];
            flows[i].flow_index = vin.flow_index[i];
            V_ASSUME(vin.flow_index[i] < NF);      /* jdf2c numbers flows 0..nb_flows-1 */
            V_ASSUME(vin.n_dep[i] <= SHAPE_ND);
            for (int j = 0; j < ND; j++) {
                if (j < SHAPE_ND && j < vin.n_dep[i]) {
                    flows[i].dep_in[j] = &deps[i][j];
                    deps[i][j].cond = vin.dep_has_cond[i][j] ? (vin.dep_cond_val[i][j] ? &e_true : &e_false) : NULL;
                    deps[i][j].task_class_id = vin.dep_class[i][j];
                    deps[i][j].ctl_gather_nb = NULL;   /* mask mode: the code's assert */
                } else flows[i].dep_in[j] = NULL;
            }
        } else tc.in[i] = NULL;
    }
    tc.flags = vin.tc_flags;
    tc.dependencies_goal = vin.goal;
    task.task_class = &tc;
    task.taskpool = &tp;
}

/* spec, written per flow from the documented meaning: is flow i "already satisfied"
 * when the first release arrives (no input to wait for)? */
static int spec_flow_presatisfied(int i)
{
    int first_active = -1;
    for (int j = 0; j < ND; j++) {
        if (j >= vin.n_dep[i]) break;
        if (!vin.dep_has_cond[i][j] || vin.dep_cond_val[i][j]) { first_active = j; break; }
    }
    if ((vin.flow_flags[i] & PARSEC_FLOW_ACCESS_MASK) == PARSEC_FLOW_ACCESS_NONE)
        return first_active < 0;                         /* control: no active input control */
    if (!(vin.flow_flags[i] & PARSEC_FLOW_HAS_IN_DEPS)) return 0;
    if (vin.n_dep[i] == 0) return 1;                     /* write-only flow using IN for the arena */
    return first_active >= 0 && vin.dep_class[i][first_active] == PARSEC_LOCAL_DATA_TASK_CLASS_ID;
}

/* ------------------------------------------------------------------ */
/* contract of parsec_check_IN_dependencies_with_mask                  */
/* ------------------------------------------------------------------ */
void h_check_in_mask(void)
{
    vin_load();
    build_class();
    /* PRE: distinct flow indexes (jdf2c) */
    for (int a = 0; a < NF; a++) for (int b = a + 1; b < NF; b++)
        if (b < vin.n_in) V_ASSUME(vin.flow_index[a] != vin.flow_index[b]);
    parsec_dependency_t r = parsec_check_IN_dependencies_with_mask(&tp, &task);
    if (!(vin.tc_flags & PARSEC_HAS_IN_IN_DEPENDENCIES)) {
        V_ASSERT(r == 0, "C07.check_in_mask.post.no_in_in_flag_gives_0");
    } else {
        parsec_dependency_t all = 0;
        for (int i = 0; i < NF; i++) if (i < vin.n_in) all |= (1 << vin.flow_index[i]);
        V_ASSERT((r & ~all) == 0, "C07.check_in_mask.post.only_bits_of_input_flows");
        int g = vin.ghost_flow;
        V_ASSUME(g < vin.n_in);
        V_ASSERT(V_IFF(r & (1 << vin.flow_index[g]), spec_flow_presatisfied(g)),
                 "C07.check_in_mask.post.bit_iff_flow_needs_no_release");
    }
    V_ASSERT((r & ~PARSEC_DEPENDENCIES_BITMASK) == 0, "C07.check_in_mask.post.within_bitmask");
    V_CANARY("check_in_mask");
}

/* ------------------------------------------------------------------ */
/* contract of parsec_update_deps_with_mask under interference          */
/* ------------------------------------------------------------------ */
void h_update_mask(void)
{
    vin_load();
    tc.flags = vin.tc_flags; tc.dependencies_goal = vin.goal;
    task.task_class = &tc; task.taskpool = &tp;
    g_checkin_calls = 0;
    V_ASSUME(vin.my_index < NF);
    g_mybit = 1 << vin.my_index;
    dest_flow.flow_index = vin.my_index;
    /* PRE (the code's own assert): my bit is not yet set; goal is made of flow bits and contains mine */
    V_ASSUME((vin.word0 & g_mybit) == 0);
    V_ASSUME((vin.goal & ~PARSEC_DEPENDENCIES_BITMASK) == 0);
    V_ASSUME(vin.goal & g_mybit);
    g_word = vin.word0; g_env_k = 0; g_lin = 0;

    int ready = parsec_update_deps_with_mask(&tp, &task, &g_word, &task, &dest_flow, &dest_flow);

    V_ASSERT(g_lin == 1, "C07.update_mask.post.exactly_one_linearisation_point");
    V_ASSERT(V_IFF(ready, (g_after & vin.goal) == vin.goal),
             "C07.update_mask.post.ready_iff_goal_reached_at_my_step");
    V_ASSERT((g_after & g_mybit) && (g_after & PARSEC_DEPENDENCIES_IN_DONE),
             "C07.update_mask.post.my_bit_and_IN_DONE_set");
    V_ASSERT((g_before & ~g_after) == 0, "C07.update_mask.guar.only_adds_bits");
    /* bits added by me: my bit, IN_DONE, and (first release only) the pre-satisfied flows */
    {
        int32_t added = g_after & ~g_before;
        int32_t allowed = g_mybit | PARSEC_DEPENDENCIES_IN_DONE;
#ifdef VERIF_REPLAY
        g_checkin_calls = !(vin.word0 & PARSEC_DEPENDENCIES_IN_DONE); g_checkin_ret = 0; /* real callee on an empty class */
#endif
        V_ASSERT(g_checkin_calls <= 1, "C07.update_mask.post.presatisfied_flows_evaluated_at_most_once");
        /* the pre-satisfied flows are added only by a call that saw IN_DONE clear */
        V_ASSERT(V_IMPLIES(vin.word0 & PARSEC_DEPENDENCIES_IN_DONE, g_checkin_calls == 0),
                 "C07.update_mask.post.no_reevaluation_once_IN_DONE");
        V_ASSERT(V_IMPLIES(!(vin.word0 & PARSEC_DEPENDENCIES_IN_DONE), g_checkin_calls == 1 && (g_after & g_checkin_ret) == g_checkin_ret),
                 "C07.update_mask.post.first_release_adds_presatisfied_flows");
        if (g_checkin_calls) allowed |= g_checkin_ret;
        V_ASSERT((added & ~allowed) == 0, "C07.update_mask.guar.adds_only_own_bit_IN_DONE_and_presatisfied_flows");
        V_ASSERT(!(added & PARSEC_DEPENDENCIES_TASK_DONE), "C07.update_mask.guar.never_sets_TASK_DONE");
    }
    V_CANARY("update_mask");
}

/* ------------------------------------------------------------------ */
/* lemma: along a monotone history "word contains goal" flips exactly   */
/* once, at the step adding the last missing bit (loop-free, all 2^32)  */
/* ------------------------------------------------------------------ */
struct lemma_in { int32_t w, goal, bit, later; } lin;
void h_lemma_mask(void)
{
    struct lemma_in t; lin = t;
    int32_t w = lin.w, goal = lin.goal, bit = lin.bit, later = lin.later;
    V_ASSUME((w & bit) == 0 && bit != 0 && (bit & (bit - 1)) == 0 && (goal & bit));
    int32_t w1 = w | bit;
    int r1 = (w1 & goal) == goal;                 /* answer given to the releaser of `bit` */
    /* a later releaser adds a bit of goal not yet present */
    V_ASSUME((later & (later - 1)) == 0 && later != 0 && (goal & later) && !(w1 & later));
    int32_t w2 = w1 | later;
    int r2 = (w2 & goal) == goal;
    V_ASSERT(!(r1 && r2) || 0, "C07.lemma_mask.at_most_one_ready_answer");   /* r1 => later bit was missing: contradiction */
    V_ASSERT(!r1 || ((w & goal) == (goal & ~bit)), "C07.lemma_mask.ready_only_when_last_missing_bit");
    V_ASSERT(!((w & goal) == (goal & ~bit)) || r1, "C07.lemma_mask.last_missing_bit_gives_ready");
    V_CANARY("lemma_mask");
}
