/* C07 (counter mode): contracts on the real parsec_update_deps_with_counter and
 * parsec_check_IN_dependencies_with_counter (parsec/parsec.c included verbatim).
 *
 * Ghost: r = number of releases linearised so far, goal = value of check_IN (>=1,
 * since this very release is one of the expected ones).
 * Inv(word, r):  r == 0  => word == 0
 *                r >= 1  => word == goal - r        and r <= goal
 * PRE r < goal (the caller performs one of the `goal` expected releases).
 * Rely: other releasers perform the same kind of steps, i.e. any number k of further
 *       releases such that the total stays <= goal, preserving Inv.
 * POST: ready <=> r_after == goal, where r_after counts the releases linearised up to
 *       and including mine; Inv is preserved by my own steps (guarantee).
 */
#include "verif.h"
#define VERIF_RG_POST_STEP   /* the environment also acts between my atomic operation and my next access */
#include "verif_rg.h"
#include "parsec/parsec_internal.h"

static int32_t g_goal;
static int     g_checkin_calls;
static parsec_dependency_t
parsec_check_IN_dependencies_with_counter(const parsec_taskpool_t *tp, const parsec_task_t *task)
__CPROVER_ensures(__CPROVER_return_value == g_goal)
__CPROVER_ensures(g_checkin_calls == __CPROVER_old(g_checkin_calls) + 1)
__CPROVER_assigns(g_checkin_calls);

#include "parsec/parsec.c"

#define NF MAX_PARAM_COUNT
#define ND MAX_DEP_IN_COUNT
#ifndef SHAPE_NF
#define SHAPE_NF NF
#endif
#ifndef SHAPE_ND
#define SHAPE_ND ND
#endif
#ifndef GATHER_MAX
#define GATHER_MAX 255
#endif

struct vin {
    int32_t goal;              /* number of releases expected for this task      */
    int32_t r0;                /* releases linearised before the call            */
    int32_t env[4];            /* releases performed by others at each env step  */
    uint16_t tc_flags;
    /* class shape for check_IN */
    uint8_t  n_in;
    uint8_t  flow_flags[NF];
    uint8_t  n_dep[NF];
    uint8_t  dep_has_cond[NF][ND];
    uint8_t  dep_cond_val[NF][ND];
    uint8_t  dep_class[NF][ND];
    uint8_t  dep_has_gather[NF][ND];
    int32_t  gather_val;
    int32_t  tc_goal;
} vin;
#include "verif_vin.h"

static int32_t g_word;
static int32_t g_r;            /* ghost: releases linearised so far */
static int     g_env_k;
static int     g_mine;         /* my linearisation points */
static int32_t g_r_at_mine;
static int     g_inv_broken;

static int inv(int32_t w, int32_t r)
{
    if (r < 0 || r > g_goal) return 0;
    if (r == 0) return w == 0;
    return w == g_goal - r;
}

void verif_env_step(int op, volatile void *loc)
{
    (void)op; (void)loc;
    if (g_env_k < 4) {
        int32_t k = vin.env[g_env_k++];
        /* Rely: k further releases by others; mine is still outstanding, so at most goal-1 in total */
        V_ASSUME(k >= 0 && (int64_t)k <= (int64_t)g_goal - 1 + g_mine - g_r);
        if (k > 0) { g_r += k; g_word = g_goal - g_r; }
    }
}
void verif_own_step(int op, volatile void *loc, int success)
{
    if (loc != (volatile void *)&g_word) return;
    if (op == V_OP_CAS && !success) return;          /* failed CAS: no effect */
    /* my successful CAS 0->goal-1, or my decrement, is my release */
    g_mine++; g_r++;
    g_r_at_mine = g_r;
    if (!inv(g_word, g_r)) g_inv_broken = 1;         /* guarantee: my step keeps Inv */
}

static parsec_task_class_t tc;
static parsec_task_t  task;
static parsec_taskpool_t tp;

void h_update_counter(void)
{
    vin_load();
    g_goal = vin.goal;
    V_ASSUME(g_goal >= 1);
    g_r = vin.r0;
    V_ASSUME(g_r >= 0 && g_r < g_goal);                     /* PRE: my release is outstanding */
    g_word = (g_r == 0) ? 0 : g_goal - g_r;                  /* Inv */
    g_env_k = 0; g_mine = 0; g_inv_broken = 0; g_checkin_calls = 0;
    tc.flags = vin.tc_flags; task.task_class = &tc; task.taskpool = &tp;
#ifdef VERIF_REPLAY   /* natively the real callee runs: make it return the ghost goal */
    tc.flags &= ~(PARSEC_HAS_CTL_GATHER | PARSEC_HAS_IN_IN_DEPENDENCIES); tc.dependencies_goal = g_goal;
#endif

    int ready = parsec_update_deps_with_counter(&tp, &task, &g_word, &task, NULL, NULL);

    V_ASSERT(g_mine == 1, "C07.update_counter.post.exactly_one_linearisation_point");
    V_ASSERT(!g_inv_broken, "C07.update_counter.guar.own_step_preserves_counter_invariant");
    V_ASSERT(V_IFF(ready, g_r_at_mine == g_goal), "C07.update_counter.post.ready_iff_my_release_is_the_last");
    V_ASSERT(inv(g_word, g_r), "C07.update_counter.post.invariant_holds_on_return");
    V_CANARY("update_counter");
}

/* lemma: under Inv the releases are numbered 1..goal at their linearisation points, so exactly the
 * release numbered `goal` gets the ready answer; word==0 <=> r==0 or r==goal */
struct { int32_t goal, r1, r2; } lin;
void h_lemma_counter(void)
{
    __typeof__(lin) t; lin = t;
    V_ASSUME(lin.goal >= 1 && lin.r1 >= 1 && lin.r1 <= lin.goal && lin.r2 >= 1 && lin.r2 <= lin.goal);
    V_ASSERT(V_IMPLIES(lin.r1 == lin.goal && lin.r2 == lin.goal, lin.r1 == lin.r2), "C07.lemma_counter.at_most_one_last_release");
    V_ASSERT(V_IFF(lin.goal - lin.r1 == 0, lin.r1 == lin.goal), "C07.lemma_counter.zero_iff_last");
    V_CANARY("lemma_counter");
}

/* ------------------------------------------------------------------ */
/* contract of parsec_check_IN_dependencies_with_counter               */
/* ------------------------------------------------------------------ */
static int32_t guard_false(const struct parsec_taskpool_s *tp_, const parsec_assignment_t *a) { (void)tp_; (void)a; return 0; }
static int32_t guard_true(const struct parsec_taskpool_s *tp_, const parsec_assignment_t *a) { (void)tp_; (void)a; return 1; }
static int32_t gather_fn(const struct parsec_taskpool_s *tp_, const parsec_assignment_t *a) { (void)tp_; (void)a; return vin.gather_val; }
static parsec_expr_t  e_false, e_true, e_gather;
static parsec_flow_t  flows[NF];
static parsec_dep_t   deps[NF][ND];

static void build_class(void)
{
    e_false.op = PARSEC_EXPR_OP_INLINE; e_false.inline_func32 = guard_false;
    e_true.op = PARSEC_EXPR_OP_INLINE;  e_true.inline_func32 = guard_true;
    e_gather.op = PARSEC_EXPR_OP_INLINE; e_gather.inline_func32 = gather_fn;
    V_ASSUME(vin.n_in <= SHAPE_NF);
    for (int i = 0; i < NF; i++) {
        if (i < SHAPE_NF && i < vin.n_in) {
            tc.in[i] = &flows[i];
            flows[i].flow_flags = vin.flow_flags[i];
            flows[i].flow_index = i;
            V_ASSUME(vin.n_dep[i] <= SHAPE_ND);
            for (int j = 0; j < ND; j++) {
                if (j < SHAPE_ND && j < vin.n_dep[i]) {
                    flows[i].dep_in[j] = &deps[i][j];
                    deps[i][j].cond = vin.dep_has_cond[i][j] ? (vin.dep_cond_val[i][j] ? &e_true : &e_false) : NULL;
                    deps[i][j].task_class_id = vin.dep_class[i][j];
                    deps[i][j].ctl_gather_nb = vin.dep_has_gather[i][j] ? &e_gather : NULL;
                } else flows[i].dep_in[j] = NULL;
            }
        } else tc.in[i] = NULL;
    }
    tc.flags = vin.tc_flags;
    tc.dependencies_goal = vin.tc_goal;
    task.task_class = &tc;
    task.taskpool = &tp;
}

/* spec: number of releases flow i waits for */
static int32_t spec_flow_expected(int i)
{
    int32_t n = 0;
    if ((vin.flow_flags[i] & PARSEC_FLOW_ACCESS_MASK) == PARSEC_FLOW_ACCESS_NONE) {
        /* control flow: every active input control counts (a gather counts for its width) */
        for (int j = 0; j < ND; j++) {
            if (j >= vin.n_dep[i]) break;
            if (vin.dep_has_cond[i][j] && !vin.dep_cond_val[i][j]) continue;
            n += vin.dep_has_gather[i][j] ? vin.gather_val : 1;
        }
        return n;
    }
    /* data flow: the first active input decides; one release unless it reads the collection */
    for (int j = 0; j < ND; j++) {
        if (j >= vin.n_dep[i]) break;
        if (vin.dep_has_cond[i][j] && !vin.dep_cond_val[i][j]) continue;
        return vin.dep_class[i][j] != PARSEC_LOCAL_DATA_TASK_CLASS_ID;
    }
    return 0;
}

void h_check_in_counter(void)
{
    vin_load();
    build_class();
    V_ASSUME(vin.gather_val >= 0 && vin.gather_val <= GATHER_MAX);   /* width of a control gather: bounded (adder chains) */
    parsec_dependency_t r = parsec_check_IN_dependencies_with_counter(&tp, &task);
    if (!(vin.tc_flags & PARSEC_HAS_CTL_GATHER) && !(vin.tc_flags & PARSEC_HAS_IN_IN_DEPENDENCIES)) {
        V_ASSERT(r == vin.tc_goal, "C07.check_in_counter.post.static_goal_when_not_instance_dependent");
    } else {
        int32_t sum = 0;
        for (int i = 0; i < NF; i++) if (i < vin.n_in) sum += spec_flow_expected(i);
        V_ASSERT(r == sum, "C07.check_in_counter.post.goal_is_sum_of_expected_releases_per_flow");
    }
    V_CANARY("check_in_counter");
}

/* ------------------------------------------------------------------ */
/* parsec_dependencies_mark_task_as_startup                            */
/* ------------------------------------------------------------------ */
static parsec_dependency_t *stub_find_deps(const parsec_taskpool_t *tp_, parsec_execution_stream_t *es,
                                           const parsec_task_t *t_) { (void)tp_; (void)es; (void)t_; return &g_word; }
void h_mark_startup(void)
{
    vin_load();
    tc.flags = vin.tc_flags; tc.dependencies_goal = vin.tc_goal; tc.find_deps = stub_find_deps;
    task.task_class = &tc; task.taskpool = &tp;
    g_word = vin.goal;
    parsec_dependencies_mark_task_as_startup(&task, NULL);
    if (vin.tc_flags & PARSEC_USE_DEPS_MASK) {
        V_ASSERT((g_word & vin.tc_goal) == vin.tc_goal, "C07.mark_startup.post.mask_goal_reached");
        V_ASSERT(g_word & PARSEC_DEPENDENCIES_STARTUP_TASK, "C07.mark_startup.post.flagged_as_startup");
    } else {
        V_ASSERT(g_word == 0, "C07.mark_startup.post.counter_zero");
    }
    V_CANARY("mark_startup");
}
