from vlib import Job

META = dict(
    level="other",
    functions=["zone_malloc_init", "zone_malloc", "zone_free", "zone_in_use", "SEGMENT_AT_TID", "allocate_chunk_list",
               "zone_malloc_chunk_list_construct",
               "parsec_list_nolock_push_front/pop_front/remove/is_empty, parsec_lifo_pop/nolock_push/is_empty (real code, exercised)"],
    explanation="Inductive data-structure contracts on the real zone_malloc.c (with the real list, LIFO and object-construction code "
                "compiled in): for EVERY well-formed zone of exactly N units (wf = Z1 segments tile the zone, Z2 back-pointers, Z3 no two "
                "adjacent free runs, Z4 tree/chunk-list bookkeeping of the free runs, Z5 retired nodes; every tiling, every FULL/EMPTY "
                "assignment, every order of the free runs on their chunk lists, 0-2 retired nodes, arbitrary junk in stale entries) one "
                "zone_malloc of ANY size_t size / one zone_free of any segment-start or out-of-zone address / "
                "zone_in_use re-establish wf and satisfy the postconditions of the property statement (NULL iff zero units or no free "
                "run of enough units; result aligned, inside the zone, start of the smallest sufficient free run, no overlap with a "
                "live allocation; segment FULL with exactly ceil(size/unit) units, remainder free right after; freed run merged with "
                "free neighbours; everything else unchanged; in-use = unit * sum of FULL units).  History length is unbounded "
                "(inductive step, base case = zone_malloc_init contract); the zone size N is fixed per cbmc process and small "
                "(quick 5, thorough 4..6; the property's exhaustive domain is 16), hence level 'other'.  The red-black tree is "
                "replaced by its abstract finite-map contract (ghost array), whose preconditions are obligations here.",
    trusted_base=["parsec_rbtree_init/insert/remove/find/find_or_larger/update_node: stubs implementing the abstract finite-map contract "
                  "(key -> node); the real tree is property C36",
                  "parsec_obj_new (PARSEC_OBJ_NEW) inside the symbolic region: stub returning a fresh, already constructed "
                  "zone_malloc_chunk_list_t (contract 'returns a constructed object of the class'; object system = property C34); "
                  "the class instance parsec_rbtree_node_t_class is defined in the harness with no constructor",
                  "fprintf (error message of zone_free / zone_malloc_init): no-op stub",
                  "CBMC's models of malloc; sequentially consistent, interference-free parsec_atomic_lock/unlock (verif_rg.h default hooks)",
                  "pre-state generator: the zone object and segment array are static objects in the one-step jobs (zone_malloc_init, "
                  "which mallocs them, is checked separately)"],
    assumptions=["owner C36: the real red-black tree implements the finite-map contract used here (find = node with that key or NULL; "
                 "find_or_larger = node with the smallest key >= k or NULL; insert of an absent key adds; remove deletes; update_node "
                 "returns PARSEC_ERR_EXISTS and changes nothing iff ANOTHER node has the new key, else re-keys the node)",
                 "owner C34: PARSEC_OBJ_NEW(zone_malloc_chunk_list_t) returns a fresh object on which the class constructors have run",
                 "call-atomic: every access happens between parsec_atomic_lock and unlock of the zone lock; mutual exclusion of the lock is assumed",
                 "zone_free precondition (as for free(3)): the address is unit-aligned and is either outside the zone or the start of a "
                 "segment; freeing an address in the middle of a segment is outside the contract (the code would act on stale entries)",
                 "max_segment >= 1 and unit_size >= 1 (zone_malloc_init dereferences segment 0 and divides by unit_size)",
                 "wrap-around of (size + unit_size - 1) in zone_malloc: it can only wrap for size > SIZE_MAX - unit_size + 1; since 6026e99 such a "
                 "size is refused first whenever size / unit_size > max_segment, i.e. for every zone with (max_segment + 1) * unit_size <= "
                 "SIZE_MAX - unit_size + 1 (every zone that fits the address space); discharged here for the enumerated units 1, 8, 512 over "
                 "the full size_t range, NOT for astronomically large unit sizes (e.g. unit 2^63, max_segment 4, size SIZE_MAX: the guard "
                 "passes, the sum wraps to 0 units and NULL is returned although ceil(size/unit) = 2 <= 4)",
                 "at most 2 retired chunk-list nodes on rbtree_free_list in the pre-state (the code only tests emptiness and pops one)"],
)

MANIFEST = dict(
    category="other",
    text="Inductive-step contracts on the real zone allocator, discharged by CBMC for every well-formed pre-state of a zone of N units "
         "(fully symbolic tiling, statuses, chunk-list orders, stale entries; any size_t request, any "
         "segment-start / out-of-zone address): unbounded in history length, bounded in zone size (N = 5 quick, 4..6 thorough, below the "
         "property's 16), therefore 'other'.  The former int-truncation defect of nb_units (sizes of 2^31*unit bytes or "
         "more; repaired by 6026e99) is covered by the any-size obligations and by dedicated oversized / beyond_int jobs.",
    note="NOT decided: zones of more than 6 units (the property's exhaustive domain is 16) and the 'long random sequences on larger "
         "zones' part (testing is outside the technique); the real red-black tree (abstract contract, C36); PARSEC_OBJ_NEW (C34); "
         "concurrent interference (lock assumed); zone_free of a mid-segment address; zone_malloc_fini and zone_debug; more than 2 "
         "retired nodes; unit sizes other than the enumerated ones (1, 8, 512).",
    technique="inductive data-structure invariant + pre/post contracts on the real zone_malloc.c, red-black tree replaced by its abstract "
              "finite-map contract (ghost array), discharged by CBMC (SAT), zone size fixed per process",
    design_ref="DESIGN.md section 5, C28")

US = {"expand_array.0": 11, "parsec_lifo_pop.0": 2}   # class-table growth loop of parsec_object.c; CAS retry loop of the LIFO


def nnode(n):
    # number of distinct free-run sizes a wf zone of n units can have: 1+2+..+d plus d-1 separators <= n (h_lemma proves it)
    d = 1
    while (d + 1) * (d + 2) // 2 + d <= n:
        d += 1
    return d


def jobs(tier):
    full = tier == "thorough"
    J = []

    def D(n, unit=8):
        return {"N": n, "UNIT": unit, "NNODE": nnode(n)}

    def U(n):
        return max(10, n + 3)

    # N = 5 is the smallest zone on which the PARSEC_ERR_EXISTS branches of update_node are reachable (two free runs whose
    # sizes differ by the request): smaller zones leave them dead
    steps = [(5, 8)] if not full else [(5, 8), (4, 8), (4, 1), (4, 512), (6, 8)]
    for n, unit in steps:
        tag = "N%d.u%d" % (n, unit)
        bnd = "zone of exactly %d units of %d bytes (property domain: up to 16 units); <= 2 retired nodes" % (n, unit)
        to = 3000 if full else 1200
        mg = 4 if n <= 5 else 6
        J.append(Job("prestate." + tag, "h_zone.c", entry="h_prestate", defines=D(n, unit), unwind=U(n), unwindset=US, bounded=bnd,
                     functions=[], timeout=to, mem_gb=mg, min_obligations=1))
        J.append(Job("malloc." + tag, "h_zone.c", entry="h_malloc", defines=D(n, unit), unwind=U(n), unwindset=US, bounded=bnd,
                     functions=["zone_malloc", "allocate_chunk_list", "SEGMENT_AT_TID"], timeout=to, mem_gb=mg, min_obligations=20))
        J.append(Job("free." + tag, "h_zone.c", entry="h_free", defines=D(n, unit), unwind=U(n), unwindset=US, bounded=bnd,
                     functions=["zone_free", "allocate_chunk_list", "SEGMENT_AT_TID"], timeout=to, mem_gb=mg, min_obligations=15))
        J.append(Job("in_use." + tag, "h_zone.c", entry="h_in_use", defines=D(n, unit), unwind=U(n), unwindset=US, bounded=bnd,
                     functions=["zone_in_use", "SEGMENT_AT_TID"], timeout=to, mem_gb=mg, min_obligations=3))
    # base case + any size_t request on the fresh zone: zone size and unit enumerated, complete for each pair
    inits = [(4, 8), (6, 8), (6, 1)] if not full else [(n, u) for n in (1, 2, 4, 6, 8, 16) for u in (1, 8, 512)]
    for n, unit in inits:
        tag = "N%d.u%d" % (n, unit)
        J.append(Job("init." + tag, "h_zone.c", entry="h_init", defines=D(n, unit), unwind=U(n), unwindset=US,
                     bounded="max_segment = %d, unit_size = %d (enumerated)" % (n, unit),
                     functions=["zone_malloc_init", "zone_in_use"], timeout=600, mem_gb=3, min_obligations=12))
        J.append(Job("malloc.any_size." + tag, "h_zone.c", entry="h_malloc_any_size", defines=D(n, unit), unwind=U(n), unwindset=US,
                     bounded="fresh zone of %d units of %d bytes; every size_t request" % (n, unit),
                     functions=["zone_malloc"], timeout=900, mem_gb=4, min_obligations=4))
    # lemmas on the abstract view (scalars only): complete for each N of the property's domain
    for n in (range(1, 17) if full else (5, 6, 16)):
        J.append(Job("lemma.N%d" % n, "h_zone.c", entry="h_lemma", defines=D(n), unwind=U(n), functions=[], timeout=600, mem_gb=2,
                     min_obligations=3))
    # requests needing more units than the zone holds (incl. unit counts beyond `int`: defect repaired by 6026e99)
    for n, unit in ([(4, 1), (4, 8)] if not full else [(n, u) for n in (1, 4, 16) for u in (1, 8, 512)]):
        for tag, dd in (("oversized", {}), ("beyond_int", {"BEYOND_INT": None})):
            d = D(n, unit); d.update(dd)
            J.append(Job("malloc.%s.N%d.u%d" % (tag, n, unit), "h_zone.c", entry="h_malloc_oversized", defines=d, unwind=U(n),
                         unwindset=US, bounded="fresh zone of %d units of %d bytes; every size_t request needing more units" % (n, unit),
                         functions=["zone_malloc"], timeout=900, mem_gb=4, min_obligations=3))
    return J
