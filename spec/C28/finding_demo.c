/* Native demonstration of the zone_malloc int-truncation defect (repaired in /repo by 6026e99: with the fix both calls return NULL). */
#include "parsec/parsec_config.h"
#include "parsec/utils/zone_malloc.h"
#include <stdio.h>
#include <stdlib.h>
int main(int argc, char **argv)
{
    static char buf[16];
    zone_malloc_t *z = zone_malloc_init(buf, 16, 1);           /* 16 units of 1 byte */
    size_t big = ((size_t)1 << 32) + 1;                        /* 4 GiB + 1 byte requested from a 16-byte zone */
    void *p = zone_malloc(z, big);
    printf("zone_malloc(16-byte zone, %zu bytes) = %p (base %p), in_use = %zu bytes\n", big, p, (void*)buf, zone_in_use(z));
    if (argc > 1) {
        size_t neg = ((size_t)1 << 31) + 5;                    /* 2 GiB + 5: unit count is a negative int */
        printf("now zone_malloc(%zu)...\n", neg); fflush(stdout);
        p = zone_malloc(z, neg);
        printf("returned %p\n", p);
    }
    return 0;
}
