/* C28: contracts on the real zone allocator (parsec/utils/zone_malloc.c, included verbatim, together with
 * the real object system, list class and LIFO class it uses).
 *
 * Route: harness (V_ASSUME pre / real call / V_ASSERT post).  One cbmc process per (N = max_segment, UNIT).
 *
 * The red-black tree is NOT compiled in: parsec_rbtree_* are defined below as the ABSTRACT CONTRACT that
 * property C36 discharges on the real parsec_rbtree.c: a finite map key -> node held in the ghost array
 * g_tree[0..N].  The preconditions of that contract (insert: key absent, node not stored; remove/update: node
 * stored; keys inside 1..N) are obligations of zone_malloc.c and are asserted inside the stubs
 * ("C28.<fn>.guar.tree_*").
 *
 * wf(zone)  (inductive invariant; generated for the pre-state, CHECKED clause by clause on every post-state):
 *   Z1  following nb_units from tid 0 tiles [0,N) exactly (every run >= 1 unit)
 *   Z2  nb_prev of a segment == nb_units of its predecessor (head: 1)
 *   Z3  every segment is FULL or EMPTY and no two adjacent segments are EMPTY   (the merge claim)
 *   Z4  g_tree[k] != NULL  <=>  some EMPTY segment has k units; the node's own key field is k; its chunk list is a
 *       closed doubly linked ring holding exactly the EMPTY segments of k units, each once; g_tree[0] == NULL
 *   Z5  nodes retired to rbtree_free_list are outside the tree and carry an empty, closed list
 *   H   base / unit_size / max_segment / segments untouched, zone lock released
 * Entries of segments[] that are not segment starts hold arbitrary junk (symbolic in the pre-state).
 *
 * Abstract view of a state: start[t] / full[t] / units[t] for t in [0,N): the postconditions of the property
 * statement are written on the views before and after the call.
 */
#include "verif.h"
#define VERIF_RG_DEFAULT_HOOKS
#include "verif_rg.h"
#include <stddef.h>
#include <limits.h>
/* PARSEC_OBJ_NEW (parsec_obj_new, static inline in parsec_object.h) is replaced by its contract inside the symbolic
 * region: "returns a fresh constructed object of the class" (owner: C34, the object system).  Same renaming
 * device as verif_rg.h.  The real constructors still run for every PARSEC_OBJ_CONSTRUCT. */
#define parsec_obj_new real_parsec_obj_new
#include "parsec/class/parsec_object.c"
#undef parsec_obj_new
static parsec_object_t *parsec_obj_new(parsec_class_t *cls);
#include "parsec/class/parsec_list.c"
#include "parsec/class/parsec_lifo.c"
#include "parsec/class/parsec_rbtree.h"
#include "parsec/constants.h"

#ifndef N
#define N 5                    /* max_segment of this process */
#endif
#ifndef UNIT
#define UNIT 8                 /* unit_size of this process (concrete: the code divides by it) */
#endif
#define M ((N + 1) / 2)        /* largest number of EMPTY segments of a wf zone (Z3) */
#ifndef NNODE
#define NNODE 3                /* chunk-list nodes available to the pre-state (lemma: enough for N) */
#endif
#define NFREEMAX 2             /* retired nodes on rbtree_free_list in the pre-state: 0..2 */

/* debug output of zone_malloc.c: no-ops (trusted: no side effect on the zone) */
#ifndef VERIF_REPLAY
int fprintf(FILE *f, const char *fmt, ...) { (void)f; (void)fmt; return 0; }
#endif

/* ------------------------------------------------------------------------------------------------ */
/* abstract contract of the red-black tree (owner: C36)                                              */
/* ------------------------------------------------------------------------------------------------ */
static parsec_rbtree_node_t *g_tree[N + 1];     /* the finite map key -> node */
static parsec_rbtree_t      *g_tree_obj;
static size_t                g_off;
static int                   g_tree_bad;        /* a precondition of the tree contract was violated */
#define KEYOF(n) (*(int *)((char *)(n) + g_off))

PARSEC_OBJ_CLASS_INSTANCE(parsec_rbtree_node_t, parsec_list_item_t, NULL, NULL);

static int tree_slot_of(parsec_rbtree_node_t *node)
{
    int k = -1;
    for (int i = 0; i <= N; i++) if (g_tree[i] == node) k = i;
    return k;
}
void parsec_rbtree_init(parsec_rbtree_t *tree, size_t off)
{
    g_tree_obj = tree; g_off = off;
    tree->nil = &tree->nil_element; tree->root = tree->nil; tree->comp_offset = off;
    for (int i = 0; i <= N; i++) g_tree[i] = NULL;
}
parsec_rbtree_node_t *parsec_rbtree_find(parsec_rbtree_t *tree, int key)
{
    V_ASSERT(tree == g_tree_obj, "C28.zone.guar.tree_calls_use_the_zone_tree");
    if (key < 0 || key > N) return NULL;
    return g_tree[key];
}
parsec_rbtree_node_t *parsec_rbtree_find_or_larger(parsec_rbtree_t *tree, int key)
{
    V_ASSERT(tree == g_tree_obj, "C28.zone.guar.tree_calls_use_the_zone_tree");
    parsec_rbtree_node_t *r = NULL;
    for (int i = N; i >= 0; i--) if (g_tree[i] != NULL && i >= key) r = g_tree[i];
    return r;
}
void parsec_rbtree_insert(parsec_rbtree_t *tree, parsec_rbtree_node_t *node)
{
    V_ASSERT(tree == g_tree_obj, "C28.zone.guar.tree_calls_use_the_zone_tree");
    int key = KEYOF(node);
    int ok = (key >= 1 && key <= N);
    V_ASSERT(ok, "C28.zone.guar.tree_insert_key_is_a_run_length_of_the_zone");
    V_ASSERT(tree_slot_of(node) < 0, "C28.zone.guar.tree_insert_node_not_already_stored");
    if (ok) {
        V_ASSERT(g_tree[key] == NULL, "C28.zone.guar.tree_insert_key_absent_map_stays_a_map");
        if (g_tree[key] != NULL) g_tree_bad = 1;
        g_tree[key] = node;
    } else g_tree_bad = 1;
}
void parsec_rbtree_remove(parsec_rbtree_t *tree, parsec_rbtree_node_t *node)
{
    V_ASSERT(tree == g_tree_obj, "C28.zone.guar.tree_calls_use_the_zone_tree");
    int k = tree_slot_of(node);
    V_ASSERT(k >= 0, "C28.zone.guar.tree_remove_node_is_stored");
    if (k >= 0) g_tree[k] = NULL; else g_tree_bad = 1;
}
int parsec_rbtree_update_node(parsec_rbtree_t *tree, parsec_rbtree_node_t *node, int newkey)
{
    V_ASSERT(tree == g_tree_obj, "C28.zone.guar.tree_calls_use_the_zone_tree");
    int k = tree_slot_of(node);
    V_ASSERT(k >= 0, "C28.zone.guar.tree_update_node_is_stored");
    int ok = (newkey >= 1 && newkey <= N);
    V_ASSERT(ok, "C28.zone.guar.tree_update_key_is_a_run_length_of_the_zone");
    if (k < 0 || !ok) { g_tree_bad = 1; return PARSEC_SUCCESS; }
    if (g_tree[newkey] != NULL && g_tree[newkey] != node) return PARSEC_ERR_EXISTS;   /* nothing changes */
    g_tree[k] = NULL; g_tree[newkey] = node;
    KEYOF(node) = newkey;                       /* the real tree re-keys the node itself */
    return PARSEC_SUCCESS;
}

#include "parsec/utils/zone_malloc.c"

/* ------------------------------------------------------------------------------------------------ */
struct vin {
    /* pre-state */
    uint8_t start[N];          /* segment starts (start[0] forced)                      */
    uint8_t full[N];           /* status of the segment starting here                   */
    int     junk_status[N], junk_units[N], junk_prev[N];   /* stale entries             */
    uint8_t order[M];          /* EMPTY segments in the order they sit on their lists   */
    uint8_t nfree;             /* retired chunk-list nodes                              */
    /* arguments */
    size_t  size;              /* zone_malloc (any-size job)                            */
    uint8_t exact;
    int     tid;               /* zone_free: address = base + tid*UNIT                  */
    uint8_t null_base;         /* zone_malloc_init                                      */
} vin;
#include "verif_vin.h"

static char zone_buf[(N + 4) * UNIT];
#define BASE (zone_buf + 2 * UNIT)
static zone_malloc_t *Z;
static segment_t     *SEGS;
static zone_malloc_t  zone_obj;
static segment_t      segs_obj[N];
/* separate static objects, not arrays (LESSONS C15): a write through a pointer with a symbolic index into an array
 * of structs is encoded as an update of the whole array */
static zone_malloc_chunk_list_t pn0, pn1, pn2, pn3, pf0, pf1, pw0, pw1;
static zone_malloc_chunk_list_t *node_at(int i) { return i == 0 ? &pn0 : i == 1 ? &pn1 : i == 2 ? &pn2 : &pn3; }
static zone_malloc_chunk_list_t *free_at(int i) { return i == 0 ? &pf0 : &pf1; }
static zone_malloc_chunk_list_t *new_at(int i)  { return i == 0 ? &pw0 : &pw1; }
#define NNEW 2                 /* an operation allocates at most one node */
static int g_new_armed, g_new_used;
static parsec_object_t *parsec_obj_new(parsec_class_t *cls)
{
    if (!g_new_armed) return real_parsec_obj_new(cls);           /* concrete prefix: the real code */
    V_ASSERT(cls == PARSEC_OBJ_CLASS(zone_malloc_chunk_list_t), "C28.zone.guar.only_chunk_list_nodes_are_allocated");
    V_ASSERT(g_new_used < NNEW, "C28.zone.guar.at_most_one_node_allocated_per_operation");
    zone_malloc_chunk_list_t *o = new_at(g_new_used < NNEW ? g_new_used : 0);
    g_new_used++;
    return &o->super.super.super;
}

struct view {
    int start[N], full[N], units[N];
    int sumfull, nseg;
    int ok_tile, ok_prev, ok_status, ok_noadj;           /* Z1 Z2 Z3 */
    int ok_nodekey, ok_ring, ok_members, ok_listed_once; /* Z4 */
    int ok_freelist;                                     /* Z5 */
    int ok_hdr, ok_lock;
};

static int tid_of(const parsec_list_item_t *it)
{
    int r = -1;
    for (int t = 0; t < N; t++) if (it == &SEGS[t].super) r = t;
    return r;
}
/* all chunk-list nodes the harness knows, by index (typed access instead of dereferencing a symbolic pointer) */
#define NALL 8
static zone_malloc_chunk_list_t *all_at(int i)
{
    return i == 0 ? &pn0 : i == 1 ? &pn1 : i == 2 ? &pn2 : i == 3 ? &pn3 : i == 4 ? &pf0 : i == 5 ? &pf1 :
           i == 6 ? &pw0 : &pw1;
}
static int node_idx(const void *p)
{
    int r = -1;
    for (int i = 0; i < NALL; i++) if (p == (const void *)all_at(i)) r = i;
    return r;
}
static zone_malloc_chunk_list_t *g_init_node;       /* the node zone_malloc_init allocates with the real PARSEC_OBJ_NEW */

static void observe(struct view *v)
{
    int listed[N];
    for (int t = 0; t < N; t++) { v->start[t] = 0; v->full[t] = 0; v->units[t] = 0; listed[t] = 0; }
    v->ok_hdr = (Z->base == BASE) & (Z->unit_size == UNIT) & (Z->max_segment == N) & (Z->segments == SEGS)
              & (g_tree_obj == &Z->rbtree) & (g_off == offsetof(zone_malloc_chunk_list_t, nb_units)) & !g_tree_bad;
    v->ok_lock = (Z->lock == 0);
    v->ok_tile = 1; v->ok_prev = 1; v->ok_status = 1; v->ok_noadj = 1; v->sumfull = 0; v->nseg = 0;
    {
        int t = 0, prevu = 1, prev_empty = 0;
        for (int i = 0; i < N; i++) {
            if (t >= N || !v->ok_tile) break;
            const segment_t *s = &SEGS[t];
            int u = s->nb_units;
            if (u < 1 || u > N - t) { v->ok_tile = 0; break; }
            v->start[t] = 1; v->units[t] = u; v->nseg++;
            v->full[t] = (s->status == SEGMENT_FULL);
            if (s->status != SEGMENT_FULL && s->status != SEGMENT_EMPTY) v->ok_status = 0;
            if (s->nb_prev != prevu) v->ok_prev = 0;
            if (prev_empty && s->status == SEGMENT_EMPTY) v->ok_noadj = 0;
            if (s->status == SEGMENT_FULL) v->sumfull += u;
            prev_empty = (s->status == SEGMENT_EMPTY); prevu = u; t += u;
        }
        if (t != N) v->ok_tile = 0;
    }
    v->ok_nodekey = (g_tree[0] == NULL); v->ok_ring = 1; v->ok_members = 1;
    for (int k = 1; k <= N; k++) {
        if (g_tree[k] == NULL) continue;
        zone_malloc_chunk_list_t *fl;
        if ((void *)g_tree[k] == (void *)g_init_node) fl = g_init_node;
        else {
            int ni = node_idx(g_tree[k]);
            if (ni < 0) { v->ok_nodekey = 0; continue; }
            fl = all_at(ni);
        }
        if (fl->nb_units != k) v->ok_nodekey = 0;
        parsec_list_item_t *gh = &fl->list.ghost_element, *prev = gh;
        parsec_list_item_t *it = (parsec_list_item_t *)gh->list_next;
        int closed = 0, cnt = 0;
        for (int s = 0; s <= M; s++) {
            if (it == gh) { closed = 1; break; }
            int t = tid_of(it);
            if (t < 0) break;
            if ((parsec_list_item_t *)SEGS[t].super.list_prev != prev) v->ok_ring = 0;
            if (!(v->start[t] && !v->full[t] && v->units[t] == k && SEGS[t].status == SEGMENT_EMPTY)) v->ok_members = 0;
            listed[t]++; cnt++;
            prev = &SEGS[t].super; it = (parsec_list_item_t *)SEGS[t].super.list_next;
        }
        if (!closed || cnt == 0 || (parsec_list_item_t *)gh->list_prev != prev) v->ok_ring = 0;
    }
    v->ok_listed_once = 1;
    for (int t = 0; t < N; t++)
        if (listed[t] != ((v->start[t] && !v->full[t]) ? 1 : 0)) v->ok_listed_once = 0;
    /* Z5 */
    v->ok_freelist = 1;
    {
        parsec_list_item_t *it = Z->rbtree_free_list.lifo_head.data.item;
        int closed = 0;
        for (int s = 0; s <= NFREEMAX + 2; s++) {
            if (it == NULL) { closed = 1; break; }
            zone_malloc_chunk_list_t *fl;
            if ((void *)it == (void *)g_init_node) fl = g_init_node;
            else {
                int ni = node_idx(it);
                if (ni < 0) { v->ok_freelist = 0; break; }
                fl = all_at(ni);
            }
            if (tree_slot_of(&fl->super) >= 0) v->ok_freelist = 0;
            parsec_list_item_t *gh = &fl->list.ghost_element;
            if ((parsec_list_item_t *)gh->list_next != gh || (parsec_list_item_t *)gh->list_prev != gh) v->ok_freelist = 0;
            it = (parsec_list_item_t *)fl->super.super.list_next;
        }
        if (!closed) v->ok_freelist = 0;
    }
}
#define WF(v) ((v).ok_hdr & (v).ok_lock & (v).ok_tile & (v).ok_prev & (v).ok_status & (v).ok_noadj & (v).ok_nodekey & \
               (v).ok_ring & (v).ok_members & (v).ok_listed_once & (v).ok_freelist)
#define ASSERT_WF(v, F) do { \
    V_ASSERT((v).ok_hdr,         "C28." F ".post.wf.zone_header_and_tree_handle_untouched"); \
    V_ASSERT((v).ok_lock,        "C28." F ".post.zone_lock_released"); \
    V_ASSERT((v).ok_tile,        "C28." F ".post.wf.Z1_segments_tile_the_zone_exactly"); \
    V_ASSERT((v).ok_prev,        "C28." F ".post.wf.Z2_nb_prev_is_predecessor_length"); \
    V_ASSERT((v).ok_status,      "C28." F ".post.wf.Z3_every_segment_full_or_empty"); \
    V_ASSERT((v).ok_noadj,       "C28." F ".post.wf.Z3_no_two_adjacent_free_runs_merge_claim"); \
    V_ASSERT((v).ok_nodekey,     "C28." F ".post.wf.Z4_tree_node_key_field_matches_map_key"); \
    V_ASSERT((v).ok_ring,        "C28." F ".post.wf.Z4_chunk_lists_closed_nonempty_rings"); \
    V_ASSERT((v).ok_members,     "C28." F ".post.wf.Z4_listed_segments_are_free_runs_of_that_size"); \
    V_ASSERT((v).ok_listed_once, "C28." F ".post.wf.Z4_every_free_run_listed_exactly_once"); \
    V_ASSERT((v).ok_freelist,    "C28." F ".post.wf.Z5_retired_nodes_outside_tree_with_empty_list"); \
} while (0)

static int same_outside(const struct view *a, const struct view *b, int lo, int hi)
{
    int same = 1;
    for (int t = 0; t < N; t++)
        if (t < lo || t >= hi) {
            if (a->start[t] != b->start[t]) same = 0;
            if (a->start[t] && (a->full[t] != b->full[t] || a->units[t] != b->units[t])) same = 0;
        }
    return same;
}

/* ------------------------------------------------------------------------------------------------ */
/* pre-state: ANY wf zone of N units                                                                 */
/* ------------------------------------------------------------------------------------------------ */
static void build(void)
{
    g_tree_bad = 0;
    /* the zone object and its segment array are typed static objects here (zone_malloc_init, which mallocs them, has
     * its own contract in h_init): CBMC encodes accesses to a malloc'ed segment array byte-wise, 40 M clauses at N=3 */
    Z = &zone_obj; SEGS = segs_obj;
    Z->base = BASE; Z->unit_size = UNIT; Z->max_segment = N; Z->next_tid = 0; Z->segments = SEGS;
    parsec_atomic_lock_init(&Z->lock);
    parsec_rbtree_init(&Z->rbtree, offsetof(zone_malloc_chunk_list_t, nb_units));
    PARSEC_OBJ_CONSTRUCT(&Z->rbtree_free_list, parsec_lifo_t);
    for (int i = 0; i < N; i++) PARSEC_OBJ_CONSTRUCT(&SEGS[i].super, parsec_list_item_t);
    for (int i = 0; i < NNODE; i++) PARSEC_OBJ_CONSTRUCT(node_at(i), zone_malloc_chunk_list_t);
    for (int i = 0; i < NFREEMAX; i++) PARSEC_OBJ_CONSTRUCT(free_at(i), zone_malloc_chunk_list_t);
    for (int i = 0; i < NNEW; i++) PARSEC_OBJ_CONSTRUCT(new_at(i), zone_malloc_chunk_list_t);
    g_new_armed = 1; g_new_used = 0;
    V_ASSUME(vin.nfree <= NFREEMAX);
    for (int i = 0; i < NFREEMAX; i++)
        if (i < vin.nfree) parsec_lifo_nolock_push(&Z->rbtree_free_list, &free_at(i)->super.super);

    /* tiling + status (Z1 Z2 Z3) */
    V_ASSUME(vin.start[0] == 1);
    int units[N];
    {
        int next = N;
        for (int t = N - 1; t >= 0; t--) { units[t] = 0; if (vin.start[t]) { units[t] = next - t; next = t; } }
    }
    int nempty = 0;
    {
        int prevu = 1, prev_empty = 0;
        for (int t = 0; t < N; t++) {
            V_ASSUME(vin.start[t] <= 1 && vin.full[t] <= 1);
            if (vin.start[t]) {
                SEGS[t].status = vin.full[t] ? SEGMENT_FULL : SEGMENT_EMPTY;
                SEGS[t].nb_units = units[t];
                SEGS[t].nb_prev = prevu;
                V_ASSUME(!(prev_empty && !vin.full[t]));
                prev_empty = !vin.full[t]; prevu = units[t];
                if (!vin.full[t]) nempty++;
            } else {
                SEGS[t].status = vin.junk_status[t]; SEGS[t].nb_units = vin.junk_units[t]; SEGS[t].nb_prev = vin.junk_prev[t];
            }
        }
    }
    /* chunk lists + tree (Z4): EMPTY segments in an arbitrary order */
    int used[N];
    for (int t = 0; t < N; t++) used[t] = 0;
    int nn = 0;
    for (int j = 0; j < M; j++) {
        if (j >= nempty) break;
        int t = -1;
        for (int c = 0; c < N; c++) if (vin.order[j] == c) t = c;     /* case split: concrete pointers on every path */
        V_ASSUME(t >= 0);
        V_ASSUME(vin.start[t] && !vin.full[t] && !used[t]);
        used[t] = 1;
        int k = units[t];
        zone_malloc_chunk_list_t *fl = (zone_malloc_chunk_list_t *)g_tree[k];
        if (fl == NULL) {
            V_ASSUME(nn < NNODE);      /* never cuts a state: h_lemma (distinct free-run sizes <= NNODE) */
            fl = node_at(nn); nn++;
            fl->nb_units = k;
            g_tree[k] = &fl->super;
        }
        parsec_list_nolock_push_back(&fl->list, &SEGS[t].super);
    }
}

static int max_empty_at_least(const struct view *v, int nb)   /* smallest EMPTY run >= nb, 0 if none */
{
    int best = 0;
    for (int t = 0; t < N; t++)
        if (v->start[t] && !v->full[t] && v->units[t] >= nb && (best == 0 || v->units[t] < best)) best = v->units[t];
    return best;
}

/* ------------------------------------------------------------------------------------------------ */
void h_prestate(void)    /* the generator produces wf states (so that pre == wf, not something weaker/odd) */
{
    vin_load();
    build();
    struct view pre; observe(&pre);
    V_ASSERT(WF(pre), "C28.lemma.generated_prestate_satisfies_wf");
    V_CANARY("prestate");
}

/* ------------------------------------------------------------------------------------------------ */
void h_init(void)
{
    vin_load();
    g_tree_bad = 0;
    if (vin.null_base) {
        zone_malloc_t *z = zone_malloc_init(NULL, N, UNIT);
        V_ASSERT(z == NULL, "C28.zone_malloc_init.post.null_base_rejected");
    } else {
        Z = zone_malloc_init(BASE, N, UNIT);
        V_ASSERT(Z != NULL, "C28.zone_malloc_init.post.returns_zone");
        SEGS = Z->segments; g_init_node = (zone_malloc_chunk_list_t *)g_tree[N];
        struct view v; observe(&v);
        ASSERT_WF(v, "zone_malloc_init");
        V_ASSERT(v.start[0] && !v.full[0] && v.units[0] == N && v.nseg == 1, "C28.zone_malloc_init.post.one_free_run_covering_the_zone");
        V_ASSERT(zone_in_use(Z) == 0, "C28.zone_malloc_init.post.nothing_in_use");
        V_ASSERT(Z->rbtree_free_list.lifo_head.data.item == NULL, "C28.zone_malloc_init.post.no_retired_nodes");
    }
    V_CANARY("init");
}

/* ------------------------------------------------------------------------------------------------ */
static void check_malloc(const struct view *pre, size_t size, void *r, const struct view *post, int with_wf)
{
    /* number of units requested, from the statement: ceil(size / unit), computed without wrap-around */
    size_t want = size / UNIT + ((size % UNIT) != 0);
    int nb = (int)want;
    int best = (want == 0 || want > (size_t)N) ? 0 : max_empty_at_least(pre, nb);
    V_ASSERT(V_IFF(r == NULL, best == 0), "C28.zone_malloc.post.null_iff_zero_units_or_no_free_run_of_enough_units");
    if (r == NULL) {
        V_ASSERT(same_outside(pre, post, 0, 0), "C28.zone_malloc.post.failure_changes_nothing");
    } else if (best != 0) {
        ptrdiff_t off = (char *)r - BASE;
        V_ASSERT(off >= 0 && off % UNIT == 0, "C28.zone_malloc.post.result_aligned_to_unit");
        int tid = (int)(off / UNIT);
        int inside = (off >= 0 && tid >= 0 && tid < N && tid + nb <= N);
        V_ASSERT(inside, "C28.zone_malloc.post.result_inside_zone");
        if (inside) {
            V_ASSERT(pre->start[tid] && !pre->full[tid], "C28.zone_malloc.post.result_is_start_of_a_free_run");
            V_ASSERT(pre->units[tid] == best, "C28.zone_malloc.post.best_fit_smallest_sufficient_run_chosen");
            int overlap = 0;
            for (int t = 0; t < N; t++)
                if (pre->start[t] && pre->full[t] && t < tid + nb && tid < t + pre->units[t]) overlap = 1;
            V_ASSERT(!overlap, "C28.zone_malloc.post.no_overlap_with_live_allocation");
            V_ASSERT(post->start[tid] && post->full[tid] && post->units[tid] == nb, "C28.zone_malloc.post.segment_full_with_exactly_requested_units");
            int old = pre->units[tid];
            if (pre->start[tid] && old > nb && old <= N - tid) {
                V_ASSERT(post->start[tid + nb] && !post->full[tid + nb] && post->units[tid + nb] == old - nb,
                         "C28.zone_malloc.post.remainder_is_free_run_right_after");
                int extra = 0;
                for (int t = 0; t < N; t++) if (t > tid && t < tid + old && t != tid + nb && post->start[t]) extra = 1;
                V_ASSERT(!extra, "C28.zone_malloc.post.no_other_segment_created");
            }
            if (pre->start[tid] && old >= nb && old <= N - tid)
                V_ASSERT(same_outside(pre, post, tid, tid + old), "C28.zone_malloc.post.all_other_segments_unchanged");
            V_ASSERT(post->sumfull == pre->sumfull + nb, "C28.zone_malloc.post.in_use_grows_by_allocated_units");
        }
    }
    if (with_wf) ASSERT_WF(*post, "zone_malloc");
}

void h_malloc(void)
{
    vin_load();
    build();
    struct view pre, post; observe(&pre);
    /* ANY size_t request (no assumption on the size: the unit count of the spec, ceil(size/unit), is computed without
     * wrap-around in check_malloc; a count above N must give NULL) */
    void *r = zone_malloc(Z, vin.size);
    observe(&post);
    check_malloc(&pre, vin.size, r, &post, 1);
    V_CANARY("malloc");
}

/* any size_t request on the freshly initialised zone: the unit count is ceil(size/unit) (the code computes it
 * with a possibly wrapping addition), observed through the API only */
void h_malloc_any_size(void)
{
    vin_load();
    g_tree_bad = 0;
    Z = zone_malloc_init(BASE, N, UNIT);
    SEGS = Z->segments; g_init_node = (zone_malloc_chunk_list_t *)g_tree[N];
    size_t want = vin.size / UNIT + ((vin.size % UNIT) != 0);
    void *r = zone_malloc(Z, vin.size);
    V_ASSERT(V_IFF(r == NULL, want == 0 || want > (size_t)N), "C28.zone_malloc.post.any_size.null_iff_zero_or_more_units_than_zone");
    V_ASSERT(r == NULL || r == (void *)BASE, "C28.zone_malloc.post.any_size.first_allocation_at_base");
    V_ASSERT(zone_in_use(Z) == (r == NULL ? 0 : want * UNIT), "C28.zone_malloc.post.any_size.in_use_is_ceil_size_over_unit_units");
    V_ASSERT(!g_tree_bad, "C28.zone_malloc.post.any_size.tree_contract_respected");
    V_CANARY("malloc_any_size");
}

/* every request needing more units than the zone holds (this includes the sizes whose unit count does not fit the
 * code's `int nb_units`: 2^31*unit bytes and more, repaired by 6026e99) fails and changes nothing */
void h_malloc_oversized(void)
{
    vin_load();
    g_tree_bad = 0;
    Z = zone_malloc_init(BASE, N, UNIT);
    SEGS = Z->segments; g_init_node = (zone_malloc_chunk_list_t *)g_tree[N];
    struct view pre, post; observe(&pre);
    size_t want = vin.size / UNIT + ((vin.size % UNIT) != 0);
    V_ASSUME(want > (size_t)N);
#ifdef BEYOND_INT
    V_ASSUME(want > (size_t)INT_MAX);          /* the formerly defective sub-domain, on its own */
#endif
    void *r = zone_malloc(Z, vin.size);
    observe(&post);
    V_ASSERT(r == NULL, "C28.zone_malloc.post.request_larger_than_zone_fails");
    V_ASSERT(same_outside(&pre, &post, 0, 0) & WF(post), "C28.zone_malloc.post.oversized_request_changes_nothing");
    V_ASSERT(zone_in_use(Z) == 0, "C28.zone_malloc.post.oversized_request_nothing_in_use");
    V_CANARY("malloc_oversized");
}

/* ------------------------------------------------------------------------------------------------ */
static void check_free(const struct view *pre, int tid, const struct view *post, int with_wf)
{
    if (tid < 0 || tid >= N || !pre->full[tid]) {
        V_ASSERT(same_outside(pre, post, 0, 0), "C28.zone_free.post.invalid_or_free_address_changes_nothing");
    } else {
        int u = pre->units[tid];
        int lo = tid, hi = tid + u;
        /* predecessor / successor in the pre-state tiling */
        for (int t = 0; t < N; t++) if (pre->start[t] && t + pre->units[t] == tid && !pre->full[t]) lo = t;
        if (hi < N && pre->start[hi] && !pre->full[hi]) hi += pre->units[hi];
        V_ASSERT(post->start[lo] && !post->full[lo] && post->units[lo] == hi - lo,
                 "C28.zone_free.post.freed_run_merged_with_free_neighbours");
        int extra = 0;
        for (int t = 0; t < N; t++) if (t > lo && t < hi && post->start[t]) extra = 1;
        V_ASSERT(!extra, "C28.zone_free.post.no_boundary_left_inside_merged_run");
        V_ASSERT(same_outside(pre, post, lo, hi), "C28.zone_free.post.all_other_segments_unchanged");
        V_ASSERT(post->sumfull == pre->sumfull - u, "C28.zone_free.post.in_use_shrinks_by_freed_units");
    }
    if (with_wf) ASSERT_WF(*post, "zone_free");
}

void h_free(void)
{
    vin_load();
    build();
    struct view pre, post; observe(&pre);
    int tid = vin.tid;
    V_ASSUME(tid >= -2 && tid <= N + 1);
    /* PRE (as for free(3)): the address is unit aligned and is outside the zone or the start of a segment */
    V_ASSUME(tid < 0 || tid >= N || pre.start[tid]);
    zone_free(Z, BASE + (ptrdiff_t)tid * UNIT);
    observe(&post);
    check_free(&pre, tid, &post, 1);
    V_CANARY("free");
}

/* ------------------------------------------------------------------------------------------------ */
void h_in_use(void)
{
    vin_load();
    build();
    struct view pre, post; observe(&pre);
    size_t r = zone_in_use(Z);
    observe(&post);
    V_ASSERT(r == (size_t)pre.sumfull * UNIT, "C28.zone_in_use.post.equals_sum_of_live_allocations");
    V_ASSERT(same_outside(&pre, &post, 0, 0) & WF(post), "C28.zone_in_use.post.state_unchanged");
    V_ASSERT(SEGMENT_AT_TID(Z, -1) == NULL && SEGMENT_AT_TID(Z, N) == NULL && SEGMENT_AT_TID(Z, 0) == &SEGS[0] &&
             SEGMENT_AT_TID(Z, N - 1) == &SEGS[N - 1], "C28.SEGMENT_AT_TID.post.null_outside_zone_else_entry");
    V_CANARY("in_use");
}

/* ------------------------------------------------------------------------------------------------ */
/* lemmas on the view: (a) wf => FULL segments pairwise disjoint and inside the zone; (b) wf => the free    */
/* runs of UNITS (maximal sequences of units not inside a FULL segment) are exactly the EMPTY segments, so   */
/* "no EMPTY segment of >= nb units" is "no free run of >= nb units"; (c) NNODE nodes suffice                */
/* ------------------------------------------------------------------------------------------------ */
void h_lemma(void)
{
    vin_load();
    /* the view of an arbitrary wf zone, from scalars only (same constraints as build(): Z1 Z2 by construction, Z3) */
    struct view v;
    V_ASSUME(vin.start[0] == 1);
    {
        int next = N;
        for (int t = N - 1; t >= 0; t--) {
            V_ASSUME(vin.start[t] <= 1 && vin.full[t] <= 1);
            v.start[t] = vin.start[t]; v.full[t] = vin.start[t] && vin.full[t]; v.units[t] = 0;
            if (vin.start[t]) { v.units[t] = next - t; next = t; }
        }
        int prev_empty = 0;
        for (int t = 0; t < N; t++)
            if (v.start[t]) { V_ASSUME(!(prev_empty && !v.full[t])); prev_empty = !v.full[t]; }
    }
    /* (c) the pre-state generator never needs more than NNODE chunk-list nodes */
    int distinct = 0;
    for (int k = 1; k <= N; k++) {
        int some = 0;
        for (int t = 0; t < N; t++) if (v.start[t] && !v.full[t] && v.units[t] == k) some = 1;
        distinct += some;
    }
    V_ASSERT(distinct <= NNODE, "C28.lemma.prestate_generator_has_enough_nodes");
    int owner_full[N];                 /* unit u lies inside a FULL segment */
    int cover[N];
    for (int u = 0; u < N; u++) { owner_full[u] = 0; cover[u] = 0; }
    for (int t = 0; t < N; t++)
        if (v.start[t])
            for (int u = 0; u < N; u++)
                if (u >= t && u < t + v.units[t]) { cover[u]++; if (v.full[t]) owner_full[u] = 1; }
    int once = 1;
    for (int u = 0; u < N; u++) if (cover[u] != 1) once = 0;
    V_ASSERT(once, "C28.lemma.every_unit_in_exactly_one_segment_live_allocations_disjoint_and_inside");
    /* maximal free runs of units */
    int ok = 1;
    for (int a = 0; a < N; a++) {
        if (owner_full[a] || (a > 0 && !owner_full[a - 1])) continue;   /* a = first unit of a maximal free run */
        int len = 0, stop = 0;
        for (int u = a; u < N; u++) { if (owner_full[u]) stop = 1; if (!stop) len++; }
        if (!(v.start[a] && !v.full[a] && v.units[a] == len)) ok = 0;
    }
    V_ASSERT(ok, "C28.lemma.maximal_free_runs_are_exactly_the_empty_segments");
    V_CANARY("lemma");
}
