/* C37: taskpool identifiers resolve to the registered taskpool.
 * Contracts on the real parsec_taskpool_reserve_id / _register / _lookup / _unregister /
 * _sync_ids_context / parsec_taskpool_release_resources (parsec/parsec.c, included verbatim).
 *
 * Shared state: the registry (taskpool_array, taskpool_array_size, taskpool_array_pos),
 * protected by taskpool_array_lock.
 *
 * Rely/guarantee set-up.  The registry is only meaningful to a thread while it holds the
 * lock.  The ghost copy S_* is "the registry as the other threads left it"; it is installed
 * into the real static variables at the moment the function under contract ACQUIRES the
 * lock and taken back (and the real variables poisoned: NULL array, nondeterministic
 * size/pos) at the moment it RELEASES the lock.  Hence
 *   - rely: between my critical sections the other threads may turn the registry into any
 *     other well-formed registry (the per-function jobs start from an arbitrary well-formed
 *     registry; the history jobs interleave complete calls of other threads);
 *   - guarantee: every access of mine to the registry lies inside the critical section (an
 *     access outside reads poison / is lost), the lock is taken and released exactly once,
 *     and my critical section re-establishes well-formedness, never lowers pos and only
 *     touches the slot of my own identifier or fresh slots.
 *
 * wf(registry): array==NULL && size==1 && pos==0, or size a power of two >= 2, the array has
 * exactly `size` slots, pos < size, every slot in [1,pos] is empty or holds the taskpool
 * whose taskpool_id is that index, every slot in (pos,size) is empty.
 * "empty" = NOTASKPOOL or NULL: the code treats both alike (lookup returns NULL for both,
 * parsec_debug_all_taskpools_local_tasks skips both).
 * Slot 0 is never initialised by the code and id 0 is never handed out: lookup(0) is
 * outside the property (DESIGN note) and not exercised.
 */
#include "verif.h"
#include "verif_rg.h"
#include "parsec/parsec_internal.h"
#include "parsec/parsec.c"

#ifndef SZ
#define SZ 4            /* taskpool_array_size of the symbolic pre-state; 1 = never allocated (array == NULL) */
#endif
#ifndef MAXSZ
#define MAXSZ 16        /* largest identifier bound: synchronised maxima are < MAXSZ */
#endif
#ifndef NP
#define NP 4            /* number of processes of the sync job */
#endif
#define NSLOT (2 * MAXSZ + 2)
#define EMPTY(p) ((void *)(p) == NOTASKPOOL || (void *)(p) == NULL)

struct vin {
    uint32_t pos;                 /* taskpool_array_pos of the pre-state                              */
    uint8_t  reg[NSLOT];          /* slot i of the pre-state: 0 NOTASKPOOL, 1 taskpool with id i, 2 NULL */
    uint32_t id;                  /* identifier argument (lookup: any 32-bit value >= 1)              */
    uint32_t ghost_id;            /* ghost: some other identifier                                     */
    int32_t  mpi_on;              /* MPI_Initialized flag                                             */
    /* sync: positions contributed by the other np-1 processes */
    uint8_t  np;
    uint32_t others[3];
    uint8_t  op[1];               /* environment step of the two-reservation job */
} vin;
#include "verif_vin.h"

/* ------------------------------------------------------------------ */
/* ghost state                                                         */
/* ------------------------------------------------------------------ */
static parsec_taskpool_t **S_arr;      /* the registry between critical sections */
static uint32_t S_size, S_pos;
static int g_held, g_locks, g_unlocks, g_foreign_lock;

#ifdef VERIF_REPLAY
#define NONDET_U32() 0xdeadbeefu
#else
uint32_t nondet_u32(void);
#define NONDET_U32() nondet_u32()
#endif

static void retract(void)
{   /* leave the critical section: the registry belongs to the other threads again */
    S_arr = taskpool_array; S_size = taskpool_array_size; S_pos = taskpool_array_pos;
    taskpool_array = NULL; taskpool_array_size = NONDET_U32(); taskpool_array_pos = NONDET_U32();
}
static void publish(void)
{   /* enter the critical section: see what the other threads left */
    taskpool_array = S_arr; taskpool_array_size = S_size; taskpool_array_pos = S_pos;
}
void verif_env_step(int op, volatile void *loc) { (void)op; (void)loc; }
void verif_own_step(int op, volatile void *loc, int success)
{
    (void)success;
    if (op == V_OP_LOCK) {
        if (loc != (volatile void *)&taskpool_array_lock) { g_foreign_lock = 1; return; }
        g_locks++; g_held++; publish();
    } else if (op == V_OP_UNLOCK) {
        if (loc != (volatile void *)&taskpool_array_lock) { g_foreign_lock = 1; return; }
        g_unlocks++; g_held--; retract();
    }
}
static void ghost_reset(void) { g_held = 0; g_locks = 0; g_unlocks = 0; g_foreign_lock = 0; }
#define LOCK_BALANCED(n) (g_locks == (n) && g_unlocks == (n) && g_held == 0 && !g_foreign_lock && taskpool_array_lock == 0)

/* ------------------------------------------------------------------ */
/* MPI stand-ins (trusted_base): MPI_Allreduce(MPI_IN_PLACE, &v, 1, MPI_INT, MPI_MAX) returns  */
/* g_allreduce_result, which each harness constrains to be >= the contribution / the maximum.  */
/* ------------------------------------------------------------------ */
static int g_mpi_on, g_allreduce_result, g_allreduce_calls, g_contribution, g_allreduce_shape_ok;
static intptr_t g_comm_seen;
int MPI_Initialized(int *flag) { *flag = g_mpi_on; return MPI_SUCCESS; }
int MPI_Allreduce(const void *sendbuf, void *recvbuf, int count, MPI_Datatype datatype, MPI_Op op, MPI_Comm comm)
{
    g_allreduce_calls++;
    g_allreduce_shape_ok = (sendbuf == MPI_IN_PLACE && count == 1 && datatype == MPI_INT && op == MPI_MAX && g_held == 1);
    g_comm_seen = (intptr_t)comm;
    g_contribution = *(int *)recvbuf;
    *(int *)recvbuf = g_allreduce_result;
    return MPI_SUCCESS;
}

/* ------------------------------------------------------------------ */
/* symbolic well-formed registry                                       */
/* ------------------------------------------------------------------ */
static parsec_taskpool_t tps[NSLOT];     /* tps[i]: the taskpool holding identifier i */
static parsec_taskpool_t newtp[4];       /* taskpools that do not hold an identifier yet */
static parsec_taskpool_t *old_slot[NSLOT];
static uint32_t old_size, old_pos;
static parsec_taskpool_t **old_arr;

static parsec_taskpool_t **alloc_slots(uint32_t sz)
{   /* concrete allocation sizes only (LESSONS) */
    switch (sz) {
    case 2:  return (parsec_taskpool_t **)malloc(2 * sizeof(parsec_taskpool_t *));
    case 4:  return (parsec_taskpool_t **)malloc(4 * sizeof(parsec_taskpool_t *));
    case 8:  return (parsec_taskpool_t **)malloc(8 * sizeof(parsec_taskpool_t *));
    case 16: return (parsec_taskpool_t **)malloc(16 * sizeof(parsec_taskpool_t *));
    case 32: return (parsec_taskpool_t **)malloc(32 * sizeof(parsec_taskpool_t *));
    case 64: return (parsec_taskpool_t **)malloc(64 * sizeof(parsec_taskpool_t *));
    default: return NULL;
    }
}

static void build_registry(uint32_t sz, uint32_t pos, const uint8_t *reg)
{
    for (uint32_t i = 0; i < NSLOT; i++) { tps[i].taskpool_id = i; old_slot[i] = NOTASKPOOL; }
    for (int i = 0; i < 4; i++) newtp[i].taskpool_id = (uint32_t)-1;     /* as set by the constructor */
    if (sz == 1) {
        V_ASSUME(pos == 0);
        S_arr = NULL; S_size = 1; S_pos = 0;
    } else {
        V_ASSUME(pos < sz);
        S_arr = alloc_slots(sz); S_size = sz; S_pos = pos;
        for (uint32_t i = 1; i < NSLOT; i++) {
            if (i >= sz) break;
            V_ASSUME(reg[i] <= 2);
            S_arr[i] = (i <= pos && reg[i] == 1) ? &tps[i] : (i <= pos && reg[i] == 2) ? NULL : NOTASKPOOL;
            old_slot[i] = S_arr[i];
        }
    }
    old_size = S_size; old_pos = S_pos; old_arr = S_arr;
    /* outside a critical section the real variables are poison */
    taskpool_array = NULL; taskpool_array_size = NONDET_U32(); taskpool_array_pos = NONDET_U32();
    taskpool_array_lock = 0;
    ghost_reset();
}

/* expected answer of lookup(id) in the pre-state */
static parsec_taskpool_t *spec_lookup_old(uint32_t id)
{
    if (id == 0 || id > old_pos || id >= NSLOT) return NULL;
    return EMPTY(old_slot[id]) ? NULL : old_slot[id];
}

/* wf of the registry left behind; `extra` = a taskpool outside the pool that may be registered */
static int wf_now(const parsec_taskpool_t *extra)
{
    if (S_arr == NULL) return S_size == 1 && S_pos == 0;
    if (S_size < 2 || S_size > 2 * MAXSZ || (S_size & (S_size - 1)) != 0) return 0;
#ifndef VERIF_REPLAY
    if (__CPROVER_OBJECT_SIZE(S_arr) != S_size * sizeof(parsec_taskpool_t *) || __CPROVER_POINTER_OFFSET(S_arr) != 0) return 0;
#endif
    if (S_pos >= S_size) return 0;
    for (uint32_t i = 1; i < NSLOT; i++) {
        if (i >= S_size) break;
        parsec_taskpool_t *p = S_arr[i];
        if (EMPTY(p)) continue;
        if (i > S_pos) return 0;
        /* (no dereference of p itself: an arbitrary pointer value ranges over every object of parsec.c) */
        if (p == &tps[i]) { if (tps[i].taskpool_id != i) return 0; }
        else if (extra != NULL && p == (parsec_taskpool_t *)extra) { if (extra->taskpool_id != i) return 0; }
        else return 0;
    }
    return 1;
}
/* slots [1, old_pos] unchanged (the registrations of the other taskpools are kept), except slot `but` */
static int others_kept(uint32_t but)
{
    for (uint32_t i = 1; i < NSLOT; i++) {
        if (i > old_pos) break;
        if (i == but) continue;
        if (i >= S_size) return 0;
        if (S_arr[i] != old_slot[i]) return 0;
    }
    return 1;
}

/* ------------------------------------------------------------------ */
/* parsec_taskpool_reserve_id                                          */
/* ------------------------------------------------------------------ */
void h_reserve(void)
{
    vin_load();
    build_registry(SZ, vin.pos, vin.reg);
    int r = parsec_taskpool_reserve_id(&newtp[0]);
    V_ASSERT(LOCK_BALANCED(1), "C37.reserve_id.guar.lock_taken_and_released_once");
    V_ASSERT((uint32_t)r == old_pos + 1, "C37.reserve_id.post.returns_pos_plus_one");
    /* ghost: every identifier handed out before is in [1,pos] (reserve returns pos after ++, sync only raises pos) */
    V_ASSERT(V_IMPLIES(vin.ghost_id >= 1 && vin.ghost_id <= old_pos, (uint32_t)r != vin.ghost_id),
             "C37.reserve_id.post.distinct_from_every_id_handed_out_before");
    V_ASSERT(S_pos == (uint32_t)r && S_pos > old_pos, "C37.reserve_id.post.pos_advanced_so_later_reservations_are_larger");
    V_ASSERT(newtp[0].taskpool_id == (uint32_t)r, "C37.reserve_id.post.taskpool_records_its_id");
    V_ASSERT((uint32_t)r < S_size, "C37.reserve_id.post.new_id_in_bounds");
    V_ASSERT(EMPTY(S_arr[r]), "C37.reserve_id.post.new_id_not_yet_registered");
    V_ASSERT(others_kept(0), "C37.reserve_id.guar.existing_registrations_kept");
    V_ASSERT(wf_now(NULL), "C37.reserve_id.inv.registry_well_formed");
    V_ASSERT(parsec_taskpool_lookup((uint32_t)r) == NULL, "C37.reserve_id.post.lookup_of_reserved_unregistered_id_is_null");
    V_ASSUME(vin.ghost_id >= 1);
    V_ASSERT(parsec_taskpool_lookup(vin.ghost_id) == spec_lookup_old(vin.ghost_id), "C37.reserve_id.post.other_lookups_unchanged");
    V_CANARY("reserve");
}

/* ------------------------------------------------------------------ */
/* parsec_taskpool_register  (PRE: the taskpool holds a reserved id)   */
/* ------------------------------------------------------------------ */
void h_register(void)
{
    vin_load();
    build_registry(SZ, vin.pos, vin.reg);
    uint32_t id = vin.id;
    V_ASSUME(id >= 1 && id <= old_pos);                           /* PRE: id was handed out by reserve_id */
    parsec_taskpool_t *tp = &tps[id];
    int r = parsec_taskpool_register(tp);
    V_ASSERT(LOCK_BALANCED(1), "C37.register.guar.lock_taken_and_released_once");
    V_ASSERT((uint32_t)r == id && tp->taskpool_id == id, "C37.register.post.returns_and_keeps_id");
    V_ASSERT(S_pos == old_pos && S_size == old_size, "C37.register.post.pos_and_size_unchanged");
    V_ASSERT(S_arr[id] == tp, "C37.register.post.slot_holds_taskpool");
    V_ASSERT(others_kept(id), "C37.register.guar.other_registrations_kept");
    V_ASSERT(wf_now(NULL), "C37.register.inv.registry_well_formed");
    V_ASSERT(parsec_taskpool_lookup(id) == tp, "C37.register.post.lookup_returns_registered_taskpool");
    V_ASSUME(vin.ghost_id != id && vin.ghost_id >= 1);
    V_ASSERT(parsec_taskpool_lookup(vin.ghost_id) == spec_lookup_old(vin.ghost_id), "C37.register.post.other_lookups_unchanged");
    V_CANARY("register");
}

/* ------------------------------------------------------------------ */
/* parsec_taskpool_lookup: any 32-bit identifier >= 1                   */
/* ------------------------------------------------------------------ */
void h_lookup(void)
{
    vin_load();
    build_registry(SZ, vin.pos, vin.reg);
    uint32_t id = vin.id;
    V_ASSUME(id >= 1);
    parsec_taskpool_t *r = parsec_taskpool_lookup(id);
    V_ASSERT(LOCK_BALANCED(1), "C37.lookup.guar.lock_taken_and_released_once");
    if (id <= old_pos && vin.reg[id] == 1)
        V_ASSERT(r == &tps[id] && r->taskpool_id == id, "C37.lookup.post.registered_id_resolves_to_its_taskpool");
    else
        V_ASSERT(r == NULL, "C37.lookup.post.unregistered_or_unknown_id_gives_null");
    V_ASSERT(S_arr == old_arr && S_pos == old_pos && S_size == old_size && others_kept(0),
             "C37.lookup.guar.registry_unchanged");
    V_ASSERT(wf_now(NULL), "C37.lookup.inv.registry_well_formed");
    V_CANARY("lookup");
}

/* ------------------------------------------------------------------ */
/* parsec_taskpool_unregister (PRE: the taskpool is registered)        */
/* ------------------------------------------------------------------ */
void h_unregister(void)
{
    vin_load();
    build_registry(SZ, vin.pos, vin.reg);
    uint32_t id = vin.id;
    V_ASSUME(id >= 1 && id <= old_pos && vin.reg[id] == 1);       /* PRE (the code's asserts): registered */
    parsec_taskpool_t *tp = &tps[id];
    parsec_taskpool_unregister(tp);
    V_ASSERT(LOCK_BALANCED(1), "C37.unregister.guar.lock_taken_and_released_once");
    V_ASSERT(EMPTY(S_arr[id]), "C37.unregister.post.slot_is_empty");
    V_ASSERT(S_pos == old_pos && S_size == old_size, "C37.unregister.post.pos_and_size_unchanged");
    V_ASSERT(others_kept(id), "C37.unregister.guar.other_registrations_kept");
    V_ASSERT(wf_now(NULL), "C37.unregister.inv.registry_well_formed");
    V_ASSERT(parsec_taskpool_lookup(id) == NULL, "C37.unregister.post.lookup_returns_nothing");
    V_ASSUME(vin.ghost_id != id && vin.ghost_id >= 1);
    V_ASSERT(parsec_taskpool_lookup(vin.ghost_id) == spec_lookup_old(vin.ghost_id), "C37.unregister.post.other_lookups_unchanged");
    V_CANARY("unregister");
}

/* ------------------------------------------------------------------ */
/* parsec_taskpool_sync_ids_context.  1..NP processes with different    */
/* prior histories: this process (any rank) has the generic well-formed */
/* registry, the other np-1 processes contribute arbitrary positions    */
/* vin.others[] (their registries are instances of the same generic     */
/* pre-state); MPI_MAX hands every process the same maximum (trusted).  */
/* POST: next identifier == maximum + 1, a function of the maximum      */
/* alone, hence equal on all processes.                                 */
/* The maximum / the MPI flag are case-split so that every realloc size */
/* is concrete (LESSONS: symbolic allocation sizes do not finish).      */
/* ------------------------------------------------------------------ */
static void sync_case(int mpi_on, int m)
{
    g_mpi_on = mpi_on; g_allreduce_calls = 0; g_allreduce_shape_ok = 0; g_allreduce_result = m;
    parsec_taskpool_sync_ids_context((intptr_t)vin.id);
    V_ASSERT(LOCK_BALANCED(1), "C37.sync_ids.guar.lock_taken_and_released_once");
    if (mpi_on) {
        V_ASSERT(g_allreduce_calls == 1 && g_allreduce_shape_ok && g_comm_seen == (intptr_t)vin.id,
                 "C37.sync_ids.post.one_in_place_int_max_reduction_on_the_given_communicator_inside_the_lock");
        V_ASSERT((uint32_t)g_contribution == old_pos, "C37.sync_ids.post.contributes_local_pos");
        V_ASSERT(S_pos == (uint32_t)m, "C37.sync_ids.post.pos_is_global_maximum");
    } else {
        V_ASSERT(g_allreduce_calls == 0 && S_pos == old_pos && S_size == old_size && S_arr == old_arr,
                 "C37.sync_ids.post.no_mpi_no_change");
    }
    V_ASSERT(S_pos == 0 || S_pos < S_size, "C37.sync_ids.post.pos_in_bounds");
    V_ASSERT(S_pos >= old_pos, "C37.sync_ids.guar.pos_never_lowered");
    V_ASSERT(others_kept(0), "C37.sync_ids.guar.existing_registrations_kept");
    V_ASSERT(wf_now(NULL), "C37.sync_ids.inv.registry_well_formed");
    if (vin.ghost_id >= 1)
        V_ASSERT(parsec_taskpool_lookup(vin.ghost_id) == spec_lookup_old(vin.ghost_id), "C37.sync_ids.post.lookups_unchanged");
    {   /* the next identifier is a function of the maximum alone */
        uint32_t expect = (mpi_on ? (uint32_t)m : old_pos) + 1;
        int r = parsec_taskpool_reserve_id(&newtp[0]);
        V_ASSERT((uint32_t)r == expect, "C37.sync_ids.post.next_id_is_maximum_plus_one_on_every_process");
        V_ASSERT((uint32_t)r < S_size && EMPTY(S_arr[r]) && wf_now(NULL), "C37.sync_ids.post.next_reserve_in_bounds_and_well_formed");
    }
}
void h_sync(void)
{
    vin_load();
    build_registry(SZ, vin.pos, vin.reg);
    V_ASSUME(vin.np >= 1 && vin.np <= NP);
    uint32_t max = old_pos;                                   /* MPI_MAX over the np contributions */
    for (int p = 0; p < NP - 1; p++) {
        if (p + 1 >= vin.np) break;
        V_ASSUME(vin.others[p] < MAXSZ);
        if (vin.others[p] > max) max = vin.others[p];
    }
    if (!vin.mpi_on) {
        sync_case(0, 0);
    } else {
        for (int m = 0; m < MAXSZ; m++) { if (max == (uint32_t)m) { sync_case(1, m); break; } }   /* break: the cases stay disjoint paths */
    }
    V_CANARY("sync");
}

/* ------------------------------------------------------------------ */
/* parsec_taskpool_release_resources                                   */
/* ------------------------------------------------------------------ */
void h_release(void)
{
    vin_load();
    build_registry(SZ, vin.pos, vin.reg);
    parsec_taskpool_release_resources();
    V_ASSERT(LOCK_BALANCED(1), "C37.release_resources.guar.lock_taken_and_released_once");
    V_ASSERT(S_arr == NULL && S_size == 1 && S_pos == 0, "C37.release_resources.post.registry_back_to_initial_state");
    V_ASSUME(vin.id >= 1);
    V_ASSERT(parsec_taskpool_lookup(vin.id) == NULL, "C37.release_resources.post.no_id_resolves");
    V_ASSERT(parsec_taskpool_reserve_id(&newtp[0]) == 1 && wf_now(NULL), "C37.release_resources.post.numbering_restarts_at_1");
    V_CANARY("release");
}

/* ------------------------------------------------------------------ */
/* concurrent reservations: thread A reserves, then (rely) another      */
/* thread runs nothing or a reservation of its own, then thread B       */
/* reserves.  Each call is one critical section, so an interleaving of  */
/* threads is a sequence of calls.  pos is case-split on disjoint paths */
/* so that every allocation size stays concrete.  Other environment     */
/* steps are covered by the guarantees: register / unregister / lookup  */
/* leave pos and size unchanged (C37.*.post.pos_and_size_unchanged),    */
/* sync never lowers pos (C37.sync_ids.guar.pos_never_lowered), and     */
/* reserve returns pos+1 (C37.reserve_id.post.returns_pos_plus_one).    */
/* ------------------------------------------------------------------ */
static void second_reserve(uint32_t idA, uint32_t idC)
{
    uint32_t idB = (uint32_t)parsec_taskpool_reserve_id(&newtp[1]);
    V_ASSERT(idB != idA && idB > idA, "C37.reserve_id.post.concurrent_reservations_get_distinct_ids");
    V_ASSERT(idC == 0 || (idC != idA && idC != idB), "C37.reserve_id.post.three_concurrent_reservations_pairwise_distinct");
    V_ASSERT(newtp[0].taskpool_id == idA && newtp[1].taskpool_id == idB, "C37.reserve_id.post.each_taskpool_keeps_its_own_id");
    V_ASSERT(wf_now(NULL) && g_held == 0 && taskpool_array_lock == 0, "C37.reserve_id.inv.registry_well_formed_after_interleaving");
    V_ASSERT(parsec_taskpool_lookup(idA) == NULL && parsec_taskpool_lookup(idB) == NULL,
             "C37.reserve_id.post.reserved_ids_resolve_to_nothing_until_registered");
}
static void two_reserves_case(uint32_t pos)
{
    build_registry(SZ, pos, vin.reg);
    uint32_t idA = (uint32_t)parsec_taskpool_reserve_id(&newtp[0]);
    if (vin.op[0] == 0) {
        second_reserve(idA, 0);
    } else {                                        /* a third thread reserves in between */
        uint32_t idC = (uint32_t)parsec_taskpool_reserve_id(&newtp[2]);
        second_reserve(idA, idC);
    }
}
void h_two_reserves(void)
{
    vin_load();
    V_ASSUME(vin.pos < SZ);
    /* case split on pos (disjoint paths): whether a reservation grows the array is then decided per path */
    for (uint32_t p = 0; p < SZ; p++) { if (vin.pos == p) { two_reserves_case(p); break; } }
    V_CANARY("two_reserves");
}
