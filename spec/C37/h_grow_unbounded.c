/* C37: UNBOUNDED contract of the growth path of parsec_taskpool_reserve_id and parsec_taskpool_register
 * (parsec.c included verbatim): the slot-initialisation loop is closed by a loop contract (inductive invariant)
 * inserted by the overlay into a scratch copy (goto-instrument --dfcc --apply-loop-contracts), so the array size
 * is NOT bounded by an unwinding depth: every power of two 2 .. 2^LGMAX.  `g` is a universally quantified slot. */
#include "verif.h"
#define VERIF_RG_DEFAULT_HOOKS
#include "verif_rg.h"
#include "parsec/parsec_internal.h"
static uint32_t g_g, g_old;      /* ghost index, old size */
static void *g_oldval;           /* ghost: content of the old slot g_g */
#ifndef VERIF_REPLAY
void *malloc(size_t sz) { return __CPROVER_allocate(sz, 0); }
#endif
#include "parsec/parsec.c"
#ifndef LGMAX
#define LGMAX 20
#endif
struct vin { uint32_t lg; uint32_t g; uint64_t old_val; } vin;
#include "verif_vin.h"
static parsec_taskpool_t tp;
void h_reserve_grow(void)
{
    vin_load();
    V_ASSUME(vin.lg >= 1 && vin.lg <= LGMAX);
    uint32_t size = 1u << vin.lg;
    g_old = size; g_g = vin.g;
    V_ASSUME(vin.g < 2 * size);
    taskpool_array = malloc(size * sizeof(parsec_taskpool_t *));
    taskpool_array_size = size; taskpool_array_pos = size - 1; taskpool_array_lock = 0;
    g_oldval = (void *)(uintptr_t)vin.old_val;
    if (vin.g < size) taskpool_array[vin.g] = (parsec_taskpool_t *)g_oldval;
    int id = parsec_taskpool_reserve_id(&tp);
    V_ASSERT((uint32_t)id == size && tp.taskpool_id == size, "C37.reserve_id.post.returns_pos_plus_one_for_every_array_size");
    V_ASSERT(taskpool_array_size == 2 * size && taskpool_array_pos == size, "C37.reserve_id.post.array_doubled");
    if (vin.g >= size) V_ASSERT(taskpool_array[vin.g] == NOTASKPOOL, "C37.reserve_id.post.every_new_slot_is_empty");
    else V_ASSERT(taskpool_array[vin.g] == (parsec_taskpool_t *)(uintptr_t)vin.old_val, "C37.reserve_id.post.every_old_slot_is_kept");
    V_ASSERT(taskpool_array_lock == 0, "C37.reserve_id.post.lock_released");
    V_CANARY("reserve_grow");
}

/* register of a reserved id that lies just beyond the array (the id handed out by a reservation that another
 * process made first: sync_ids) grows the array in the same way */
void h_register_grow(void)
{
    vin_load();
    V_ASSUME(vin.lg >= 1 && vin.lg <= LGMAX);
    uint32_t size = 1u << vin.lg;
    g_old = size; g_g = vin.g;
    V_ASSUME(vin.g < 2 * size);
    taskpool_array = malloc(size * sizeof(parsec_taskpool_t *));
    taskpool_array_size = size; taskpool_array_pos = size; taskpool_array_lock = 0;
    g_oldval = (void *)(uintptr_t)vin.old_val;
    if (vin.g < size) taskpool_array[vin.g] = (parsec_taskpool_t *)g_oldval;
    tp.taskpool_id = size;                      /* first id beyond the array */
    int id = parsec_taskpool_register(&tp);
    V_ASSERT((uint32_t)id == size && taskpool_array_size == 2 * size, "C37.register.post.array_doubled_for_every_array_size");
    V_ASSERT(taskpool_array[size] == &tp, "C37.register.post.slot_holds_taskpool");
    if (vin.g > size) V_ASSERT(taskpool_array[vin.g] == NOTASKPOOL, "C37.register.post.every_other_new_slot_is_empty");
    if (vin.g < size) V_ASSERT(taskpool_array[vin.g] == (parsec_taskpool_t *)g_oldval, "C37.register.post.every_old_slot_is_kept");
    V_ASSERT(taskpool_array_lock == 0, "C37.register.post.lock_released");
    V_CANARY("register_grow");
}
