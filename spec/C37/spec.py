from vlib import Job

META = dict(
    level="other",
    functions=["parsec_taskpool_reserve_id", "parsec_taskpool_register", "parsec_taskpool_lookup",
               "parsec_taskpool_unregister", "parsec_taskpool_sync_ids_context", "parsec_taskpool_release_resources"],
    explanation="Inductive-step contracts on the real registry functions of parsec/parsec.c. For every well-formed registry "
                "(array==NULL,size 1,pos 0; or size a power of two with exactly `size` slots, pos<size, slots in [1,pos] empty or "
                "holding the taskpool whose id is the index, slots above pos empty) of array size 1..8 (thorough ..32), with "
                "symbolic pos, slot contents and arguments, one call of each function re-establishes well-formedness and meets its "
                "postcondition taken from the property: reserve returns pos+1 (> every id handed out before), records it in the "
                "taskpool, keeps every registration and leaves the new slot empty; register(tp with a reserved id) makes lookup(id) "
                "return tp and leaves every other lookup unchanged; lookup (any 32-bit id >= 1) returns the taskpool iff registered; "
                "unregister makes lookup(id) return NULL; sync contributes pos to one in-place MPI_INT/MPI_MAX reduction on the given "
                "communicator, adopts the maximum of 1..4 processes, keeps registrations, and the next reserve returns maximum+1 on "
                "every process; release_resources returns to the initial registry. Rely/guarantee: the registry is installed into the "
                "real static variables when the function acquires taskpool_array_lock and retracted (variables poisoned with NULL / "
                "nondeterministic values) when it releases it, so any access outside the critical section, an unbalanced lock or a "
                "lowered pos fails an obligation; an interleaving of threads is then a sequence of calls (two_reserves jobs: two or "
                "three reservations from any pre-state are pairwise distinct). History length is unbounded by induction; the array "
                "size (hence the number of identifiers) is bounded, so the level is 'other'.",
    trusted_base=["MPI_Initialized / MPI_Allreduce stand-ins in the harness: the reduction returns the same MPI_MAX of the contributed "
                  "values to every process (harness checks the call shape: MPI_IN_PLACE, count 1, MPI_INT, MPI_MAX, communicator passed "
                  "through, issued while holding the lock)",
                  "CBMC's models of malloc / realloc (ARRAY_COPY of the old object) / free",
                  "rely/guarantee soundness: mutual exclusion of parsec_atomic_lock (critical sections are atomic); "
                  "PARSEC_DEBUG_VERBOSE compiled out as in the build"],
    assumptions=["register / unregister are called with a taskpool whose taskpool_id was handed out by reserve_id (1 <= id <= pos) and, "
                 "for unregister, that is currently registered (the code's own asserts); registering a taskpool with a self-chosen id is "
                 "outside the property",
                 "lookup(0) is outside the property: id 0 is never handed out, slot 0 is never initialised and lookup(0) on the "
                 "never-allocated registry dereferences NULL (observation, not checked)",
                 "parsec_taskpool_release_resources (parsec_fini) is not concurrent with the other functions; it restarts numbering at 1",
                 "identifier space bounded: array size <= 8 (quick) / 32 (thorough), synchronised maximum < 8 / 32 (uint32/int wrap-around and the "
                 "non-terminating `while (idx >= msz) msz <<= 1` for maxima >= 2^31 are not examined)"],
)

MANIFEST = dict(
    category="other",
    text="Every obligation of the pre/post contracts and of the registry invariant of the six real functions is discharged by CBMC for "
         "every well-formed pre-state with array size 1,2,4,8 (thorough: ..16,32), all positions, slot contents, identifiers (lookup: all "
         "32-bit ids >= 1) and, for sync, all maxima below the bound contributed by 1..4 processes. Unbounded in history length "
         "(inductive step + lock-scoped rely/guarantee), bounded in array size, therefore 'other' and every job is labelled bounded.",
    note="Not decided: array sizes above the bound; integer wrap-around of pos / the int casts in sync; behaviour of lookup(0); registering "
         "ids that were not reserved; MPI semantics (stubbed: same maximum everywhere) and the MPI-off sync only as 'no change'; liveness of "
         "the spin lock; concurrent environment steps are whole critical sections (mutual exclusion of the lock is assumed).",
    technique="inductive data-structure invariant + pre/post contracts on the real parsec.c, lock-scoped rely/guarantee ghost state "
              "(registry published at lock, poisoned at unlock), discharged by CBMC with complete unwinding per array size",
    design_ref="DESIGN.md section 5, C37")

FUNS = dict(reserve=["parsec_taskpool_reserve_id", "parsec_taskpool_lookup"],
            register=["parsec_taskpool_register", "parsec_taskpool_lookup"],
            lookup=["parsec_taskpool_lookup"],
            unregister=["parsec_taskpool_unregister", "parsec_taskpool_lookup"],
            sync=["parsec_taskpool_sync_ids_context", "parsec_taskpool_reserve_id", "parsec_taskpool_lookup"],
            release=["parsec_taskpool_release_resources", "parsec_taskpool_lookup", "parsec_taskpool_reserve_id"],
            two_reserves=["parsec_taskpool_reserve_id", "parsec_taskpool_lookup"])
MINOB = dict(reserve=11, register=8, lookup=4, unregister=7, sync=10, release=4, two_reserves=5)


def jobs(tier):
    full = tier == "thorough"
    maxsz = 32 if full else 8
    sizes = [1, 2, 4, 8] + ([16, 32] if full else [])
    J = []
    for sz in sizes:
        for fn in ("reserve", "register", "lookup", "unregister", "sync", "release", "two_reserves"):
            if sz == 1 and fn in ("register", "unregister"):
                continue        # precondition (an id was handed out) is unsatisfiable on the never-allocated registry
            J.append(Job("%s.sz%d" % (fn, sz), "h_tpid.c", entry="h_" + fn, defines={"SZ": sz, "MAXSZ": maxsz},
                         unwind=2 * maxsz + 3,
                         bounded="registry pre-state with taskpool_array_size == %d (pos, slot contents, ids symbolic)%s"
                                 % (sz, "; synchronised maximum of 1..4 processes < %d" % maxsz if fn == "sync" else ""),
                         functions=FUNS[fn], timeout=1200 if full else 600, mem_gb=4, min_obligations=MINOB[fn]))
    # ---- UNBOUNDED array size: loop contracts on the slot-initialisation loops of reserve_id / register
    INV = ("__CPROVER_loop_invariant(taskpool_array_size == 2 * g_old && i >= g_old && i <= 2 * g_old && "
           "(g_g < g_old || g_g >= i || taskpool_array[g_g] == NOTASKPOOL) && "
           "(g_g >= g_old || taskpool_array[g_g] == (parsec_taskpool_t*)g_oldval)) __CPROVER_decreases(2 * g_old - i)")
    for fn, entry in (("parsec_taskpool_reserve_id", "h_reserve_grow"), ("parsec_taskpool_register", "h_register_grow")):
        J.append(Job("grow.loop_contract." + fn.replace("parsec_taskpool_", ""), "h_grow_unbounded.c", entry=entry, loop_contracts=True, unwind=2,
                     overlay=[("parsec/parsec.c", [{"function": "parsec_taskpool_reserve_id", "loops": 1, "loop": 0, "text": "__CPROVER_assigns(i, __CPROVER_object_whole(taskpool_array)) " + INV},
                                                    {"function": "parsec_taskpool_register", "loops": 1, "loop": 0, "text": "__CPROVER_assigns(i, __CPROVER_object_whole(taskpool_array)) " + INV}])],
                     functions=[fn], min_obligations=5, timeout=600))
    return J
