/* C09 shared harness vocabulary (SPEC side only; nothing here paraphrases repository code).
 *
 * Pool of real parsec_task_t objects (one static object per task, LESSONS C15), abstract view of a parsec_list_t
 * (sequence of pool indexes met from ghost.list_next to the ghost element, and backwards), pre-state builders.
 *
 * Ghost state: seq[i] = scheduling sequence number of task i (position of the task in the order in which tasks were
 * handed to schedule(): earlier call < later call, and inside one call ring order).  It exists only in the harness.
 *
 * Queue invariant ("wf", DESIGN 5/C09) of a priority list:
 *      INV(S):  for adjacent a,b in S :  prio(a) > prio(b)  ||  (prio(a) == prio(b) && seq(a) < seq(b))
 * i.e. sorted non-increasing in priority, ties in scheduling order.  The empty list made by flow_init satisfies it,
 * every schedule()/select() contract below has it as pre- AND postcondition, so by induction it holds along every
 * sequence of schedule/select operations of one stream; the select postconditions (taken from the property statement)
 * follow from it.
 */
#ifndef C09_COMMON_H
#define C09_COMMON_H
#include "verif.h"
#define VERIF_RG_DEFAULT_HOOKS      /* property is stated "with no concurrent activity": no interference */
#include "verif_rg.h"
#include <stddef.h>
#include <stdint.h>
#include "parsec/parsec_config.h"
#include "parsec/parsec_internal.h"
#include "parsec/class/list.h"

#define NPOOL 8
static parsec_task_t tk0, tk1, tk2, tk3, tk4, tk5, tk6, tk7;
static parsec_task_t *const PT[NPOOL] = { &tk0, &tk1, &tk2, &tk3, &tk4, &tk5, &tk6, &tk7 };
#define ITEM(i) (&PT[i]->super)
#ifndef NUSE
#error "define NUSE (number of pool tasks alive in this harness)"
#endif
#define MAXV (NPOOL + 1)

/* index of a task address in the pool; -1 for anything else */
static int task_idx(const volatile void *p)
{
    for (int i = 0; i < NUSE; i++) if (p == (const volatile void *)PT[i]) return i;
    return -1;
}

/* list l = tasks lo .. lo+n-1 in pool order */
static void build_list(parsec_list_t *l, int lo, int n)
{
    l->ghost_element.list_next = n ? ITEM(lo) : &l->ghost_element;
    l->ghost_element.list_prev = n ? ITEM(lo + n - 1) : &l->ghost_element;
    l->atomic_lock = 0;   /* unlocked, as parsec_list_construct leaves it */
    for (int i = 0; i < n; i++) {
        ITEM(lo + i)->list_next = (i + 1 < n) ? ITEM(lo + i + 1) : &l->ghost_element;
        ITEM(lo + i)->list_prev = (i > 0) ? ITEM(lo + i - 1) : &l->ghost_element;
    }
}
/* ring = tasks lo .. lo+k-1 in pool order (= ring order), k >= 1 */
static void build_ring(int lo, int k)
{
    for (int i = 0; i < k; i++) {
        ITEM(lo + i)->list_next = ITEM(lo + (i + 1 < k ? i + 1 : 0));
        ITEM(lo + i)->list_prev = ITEM(lo + (i > 0 ? i - 1 : k - 1));
    }
}

/* forward / backward walk of list l: returns the length, -1 if the walk leaves the pool, -2 if the ghost element is
 * not reached within NUSE+1 steps */
static int walk_list(parsec_list_t *l, int fwd, int *out)
{
    const volatile parsec_list_item_t *cur = fwd ? l->ghost_element.list_next : l->ghost_element.list_prev;
    int len = 0;
    for (int k = 0; k <= NUSE; k++) {
        if (cur == &l->ghost_element) return len;
        int i = task_idx((const volatile void *)cur);
        if (i < 0) return -1;
        out[len++] = i;
        cur = fwd ? PT[i]->super.list_next : PT[i]->super.list_prev;
    }
    return -2;
}

/* view of one list */
typedef struct { int f[MAXV], b[MAXV], lf, lb, pos[NPOOL]; } view_t;
static void view_of(parsec_list_t *l, view_t *v)
{
    v->lf = walk_list(l, 1, v->f);
    v->lb = walk_list(l, 0, v->b);
    for (int i = 0; i < NPOOL; i++) v->pos[i] = -1;
    for (int j = 0; j < MAXV; j++) if (j < v->lf && v->f[j] >= 0 && v->f[j] < NPOOL) v->pos[v->f[j]] = j;
}

/* the order "a is served before b" of the absolute-priority rule: higher priority first, ties in scheduling order */
#define BEFORE(a, b) (vin.prio[a] > vin.prio[b] || (vin.prio[a] == vin.prio[b] && vin.seq[a] < vin.seq[b]))

/* PRE: tasks lo..hi-1 (a list laid out in pool order) satisfy INV; sequence numbers pairwise distinct */
#define PRE_INV(lo, hi) do { for (int i_ = (lo); i_ + 1 < (hi); i_++) V_ASSUME(BEFORE(i_, i_ + 1)); } while (0)
/* PRE: ring tasks lo..hi-1 are scheduled now: after every task 0..nold-1 already handed over, and in ring order */
#define PRE_RING_SEQ(nold, lo, hi) do { \
    for (int i_ = (lo); i_ < (hi); i_++) { \
        for (int o_ = 0; o_ < (nold); o_++) V_ASSUME(vin.seq[o_] < vin.seq[i_]); \
        if (i_ + 1 < (hi)) V_ASSUME(vin.seq[i_] < vin.seq[i_ + 1]); } } while (0)

/* POST: list view v is well formed with m elements (both walks close on the ghost, mirror images) */
#define POST_WF(FN, v, m) do { \
    V_ASSERT((v).lf == (m), "C09." FN ".post.wf_forward_walk_closes_with_expected_length"); \
    V_ASSERT((v).lb == (m), "C09." FN ".post.wf_backward_walk_closes_with_expected_length"); \
    for (int j_ = 0; j_ < (m); j_++) \
        V_ASSERT((v).b[(m) - 1 - j_] == (v).f[j_], "C09." FN ".post.wf_next_prev_mutually_consistent"); } while (0)
/* POST: INV on the view, stated as its two halves */
#define POST_INV(FN, v, m) do { for (int j_ = 0; j_ + 1 < (m); j_++) { \
        V_ASSERT(vin.prio[(v).f[j_]] >= vin.prio[(v).f[j_ + 1]], "C09." FN ".inv.sorted_non_increasing_priority"); \
        V_ASSERT(V_IMPLIES(vin.prio[(v).f[j_]] == vin.prio[(v).f[j_ + 1]], vin.seq[(v).f[j_]] < vin.seq[(v).f[j_ + 1]]), \
                 "C09." FN ".inv.equal_priorities_in_scheduling_order"); } } while (0)
/* POST: tasks lo..hi-1 all occur in the view (with length hi-lo: exactly once and nothing else) */
#define POST_HAS(FN, v, i) V_ASSERT((v).pos[i] >= 0, "C09." FN ".post.permutation_every_pending_task_present_once")
/* POST frame: priorities are not written */
#define POST_FRAME(FN) do { for (int i_ = 0; i_ < NUSE; i_++) \
    V_ASSERT(PT[i_]->priority == vin.prio[i_], "C09." FN ".post.frame_priorities_not_written"); } while (0)
#endif
