/* C09 - absolute-priority (ap) and inverse-priority (ip) schedulers: contracts on the REAL static module functions
 * sched_ap_schedule / sched_ap_select / flow_ap_init (parsec/mca/sched/ap/sched_ap_module.c) and
 * sched_ip_schedule / sched_ip_select / flow_ip_init (parsec/mca/sched/ip/sched_ip_module.c), module file included
 * verbatim (-DSCHED_IP selects ip), together with the static-inline list code of parsec/class/list.h they call
 * (parsec_list_chain_sorted -> parsec_list_nolock_chain_sorted, parsec_list_chain_back, parsec_list_pop_front/_back).
 * Route: harness (assume pre-state, call the real function, assert post-state).
 *
 * State of one scheduler = the parsec_list_t in es->scheduler_object (PARSEC_PAPI_SDE is off in /repo/_build, so
 * parsec_mca_sched_list_local_counter_t IS parsec_list_t).  S = its view (c09_common.h), INV as in c09_common.h.
 *
 *  flow_X_init(es, barrier)      ensures stream 0 owns a fresh EMPTY well-formed unlocked list (INV holds trivially), every
 *                                other stream of the VP shares that same list; returns PARSEC_SUCCESS
 *  sched_X_schedule(es, R, d)    requires wf(S), INV(S), R a ring of K >= 1 tasks not in S, scheduled now (ghost seq larger
 *                                than every earlier one, increasing in ring order); ANY distance d for both modules
 *                                (the property quantifies over all schedule(ring, distance) calls)
 *                                ensures  wf, View is a permutation of S + R, INV(View), priorities not written,
 *                                list lock released, returns PARSEC_SUCCESS
 *  sched_ap_select(es, &d)       requires wf(S), INV(S)
 *                                ensures  S empty: returns NULL; else returns the task r with BEFORE(r, t) for every other
 *                                pending t (highest priority, ties: earliest scheduled); View = S minus r in the same order
 *                                (hence INV kept); *d == 0; lock released
 *  sched_ip_select(es, &d)       same, with: prio(r) <= prio(t) for every pending t (lowest first)
 *
 * Shape bounded: list length N and ring length K are fixed per cbmc process; priorities, sequence numbers and the
 * distance are fully symbolic.
 */
#ifndef N
#define N 3
#endif
#ifndef K
#define K 2
#endif
#define NUSE (N + K)
#include "c09_common.h"
#include "parsec/class/barrier.h"

/* ---- stubs (trusted base) ---- */
/* flow_X_init synchronises the streams of a VP with a barrier; the harness runs the streams one after the other
 * (stream 0 first), which is one of the orders the barrier allows: the barrier itself is a no-op */
static int g_barrier_calls;
int parsec_barrier_wait(parsec_barrier_t *b) { (void)b; g_barrier_calls++; return 0; }

#include "parsec/class/parsec_object.c"
#include "parsec/class/parsec_list.c"
#ifdef SCHED_IP
#include "parsec/mca/sched/ip/sched_ip_module.c"
#define SCHEDULE sched_ip_schedule
#define SELECT   sched_ip_select
#define FLOWINIT flow_ip_init
#define SCHED_FN "sched_ip_schedule"
#define SEL_FN   "sched_ip_select"
#define INIT_FN  "flow_ip_init"
#else
#include "parsec/mca/sched/ap/sched_ap_module.c"
#define SCHEDULE sched_ap_schedule
#define SELECT   sched_ap_select
#define FLOWINIT flow_ap_init
#define SCHED_FN "sched_ap_schedule"
#define SEL_FN   "sched_ap_select"
#define INIT_FN  "flow_ap_init"
#endif

struct vin {
    int32_t  prio[NPOOL];      /* task priorities                       */
    uint16_t seq[NPOOL];       /* ghost: scheduling sequence numbers    */
    int32_t  distance;         /* distance argument of schedule()       */
    int32_t  distance2;        /* second schedule() of h_sequence       */
    int32_t  dist_out0;        /* initial content of *distance (select) */
} vin;
#include "verif_vin.h"

static parsec_list_t L;
static parsec_execution_stream_t es;
static parsec_vp_t vp1;

static void set_prios(void)
{
    for (int i = 0; i < NUSE; i++) PT[i]->priority = vin.prio[i];
}
static void set_stream(void)
{
    es.virtual_process = &vp1; es.th_id = 0;
    vp1.nb_cores = 1; vp1.execution_streams[0] = &es;
    es.scheduler_object = &L;      /* as flow_X_init leaves it (h_flow_init), pre-state filled in by build_list */
}

/* the distance domain of a job: ALL (default), only 0 (-DDIST_ZERO), only != 0 (-DDIST_NONZERO) */
static void pre_distance(int32_t d)
{
#if defined(DIST_ZERO)
    V_ASSUME(d == 0);
#elif defined(DIST_NONZERO)
    V_ASSUME(d != 0);
#else
    (void)d;
#endif
}

/* ------------------------------------------------------------------ */
void h_schedule(void)
{
    vin_load();
    set_prios(); set_stream();
    build_list(&L, 0, N);
    PRE_INV(0, N);
    build_ring(N, K);
    PRE_RING_SEQ(N, N, N + K);
    pre_distance(vin.distance);

    int rc = SCHEDULE(&es, PT[N], vin.distance);

    view_t v; view_of(&L, &v);
    V_ASSERT(rc == PARSEC_SUCCESS, "C09." SCHED_FN ".post.returns_success");
    POST_WF(SCHED_FN, v, N + K);
    for (int i = 0; i < N + K; i++) POST_HAS(SCHED_FN, v, i);
    POST_INV(SCHED_FN, v, N + K);
    POST_FRAME(SCHED_FN);
    V_ASSERT(L.atomic_lock == 0, "C09." SCHED_FN ".post.list_lock_released");
    V_ASSERT(es.scheduler_object == (void *)&L, "C09." SCHED_FN ".post.frame_scheduler_object_kept");
    V_CANARY("schedule");
}

/* ------------------------------------------------------------------ */
void h_select(void)
{
    vin_load();
    set_prios(); set_stream();
    build_list(&L, 0, N);
    PRE_INV(0, N);
    int32_t dist = vin.dist_out0;

    parsec_task_t *t = SELECT(&es, &dist);

    view_t v; view_of(&L, &v);
    int r = task_idx(t);
#if N == 0
    V_ASSERT(t == NULL, "C09." SEL_FN ".post.empty_queue_gives_NULL");
#else
    V_ASSERT(r >= 0 && r < N, "C09." SEL_FN ".post.returns_a_pending_task");
    for (int o = 0; o < N; o++) {
#ifdef SCHED_IP
        V_ASSERT(V_IMPLIES(r >= 0, vin.prio[r] <= vin.prio[o]), "C09." SEL_FN ".post.returns_lowest_priority_pending_task");
#else
        V_ASSERT(V_IMPLIES(r >= 0, vin.prio[r] >= vin.prio[o]), "C09." SEL_FN ".post.returns_highest_priority_pending_task");
        V_ASSERT(V_IMPLIES(r >= 0 && o != r && vin.prio[r] == vin.prio[o], vin.seq[r] < vin.seq[o]),
                 "C09." SEL_FN ".post.ties_served_in_scheduling_order");
#endif
    }
    V_ASSERT(v.pos[r >= 0 ? r : 0] < 0, "C09." SEL_FN ".post.selected_task_removed_from_queue");
#endif
    POST_WF(SEL_FN, v, N ? N - 1 : 0);
    for (int o = 0; o < N; o++) if (o != r) POST_HAS(SEL_FN, v, o);
    for (int a = 0; a < N; a++) for (int b = a + 1; b < N; b++)
        V_ASSERT(V_IMPLIES(a != r && b != r, v.pos[a] < v.pos[b]), "C09." SEL_FN ".post.remaining_tasks_keep_their_order");
    POST_INV(SEL_FN, v, N ? N - 1 : 0);
    V_ASSERT(dist == 0, "C09." SEL_FN ".post.reports_distance_0");
    POST_FRAME(SEL_FN);
    V_ASSERT(L.atomic_lock == 0, "C09." SEL_FN ".post.list_lock_released");
    V_CANARY("select");
}

/* ------------------------------------------------------------------ */
/* flow_X_init on one VP with two streams, run one after the other (stream 0 first) */
void h_flow_init(void)
{
    vin_load();
    static parsec_execution_stream_t es0, es1;
    static parsec_barrier_t bar;
    /* flow_X_init reads only execution_streams[0] of the VP (the trailing array is over-allocated by the runtime for
     * the other streams; slot 1 is never accessed by the functions under contract) */
    static parsec_vp_t vp2; parsec_vp_t *vp = &vp2;
    vp->nb_cores = 2; vp->vp_id = 0;
    vp->execution_streams[0] = &es0;
    es0.virtual_process = vp; es0.th_id = 0; es0.scheduler_object = NULL;
    es1.virtual_process = vp; es1.th_id = 1; es1.scheduler_object = NULL;

    int rc0 = FLOWINIT(&es0, (struct parsec_barrier_t *)&bar);
    int rc1 = FLOWINIT(&es1, (struct parsec_barrier_t *)&bar);

    parsec_list_t *l = (parsec_list_t *)es0.scheduler_object;
    V_ASSERT(rc0 == PARSEC_SUCCESS && rc1 == PARSEC_SUCCESS, "C09." INIT_FN ".post.returns_success");
    V_ASSERT(l != NULL, "C09." INIT_FN ".post.stream0_owns_a_queue");
    V_ASSERT(es1.scheduler_object == (void *)l, "C09." INIT_FN ".post.streams_of_a_vp_share_one_queue");
    V_ASSERT(l->ghost_element.list_next == &l->ghost_element && l->ghost_element.list_prev == &l->ghost_element,
             "C09." INIT_FN ".post.queue_initially_empty_and_well_formed");
    V_ASSERT(l->atomic_lock == 0, "C09." INIT_FN ".post.queue_lock_initially_free");
    V_ASSERT(g_barrier_calls == 2, "C09." INIT_FN ".post.each_stream_passes_the_barrier_once");
    /* the queue is usable: one schedule + select round trip on the real object */
    PT[0]->priority = vin.prio[0];
    build_ring(0, 1);
    SCHEDULE(&es1, PT[0], 0);
    int32_t d = vin.dist_out0;
    parsec_task_t *t = SELECT(&es0, &d);
    V_ASSERT(t == PT[0], "C09." INIT_FN ".post.task_scheduled_on_one_stream_is_selected_by_the_other");
    V_CANARY("flow_init");
}

/* ------------------------------------------------------------------ */
/* composition witness, from the property text: two schedule calls of one task each, then two selects, starting
 * from the empty queue.  Task 0 is scheduled first (seq 0), task 1 second (seq 1). */
void h_sequence(void)
{
    vin_load();
    set_stream();
    PT[0]->priority = vin.prio[0]; PT[1]->priority = vin.prio[1];
    build_list(&L, 0, 0);
    pre_distance(vin.distance); pre_distance(vin.distance2);
    build_ring(0, 1); SCHEDULE(&es, PT[0], vin.distance);
    build_ring(1, 1); SCHEDULE(&es, PT[1], vin.distance2);
    int32_t d = vin.dist_out0;
    parsec_task_t *a = SELECT(&es, &d);
    parsec_task_t *b = SELECT(&es, &d);
    parsec_task_t *c = SELECT(&es, &d);
#ifdef SCHED_IP
    int first = (vin.prio[0] < vin.prio[1]) ? 0 : (vin.prio[1] < vin.prio[0]) ? 1 : -1;   /* ties: not specified */
    V_ASSERT(V_IMPLIES(first >= 0, a == PT[first >= 0 ? first : 0]), "C09.sequence.ip.lowest_priority_task_selected_first");
    V_ASSERT((a == PT[0] && b == PT[1]) || (a == PT[1] && b == PT[0]), "C09.sequence.ip.both_tasks_selected_exactly_once");
#else
    int first = (vin.prio[0] >= vin.prio[1]) ? 0 : 1;                                     /* ties: scheduled first */
    V_ASSERT(a == PT[first], "C09.sequence.ap.highest_priority_task_selected_first_ties_in_scheduling_order");
    V_ASSERT(b == PT[1 - first], "C09.sequence.ap.other_task_selected_second");
#endif
    V_ASSERT(c == NULL, "C09.sequence.queue_empty_after_two_selects");
    V_CANARY("sequence");
}
