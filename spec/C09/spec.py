from vlib import Job

AP = ["sched_ap_schedule", "sched_ap_select", "flow_ap_init"]
IP = ["sched_ip_schedule", "sched_ip_select", "flow_ip_init"]
SPQ = ["sched_spq_schedule", "sched_spq_select", "flow_spq_init"]
LISTFN = ["parsec_list_chain_sorted", "parsec_list_nolock_chain_sorted", "parsec_list_chain_back", "parsec_list_pop_front",
          "parsec_list_pop_back", "parsec_list_nolock_pop_front", "parsec_list_nolock_pop_back", "parsec_list_nolock_add_before",
          "parsec_list_item_ring_chop", "parsec_list_lock", "parsec_list_unlock"]
US = {"expand_array.0": 11}   # class table growth loop of parsec_object.c


def shapes(maxd, total):
    """all (n0,..) with at most maxd distance lists and at most `total` queued tasks"""
    out = [()]
    for d in range(1, maxd + 1):
        def rec(pref, left, k):
            if k == 0:
                out.append(tuple(pref)); return
            for n in range(left + 1):
                rec(pref + [n], left - n, k - 1)
        rec([], total, d)
    return out


def jobs(tier):
    full = tier == "thorough"
    J = []

    def b(n, k=None):
        return "queue length fixed to %d%s per process (shape bounded; priorities, sequence numbers, distance symbolic)" % (
            n, "" if k is None else ", ring length %d" % k)
    if full:
        NK = [(n, k) for n in range(6) for k in (1, 2, 3)]
        NSEL = range(6)
    else:   # quick: list <= 3, ring <= 2 (a subset of the grid; the thorough tier enumerates it completely up to 5 + 3)
        NK = [(0, 1), (0, 2), (1, 1), (3, 1), (3, 2)]
        NSEL = (0, 1, 3)
    for mod, fns in (("ap", AP), ("ip", IP)):
        d0 = {"SCHED_IP": None} if mod == "ip" else {}
        sfx = ".d0" if mod == "ip" else ""
        for n, k in NK:
            d = dict(d0, N=n, K=k)
            if mod == "ip":
                d["DIST_ZERO"] = None      # distance != 0: see the defect.ip_distance jobs
            J.append(Job("%s.schedule%s.n%d.k%d" % (mod, sfx, n, k), "h_apip.c", entry="h_schedule",
                         defines=d, unwind=12, bounded=b(n, k), min_obligations=8, timeout=900,
                         functions=[fns[0], "parsec_list_chain_sorted", "parsec_list_nolock_chain_sorted"]))
        for n in NSEL:
            J.append(Job("%s.select.n%d" % (mod, n), "h_apip.c", entry="h_select", defines=dict(d0, N=n, K=1), unwind=12,
                         bounded=b(n), min_obligations=6, timeout=300,
                         functions=[fns[1], "parsec_list_pop_back" if mod == "ip" else "parsec_list_pop_front"]))
        J.append(Job("%s.flow_init" % mod, "h_apip.c", entry="h_flow_init", defines=dict(d0, N=1, K=1), unwind=4, unwindset=US,
                     min_obligations=7, timeout=300, functions=[fns[2]]))
        ds = dict(d0, N=1, K=1)
        if mod == "ip":
            ds["DIST_ZERO"] = None
        J.append(Job("%s.sequence%s" % (mod, sfx), "h_apip.c", entry="h_sequence", defines=ds, unwind=5,
                     bounded="one sequence shape: schedule{1};schedule{1};select;select;select (composition witness only)",
                     min_obligations=3, timeout=300, functions=fns[:2]))
    # ---- the property text for ip with distance != 0: FAILS on the unchanged tree (chain_back), isolated here
    J.append(Job("defect.ip_distance.schedule.n1.k1", "h_apip.c", entry="h_schedule",
                 defines={"SCHED_IP": None, "N": 1, "K": 1, "DIST_NONZERO": None}, unwind=12, bounded=b(1, 1),
                 min_obligations=8, timeout=300, functions=["sched_ip_schedule", "parsec_list_chain_back"]))
    J.append(Job("defect.ip_distance.sequence", "h_apip.c", entry="h_sequence",
                 defines={"SCHED_IP": None, "N": 1, "K": 1}, unwind=5,
                 bounded="one sequence shape: schedule{1},d1;schedule{1},d2;select;select;select with any distances",
                 min_obligations=3, timeout=300, functions=IP[:2]))
    # ---- spq
    if full:
        # path-wise exploration of sched_spq_schedule grows quickly with the shape (3 lists of 1 task + ring 1: ~5 min loaded)
        SCH = [(s, 1) for s in shapes(2, 3)] + [(s, 2) for s in shapes(2, 1)] + [((2,), 2), ((1, 1, 1), 1)]
        SEL = shapes(2, 5) + [(1, 1, 1), (0, 0, 2), (0, 2, 1), (0, 0, 0)]
    else:
        SCH = [((), 1), ((), 2), ((1,), 1), ((2,), 2), ((1, 1), 1), ((0, 2), 1)]
        SEL = [(), (0,), (3,), (1, 1), (0, 2), (2, 1)]

    def sd(s, k):
        d = {"D": len(s), "K": k}
        for i in range(3):
            d["N%d" % i] = s[i] if i < len(s) else 0
        return d

    def sb(s, k=None):
        return "%d distance lists of lengths %s%s fixed per process (shape bounded; distances, priorities, sequence numbers symbolic)" % (
            len(s), list(s), "" if k is None else ", ring length %d" % k)
    for s, k in SCH:
        J.append(Job("spq.schedule.s%s.k%d" % ("_".join(map(str, s)) or "none", k), "h_spq.c", entry="h_schedule", defines=sd(s, k),
                     unwind=12, unwindset=US, paths="lifo", bounded=sb(s, k), min_obligations=12, timeout=900,
                     functions=["sched_spq_schedule", "parsec_list_chain_sorted", "parsec_list_nolock_chain_sorted"]))
    for s in SEL:
        J.append(Job("spq.select.s%s" % ("_".join(map(str, s)) or "none"), "h_spq.c", entry="h_select", defines=sd(s, 1),
                     unwind=12, unwindset=US, bounded=sb(s), min_obligations=8, timeout=300,
                     functions=["sched_spq_select", "parsec_list_pop_front"]))
    J.append(Job("spq.flow_init_sequence", "h_spq.c", entry="h_init_sequence", defines=sd((), 2), unwind=12, unwindset=US,
                 paths="lifo",
                 bounded="flow_spq_init is complete; the sequence after it is one shape: schedule{1},d1;schedule{1},d2;select x3 (composition witness)",
                 min_obligations=10, timeout=600, functions=["flow_spq_init", "sched_spq_schedule", "sched_spq_select"]))
    return J


META = dict(
    level="other",
    functions=AP + IP + SPQ + LISTFN,
    explanation="Pre/post contracts (route harness: assume the pre-state, call the REAL function, assert the post-state) on the static "
                "module functions of sched/ap, sched/ip and sched/spq (module .c files included verbatim, with the static-inline list code "
                "of parsec/class/list.h they call: chain_sorted, chain_back, pop_front/back, add_before, ring_chop). Ghost state: a scheduling "
                "sequence number per task. Queue invariant INV: priority non-increasing from head to tail, equal priorities in scheduling "
                "order (spq: outer list strictly increasing in distance, every inner list satisfies INV). INV holds for the empty queue made by "
                "flow_*_init (checked on the real object system), is pre- and postcondition of every schedule()/select() contract, hence holds "
                "along every single-stream sequence of operations by induction; the select postconditions are the property statement: ap returns "
                "the pending task with the highest priority, ties earliest scheduled; ip returns a pending task of lowest priority; spq returns a "
                "task of the smallest pending distance, within it highest priority, ties earliest scheduled, and reports that distance. "
                "Pointer shapes (queue length, ring length, number and lengths of distance lists) are fixed per cbmc process and enumerated; "
                "priorities (all int32), sequence numbers and distances (all int32) are symbolic. A composition witness (two schedules, three "
                "selects from the empty queue) is checked end to end per module.",
    trusted_base=["parsec_barrier_wait stubbed as a no-op: the streams of the VP run flow_*_init one after the other, stream 0 first (one "
                  "of the orders the barrier allows)",
                  "es / vp structures built by hand: one VP; for schedule/select jobs es->scheduler_object points to a static list whose "
                  "pre-state is written by the harness (flow_*_init itself is checked separately in the flow_init jobs)",
                  "induction over the operation sequence (INV is pre- and postcondition of each operation) is a paper argument",
                  "cbmc --paths lifo (path-wise symbolic execution) for the spq schedule jobs"],
    assumptions=["no concurrent activity (the property's own hypothesis): lock operations never block, no interference hooks",
                 "tasks handed to schedule() form a well-formed ring of tasks that are not already pending",
                 "build configuration of /repo/_build: PARSEC_PAPI_SDE off (list_local_counter_t is parsec_list_t), NDEBUG"],
)

MANIFEST = dict(
    category="other",
    text="Contracts on the real sched_ap/ip/spq schedule, select and flow_init functions (and the sorted list insertion they call) are "
         "discharged by CBMC for all int priorities, distances and tie patterns, with queue invariant 'priority non-increasing, ties in "
         "scheduling order' (spq: per distance list, distances strictly increasing) as inductive invariant; select postconditions are the "
         "property statement. Level 'other' (bounded): queue and ring lengths are enumerated per process (quick: queue <= 3 + ring <= 2, "
         "spq <= 2 distance lists and <= 3 queued; thorough: ap/ip complete grid up to 5 + 3, spq select up to 5 queued in <= 2 (some 3) distance lists, spq schedule up to 3 queued + ring 1 / 1 queued + ring 2 in <= 2 lists and one 3-list shape), not proved for unbounded lists.",
    note="NOT decided: lists longer than the enumerated shapes; concurrent use; ip with distance != 0 is a KNOWN FAILURE of the property text "
         "(sched_ip_schedule appends with chain_back, select then returns that task regardless of priority; jobs defect.ip_distance.*); "
         "tie order of ip (property does not state one); PARSEC_PAPI_SDE builds; the step from per-operation contracts to all sequences is an "
         "induction argument outside the tool (a 2-schedule/3-select composition witness is checked).",
    technique="function contracts + ghost sequence numbers on the real scheduler modules and list.h, discharged by CBMC (SAT), shape-bounded "
              "pointer structures enumerated one cbmc process per shape",
    design_ref="DESIGN.md section 5, C09")
