/* C09 - single-priority-queue scheduler with distances (spq): contracts on the REAL static functions sched_spq_schedule,
 * sched_spq_select and flow_spq_init of parsec/mca/sched/spq/sched_spq_module.c (included verbatim), together with the
 * list code of parsec/class/list.h and the object system (parsec_object.c, parsec_list.c) they call.
 * Route: harness (assume pre-state, call the real function, assert post-state).
 *
 * State: es->scheduler_object = outer list Q of "distance lists" (parsec_spq_priority_list_t: prio = distance, tasks =
 * list of tasks pending at that distance).  dist(t) = prio of the distance list holding t.
 *   wf(Q):  Q is a well-formed list, the distances of its elements are STRICTLY increasing from head to tail, every inner
 *           list is well formed and satisfies INV (c09_common.h: priority non-increasing, ties in scheduling order);
 *           inner lists may be empty (select never removes a distance list).
 *  flow_spq_init            ensures  stream 0 owns a fresh empty unlocked Q, the other streams share it
 *  sched_spq_schedule(es, R, d)   any int d
 *     requires wf(Q), R ring of K >= 1 tasks not pending, scheduled now (ghost seq)
 *     ensures  wf(Q'); exactly one distance list has prio == d: the existing one if there was one (then Q' has the same
 *              elements), else a new one inserted so that distances stay strictly increasing; the old distance lists keep
 *              their relative order and their prio; the tasks of that list are a permutation of old + R satisfying INV;
 *              every other distance list has exactly the tasks it had, same order; priorities not written; all locks
 *              released; returns PARSEC_SUCCESS
 *  sched_spq_select(es, &d)
 *     requires wf(Q)
 *     ensures  nothing pending: NULL.  Otherwise returns the pending task r such that for every other pending t:
 *              dist(r) < dist(t), or dist(r) == dist(t) and r has higher priority / equal priority and was scheduled
 *              earlier [property: "highest-priority first, ties in scheduling order; tasks at a larger distance are not
 *              selected before tasks pending at a smaller distance"]; *d == dist(r); r's list = old minus r, same order;
 *              all other lists and Q itself unchanged; locks released.
 *
 * Shape bounded: number of distance lists D (<= 3), their lengths N0,N1,N2 and the ring length K are fixed per cbmc
 * process; distances, priorities, sequence numbers symbolic.
 */
#ifndef D
#define D 2
#endif
#ifndef N0
#define N0 1
#endif
#ifndef N1
#define N1 1
#endif
#ifndef N2
#define N2 0
#endif
#ifndef K
#define K 1
#endif
#define NT (N0 + N1 + N2)
#define NUSE (NT + K)
#include "c09_common.h"
#include "parsec/class/barrier.h"

static int g_barrier_calls;
int parsec_barrier_wait(parsec_barrier_t *b) { (void)b; g_barrier_calls++; return 0; }

#include "parsec/class/parsec_object.c"
#include "parsec/class/parsec_list.c"
#include "parsec/mca/sched/spq/sched_spq_module.c"

struct vin {
    int32_t  prio[NPOOL];      /* task priorities                         */
    uint16_t seq[NPOOL];       /* ghost: scheduling sequence numbers      */
    int32_t  dprio[3];         /* distances of the existing distance lists */
    int32_t  distance;         /* distance argument of schedule()         */
    int32_t  distance2;
    int32_t  dist_out0;        /* initial content of *distance (select)   */
} vin;
#include "verif_vin.h"

#define MAXD 3
static parsec_list_with_size_t Q;
static parsec_spq_priority_list_t pl0, pl1, pl2;
static parsec_spq_priority_list_t *const PL[MAXD] = { &pl0, &pl1, &pl2 };
static const int LO[MAXD + 1] = { 0, N0, N0 + N1, N0 + N1 + N2 };
static const int LEN[MAXD] = { N0, N1, N2 };
static parsec_execution_stream_t es;
static parsec_vp_t vp1;

static void pre_state(void)
{
    for (int i = 0; i < NUSE; i++) PT[i]->priority = vin.prio[i];
    es.virtual_process = &vp1; es.th_id = 0; vp1.nb_cores = 1; vp1.execution_streams[0] = &es;
    es.scheduler_object = &Q;
    Q.super.atomic_lock = 0;
    Q.super.ghost_element.list_next = D ? &PL[0]->super : &Q.super.ghost_element;
    Q.super.ghost_element.list_prev = D ? &PL[D - 1]->super : &Q.super.ghost_element;
    for (int d = 0; d < D; d++) {
        PL[d]->super.list_next = (d + 1 < D) ? &PL[d + 1]->super : &Q.super.ghost_element;
        PL[d]->super.list_prev = (d > 0) ? &PL[d - 1]->super : &Q.super.ghost_element;
        PL[d]->prio = vin.dprio[d];
        if (d + 1 < D) V_ASSUME(vin.dprio[d] < vin.dprio[d + 1]);       /* wf: strictly increasing distances */
        build_list(&PL[d]->tasks, LO[d], LEN[d]);
        PRE_INV(LO[d], LO[d + 1]);                                      /* wf: INV of each inner list        */
    }
}

/* view of the outer list: ids 0..D-1 = the pre-existing distance lists, id D = one new object (g_new) */
static parsec_spq_priority_list_t *g_new;
static int g_of[MAXD + 2], g_ob[MAXD + 2], g_olf, g_olb, g_opos[MAXD + 1];
static int plist_id(const volatile parsec_list_item_t *p)
{
    for (int d = 0; d < D; d++) if (p == &PL[d]->super) return d;
    if (g_new == NULL && p != NULL && p != &Q.super.ghost_element) g_new = (parsec_spq_priority_list_t *)p;
    if (g_new != NULL && p == &g_new->super) return D;
    return -1;
}
static int walk_outer(int fwd, int *out)
{
    const volatile parsec_list_item_t *cur = fwd ? Q.super.ghost_element.list_next : Q.super.ghost_element.list_prev;
    int len = 0;
    for (int k = 0; k <= D + 1; k++) {
        if (cur == &Q.super.ghost_element) return len;
        int i = plist_id(cur);
        if (i < 0) return -1;
        out[len++] = i;
        const parsec_spq_priority_list_t *pl = (i < D) ? PL[i] : g_new;
        cur = fwd ? pl->super.list_next : pl->super.list_prev;
    }
    return -2;
}
static void view_outer(void)
{
    g_new = NULL;
    g_olf = walk_outer(1, g_of); g_olb = walk_outer(0, g_ob);
    for (int i = 0; i <= MAXD; i++) g_opos[i] = -1;
    for (int j = 0; j < MAXD + 2; j++) if (j < g_olf && g_of[j] >= 0 && g_of[j] <= D) g_opos[g_of[j]] = j;
}
#define PLIST(id) ((id) < D ? PL[(id) < D ? (id) : 0] : g_new)

/* inner list `l` still holds exactly tasks lo..hi-1 in pool order (= unchanged) */
#define POST_INNER_UNCHANGED(FN, l, lo, hi) do { view_t u_; view_of((l), &u_); \
    V_ASSERT(u_.lf == (hi) - (lo) && u_.lb == (hi) - (lo), "C09." FN ".post.other_distance_lists_keep_their_tasks"); \
    for (int j_ = 0; j_ < (hi) - (lo); j_++) \
        V_ASSERT(u_.f[j_] == (lo) + j_ && u_.b[(hi) - (lo) - 1 - j_] == (lo) + j_, "C09." FN ".post.other_distance_lists_keep_their_tasks"); \
    V_ASSERT((l)->atomic_lock == 0, "C09." FN ".post.inner_list_lock_released"); } while (0)

/* ------------------------------------------------------------------ */
void h_schedule(void)
{
    vin_load();
    pre_state();
    build_ring(NT, K);
    PRE_RING_SEQ(NT, NT, NT + K);

    int rc = sched_spq_schedule(&es, PT[NT], vin.distance);

    V_ASSERT(rc == PARSEC_SUCCESS, "C09.sched_spq_schedule.post.returns_success");
    /* which list must receive the ring: the existing one with that distance, else a new one */
    int hit = -1, smaller = 0;
    for (int d = 0; d < D; d++) { if (vin.dprio[d] == vin.distance) hit = d; if (vin.dprio[d] < vin.distance) smaller++; }
    int m = (hit >= 0) ? D : D + 1;
    view_outer();
    V_ASSERT(g_olf == m, "C09.sched_spq_schedule.post.wf_outer_forward_walk_closes_new_list_only_for_new_distance");
    V_ASSERT(g_olb == m, "C09.sched_spq_schedule.post.wf_outer_backward_walk_closes_new_list_only_for_new_distance");
    for (int j = 0; j < MAXD + 1; j++) if (j < m)
        V_ASSERT(g_ob[m - 1 - j] == g_of[j], "C09.sched_spq_schedule.post.wf_outer_next_prev_mutually_consistent");
    for (int d = 0; d < D; d++) {
        V_ASSERT(g_opos[d] >= 0, "C09.sched_spq_schedule.post.existing_distance_lists_kept");
        V_ASSERT(PL[d]->prio == vin.dprio[d], "C09.sched_spq_schedule.post.frame_distances_of_existing_lists_not_written");
        if (d + 1 < D) V_ASSERT(g_opos[d] < g_opos[d + 1], "C09.sched_spq_schedule.post.existing_distance_lists_keep_order");
    }
    if (hit < 0) {
        V_ASSERT(g_opos[D] == smaller, "C09.sched_spq_schedule.post.new_distance_list_inserted_after_all_smaller_distances");
        V_ASSERT(g_new != NULL && g_new->prio == vin.distance, "C09.sched_spq_schedule.post.new_distance_list_carries_the_distance");
    }
    for (int j = 0; j + 1 < MAXD + 1; j++) if (j + 1 < m && g_olf == m)
        V_ASSERT(PLIST(g_of[j])->prio < PLIST(g_of[j + 1])->prio, "C09.sched_spq_schedule.inv.distances_strictly_increasing");
    /* inner lists */
    for (int d = 0; d < D; d++) if (d != hit) POST_INNER_UNCHANGED("sched_spq_schedule", &PL[d]->tasks, LO[d], LO[d + 1]);
    {
        int tgt = (hit >= 0) ? hit : D;
        int nold = (hit >= 0) ? LEN[hit >= 0 ? hit : 0] : 0;
        parsec_spq_priority_list_t *pl = PLIST(tgt);
        V_ASSERT(pl != NULL, "C09.sched_spq_schedule.post.target_distance_list_exists");
        if (pl != NULL) {
            view_t v; view_of(&pl->tasks, &v);
            /* length is per-process constant only when hit is known: enumerate */
            for (int h = -1; h < D; h++) if (h == hit) {
                int mm = (h >= 0 ? LEN[h >= 0 ? h : 0] : 0) + K;
                POST_WF("sched_spq_schedule", v, mm);
                for (int i = 0; i < NT; i++) if (h >= 0 && i >= LO[h >= 0 ? h : 0] && i < LO[(h >= 0 ? h : 0) + 1]) POST_HAS("sched_spq_schedule", v, i);
                for (int i = NT; i < NT + K; i++) POST_HAS("sched_spq_schedule", v, i);
                POST_INV("sched_spq_schedule", v, mm);
            }
            V_ASSERT(pl->tasks.atomic_lock == 0, "C09.sched_spq_schedule.post.inner_list_lock_released");
            (void)nold;
        }
    }
    POST_FRAME("sched_spq_schedule");
    V_ASSERT(Q.super.atomic_lock == 0, "C09.sched_spq_schedule.post.queue_lock_released");
    V_ASSERT(es.scheduler_object == (void *)&Q, "C09.sched_spq_schedule.post.frame_scheduler_object_kept");
    V_CANARY("schedule");
}

/* ------------------------------------------------------------------ */
#define DIST_OF(i) (vin.dprio[(i) < LO[1] ? 0 : (i) < LO[2] ? 1 : 2])
void h_select(void)
{
    vin_load();
    pre_state();
    int32_t dist = vin.dist_out0;

    parsec_task_t *t = sched_spq_select(&es, &dist);

    int r = task_idx(t);
#if NT == 0
    V_ASSERT(t == NULL, "C09.sched_spq_select.post.nothing_pending_gives_NULL");
#else
    V_ASSERT(r >= 0 && r < NT, "C09.sched_spq_select.post.returns_a_pending_task");
    if (r >= 0 && r < NT) {
        for (int o = 0; o < NT; o++) if (o != r) {
            V_ASSERT(DIST_OF(r) <= DIST_OF(o), "C09.sched_spq_select.post.no_task_pending_at_a_smaller_distance");
            V_ASSERT(V_IMPLIES(DIST_OF(r) == DIST_OF(o), vin.prio[r] >= vin.prio[o]),
                     "C09.sched_spq_select.post.highest_priority_of_its_distance");
            V_ASSERT(V_IMPLIES(DIST_OF(r) == DIST_OF(o) && vin.prio[r] == vin.prio[o], vin.seq[r] < vin.seq[o]),
                     "C09.sched_spq_select.post.ties_served_in_scheduling_order");
        }
        V_ASSERT(dist == DIST_OF(r), "C09.sched_spq_select.post.reports_distance_of_selected_task");
    }
#endif
    /* outer list unchanged */
    view_outer();
    V_ASSERT(g_olf == D && g_olb == D, "C09.sched_spq_select.post.outer_list_unchanged");
    for (int d = 0; d < D; d++) {
        V_ASSERT(g_of[d] == d && g_ob[D - 1 - d] == d, "C09.sched_spq_select.post.outer_list_unchanged");
        V_ASSERT(PL[d]->prio == vin.dprio[d], "C09.sched_spq_select.post.frame_distances_not_written");
    }
    /* inner lists: the one r came from lost exactly r, the others are unchanged */
    for (int d = 0; d < D; d++) {
        if (r >= LO[d] && r < LO[d + 1]) {
            view_t v; view_of(&PL[d]->tasks, &v);
            int mm = LEN[d] ? LEN[d] - 1 : 0;
            POST_WF("sched_spq_select", v, mm);
            V_ASSERT(v.pos[r] < 0, "C09.sched_spq_select.post.selected_task_removed_from_queue");
            for (int o = LO[d]; o < LO[d + 1]; o++) if (o != r) POST_HAS("sched_spq_select", v, o);
            for (int a = LO[d]; a < LO[d + 1]; a++) for (int b = a + 1; b < LO[d + 1]; b++)
                V_ASSERT(V_IMPLIES(a != r && b != r, v.pos[a] < v.pos[b]), "C09.sched_spq_select.post.remaining_tasks_keep_their_order");
            POST_INV("sched_spq_select", v, mm);
            V_ASSERT(PL[d]->tasks.atomic_lock == 0, "C09.sched_spq_select.post.inner_list_lock_released");
        } else {
            POST_INNER_UNCHANGED("sched_spq_select", &PL[d]->tasks, LO[d], LO[d + 1]);
        }
    }
    POST_FRAME("sched_spq_select");
    V_ASSERT(Q.super.atomic_lock == 0, "C09.sched_spq_select.post.queue_lock_released");
    V_CANARY("select");
}

/* ------------------------------------------------------------------ */
/* flow_spq_init (two streams of one VP, run one after the other) followed by a composition witness taken from the
 * property text: schedule({t0}, d1); schedule({t1}, d2); select; select; select on the REAL queue object */
void h_init_sequence(void)
{
    vin_load();
    static parsec_execution_stream_t es0, es1;
    static parsec_barrier_t bar;
    static parsec_vp_t vp2;      /* flow_spq_init accesses only execution_streams[0] */
    vp2.nb_cores = 2; vp2.vp_id = 0; vp2.execution_streams[0] = &es0;
    es0.virtual_process = &vp2; es0.th_id = 0; es0.scheduler_object = NULL;
    es1.virtual_process = &vp2; es1.th_id = 1; es1.scheduler_object = NULL;

    int rc0 = flow_spq_init(&es0, (struct parsec_barrier_t *)&bar);
    int rc1 = flow_spq_init(&es1, (struct parsec_barrier_t *)&bar);

    parsec_list_t *l = (parsec_list_t *)es0.scheduler_object;
    V_ASSERT(rc0 == PARSEC_SUCCESS && rc1 == PARSEC_SUCCESS, "C09.flow_spq_init.post.returns_success");
    V_ASSERT(l != NULL, "C09.flow_spq_init.post.stream0_owns_a_queue");
    V_ASSERT(es1.scheduler_object == (void *)l, "C09.flow_spq_init.post.streams_of_a_vp_share_one_queue");
    V_ASSERT(l->ghost_element.list_next == &l->ghost_element && l->ghost_element.list_prev == &l->ghost_element,
             "C09.flow_spq_init.post.queue_initially_empty_and_well_formed");
    V_ASSERT(l->atomic_lock == 0, "C09.flow_spq_init.post.queue_lock_initially_free");
    V_ASSERT(g_barrier_calls == 2, "C09.flow_spq_init.post.each_stream_passes_the_barrier_once");

    PT[0]->priority = vin.prio[0]; PT[1]->priority = vin.prio[1];
    build_ring(0, 1); sched_spq_schedule(&es1, PT[0], vin.distance);
    build_ring(1, 1); sched_spq_schedule(&es0, PT[1], vin.distance2);
    int32_t da = vin.dist_out0, db = vin.dist_out0, dc = vin.dist_out0;
    parsec_task_t *a = sched_spq_select(&es0, &da);
    parsec_task_t *b = sched_spq_select(&es1, &db);
    parsec_task_t *c = sched_spq_select(&es0, &dc);
    int first = (vin.distance < vin.distance2) ? 0 : (vin.distance2 < vin.distance) ? 1 : (vin.prio[0] >= vin.prio[1]) ? 0 : 1;
    int32_t dd[2] = { vin.distance, vin.distance2 };
    V_ASSERT(a == PT[first], "C09.sequence.spq.smaller_distance_first_then_higher_priority_then_scheduling_order");
    V_ASSERT(b == PT[1 - first], "C09.sequence.spq.other_task_selected_second");
    V_ASSERT(da == dd[first] && db == dd[1 - first], "C09.sequence.spq.reported_distance_is_the_distance_it_was_scheduled_with");
    V_ASSERT(c == NULL, "C09.sequence.queue_empty_after_two_selects");
    V_CANARY("init_sequence");
}
