/* C19: the matrix datatypes built by parsec/data_dist/matrix/matrixtypes.c select
 * exactly the elements of the requested region of an m x n tile (leading dimension
 * ld), in column-major order, and their extent covers the tile.
 *
 * Verified text: the real matrixtypes.c AND the real datatype_mpi.c (the
 * parsec_type_* wrappers), both included verbatim below.  Trusted: the MPI
 * library itself, replaced by stubs that record each constructor call in ghost
 * state with the MPI-standard meaning (MPI 3.1 section 4.1):
 *   contiguous(count)            one block  [0, count)
 *   vector(count, blen, stride)  block k =  [k*stride, k*stride+blen)
 *   indexed(count, blen[], d[])  block k =  [d[k], d[k]+blen[k])        (in order)
 *   create_resized(t, lb, ext)   same type map, lower bound lb, extent ext (bytes)
 * Offsets are in units of the element type; the type map of a datatype is the
 * concatenation of its blocks in block order, ascending inside a block.
 *
 * Every function under contract builds at most ONE type with a constructor and
 * resizes it at most once, so the ghost state is flat: one element type (T_OLD),
 * one constructed type (T_CTOR), one resized copy of it (T_RSZ).  Any MPI call
 * outside this pattern (second constructor, use of a freed or foreign handle,
 * ...) sets g_stub_bad, which every contract requires to stay 0.
 */
#include "verif.h"
#include "parsec/parsec_config.h"
#include "parsec/runtime.h"
#include "parsec/constants.h"
#include "parsec/datatype.h"
#include "parsec/data_dist/matrix/matrix.h"
#include <mpi.h>

/* ---- the property's domain (spec.py passes -DDMAX=.. for the tier) ---- */
#ifndef DMAX
#define DMAX 12            /* m, n in 1..DMAX */
#endif
#define LDPAD 3            /* ld in m..m+LDPAD */
#define GD_MAXB (DMAX + 1) /* capacity of the ghost block list */
#define ELEMS_MAX ((DMAX + LDPAD) * DMAX)

struct vin {
    int      uplo;       /* PARSEC_MATRIX_UPPER / LOWER / FULL                    */
    int      diag;       /* 0: without the diagonal, 1: with the diagonal         */
    unsigned m, n, ld;
    int      resized;    /* <0: natural extent; >=0: extent in elements           */
    unsigned nb_elem;    /* for the direct contract of define_contiguous          */
    int      elsize;     /* size in bytes of the element type                     */
    int      mpi_on;     /* answer of MPI_Initialized (type naming path)          */
    unsigned gr;         /* ghost row (all columns are checked)                   */
    unsigned goff;       /* ghost offset (contiguous contract)                    */
} vin;
#include "verif_vin.h"

/* ------------------------------------------------------------------ */
/* ghost datatype state + trusted MPI stubs                            */
/* ------------------------------------------------------------------ */
enum { GK_NONE = 0, GK_CONTIG, GK_VECTOR, GK_INDEXED };
static char hobj_old, hobj_ctor, hobj_rsz;          /* their addresses are the handles */
#define T_OLD  ((MPI_Datatype)(void *)&hobj_old)
#define T_CTOR ((MPI_Datatype)(void *)&hobj_ctor)
#define T_RSZ  ((MPI_Datatype)(void *)&hobj_rsz)

static int  g_stub_bad;                /* an MPI stub was used outside its modelled domain           */
/* T_CTOR */
static int  t_kind, t_live, t_committed, t_over_old;
static int  t_nblk, t_disp[GD_MAXB], t_len[GD_MAXB];   /* blocks, in elements                        */
static int  t_a0, t_a1, t_a2;          /* constructor arguments as passed (count, blocklength, stride) */
static long t_lb, t_extent;            /* natural bounds, bytes                                      */
/* T_RSZ: same type map as T_CTOR */
static int  r_made, r_live, r_committed;
static long r_lb, r_extent;
static int  g_frees;

static int h_is(MPI_Datatype h, MPI_Datatype which) { return (void *)h == (void *)which; }

/* natural bounds of a type map (MPI 3.1, 4.1.6: lb = min disp, ub = max(disp+size); the
 * alignment epsilon is 0 for a homogeneous type map whose element size is a multiple of
 * its alignment; an empty type map has lb = ub = 0) */
static void t_natural_bounds(void)
{
    int lo = 0, hi = 0, any = 0;
    for (int k = 0; k < GD_MAXB; k++) {
        if (k >= t_nblk) break;
        if (t_len[k] <= 0) continue;
        if (!any || t_disp[k] < lo) lo = t_disp[k];
        if (!any || t_disp[k] + t_len[k] > hi) hi = t_disp[k] + t_len[k];
        any = 1;
    }
    t_lb = (long)lo * vin.elsize; t_extent = (long)(hi - lo) * vin.elsize;
}
/* constructors are modelled over the element type only, and once per run */
static int t_begin(int kind, MPI_Datatype oldtype)
{
    if (!h_is(oldtype, T_OLD) || t_kind != GK_NONE) { g_stub_bad = 1; return 0; }
    t_kind = kind; t_live = 1; t_committed = 0; t_over_old = 1;
    return 1;
}

int MPI_Type_size(MPI_Datatype type, int *size)
{
    if (!h_is(type, T_OLD)) { g_stub_bad = 1; *size = 0; return MPI_ERR_TYPE; }   /* only asked of the element type */
    *size = vin.elsize;
    return MPI_SUCCESS;
}
int MPI_Type_get_extent(MPI_Datatype type, MPI_Aint *lb, MPI_Aint *extent)
{
    if (h_is(type, T_CTOR) && t_live)      { *lb = t_lb; *extent = t_extent; }
    else if (h_is(type, T_RSZ) && r_live)  { *lb = r_lb; *extent = r_extent; }
    else if (h_is(type, T_OLD))            { *lb = 0;    *extent = vin.elsize; }
    else { g_stub_bad = 1; return MPI_ERR_TYPE; }
    return MPI_SUCCESS;
}
int MPI_Type_free(MPI_Datatype *type)
{
    if (h_is(*type, T_CTOR) && t_live)     t_live = 0;
    else if (h_is(*type, T_RSZ) && r_live) r_live = 0;
    else { g_stub_bad = 1; return MPI_ERR_TYPE; }
    g_frees++;
    *type = MPI_DATATYPE_NULL;
    return MPI_SUCCESS;
}
int MPI_Type_commit(MPI_Datatype *type)
{
    if (h_is(*type, T_CTOR) && t_live)     t_committed = 1;
    else if (h_is(*type, T_RSZ) && r_live) r_committed = 1;
    else { g_stub_bad = 1; return MPI_ERR_TYPE; }
    return MPI_SUCCESS;
}
int MPI_Type_contiguous(int count, MPI_Datatype oldtype, MPI_Datatype *newtype)
{
    V_ASSERT(count >= 0, "C19.MPI_Type_contiguous.pre.count_not_negative");
    if (count < 0 || !t_begin(GK_CONTIG, oldtype)) return MPI_ERR_ARG;
    t_nblk = 1; t_disp[0] = 0; t_len[0] = count; t_a0 = count;
    t_natural_bounds();
    *newtype = T_CTOR;
    return MPI_SUCCESS;
}
int MPI_Type_vector(int count, int blocklength, int stride, MPI_Datatype oldtype, MPI_Datatype *newtype)
{
    V_ASSERT(count >= 0, "C19.MPI_Type_vector.pre.count_not_negative");
    V_ASSERT(blocklength >= 0, "C19.MPI_Type_vector.pre.blocklength_not_negative");
    V_ASSERT(count <= GD_MAXB, "C19.MPI_Type_vector.pre.count_within_the_domain_bound");
    if (count < 0 || blocklength < 0 || count > GD_MAXB || !t_begin(GK_VECTOR, oldtype)) return MPI_ERR_ARG;
    t_nblk = count; t_a0 = count; t_a1 = blocklength; t_a2 = stride;
    int at = 0;
    for (int b = 0; b < GD_MAXB; b++) {
        if (b >= count) break;
        t_disp[b] = at; t_len[b] = blocklength;
        at += stride;                       /* b * stride without a multiplication */
    }
    t_natural_bounds();
    *newtype = T_CTOR;
    return MPI_SUCCESS;
}
int MPI_Type_indexed(int count, const int array_of_blocklengths[], const int array_of_displacements[],
                     MPI_Datatype oldtype, MPI_Datatype *newtype)
{
    V_ASSERT(count >= 0, "C19.MPI_Type_indexed.pre.count_not_negative");
    V_ASSERT(count <= GD_MAXB, "C19.MPI_Type_indexed.pre.count_within_the_domain_bound");
    if (count < 0 || count > GD_MAXB || !t_begin(GK_INDEXED, oldtype)) return MPI_ERR_ARG;
    t_nblk = count; t_a0 = count;
    for (int b = 0; b < GD_MAXB; b++) {
        if (b >= count) break;
        /* reads of the caller's arrays: "in bounds, initialised object" is a pointer-check obligation on the real code */
        t_len[b]  = array_of_blocklengths[b];
        t_disp[b] = array_of_displacements[b];
        V_ASSERT(array_of_blocklengths[b] >= 0, "C19.MPI_Type_indexed.pre.blocklengths_not_negative");
    }
    t_natural_bounds();
    *newtype = T_CTOR;
    return MPI_SUCCESS;
}
int MPI_Type_create_resized(MPI_Datatype oldtype, MPI_Aint lb, MPI_Aint extent, MPI_Datatype *newtype)
{
    if (!h_is(oldtype, T_CTOR) || !t_live || r_made) { g_stub_bad = 1; return MPI_ERR_TYPE; }
    r_made = 1; r_live = 1; r_committed = 0; r_lb = lb; r_extent = extent;
    *newtype = T_RSZ;
    return MPI_SUCCESS;
}
int MPI_Initialized(int *flag) { *flag = vin.mpi_on; return MPI_SUCCESS; }
int MPI_Type_get_name(MPI_Datatype type, char *type_name, int *resultlen)
{
    if (!h_is(type, T_OLD)) g_stub_bad = 1;
    type_name[0] = 'T'; type_name[1] = 0; *resultlen = 1; return MPI_SUCCESS;
}
int MPI_Type_set_name(MPI_Datatype type, const char *type_name)
{
    if (!((h_is(type, T_CTOR) && t_live) || (h_is(type, T_RSZ) && r_live))) g_stub_bad = 1;   /* naming a freed / foreign type */
    (void)type_name; return MPI_SUCCESS;
}
#ifndef VERIF_REPLAY
/* parsec_debug_verbose is an empty macro in this (NDEBUG) build; snprintf only formats the debug name of the type */
int snprintf(char *s, size_t n, const char *format, ...) { (void)format; if (n) s[0] = 0; return 0; }
#endif

/* ------------------------------------------------------------------ */
/* the code under contract                                             */
/* ------------------------------------------------------------------ */
#include "parsec/datatype/datatype_mpi.c"
#include "parsec/data_dist/matrix/matrixtypes.c"

/* ------------------------------------------------------------------ */
/* specification                                                       */
/* ------------------------------------------------------------------ */
/* the mathematical region, from the property statement */
static int spec_region(int uplo, int with_diag, unsigned r, unsigned c)
{
    if (uplo == PARSEC_MATRIX_UPPER) return with_diag ? (r <= c) : (r < c);
    if (uplo == PARSEC_MATRIX_LOWER) return with_diag ? (r >= c) : (r > c);
    return 1;
}
/* c * ld for c <= DMAX, by repeated addition (no symbolic product on the specification side) */
static int spec_times_ld(unsigned c, unsigned ld)
{
    int s = 0;
    for (unsigned k = 0; k < DMAX; k++) { if (k >= c) break; s += (int)ld; }
    return s;
}
/* how many entries of the type map sit at element offset off */
static int t_times_selected(int off)
{
    int cnt = 0;
    for (int k = 0; k < GD_MAXB; k++) {
        if (k >= t_nblk) break;
        if (t_disp[k] <= off && off < t_disp[k] + t_len[k]) cnt++;
    }
    return cnt;
}
/* type map in strictly increasing offset order (= column-major order of the tile), starting at >= 0;
 * returns one past the last selected offset, or -1 when the order is violated */
static int t_ascending_end(void)
{
    int end = 0;
    for (int k = 0; k < GD_MAXB; k++) {
        if (k >= t_nblk) break;
        if (t_len[k] < 0 || t_disp[k] < end) return -1;
        end = t_disp[k] + t_len[k];
    }
    return end;
}

static void setup(void)
{
    vin_load();
    /* parameters enumerated concretely, one cbmc process per value (DESIGN 4.2 arithmetic rule) */
#ifdef NFIX
    vin.n = NFIX;
#endif
#ifdef LDFIX
    vin.ld = LDFIX;
#endif
#ifdef ESFIX
    vin.elsize = ESFIX;
#endif
#ifdef UPLOFIX
    vin.uplo = UPLOFIX;
#endif
#ifdef DIAGFIX
    vin.diag = DIAGFIX;
#endif
    g_stub_bad = 0; t_kind = GK_NONE; t_live = 0; t_committed = 0; t_over_old = 0; t_nblk = 0;
    r_made = 0; r_live = 0; r_committed = 0; g_frees = 0;
    V_ASSUME(vin.elsize >= 1 && vin.elsize <= 16);
    /* the property's domain */
    V_ASSUME(vin.m >= 1 && vin.m <= DMAX && vin.n >= 1 && vin.n <= DMAX);
    V_ASSUME(vin.ld >= vin.m && vin.ld <= vin.m + LDPAD);
    V_ASSUME(vin.diag == 0 || vin.diag == 1);
    V_ASSUME(vin.gr < vin.ld);
}

/* which handle did the function return, and is that type usable */
#define RET_CTOR(h) (h_is(h, T_CTOR))
#define RET_RSZ(h)  (h_is(h, T_RSZ))
#define RET_LB(h)     (RET_RSZ(h) ? r_lb : t_lb)
#define RET_EXTENT(h) (RET_RSZ(h) ? r_extent : t_extent)

/* Postconditions on the datatype `h` returned for the region (uplo, diag) of an m x n tile with leading
 * dimension ld.  FN is the name of the function under contract (string literal). */
#define CHECK_SELECTION(FN, h, uplo_, diag_, m_, n_, ld_)                                                              \
    do {                                                                                                                \
        int span_ = spec_times_ld((n_) - 1, ld_) + (int)(m_);  /* one past the last element of the tile */              \
        int end_ = t_ascending_end();                                                                                   \
        V_ASSERT(!g_stub_bad, "C19." FN ".guar.MPI_calls_well_formed_live_types_only");                               \
        V_ASSERT(RET_CTOR(h) || RET_RSZ(h), "C19." FN ".post.returns_a_constructed_datatype");                        \
        V_ASSERT(RET_CTOR(h) ? (t_live && t_committed) : (r_live && r_committed),                                       \
                 "C19." FN ".post.datatype_live_and_committed");                                                       \
        V_ASSERT(t_over_old, "C19." FN ".post.built_over_the_given_element_type");                                     \
        for (unsigned c_ = 0; c_ < DMAX; c_++) {       /* every column c_ < n, ghost row gr < ld (padding rows included) */ \
            if (c_ >= (n_)) break;                                                                                      \
            int off_ = spec_times_ld(c_, ld_) + (int)vin.gr;                                                            \
            int want_ = vin.gr < (m_) && spec_region(uplo_, diag_, vin.gr, c_);                                         \
            V_ASSERT(t_times_selected(off_) == (want_ ? 1 : 0),                                                         \
                     "C19." FN ".post.element_selected_exactly_once_iff_in_region");                                   \
        }                                                                                                               \
        V_ASSERT(end_ >= 0, "C19." FN ".post.blocks_ascending_disjoint_column_major_order");                           \
        V_ASSERT(end_ <= span_ && span_ <= spec_times_ld(n_, ld_), "C19." FN ".post.no_block_outside_the_tile");        \
        V_ASSERT(RET_LB(h) == 0, "C19." FN ".post.lower_bound_zero");                                                   \
    } while (0)

/* ---- parsec_matrix_define_triangle ---- */
void h_triangle(void)
{
    setup();
    V_ASSUME(vin.uplo == PARSEC_MATRIX_UPPER || vin.uplo == PARSEC_MATRIX_LOWER);
    parsec_datatype_t nt = PARSEC_DATATYPE_NULL;
    int rc = parsec_matrix_define_triangle(T_OLD, vin.uplo, vin.diag, vin.m, vin.n, vin.ld, &nt);
    V_ASSERT(rc == PARSEC_SUCCESS, "C19.parsec_matrix_define_triangle.post.success");
    CHECK_SELECTION("parsec_matrix_define_triangle", nt, vin.uplo, vin.diag, vin.m, vin.n, vin.ld);
    V_ASSERT(RET_EXTENT(nt) == (long)spec_times_ld(vin.n, vin.ld) * vin.elsize,
             "C19.parsec_matrix_define_triangle.post.extent_is_ld_n_elements");
    V_ASSERT(RET_RSZ(nt) && t_kind == GK_INDEXED, "C19.parsec_matrix_define_triangle.post.resized_indexed_type");
    V_ASSERT(!t_live && g_frees == 1, "C19.parsec_matrix_define_triangle.post.intermediate_type_freed");
    V_CANARY("triangle");
}

/* extent clause shared by the rectangular types: the natural extent (resized < 0) reaches exactly the end of the
 * tile's last column; otherwise the extent is the requested number of elements */
#define CHECK_RECT_EXTENT(FN, h, m_, n_, ld_, resized_)                                                                \
    do {                                                                                                                \
        long span_ = spec_times_ld((n_) - 1, ld_) + (int)(m_);                                                          \
        if ((resized_) < 0) {                                                                                           \
            V_ASSERT(RET_EXTENT(h) == span_ * vin.elsize, "C19." FN ".post.natural_extent_covers_exactly_the_tile");   \
            V_ASSERT(RET_CTOR(h) && !r_made && g_frees == 0, "C19." FN ".post.not_resized_when_not_requested");         \
        } else {                                                                                                        \
            V_ASSERT(RET_EXTENT(h) == (long)(resized_) * vin.elsize, "C19." FN ".post.extent_is_requested_elements");   \
            V_ASSERT(RET_RSZ(h) && !t_live && g_frees == 1, "C19." FN ".post.resized_and_intermediate_freed");          \
        }                                                                                                               \
        V_ASSERT(V_IMPLIES((resized_) < 0 || (resized_) >= span_, RET_EXTENT(h) >= span_ * vin.elsize),                 \
                 "C19." FN ".post.extent_covers_the_tile");                                                            \
    } while (0)

/* ---- parsec_matrix_define_rectangle ---- */
void h_rectangle(void)
{
    setup();
    V_ASSUME(vin.resized >= -1 && vin.resized <= ELEMS_MAX + 8);
    parsec_datatype_t nt = PARSEC_DATATYPE_NULL;
    int rc = parsec_matrix_define_rectangle(T_OLD, vin.m, vin.n, vin.ld, vin.resized, &nt);
    V_ASSERT(rc == PARSEC_SUCCESS, "C19.parsec_matrix_define_rectangle.post.success");
    CHECK_SELECTION("parsec_matrix_define_rectangle", nt, PARSEC_MATRIX_FULL, 1, vin.m, vin.n, vin.ld);
    CHECK_RECT_EXTENT("parsec_matrix_define_rectangle", nt, vin.m, vin.n, vin.ld, vin.resized);
    V_ASSERT(vin.m == vin.ld ? (t_kind == GK_CONTIG && t_a0 == spec_times_ld(vin.n, vin.ld))
                             : (t_kind == GK_VECTOR && t_a0 == (int)vin.n && t_a1 == (int)vin.m && t_a2 == (int)vin.ld),
             "C19.parsec_matrix_define_rectangle.post.vector_nb_mb_ld_or_contiguous_when_mb_eq_ld");
    V_CANARY("rectangle");
}

/* ---- parsec_matrix_define_contiguous ---- */
void h_contiguous(void)
{
    setup();
    V_ASSUME(vin.nb_elem <= ELEMS_MAX);
    V_ASSUME(vin.resized >= -1 && vin.resized <= ELEMS_MAX + 8);
    V_ASSUME(vin.goff <= ELEMS_MAX + 8);
    parsec_datatype_t nt = PARSEC_DATATYPE_NULL;
    int rc = parsec_matrix_define_contiguous(T_OLD, vin.nb_elem, vin.resized, &nt);
    int end = t_ascending_end();
    V_ASSERT(rc == PARSEC_SUCCESS, "C19.parsec_matrix_define_contiguous.post.success");
    V_ASSERT(!g_stub_bad, "C19.parsec_matrix_define_contiguous.guar.MPI_calls_well_formed_live_types_only");
    V_ASSERT(RET_CTOR(nt) || RET_RSZ(nt), "C19.parsec_matrix_define_contiguous.post.returns_a_constructed_datatype");
    V_ASSERT((RET_CTOR(nt) ? (t_live && t_committed) : (r_live && r_committed)) && t_over_old,
             "C19.parsec_matrix_define_contiguous.post.datatype_live_committed_over_element_type");
    V_ASSERT(t_times_selected((int)vin.goff) == (vin.goff < vin.nb_elem ? 1 : 0),
             "C19.parsec_matrix_define_contiguous.post.selects_exactly_offsets_below_nb_elem");
    V_ASSERT(end >= 0 && end <= (int)vin.nb_elem, "C19.parsec_matrix_define_contiguous.post.ascending_and_inside");
    V_ASSERT(RET_LB(nt) == 0, "C19.parsec_matrix_define_contiguous.post.lower_bound_zero");
    V_ASSERT(RET_EXTENT(nt) == (vin.resized < 0 ? (long)vin.nb_elem : (long)vin.resized) * vin.elsize,
             "C19.parsec_matrix_define_contiguous.post.extent_natural_or_requested");
    V_ASSERT(vin.resized < 0 ? (RET_CTOR(nt) && !r_made && g_frees == 0) : (RET_RSZ(nt) && !t_live && g_frees == 1),
             "C19.parsec_matrix_define_contiguous.post.resized_only_on_request_intermediate_freed");
    V_ASSERT(t_kind == GK_CONTIG, "C19.parsec_matrix_define_contiguous.post.contiguous_constructor");
    V_CANARY("contiguous");
}

/* ---- parsec_matrix_define_datatype: the top-level statement of the property ---- */
void h_datatype(void)
{
    setup();
    V_ASSUME(vin.uplo == PARSEC_MATRIX_UPPER || vin.uplo == PARSEC_MATRIX_LOWER || vin.uplo == PARSEC_MATRIX_FULL);
    V_ASSUME(vin.resized >= -1 && vin.resized <= ELEMS_MAX + 8);
    parsec_datatype_t nt = PARSEC_DATATYPE_NULL;
    ptrdiff_t extent = -7;
    int rc = parsec_matrix_define_datatype(&nt, T_OLD, (parsec_matrix_uplo_t)vin.uplo, vin.diag, vin.m, vin.n, vin.ld, vin.resized, &extent);
    V_ASSERT(rc == PARSEC_SUCCESS, "C19.parsec_matrix_define_datatype.post.success");
    CHECK_SELECTION("parsec_matrix_define_datatype", nt, vin.uplo, vin.diag, vin.m, vin.n, vin.ld);
    long span = spec_times_ld(vin.n - 1, vin.ld) + (int)vin.m;
    V_ASSERT(extent == RET_EXTENT(nt), "C19.parsec_matrix_define_datatype.post.reported_extent_is_the_datatype_extent");
    if (vin.uplo == PARSEC_MATRIX_FULL) {
        V_ASSERT(extent == (vin.resized < 0 ? span : (long)vin.resized) * vin.elsize,
                 "C19.parsec_matrix_define_datatype.post.full_extent_natural_or_requested");
        V_ASSERT(V_IMPLIES(vin.resized < 0 || vin.resized >= span, extent >= span * vin.elsize),
                 "C19.parsec_matrix_define_datatype.post.full_extent_covers_the_tile");
    } else {
        V_ASSERT(extent == (long)spec_times_ld(vin.n, vin.ld) * vin.elsize,
                 "C19.parsec_matrix_define_datatype.post.triangle_extent_is_ld_n_elements");
        V_ASSERT(extent >= span * vin.elsize, "C19.parsec_matrix_define_datatype.post.triangle_extent_covers_the_tile");
    }
    V_CANARY("datatype");
}
