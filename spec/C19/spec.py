from vlib import Job

META = dict(
    level="proof",
    functions=["parsec_matrix_define_triangle", "parsec_matrix_define_rectangle", "parsec_matrix_define_contiguous",
               "parsec_matrix_define_datatype",
               "parsec_type_create_indexed", "parsec_type_create_vector", "parsec_type_create_contiguous",
               "parsec_type_create_resized", "parsec_type_size", "parsec_type_extent", "parsec_type_free"],
    explanation="Pre/post contracts on the real matrixtypes.c with the real parsec_type_* wrappers of datatype_mpi.c compiled in. "
                "The MPI constructors underneath are stubs that record the type map they are asked for (list of blocks in element "
                "units, lower bound, extent) in ghost state with the meaning given by the MPI standard. Postconditions, taken from "
                "the property statement: for every column c < n and a ghost row r < ld (padding rows included) the element offset "
                "c*ld+r occurs in the type map exactly once if r < m and (r,c) is in the region (full / upper / lower, with or "
                "without the diagonal), and not at all otherwise; the blocks are ascending and disjoint (type map in column-major "
                "order); no block lies outside [0, (n-1)*ld+m); lower bound 0; extent = ld*n elements for triangles, the natural "
                "extent (n-1)*ld+m elements or the requested `resized` elements for rectangular types, and the extent reported by "
                "parsec_matrix_define_datatype is that of the datatype; rectangle = vector(nb, mb, ld) or contiguous(ld*nb) when "
                "mb == ld; returned type live and committed, intermediate type freed, MPI argument preconditions (non-negative "
                "counts and block lengths, arrays read in bounds) hold. m, ld, diag, uplo, resized, element size (1..16 bytes) "
                "are symbolic; n is enumerated, one cbmc process per value (symbolic malloc size), loops unwound completely.",
    trusted_base=["MPI library (Open MPI): MPI_Type_contiguous / _vector / _indexed / _create_resized / _commit / _free / _size / "
                  "_get_extent replaced by ghost-recording stubs with the MPI 3.1 section 4.1 type-map semantics; they always succeed",
                  "MPI_Initialized / MPI_Type_get_name / MPI_Type_set_name / snprintf (debug naming of the type) stubbed as having no "
                  "effect on the type map",
                  "CBMC's model of malloc / free"],
    assumptions=["m >= 1 (for m = 0 the unsigned expression m-diag wraps: outside the property's domain, not examined)",
                 "the element type is a basic MPI type of size 1..16 bytes whose extent equals its size (no alignment padding)",
                 "MPI calls do not fail (error-return paths of the functions under contract are not exercised)",
                 "diag is 0 or 1, uplo is one of PARSEC_MATRIX_UPPER / LOWER / FULL (the property's domain)"],
)

MANIFEST = dict(
    category="proof",
    text="Every postcondition derived from the property statement is discharged by CBMC on the real matrixtypes.c + datatype_mpi.c "
         "for every m, n in 1..12, ld in m..m+3, diag in {0,1}, uplo in {upper, lower, full}, every element size 1..16 and every "
         "`resized` request: that is the property's own domain, all loops unwound completely with unwinding assertions (thorough "
         "tier: m, n up to 24). What the datatypes select is read from ghost descriptors filled in by stubs of the MPI constructors.",
    note="Not decided: that the MPI library implements its constructors as the standard says (the stubs are trusted); m = 0 / n = 0 "
         "(unsigned wrap); error paths when an MPI call fails; element types with extent != size; the arena / adt wrappers "
         "(parsec_matrix_adt_*) built on top of parsec_matrix_define_datatype.",
    technique="function contracts (pre/post, ghost type-map descriptors) on the real code, discharged by CBMC with complete unwinding; "
              "n enumerated one process per value",
    design_ref="DESIGN.md section 5, C19")


def jobs(tier):
    dmax = 24 if tier == "thorough" else 12
    U = dmax + 3
    to = 1200 if tier == "thorough" else 300
    J = []
    for n in range(1, dmax + 1):
        D = {"DMAX": dmax, "NFIX": n}
        J.append(Job("datatype.n%d" % n, "h_types.c", entry="h_datatype", defines=D, unwind=U, timeout=to, mem_gb=4,
                     functions=["parsec_matrix_define_datatype", "parsec_matrix_define_triangle", "parsec_matrix_define_rectangle",
                                "parsec_matrix_define_contiguous"], min_obligations=14))
        J.append(Job("triangle.n%d" % n, "h_types.c", entry="h_triangle", defines=D, unwind=U, timeout=to, mem_gb=4,
                     functions=["parsec_matrix_define_triangle"], min_obligations=12))
    # no allocation in these two: n (resp. nb_elem) stays symbolic
    J.append(Job("rectangle", "h_types.c", entry="h_rectangle", defines={"DMAX": dmax}, unwind=U, timeout=to, mem_gb=4,
                 functions=["parsec_matrix_define_rectangle", "parsec_matrix_define_contiguous"], min_obligations=14))
    J.append(Job("contiguous", "h_types.c", entry="h_contiguous", defines={"DMAX": dmax}, unwind=U, timeout=to, mem_gb=4,
                 functions=["parsec_matrix_define_contiguous"], min_obligations=10))
    return J
