from vlib import Job

META = dict(
    level="proof",
    functions=["parsec_matrix_define_triangle", "parsec_matrix_define_rectangle", "parsec_matrix_define_contiguous",
               "parsec_matrix_define_datatype",
               "parsec_type_create_indexed", "parsec_type_create_vector", "parsec_type_create_contiguous",
               "parsec_type_create_resized", "parsec_type_size", "parsec_type_extent", "parsec_type_free"],
    explanation="Pre/post contracts on the real matrixtypes.c with the real parsec_type_* wrappers of datatype_mpi.c compiled in. "
                "The MPI constructors underneath are stubs that record the type map they are asked for (list of blocks in element "
                "units, lower bound, extent) in ghost state with the meaning given by the MPI standard. Postconditions, taken from "
                "the property statement: for every column c < n and a ghost row r < ld (padding rows included) the element offset "
                "c*ld+r occurs in the type map exactly once if r < m and (r,c) is in the region (full / upper / lower, with or "
                "without the diagonal), and not at all otherwise; the blocks are ascending and disjoint (type map in column-major "
                "order); no block lies outside [0, (n-1)*ld+m); lower bound 0; extent = ld*n elements for triangles, the natural "
                "extent (n-1)*ld+m elements or the requested `resized` elements for rectangular types, and the extent reported by "
                "parsec_matrix_define_datatype is that of the datatype; rectangle = vector(nb, mb, ld) or contiguous(ld*nb) when "
                "mb == ld; returned type live and committed, intermediate type freed, MPI argument preconditions (non-negative "
                "counts and block lengths, arrays read in bounds) hold. m, ld, diag, uplo, resized, element size (1..16 bytes) "
                "are symbolic; n is enumerated, one cbmc process per value (symbolic malloc size), loops unwound completely.",
    trusted_base=["MPI library (Open MPI): MPI_Type_contiguous / _vector / _indexed / _create_resized / _commit / _free / _size / "
                  "_get_extent replaced by ghost-recording stubs with the MPI 3.1 section 4.1 type-map semantics; they always succeed",
                  "MPI_Initialized / MPI_Type_get_name / MPI_Type_set_name / snprintf (debug naming of the type) stubbed as having no "
                  "effect on the type map",
                  "CBMC's model of malloc / free"],
    assumptions=["m >= 1 (for m = 0 the unsigned expression m-diag wraps: outside the property's domain, not examined)",
                 "the element type is a basic MPI type of size 1..16 bytes whose extent equals its size (no alignment padding)",
                 "MPI calls do not fail (error-return paths of the functions under contract are not exercised)",
                 "diag is 0 or 1, uplo is one of PARSEC_MATRIX_UPPER / LOWER / FULL (the property's domain)"],
)

MANIFEST = dict(
    category="proof",
    text="Every postcondition derived from the property statement is discharged by CBMC on the real matrixtypes.c + datatype_mpi.c "
         "for every m, n in 1..12, ld in m..m+3, diag in {0,1}, uplo in {upper, lower, full}, every element size 1..16 and every "
         "`resized` request: that is the property's own domain, all loops unwound completely with unwinding assertions (thorough "
         "tier: m, n up to 24). What the datatypes select is read from ghost descriptors filled in by stubs of the MPI constructors.",
    note="Not decided: that the MPI library implements its constructors as the standard says (the stubs are trusted); m = 0 / n = 0 "
         "(unsigned wrap); error paths when an MPI call fails; element types with extent != size; the arena / adt wrappers "
         "(parsec_matrix_adt_*) built on top of parsec_matrix_define_datatype.",
    technique="function contracts (pre/post, ghost type-map descriptors) on the real code, discharged by CBMC with complete unwinding; "
              "n enumerated one process per value",
    design_ref="DESIGN.md section 5, C19")


def jobs(tier):
    dmax = 24 if tier == "thorough" else 12
    U = dmax + 3
    to = 1200 if tier == "thorough" else 300
    J = []
    for n in range(1, dmax + 1):
        D = {"DMAX": dmax, "NFIX": n}
        J.append(Job("datatype.n%d" % n, "h_types.c", entry="h_datatype", defines=D, unwind=U, timeout=to, mem_gb=4,
                     functions=["parsec_matrix_define_datatype", "parsec_matrix_define_triangle", "parsec_matrix_define_rectangle",
                                "parsec_matrix_define_contiguous"], min_obligations=14))
        J.append(Job("triangle.n%d" % n, "h_types.c", entry="h_triangle", defines=D, unwind=U, timeout=to, mem_gb=4,
                     functions=["parsec_matrix_define_triangle"], min_obligations=12))
    # no allocation in these two: n (resp. nb_elem) stays symbolic
    J.append(Job("rectangle", "h_types.c", entry="h_rectangle", defines={"DMAX": dmax}, unwind=U, timeout=to, mem_gb=4,
                 functions=["parsec_matrix_define_rectangle", "parsec_matrix_define_contiguous"], min_obligations=14))
    J.append(Job("contiguous", "h_types.c", entry="h_contiguous", defines={"DMAX": dmax}, unwind=U, timeout=to, mem_gb=4,
                 functions=["parsec_matrix_define_contiguous"], min_obligations=10))
    # ---- UNBOUNDED in m and n: loop contracts (inductive invariants) on the two block-building loops of the real
    # parsec_matrix_define_triangle, inserted by the overlay into a scratch copy; the leading dimension is enumerated
    # (a symbolic ld gives symbolic*symbolic products, which did not finish in 15 min)
    TRI_RULES = [
        {"function": "parsec_matrix_define_triangle", "loops": 2, "loop": 0,
         "text": "__CPROVER_loop_invariant(i >= (unsigned)diag && i <= n && (unsigned)diag == g_d && m == g_m && ld == g_ld && n == g_n && "
                 "(g_k + g_d >= i || g_k + g_d >= n || (blocklens[g_k + g_d] == (int)((g_k + g_d + 1 - g_d) < g_m ? (g_k + g_d + 1 - g_d) : g_m) "
                 "&& indices[g_k + g_d] == (int)((g_k + g_d) * g_ld)))) __CPROVER_decreases(n - i)"},
        {"function": "parsec_matrix_define_triangle", "loops": 2, "loop": 1,
         "text": "__CPROVER_loop_invariant(i <= nmax && (unsigned)diag == g_d && m == g_m && ld == g_ld && n == g_n && "
                 "nmax == (n >= (m - g_d) ? m - g_d : n) && (g_k >= i || (blocklens[g_k] == (int)(g_m - g_k - g_d) "
                 "&& indices[g_k] == (int)(g_k * g_ld + g_k + g_d)))) __CPROVER_decreases(nmax - i)"}]
    for ldv in ([1, 2, 3, 7, 16, 1000] if tier != "thorough" else [1, 2, 3, 4, 5, 7, 8, 16, 17, 64, 100, 1000, 4096, 30000]):
        J.append(Job("triangle.unbounded.ld%d" % ldv, "h_tri_unbounded.c", entry="h_triangle_unbounded", defines={"LDFIX": ldv},
                     loop_contracts=True, unwind=2, overlay=[("parsec/data_dist/matrix/matrixtypes.c", TRI_RULES)],
                     functions=["parsec_matrix_define_triangle"], min_obligations=10, timeout=600,
                     bounded="leading dimension enumerated (ld = %d); m and n unbounded (loop contracts), capped only by 30000 so that the code's own int arithmetic does not overflow" % ldv))
    J.append(Job("triangle.unbounded.lemma_region", "h_tri_unbounded.c", entry="h_lemma_region", unwind=2,
                 functions=[], min_obligations=1, timeout=300))
    return J
