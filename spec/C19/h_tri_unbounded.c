/* C19: UNBOUNDED contract of parsec_matrix_define_triangle (matrixtypes.c included verbatim): the two
 * block-building loops are closed by loop contracts (inductive invariants) inserted by the overlay at
 * "parsec_matrix_define_triangle, loop #0 / #1" of a scratch copy (goto-instrument --dfcc
 * --apply-loop-contracts), so m, n and ld are NOT bounded by an unwinding depth (only by NCAP, so that
 * the int arithmetic of the code itself does not overflow: ld*n < 2^31).
 *
 * Contract (from the property, per block = per column; `g_k` is a universally quantified block index):
 *   upper, d = 1 if the diagonal is excluded else 0:
 *      n-d blocks; block k is column c = k+d: offset c*ld, length min(c+1-d, m)
 *   lower: min(n, m-d) blocks; block k is column c = k: offset c*ld + c + d, length m-c-d
 *   the type is resized to lower bound 0 and extent ld*n elements.
 * The element-level reading (element (r,c) selected exactly once iff in the region) follows from the block
 * formulas by the loop-free lemma h_lemma_region below (all m, n, ld, r, c).
 */
#include "verif.h"
#include <stdlib.h>
#include <string.h>
#include "parsec/parsec_config.h"
#include "parsec/datatype.h"
#include "parsec/constants.h"

#ifndef NCAP
#define NCAP 30000
#endif
static unsigned g_k;        /* ghost block index (universally quantified)           */
static unsigned g_m, g_ld, g_d, g_n;
/* what the (trusted) MPI layer is handed */
static int g_idx_calls, g_count, g_len, g_disp, g_have;
static int g_resized_calls; static long g_lb, g_extent;
static int g_freed;
#ifndef VERIF_REPLAY
/* goto-instrument links the C library with "malloc may fail" on and the code does not test malloc's result (out of
 * memory is outside the property): allocation always succeeds here. */
void *malloc(size_t sz) { return __CPROVER_allocate(sz, 0); }
#endif

int parsec_type_create_indexed(int count, const int *lens, const int *disps, parsec_datatype_t oldtype, parsec_datatype_t *newtype)
{
    (void)oldtype; (void)newtype;
    g_idx_calls++; g_count = count;
    if (count >= 0 && g_k < (unsigned)count) { g_len = lens[g_k]; g_disp = disps[g_k]; g_have = 1; }
    return PARSEC_SUCCESS;
}
int parsec_type_size(parsec_datatype_t type, int *size) { (void)type; *size = 1; return PARSEC_SUCCESS; }
int parsec_type_create_resized(parsec_datatype_t oldtype, ptrdiff_t lb, ptrdiff_t extent, parsec_datatype_t *newtype)
{ (void)oldtype; (void)newtype; g_resized_calls++; g_lb = lb; g_extent = extent; return PARSEC_SUCCESS; }
int parsec_type_free(parsec_datatype_t *t) { (void)t; g_freed++; return PARSEC_SUCCESS; }
int MPI_Initialized(int *flag) { *flag = 0; return 0; }
void parsec_output_verbose(int level, int id, const char *fmt, ...) { (void)level; (void)id; (void)fmt; }

#include "parsec/data_dist/matrix/matrixtypes.c"

struct vin { unsigned m, n, ld, k; int diag; int uplo_lower; unsigned r, c; } vin;
#include "verif_vin.h"

void h_triangle_unbounded(void)
{
    vin_load();
    V_ASSUME(vin.m >= 1 && vin.n >= 1 && vin.ld >= vin.m);
    V_ASSUME(vin.n <= NCAP && vin.ld <= NCAP && (unsigned long)vin.ld * vin.n <= 0x7fffffffUL / 2);
#ifdef LDFIX   /* symbolic*symbolic products do not get through the SAT back end: the leading dimension is enumerated */
    V_ASSUME(vin.ld == LDFIX);
#endif
    V_ASSUME(vin.k <= NCAP);   /* ghost block index: anything above the block count is irrelevant */
    g_m = vin.m; g_n = vin.n; g_ld = vin.ld; g_k = vin.k;
    g_d = (vin.diag == 0) ? 1 : 0;
    g_idx_calls = g_resized_calls = g_have = g_freed = 0;
    parsec_datatype_t nt;
    int rc = parsec_matrix_define_triangle(MPI_BYTE, vin.uplo_lower ? PARSEC_MATRIX_LOWER : PARSEC_MATRIX_UPPER,
                                           vin.diag, vin.m, vin.n, vin.ld, &nt);
    V_ASSERT(rc == PARSEC_SUCCESS && g_idx_calls == 1 && g_resized_calls == 1, "C19.define_triangle.post.one_indexed_type_resized_once");
    unsigned d = g_d;
    if (!vin.uplo_lower) {
        V_ASSERT((unsigned)g_count == vin.n - d, "C19.define_triangle.post.upper_one_block_per_column_holding_elements");
        if (vin.k < vin.n - d) {
            unsigned c = vin.k + d;
            unsigned want = (c + 1 - d) < vin.m ? (c + 1 - d) : vin.m;
            V_ASSERT(g_have && (unsigned)g_len == want, "C19.define_triangle.post.upper_block_length_is_rows_of_the_region_in_that_column");
            V_ASSERT(g_have && (unsigned)g_disp == c * vin.ld, "C19.define_triangle.post.upper_block_starts_at_top_of_its_column");
        }
    } else {
        unsigned nb = (vin.n >= vin.m - d) ? vin.m - d : vin.n;
        V_ASSERT((unsigned)g_count == nb, "C19.define_triangle.post.lower_one_block_per_column_holding_elements");
        if (vin.k < nb) {
            unsigned c = vin.k;
            V_ASSERT(g_have && (unsigned)g_len == vin.m - c - d, "C19.define_triangle.post.lower_block_length_is_rows_of_the_region_in_that_column");
            V_ASSERT(g_have && (unsigned)g_disp == c * vin.ld + c + d, "C19.define_triangle.post.lower_block_starts_at_first_row_of_the_region");
        }
    }
    V_ASSERT(g_lb == 0 && g_extent == (long)((unsigned long)vin.ld * vin.n), "C19.define_triangle.post.extent_is_ld_times_n_elements_from_0");
    V_CANARY("triangle_unbounded");
}

/* loop-free lemma: the per-column block formulas select exactly the elements of the mathematical region */
void h_lemma_region(void)
{
    vin_load();
    unsigned m = vin.m, n = vin.n, r = vin.r, c = vin.c, d = (vin.diag == 0) ? 1 : 0;
    V_ASSUME(m >= 1 && n >= 1 && c < n && r < vin.ld && vin.ld >= m && vin.ld <= NCAP && n <= NCAP);
    int in_region, in_block;
    if (!vin.uplo_lower) {
        in_region = (r < m) && (d ? (r < c) : (r <= c));
        unsigned len = (c + 1 - d) < m ? (c + 1 - d) : m;          /* block of column c (exists iff c >= d) */
        in_block = (c >= d) && (r < len);                          /* offsets c*ld .. c*ld+len-1 <=> rows 0..len-1 */
    } else {
        in_region = (r < m) && (d ? (r > c) : (r >= c));
        unsigned nb = (n >= m - d) ? m - d : n;
        in_block = (c < nb) && (r >= c + d) && (r < c + d + (m - c - d));   /* rows c+d .. m-1 */
    }
    V_ASSERT(V_IFF(in_region, in_block), "C19.lemma.block_of_column_c_covers_exactly_the_region_rows_of_column_c");
    /* blocks of different columns are disjoint and ascending because each block stays inside its own column: len <= m <= ld */
    V_CANARY("lemma_region");
}
