/* C38 (command line side): contracts on the real process_arg / parsec_mca_cmd_line_process_args
 * (parsec/utils/mca_param_cmd_line.c, included verbatim, with the real argv.c compiled in).
 *
 *  h_process_arg  : inductive step.  PRE: params/values are NULL-terminated arrays of the same
 *                   length NPRE with pairwise distinct parameter names (or both NULL when NPRE=0).
 *                   POST: if the parameter is already there, its value becomes "old,new" and
 *                   nothing else changes; otherwise both arrays grow by one (param, value) pair
 *                   at the end; names stay pairwise distinct; arrays stay NULL-terminated.
 *  h_process_args : from the command line to the environment: NINST "--mca name value" options
 *                   (names and values symbolic): every distinct name is exported exactly once
 *                   (parsec_setenv_mca_param), with the values of all its occurrences joined by
 *                   commas in command-line order.
 * Names and values are 1 character long; counts are fixed per cbmc process. */
#include "verif.h"
#include "parsec/parsec_config.h"
#include <stdio.h>
#include <stdlib.h>
#include <string.h>
#include <stdarg.h>
#include <stdbool.h>

#ifndef NPRE
#define NPRE 2
#endif
#ifndef NINST
#define NINST 3
#endif
#ifndef GMCA
#define GMCA 0                      /* 1: the instances are given with --gmca instead of --mca */
#endif
#define NPRE_A (NPRE > 0 ? NPRE : 1)
#define NINST_A (NINST > 0 ? NINST : 1)
#define JLEN (2 * NINST_A + 2)      /* longest joined value: v,v,...,v + NUL (values are 1 character) */
#define PLEN 4                      /* pre-state values: up to 3 characters */

struct vin {
    char pre_name[NPRE_A];
    char pre_val[NPRE_A][PLEN];
    char name, val;                 /* the option processed by process_arg                 */
    char iname[NINST_A], ival[NINST_A];   /* the --mca instances, in command-line order    */
} vin;
#include "verif_vin.h"

/* ---- trusted stubs ---- */
/* asprintf for the only format used here, "%s,%s": concatenation with a comma */
int asprintf(char **strp, const char *fmt, ...)
{
    va_list ap;
    va_start(ap, fmt);
    const char *a = va_arg(ap, const char *);
    const char *b = va_arg(ap, const char *);
    va_end(ap);
    char *r = malloc(JLEN + PLEN + 2);
    int n = 0;
    for (int i = 0; i < JLEN + PLEN; i++) { if (a[i] == 0) break; r[n++] = a[i]; }
    r[n++] = ',';
    for (int i = 0; i < 2; i++) { if (b[i] == 0) break; r[n++] = b[i]; }
    r[n] = 0;
    *strp = r;
    return n;
}

#include "parsec/utils/argv.c"
#include "parsec/utils/mca_param_cmd_line.c"

/* the parsed command line: NINST instances of --mca (or --gmca) <name> <value> */
static char i_name[NINST_A][2], i_val[NINST_A][2];
bool parsec_cmd_line_is_taken(parsec_cmd_line_t *cmd, const char *opt)
{ (void)cmd; return NINST > 0 && (opt[0] == 'g') == (GMCA != 0); }
int parsec_cmd_line_get_ninsts(parsec_cmd_line_t *cmd, const char *opt)
{ (void)cmd; return ((opt[0] == 'g') == (GMCA != 0)) ? NINST : 0; }
char *parsec_cmd_line_get_param(parsec_cmd_line_t *cmd, const char *opt, int inst, int idx)
{ (void)cmd; (void)opt; if (inst < 0 || inst >= NINST) return NULL; return idx == 0 ? i_name[inst] : idx == 1 ? i_val[inst] : NULL; }
int parsec_cmd_line_make_opt3(parsec_cmd_line_t *cmd, char s, const char *sd, const char *l, int n, const char *d)
{ (void)cmd; (void)s; (void)sd; (void)l; (void)n; (void)d; return 0; }
int parsec_cmd_line_make_opt_mca(parsec_cmd_line_t *cmd, parsec_cmd_line_init_t entry)
{ (void)cmd; (void)entry; return 0; }

/* export to the environment: recorded (the real one builds PARSEC_MCA_<name> and calls parsec_setenv) */
static int    g_set_n;
static char   g_set_name[NINST_A + 1];
static char   g_set_val[NINST_A + 1][JLEN];
static char ***g_set_env[NINST_A + 1];
void parsec_setenv_mca_param(char *param, char *value, char ***env)
{
    if (g_set_n <= NINST) {
        g_set_name[g_set_n] = param[0];
        for (int i = 0; i < JLEN; i++) { g_set_val[g_set_n][i] = value[i]; if (value[i] == 0) break; }
        g_set_env[g_set_n] = env;
    }
    g_set_n++;
}

static bool is_name(char c) { return c >= 'a' && c <= 'h'; }
static bool is_val(char c)  { return c >= '0' && c <= '9'; }

/* ------------------------------------------------------------------ */
void h_process_arg(void)
{
    vin_load();
    char **params = NULL, **values = NULL;
    char *old_val[NPRE_A], *old_name[NPRE_A];
    for (int k = 0; k < NPRE; k++) {
        char nm[2];
        V_ASSUME(is_name(vin.pre_name[k]));
        for (int j = 0; j < k; j++) V_ASSUME(vin.pre_name[j] != vin.pre_name[k]);   /* PRE: names pairwise distinct */
        V_ASSUME(vin.pre_val[k][PLEN - 1] == 0 && is_val(vin.pre_val[k][0]));
        nm[0] = vin.pre_name[k]; nm[1] = 0;
        parsec_argv_append_nosize(&params, nm);
        parsec_argv_append_nosize(&values, vin.pre_val[k]);
        old_name[k] = params[k]; old_val[k] = values[k];
    }
    char nm[2], vl[2];
    V_ASSUME(is_name(vin.name) && is_val(vin.val));
    nm[0] = vin.name; nm[1] = 0; vl[0] = vin.val; vl[1] = 0;
    int at = -1;
    for (int k = 0; k < NPRE; k++) if (vin.pre_name[k] == vin.name) at = k;

    int rc = process_arg(nm, vl, &params, &values);

    V_ASSERT(rc == PARSEC_SUCCESS, "C38.process_arg.post.succeeds");
    int n = at >= 0 ? NPRE : NPRE + 1;
    V_ASSERT(params != NULL && values != NULL, "C38.process_arg.post.arrays_exist");
    int cntp = 0, cntv = 0;
    for (int k = 0; k <= NPRE + 1; k++) { if (params[k] == NULL) break; cntp++; }
    for (int k = 0; k <= NPRE + 1; k++) { if (values[k] == NULL) break; cntv++; }
    if (at >= 0)
        V_ASSERT(cntp == NPRE && cntv == NPRE, "C38.process_arg.post.repeated_option_adds_no_entry");
    else
        V_ASSERT(cntp == NPRE + 1 && cntv == NPRE + 1, "C38.process_arg.post.new_option_grows_both_arrays_by_one");
    for (int k = 0; k < NPRE; k++) {
        V_ASSERT(params[k][0] == vin.pre_name[k] && params[k][1] == 0, "C38.process_arg.post.existing_names_unchanged");
        if (k != at) {
            int same = 1;
            for (int i = 0; i < PLEN; i++) { if (values[k][i] != vin.pre_val[k][i]) same = 0; if (vin.pre_val[k][i] == 0) break; }
            V_ASSERT(same, "C38.process_arg.post.other_values_unchanged");
        } else {
            /* old,new */
            int ok = 1, i = 0;
            for (; i < PLEN; i++) { if (vin.pre_val[k][i] == 0) break; if (values[k][i] != vin.pre_val[k][i]) ok = 0; }
            if (values[k][i] != ',' || values[k][i + 1] != vin.val || values[k][i + 2] != 0) ok = 0;
            V_ASSERT(ok, "C38.process_arg.post.repeated_option_value_is_old_comma_new");
        }
    }
    if (at < 0) {
        V_ASSERT(params[NPRE][0] == vin.name && params[NPRE][1] == 0 && params[NPRE] != nm,
                 "C38.process_arg.post.new_name_appended_as_copy");
        V_ASSERT(values[NPRE][0] == vin.val && values[NPRE][1] == 0 && values[NPRE] != vl,
                 "C38.process_arg.post.new_value_appended_as_copy");
    }
    int distinct = 1;
    for (int a = 0; a < n; a++) for (int b = a + 1; b < n; b++) if (params[a][0] == params[b][0]) distinct = 0;
    V_ASSERT(distinct, "C38.process_arg.inv.names_pairwise_distinct");
    (void)old_name; (void)old_val;
    V_CANARY("process_arg");
}

/* ------------------------------------------------------------------ */
void h_process_args(void)
{
    vin_load();
    for (int k = 0; k < NINST; k++) {
        V_ASSUME(is_name(vin.iname[k]) && is_val(vin.ival[k]));
        i_name[k][0] = vin.iname[k]; i_name[k][1] = 0;
        i_val[k][0] = vin.ival[k];   i_val[k][1] = 0;
    }
    g_set_n = 0;
    char **ctx_env = NULL, **glob_env = NULL;

    int rc = parsec_mca_cmd_line_process_args(NULL, &ctx_env, &glob_env);

    V_ASSERT(rc == PARSEC_SUCCESS, "C38.process_args.post.succeeds");
    /* spec: one export per distinct name, in order of first appearance; value = comma-join in command-line order */
    int e = 0, ok_name = 1, ok_val = 1, ok_env = 1;
    for (int i = 0; i < NINST; i++) {
        int first = 1;
        for (int j = 0; j < i; j++) if (vin.iname[j] == vin.iname[i]) first = 0;
        if (!first) continue;
        char want[JLEN];
        int n = 0;
        for (int j = i; j < NINST; j++) if (vin.iname[j] == vin.iname[i]) { if (n) want[n++] = ','; want[n++] = vin.ival[j]; }
        want[n] = 0;
        if (e <= NINST) {
            if (g_set_name[e] != vin.iname[i]) ok_name = 0;
            for (int c = 0; c <= n; c++) if (g_set_val[e][c] != want[c]) ok_val = 0;
            if (g_set_env[e] != (GMCA ? &glob_env : &ctx_env)) ok_env = 0;
        }
        e++;
    }
    V_ASSERT(g_set_n == e, "C38.process_args.post.each_distinct_parameter_exported_exactly_once");
    V_ASSERT(ok_name, "C38.process_args.post.exported_names_are_the_distinct_option_names");
    V_ASSERT(ok_val, "C38.process_args.post.repeated_options_joined_with_commas_in_command_line_order");
    V_ASSERT(ok_env, "C38.process_args.post.mca_goes_to_context_env_gmca_to_global_env");
    V_CANARY("process_args");
}
