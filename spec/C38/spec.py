from vlib import Job

US = {"expand_array.0": 11}   # class table growth loop of parsec_object.c (increment = 10)
LOOKUPS = ["lookup_override", "lookup_env", "lookup_file", "lookup_default"]

META = dict(
    level="other",
    functions=["param_lookup", "lookup_override", "lookup_env", "lookup_file", "lookup_default", "set",
               "param_register (re-registration path)", "param_set_override", "parsec_mca_param_unset",
               "parsec_mca_param_reg_int_name / _sizet_name / _string_name", "parsec_mca_param_set_int / _sizet / _string",
               "parsec_mca_param_lookup_source",
               "process_arg", "add_to_env", "parsec_mca_cmd_line_process_args",
               "parsec_argv_append_nosize / parsec_argv_count / parsec_argv_free (real argv.c compiled in, not under contract of their own: C39)"],
    explanation="Contracts on the real parsec/utils/mca_param.c and mca_param_cmd_line.c.  (A) param_lookup with its four callees "
                "lookup_override / lookup_env / lookup_file / lookup_default replaced by contracts over ghost flags and ghost values "
                "(goto-instrument --dfcc --replace-call-with-contract): for every combination of sources present/absent, read-only or "
                "not, int / size_t (values fully symbolic, complete) and string (values bounded), the reported source is the highest-"
                "precedence source present (override > environment > file > default), the returned value is that source's value, and a "
                "read-only parameter always resolves to its default.  (B) the same clauses for each callee against its REAL body, the "
                "ghost being defined from the concrete state by a spec written from the property statement: override <=> flag set; "
                "environment <=> the primary variable or ANY synonym's variable is set, primary first then synonyms in registration "
                "order; file <=> a cached value, or the first entry of the file-value list named by the parameter or any synonym, which "
                "is then cached on the parameter and removed from the list (the others stay in order); default always.  A string parameter overridden with NULL (parsec_mca_param_set_string(i, NULL)) "
                "resolves, through the real param_lookup and lookup_override, to source OVERRIDE with a NULL value and never hands NULL "
                "to strdup (job lookup_override.null_string; this was a crash, fixed in /repo 4ba9c5d).  (R) through the real public entry points, on a registry of two existing "
                "parameters: set_<type> (explicit override), reg_<type>_name of the same name again with a new default (the usual way "
                "to read a parameter by name), lookup_source, then param_register once more with or without an override value: the "
                "existing index is returned, an existing override (flag and value) is kept when no new one is supplied and replaced "
                "when one is, the default is replaced, no file value is invented, and value and source follow override > environment "
                "> default -- the explicit override keeps top precedence across re-registration.  (C) the "
                "composition on the real bodies without any replacement (int/size_t, 1 synonym, 2 environment variables, 1-2 file "
                "entries).  (D) process_arg as an inductive step on any well-formed pre-state (arrays of equal length, distinct names): "
                "a repeated option turns the value into 'old,new', a new option appends one (name,value) pair to both arrays; and "
                "parsec_mca_cmd_line_process_args from the parsed command line to the environment: each distinct parameter is exported "
                "exactly once, its repeated values joined with commas in command-line order, --mca to the context environment and "
                "--gmca to the global one.  Lists, arrays and strings are bounded (sizes fixed per cbmc process and enumerated), so the "
                "level is 'other'.",
    trusted_base=["stub getenv: lookup by name in a ghost environment of pairwise distinct variable names",
                  "stub strtol / strtoll: an uninterpreted deterministic function of the text (first character selects one of 8 fully "
                  "symbolic 64-bit numbers); the real parsing of digits, sign, base prefix and overflow is libc's",
                  "stub asprintf for the single format \"%s,%s\" (concatenation with a comma) in the command-line harness; in the lookup "
                  "harness asprintf / parsec_os_path are only reachable through the '~/' expansion, which is excluded",
                  "stub strstr (naive substring search) in the lookup harness; CBMC's models of strdup / strcmp / strncmp / strlen / "
                  "malloc / realloc / free",
                  "stub snprintf (writes the empty string): only builds the variable name of param_register's temporary entry, which "
                  "is destroyed again on the re-registration path",
                  "stub parsec_show_help (deprecation / read-only warnings are no-ops)",
                  "job lookup_override.null_string only: stub strdup that carries libc's precondition (argument not NULL) as a named "
                  "obligation and copies at most SLEN bytes",
                  "stubs parsec_cmd_line_is_taken / get_ninsts / get_param: the parsed command line is a ghost list of (name, value) "
                  "instances; stub parsec_setenv_mca_param: records (name, value, target environment)",
                  "contracts of the four lookups used in job (A) are the clauses asserted around the real bodies in jobs (B) "
                  "(found <=> ghost flag, value = ghost value, string results are fresh allocations); the link between the two texts is by "
                  "construction of the harness, not by the tool"],
    assumptions=["the index passed to param_lookup is that of a registered parameter (index < number of parameters); the code accepts "
                 "index == size (uses '>' instead of '>='), which reads one element past the array: outside the property, reported",
                 "parameter / synonym / variable names are 1 character long and the variable name stored by param_register / syn_register "
                 "is PARSEC_MCA_<full name> exactly as parsec_setenv_mca_param builds it (both use the same prefix; the string "
                 "construction itself is not examined)",
                 "string values contain no '~' (the '~/' home-directory expansion of param_lookup is not examined) and are at most "
                 "SLEN-1 characters (2 quick / 3 thorough)",
                 "the environment holds at most one value per variable name",
                 "param_register is examined on the re-registration path only (the name is already registered, same type, names \"a\" / "
                 "\"b\" without type or component part); first registration (append to the value array, construction of full name and "
                 "variable name) and synonym registration are not examined",
                 "parsec_init's argv scanning, cmd_line.c's parser, the parameter-file lexer (keyval_parse) and parsec_setenv are not "
                 "examined: the file-value list and the parsed command line are taken as given"],
)

MANIFEST = dict(
    category="other",
    text="Pre/post contracts on the real parameter-resolution functions, discharged by CBMC: the precedence clause of param_lookup is "
         "complete for int and size_t parameters (all values, all 2^3 source combinations, read-only or not) given the contracts of the "
         "four lookups; those contracts, the synonym handling (environment and file), the caching/removal of file values and the "
         "comma-joining of repeated --mca options are discharged against the real bodies for bounded shapes (<= 3 synonyms, <= 3 "
         "environment variables, <= 3 file entries, <= 3 repeated options, 1-character names, strings <= 3 characters), which is why "
         "the level is 'other' and not 'proof'.",
    note="Not decided: parsec_init's argv scanning and cmd_line.c's option parser, the parameter-file lexer, parsec_setenv, the '~/' "
         "expansion, numeric text conversion (strtol is an uninterpreted stub), construction of the PARSEC_MCA_ variable names, "
         "longer strings / more synonyms than the bounds.  A NULL string override (parsec_mca_param_set_string(i, NULL)) used "
         "to make the next lookup call strdup(NULL); fixed in /repo 4ba9c5d, its job lookup_override.null_string now states the correct "
         "behaviour.",
    technique="function contracts (callees replaced by contract via goto-instrument --dfcc; pre/post assertions around the real "
              "bodies) + ghost state, discharged by CBMC with complete unwinding of shape-bounded lists and strings",
    design_ref="DESIGN.md section 5, C38")

BS = "string values <= %d characters without '~'"
BN = "names 1 character; %s"


def jobs(tier):
    full = tier == "thorough"
    slen = 4 if full else 3
    D0 = {"NSYN": 0, "NENV": 0, "NFILE": 0, "SLEN": slen}
    to = 1800 if full else 600
    J = []
    # (A) precedence over the contracts of the four lookups
    J.append(Job("param_lookup.order.numeric", "h_lookup.c", entry="h_param_lookup", replace=LOOKUPS, unwind=slen + 3, unwindset=US,
                 defines=dict(D0, ONLY_NUMERIC=None), functions=["param_lookup"], timeout=to, min_obligations=4))
    J.append(Job("param_lookup.order.string", "h_lookup.c", entry="h_param_lookup", replace=LOOKUPS, unwind=slen + 3, unwindset=US,
                 defines=dict(D0, ONLY_STRING=None), bounded=BS % (slen - 1),
                 functions=["param_lookup"], timeout=to, min_obligations=4))
    # (B) the four lookups against their real bodies
    for ent, fn in (("h_lookup_override", ["lookup_override"]), ("h_lookup_default", ["lookup_default", "set"])):
        nm = ent[2:]
        J.append(Job(nm + ".numeric", "h_lookup.c", entry=ent, unwind=slen + 3, unwindset=US,
                     defines=dict(D0, ONLY_NUMERIC=None), functions=fn, timeout=to, min_obligations=3))
        J.append(Job(nm + ".string", "h_lookup.c", entry=ent, unwind=slen + 3, unwindset=US,
                     defines=dict(D0, ONLY_STRING=None), bounded=BS % (slen - 1), functions=fn, timeout=to, min_obligations=3))
    env_shapes = [(0, 1), (2, 3)] + ([(0, 0), (1, 0), (1, 2), (3, 3), (2, 1)] if full else [])
    for ns, ne in env_shapes:
        J.append(Job("lookup_env.s%de%d" % (ns, ne), "h_lookup.c", entry="h_lookup_env", unwind=max(slen, ns, ne) + 3, unwindset=US,
                     defines={"NSYN": ns, "NENV": ne, "NFILE": 0, "SLEN": slen},
                     bounded=BN % ("exactly %d synonyms, %d environment variables; " % (ns, ne) + BS % (slen - 1)),
                     functions=["lookup_env"], timeout=to, min_obligations=3))
    file_shapes = [(0, 1), (1, 2)] + ([(0, 0), (2, 1), (2, 2), (1, 3), (3, 2)] if full else [])
    for ns, nf in file_shapes:
        J.append(Job("lookup_file.s%df%d" % (ns, nf), "h_lookup.c", entry="h_lookup_file", unwind=max(slen, ns, nf) + 3, unwindset=US,
                     defines={"NSYN": ns, "NENV": 0, "NFILE": nf, "SLEN": slen},
                     bounded=BN % ("exactly %d synonyms, %d file-value entries; " % (ns, nf) + BS % (slen - 1)),
                     functions=["lookup_file"], timeout=to, mem_gb=8, min_obligations=8))
    # (R) re-registration through the real public entry points keeps an explicit override on top
    for t, tn, ri in [(t, tn, ri) for (t, tn) in ((0, "int"), (1, "sizet"), (2, "string")) for ri in ((1, 0) if full else (1,))]:
        J.append(Job("reregister.%s%s" % (tn, "" if ri else ".first"), "h_lookup.c", entry="h_reregister", unwind=slen + 4,
                     unwindset=dict(US, **{"strlen.0": 14}),      # strlen("PARSEC_MCA_") in param_register
                     defines={"NSYN": 0, "NENV": 1, "NFILE": 0, "SLEN": slen, "RTYPE": t, "RIDX": ri},
                     bounded=BN % ("registry of exactly 2 existing parameters named a and b, the %s one registered again," % ("second" if ri else "first") + " 1 environment variable, empty file-value list"
                                   + ("; " + BS % (slen - 1) if t == 2 else "")),
                     functions=["param_register", "parsec_mca_param_reg_%s_name" % tn, "parsec_mca_param_set_%s" % tn,
                                "param_set_override", "parsec_mca_param_unset", "parsec_mca_param_lookup_source", "param_lookup"],
                     timeout=to, mem_gb=8, min_obligations=12))
    # (C) composition on the real bodies
    res_shapes = [(1, 2, 1)] + ([(1, 2, 2), (2, 2, 1)] if full else [])
    for ns, ne, nf in res_shapes:
        J.append(Job("resolve.s%de%df%d" % (ns, ne, nf), "h_lookup.c", entry="h_resolve", unwind=max(slen, ns, ne, nf) + 3, unwindset=US,
                     defines={"NSYN": ns, "NENV": ne, "NFILE": nf, "SLEN": slen},
                     bounded=BN % ("int/size_t parameter with %d synonyms, %d environment variables, %d file-value entries" % (ns, ne, nf)),
                     functions=["param_lookup"] + LOOKUPS, timeout=to, mem_gb=8, min_obligations=5))
    # (D) command line
    for n in (0, 1, 2) + ((3,) if full else ()):
        J.append(Job("process_arg.n%d" % n, "h_cmdline.c", entry="h_process_arg", unwind=n + 6, defines={"NPRE": n, "NINST": 1},
                     bounded="pre-state of exactly %d (name, value) pairs, names 1 character, old values <= 3 characters" % n,
                     functions=["process_arg"], timeout=to, min_obligations=6))
    for n in (0, 1, 2, 3):
        for g in ((0, 1) if full else (n % 2,)):
            J.append(Job("process_args.i%d%s" % (n, "g" if g else ""), "h_cmdline.c", entry="h_process_args", unwind=2 * max(n, 1) + 4,
                         object_bits=10, defines={"NPRE": 1, "NINST": n, "GMCA": g},
                         bounded="exactly %d %s options, names and values 1 character" % (n, "--gmca" if g else "--mca"),
                         functions=["parsec_mca_cmd_line_process_args", "process_arg", "add_to_env"], timeout=to, min_obligations=5))
    # a string parameter overridden with NULL (was a crash: strdup(NULL); fixed in /repo 4ba9c5d) -- kept as its own job
    J.append(Job("lookup_override.null_string", "h_lookup.c", entry="h_null_override", unwind=slen + 3, unwindset=US,
                 defines=dict(D0, NULL_OVERRIDE=None), bounded="single scenario: string parameter whose override is NULL; " + BS % (slen - 1),
                 functions=["lookup_override", "param_lookup"], timeout=to, min_obligations=4))
    return J
