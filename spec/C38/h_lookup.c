/* C38: contracts on the real MCA parameter resolution (parsec/utils/mca_param.c, included
 * verbatim, with the real object system and list class compiled in).
 *
 * Ghost vocabulary (from the property statement): four sources, in precedence order
 *   K_OVERRIDE > K_ENV > K_FILE > K_DEFAULT,
 * g_has[k] = "source k holds a value for this parameter", g_int/g_sizet/g_str[k] = that value.
 *
 *  (A) h_param_lookup : param_lookup with the four lookups REPLACED by their contracts over the
 *      ghost (goto-instrument --replace-call-with-contract).  POST: source = highest-precedence
 *      source present, storage = that source's value, read-only parameters always DEFAULT.
 *  (B) h_lookup_override / h_lookup_env / h_lookup_file / h_lookup_default: the same clauses
 *      (found <=> ghost flag, value = ghost value), with the ghost DEFINED from the concrete state
 *      by a spec written from the property statement, asserted around the REAL body:
 *        override <=> flag set; env <=> primary variable or any synonym in the environment,
 *        primary first; file <=> cached, or first matching entry (name or any synonym) of the
 *        file-value list, which is then cached and removed; default always.
 *  (C) h_resolve: composition on the real bodies (no replacement), small shape.
 *
 * Strings are bounded (SLEN-1 characters), names are 1 character; synonym / environment /
 * file-list lengths are fixed per cbmc process (NSYN, NENV, NFILE). */
#include "verif.h"
#define VERIF_RG_DEFAULT_HOOKS
#include "verif_rg.h"
#include "parsec/class/parsec_object.c"
#include "parsec/class/parsec_list.c"
#include "parsec/utils/mca_param_internal.h"
#include <stdarg.h>

#ifndef SLEN
#define SLEN 3          /* value strings: at most SLEN-1 characters + NUL */
#endif
#ifndef NSYN
#define NSYN 2          /* synonyms of the parameter (exactly) */
#endif
#ifndef NENV
#define NENV 3          /* environment entries (exactly) */
#endif
#ifndef NFILE
#define NFILE 2         /* entries of the parameter-file value list (exactly) */
#endif
#define NSYN_A (NSYN > 0 ? NSYN : 1)
#define NENV_A (NENV > 0 ? NENV : 1)
#define NFILE_A (NFILE > 0 ? NFILE : 1)

enum { K_OVERRIDE = 0, K_ENV = 1, K_FILE = 2, K_DEFAULT = 3 };
#define T_INT    PARSEC_MCA_PARAM_TYPE_INT
#define T_SIZET  PARSEC_MCA_PARAM_TYPE_SIZET
#define T_STRING PARSEC_MCA_PARAM_TYPE_STRING

/* ---- ghost state ---- */
static bool   g_has[4];
static int    g_int[4];
static size_t g_sizet[4];
static char   g_str[4][SLEN];
static bool   g_str_null[4];

static bool str_eq(const char *a, const char *b)
{
    for (int i = 0; i < SLEN; i++) {
        if (a[i] != b[i]) return false;
        if (a[i] == 0) return true;
    }
    return false;   /* not NUL-terminated within SLEN */
}
/* "storage holds the value of source k" */
static bool ghost_value_is(parsec_mca_param_type_t type, const parsec_mca_param_storage_t *st, int k)
{
    if (type == T_INT)   return st->intval == g_int[k];
    if (type == T_SIZET) return st->sizetval == g_sizet[k];
    if (g_str_null[k])   return st->stringval == NULL;
    return st->stringval != NULL && str_eq(st->stringval, g_str[k]);
}

/* ---- contracts of the four lookups, used by --replace-call-with-contract in job (A) ---- */
static bool lookup_override(parsec_mca_param_t *param, parsec_mca_param_storage_t *storage)
__CPROVER_requires(param != NULL && storage != NULL)
__CPROVER_ensures(__CPROVER_return_value == g_has[K_OVERRIDE])
__CPROVER_ensures((__CPROVER_return_value && param->mbp_type == T_STRING && !g_str_null[K_OVERRIDE])
                  ==> __CPROVER_is_fresh(storage->stringval, SLEN))
__CPROVER_ensures(__CPROVER_return_value ==> ghost_value_is(param->mbp_type, storage, K_OVERRIDE))
__CPROVER_assigns(*storage);

static bool lookup_env(parsec_mca_param_t *param, parsec_mca_param_storage_t *storage)
__CPROVER_requires(param != NULL && storage != NULL)
__CPROVER_ensures(__CPROVER_return_value == g_has[K_ENV])
__CPROVER_ensures((__CPROVER_return_value && param->mbp_type == T_STRING && !g_str_null[K_ENV])
                  ==> __CPROVER_is_fresh(storage->stringval, SLEN))
__CPROVER_ensures(__CPROVER_return_value ==> ghost_value_is(param->mbp_type, storage, K_ENV))
__CPROVER_assigns(*storage, param->mbp_deprecated_warning_shown);

static bool lookup_file(parsec_mca_param_t *param, parsec_mca_param_storage_t *storage, char **source_file)
__CPROVER_requires(param != NULL && storage != NULL)
__CPROVER_ensures(__CPROVER_return_value == g_has[K_FILE])
__CPROVER_ensures((__CPROVER_return_value && param->mbp_type == T_STRING && !g_str_null[K_FILE])
                  ==> __CPROVER_is_fresh(storage->stringval, SLEN))
__CPROVER_ensures(__CPROVER_return_value ==> ghost_value_is(param->mbp_type, storage, K_FILE))
__CPROVER_assigns(*storage, param->mbp_deprecated_warning_shown, param->mbp_file_value_set,
                  param->mbp_file_value, param->mbp_source_file; source_file != NULL: *source_file);

static bool lookup_default(parsec_mca_param_t *param, parsec_mca_param_storage_t *storage)
__CPROVER_requires(param != NULL && storage != NULL)
__CPROVER_ensures(__CPROVER_return_value == true)
__CPROVER_ensures((param->mbp_type == T_STRING && !g_str_null[K_DEFAULT])
                  ==> __CPROVER_is_fresh(storage->stringval, SLEN))
__CPROVER_ensures(ghost_value_is(param->mbp_type, storage, K_DEFAULT))
__CPROVER_assigns(*storage);

#include "parsec/utils/mca_param.c"

/* ------------------------------------------------------------------ */
/* inputs                                                              */
/* ------------------------------------------------------------------ */
struct vin {
    uint8_t  type;                 /* 0 int, 1 size_t, 2 string */
    uint8_t  read_only;
    uint8_t  index;                /* which of the two registered parameters is looked up */
    uint8_t  has[4];               /* (A): ghost presence of override / env / file */
    int32_t  ival[4];
    uint64_t zval[4];
    char     sval[4][SLEN];
    uint8_t  snull[4];
    uint64_t storage0;             /* previous contents of the caller's storage */
    uint8_t  want_source_file;
    /* concrete state for (B) */
    uint8_t  override_set, file_cached;
    uint8_t  deprecated, dep_shown, syn_deprecated[NSYN_A], syn_dep_shown[NSYN_A];
    uint8_t  syn_list_null;        /* no synonym list object at all (only when NSYN == 0) */
    char     pname, penv;          /* full name / environment variable name of the parameter (1 char) */
    char     sname[NSYN_A], senv[NSYN_A];
    char     ename[NENV_A];        /* environment: variable names ...                   */
    char     eval[NENV_A][SLEN];   /* ... and values                                    */
    char     fname[NFILE_A];       /* file-value list: parameter names ...              */
    char     fval[NFILE_A][SLEN];  /* ... values ...                                    */
    uint8_t  fval_null[NFILE_A];   /* ... "name =" with no value                        */
    uint8_t  ffile_null[NFILE_A];
    int64_t  numtab[8];            /* strtol/strtoll as an uninterpreted function of the text */
    char     rname[2], renv[2];    /* (R) registry of two existing parameters: full names / variable names */
    uint8_t  new_override;         /* (R) the second re-registration supplies an override value             */
} vin;
#include "verif_vin.h"

/* ------------------------------------------------------------------ */
/* trusted stubs                                                       */
/* ------------------------------------------------------------------ */
static char e_name[NENV_A][2];
static char e_val[NENV_A][SLEN];
static int  g_getenv_calls;
/* the process environment: NENV variables with pairwise distinct names; getenv = lookup by name */
char *getenv(const char *name)
{
    g_getenv_calls++;
    for (int k = 0; k < NENV; k++)
        if (name[0] == e_name[k][0] && name[1] == 0) return e_val[k];
    return NULL;
}
/* numeric conversion: a deterministic function of the text (first character selects the number) */
static int64_t num_of(const char *s) { return vin.numtab[((unsigned char)s[0]) & 7]; }
long strtol(const char *s, char **end, int base) { (void)end; (void)base; return (long)num_of(s); }
long long strtoll(const char *s, char **end, int base) { (void)end; (void)base; return (long long)num_of(s); }
static int stub_show_help(const char *filename, const char *topic, bool want_error_header, ...)
{ (void)filename; (void)topic; (void)want_error_header; return 0; }
parsec_show_help_fn_t parsec_show_help = stub_show_help;
/* substring search (reached for every string parameter by the ":~/" scan of param_lookup) */
char *strstr(const char *h, const char *n)
{
    for (int i = 0; i < SLEN; i++) {
        int j = 0;
        for (; j < 4; j++) { if (n[j] == 0) return (char *)(h + i); if (h[i + j] == 0 || h[i + j] != n[j]) break; }
        if (h[i] == 0) return NULL;
    }
    return NULL;
}
#ifdef NULL_OVERRIDE
/* libc's strdup requires a string (glibc dereferences the argument): its precondition as a named obligation
 * (job lookup_override.null_string only; the other jobs use CBMC's own strdup model) */
char *strdup(const char *s)
{
    V_ASSERT(s != NULL, "C38.lookup_override.pre.strdup_never_called_with_null_override");
    if (s == NULL) return NULL;
    char *r = malloc(SLEN);
    for (int i = 0; i < SLEN; i++) { r[i] = s[i]; if (s[i] == 0) break; }
    return r;
}
#endif
#ifndef VERIF_REPLAY
/* only reachable through the "~/" expansion, which is outside this check (strings without '~') */
int asprintf(char **strp, const char *fmt, ...) { (void)fmt; *strp = NULL; return -1; }
/* param_register builds the variable name of its TEMPORARY entry with snprintf; on the re-registration path
 * that entry is destroyed again, its name is never read: the stub writes the empty string */
int snprintf(char *str, size_t size, const char *fmt, ...) { (void)fmt; if (size > 0) str[0] = 0; return 0; }
char *parsec_os_path(bool relative, ...) { (void)relative; return NULL; }
#endif

/* ------------------------------------------------------------------ */
/* state construction                                                  */
/* ------------------------------------------------------------------ */
static parsec_mca_param_t params[2];
static char p_name[2], p_env[2];
static parsec_list_t     synlist;
static parsec_syn_info_t syn_pool[NSYN_A];
static char s_name[NSYN_A][2], s_env[NSYN_A][2];
static char ov_str[SLEN], fc_str[SLEN], df_str[SLEN];

static bool is_name(char c) { return c >= 'a' && c <= 'h'; }
static void assume_string(const char *s)      /* NUL-terminated, no '~' (the "~/" expansion is not examined) */
{
    V_ASSUME(s[SLEN - 1] == 0);
    for (int i = 0; i < SLEN; i++) V_ASSUME(s[i] != '~');
}

static void setup_array(void)
{
    initialized = true;
    home = NULL;
    parsec_show_help = stub_show_help;
    mca_params.array_items = (unsigned char *)params;
    mca_params.array_item_sizeof = sizeof(params[0]);
    mca_params.array_size = 2;
    mca_params.array_alloc_size = 2;
    V_ASSUME(vin.index < 2);               /* PRE: index of a registered parameter */
    V_ASSUME(vin.type <= 2);
#ifdef ONLY_NUMERIC
    V_ASSUME(vin.type <= 1);               /* int and size_t parameters: values fully symbolic */
#endif
#ifdef ONLY_STRING
    V_ASSUME(vin.type == 2);               /* string parameters: values bounded to SLEN-1 characters */
#endif
    for (int i = 0; i < 2; i++) {
        params[i].mbp_type = (i == vin.index) ? (parsec_mca_param_type_t)vin.type : PARSEC_MCA_PARAM_TYPE_MAX;
        params[i].mbp_read_only = (i == vin.index) ? (vin.read_only != 0) : false;
    }
}

/* the parameter as param_register / syn_register leave it (names shortened to 1 character) */
static parsec_mca_param_t *build_param(void)
{
    setup_array();
    parsec_mca_param_t *p = &params[vin.index];
    V_ASSUME(is_name(vin.pname) && is_name(vin.penv));
    p_name[0] = vin.pname; p_name[1] = 0; p_env[0] = vin.penv; p_env[1] = 0;
    p->mbp_full_name = p_name;
    p->mbp_env_var_name = p_env;
    p->mbp_deprecated = vin.deprecated != 0;
    p->mbp_deprecated_warning_shown = vin.dep_shown != 0;
    p->mbp_source_file = NULL;
    /* the list object is always constructed (class initialisation must not sit under a symbolic guard) */
    PARSEC_OBJ_CONSTRUCT(&synlist, parsec_list_t);
    {
        for (int i = 0; i < NSYN; i++) {
            V_ASSUME(is_name(vin.sname[i]) && is_name(vin.senv[i]));
            s_name[i][0] = vin.sname[i]; s_name[i][1] = 0; s_env[i][0] = vin.senv[i]; s_env[i][1] = 0;
            PARSEC_OBJ_CONSTRUCT(&syn_pool[i], parsec_list_item_t);
            syn_pool[i].si_full_name = s_name[i];
            syn_pool[i].si_env_var_name = s_env[i];
            syn_pool[i].si_deprecated = vin.syn_deprecated[i] != 0;
            syn_pool[i].si_deprecated_warning_shown = vin.syn_dep_shown[i] != 0;
            parsec_list_nolock_push_back(&synlist, &syn_pool[i].super);
        }
    }
    /* a parameter without synonyms has either no list at all or (after deregistration of all) an empty one */
    p->mbp_synonyms = (NSYN == 0 && vin.syn_list_null) ? NULL : &synlist;
    return p;
}

static void build_env(void)
{
    for (int k = 0; k < NENV; k++) {
        V_ASSUME(is_name(vin.ename[k]));
        for (int j = 0; j < k; j++) V_ASSUME(vin.ename[j] != vin.ename[k]);   /* one value per variable */
        e_name[k][0] = vin.ename[k]; e_name[k][1] = 0;
        assume_string(vin.eval[k]);
        for (int i = 0; i < SLEN; i++) e_val[k][i] = vin.eval[k][i];
    }
    g_getenv_calls = 0;
}

static bool value_is_number(parsec_mca_param_type_t type, const parsec_mca_param_storage_t *st, const char *text)
{
    if (type == T_INT) return st->intval == (int)num_of(text);
    return st->sizetval == (size_t)num_of(text);
}

/* ------------------------------------------------------------------ */
/* (A) precedence: param_lookup over the contracts of the four lookups  */
/* ------------------------------------------------------------------ */
void h_param_lookup(void)
{
    vin_load();
    setup_array();
    for (int k = 0; k < 4; k++) {
        g_has[k] = vin.has[k] != 0;
        g_int[k] = vin.ival[k]; g_sizet[k] = vin.zval[k];
        g_str_null[k] = vin.snull[k] != 0;
        assume_string(vin.sval[k]);
        for (int i = 0; i < SLEN; i++) g_str[k][i] = vin.sval[k][i];
    }
    V_ASSUME(!g_str_null[K_ENV]);          /* an environment variable always has a (possibly empty) value */
    parsec_mca_param_storage_t st;
    st.sizetval = vin.storage0;
    parsec_mca_param_source_t src = MCA_PARAM_SOURCE_MAX;
    char *sf = NULL;

    bool r = param_lookup(vin.index, &st, &src, vin.want_source_file ? &sf : NULL);

    int k = vin.read_only ? K_DEFAULT
          : g_has[K_OVERRIDE] ? K_OVERRIDE
          : g_has[K_ENV] ? K_ENV
          : g_has[K_FILE] ? K_FILE : K_DEFAULT;
    parsec_mca_param_source_t want = k == K_OVERRIDE ? MCA_PARAM_SOURCE_OVERRIDE : k == K_ENV ? MCA_PARAM_SOURCE_ENV
                                   : k == K_FILE ? MCA_PARAM_SOURCE_FILE : MCA_PARAM_SOURCE_DEFAULT;
    V_ASSERT(r, "C38.param_lookup.post.registered_parameter_always_resolves");
    V_ASSERT(src == want, "C38.param_lookup.post.source_is_highest_precedence_source_present_override_env_file_default");
    V_ASSERT(ghost_value_is((parsec_mca_param_type_t)vin.type, &st, k),
             "C38.param_lookup.post.value_is_that_of_the_winning_source");
    V_ASSERT(V_IMPLIES(vin.read_only, src == MCA_PARAM_SOURCE_DEFAULT && ghost_value_is((parsec_mca_param_type_t)vin.type, &st, K_DEFAULT)),
             "C38.param_lookup.post.read_only_parameter_always_default");
    V_CANARY("param_lookup");
}

/* ------------------------------------------------------------------ */
/* (B1) lookup_override                                                 */
/* ------------------------------------------------------------------ */
void h_lookup_override(void)
{
    vin_load();
    parsec_mca_param_t *p = build_param();
    p->mbp_override_value_set = vin.override_set != 0;
    assume_string(vin.sval[K_OVERRIDE]);
    for (int i = 0; i < SLEN; i++) ov_str[i] = vin.sval[K_OVERRIDE][i];
    if (vin.type == 0) p->mbp_override_value.intval = vin.ival[K_OVERRIDE];
    else if (vin.type == 1) p->mbp_override_value.sizetval = vin.zval[K_OVERRIDE];
    else p->mbp_override_value.stringval = vin.snull[K_OVERRIDE] ? NULL : ov_str;   /* set_string(index, NULL) is accepted */
    parsec_mca_param_storage_t st;
    st.sizetval = vin.storage0;

    bool r = lookup_override(p, &st);

    V_ASSERT(r == (vin.override_set != 0), "C38.lookup_override.post.found_iff_override_flag_set");
    if (r) {
        if (vin.type == 0) V_ASSERT(st.intval == vin.ival[K_OVERRIDE], "C38.lookup_override.post.int_value_is_override");
        else if (vin.type == 1) V_ASSERT(st.sizetval == vin.zval[K_OVERRIDE], "C38.lookup_override.post.sizet_value_is_override");
        else if (vin.snull[K_OVERRIDE]) V_ASSERT(st.stringval == NULL, "C38.lookup_override.post.null_string_override_yields_null");
        else V_ASSERT(st.stringval != NULL && st.stringval != ov_str && str_eq(st.stringval, ov_str),
                      "C38.lookup_override.post.string_value_is_fresh_copy_of_override");
    } else
        V_ASSERT(st.sizetval == vin.storage0, "C38.lookup_override.post.storage_untouched_when_absent");
    V_CANARY("lookup_override");
}

static void build_env(void);
static void build_file_list(void);
/* (B1') a string parameter overridden with NULL (parsec_mca_param_set_string(index, NULL): param_set_override
 * stores NULL and sets the flag), resolved through the real param_lookup and the real lookup_override:
 * the override wins, the value is NULL, and libc's strdup is never handed NULL (fixed in 4ba9c5d). */
void h_null_override(void)
{
    vin_load();
    parsec_mca_param_t *p = build_param();
    build_env();
    build_file_list();
    V_ASSUME(vin.type == 2 && !vin.read_only);
    p->mbp_override_value_set = true;
    p->mbp_override_value.stringval = NULL;
    p->mbp_file_value_set = false;
    assume_string(vin.sval[K_DEFAULT]);
    for (int i = 0; i < SLEN; i++) df_str[i] = vin.sval[K_DEFAULT][i];
    p->mbp_default_value.stringval = df_str;
    parsec_mca_param_storage_t st;
    st.sizetval = vin.storage0;
    parsec_mca_param_source_t src = MCA_PARAM_SOURCE_MAX;

    bool r = lookup_override(p, &st);
    V_ASSERT(r && st.stringval == NULL, "C38.lookup_override.post.null_string_override_found_and_null");
    st.sizetval = vin.storage0;
    r = param_lookup(vin.index, &st, &src, NULL);
    V_ASSERT(r && src == MCA_PARAM_SOURCE_OVERRIDE, "C38.param_lookup.post.null_string_override_still_wins");
    V_ASSERT(st.stringval == NULL, "C38.param_lookup.post.null_string_override_resolves_to_null");
    V_CANARY("null_override");
}

/* ------------------------------------------------------------------ */
/* (B2) lookup_env                                                      */
/* ------------------------------------------------------------------ */
static int env_index_of(char name)
{
    for (int k = 0; k < NENV; k++) if (vin.ename[k] == name) return k;
    return -1;
}
/* spec: the environment entry that decides, primary variable first, then the synonyms in registration order */
static int spec_env_hit(void)
{
    int hit = env_index_of(vin.penv);
    for (int i = 0; i < NSYN; i++)
        if (hit < 0) hit = env_index_of(vin.senv[i]);
    return hit;
}

void h_lookup_env(void)
{
    vin_load();
    parsec_mca_param_t *p = build_param();
    build_env();
    parsec_mca_param_storage_t st;
    st.sizetval = vin.storage0;

    bool r = lookup_env(p, &st);

    int hit = spec_env_hit();
    V_ASSERT(r == (hit >= 0), "C38.lookup_env.post.found_iff_primary_variable_or_any_synonym_in_environment");
    if (hit >= 0 && r) {
        if (vin.type <= 1) V_ASSERT(value_is_number((parsec_mca_param_type_t)vin.type, &st, e_val[hit]),
                                    "C38.lookup_env.post.numeric_value_of_first_present_name_primary_first");
        else V_ASSERT(st.stringval != NULL && st.stringval != e_val[hit] && str_eq(st.stringval, e_val[hit]),
                      "C38.lookup_env.post.string_value_of_first_present_name_primary_first");
    }
    if (!r) V_ASSERT(st.sizetval == vin.storage0, "C38.lookup_env.post.storage_untouched_when_absent");
    V_CANARY("lookup_env");
}

/* ------------------------------------------------------------------ */
/* (B3) lookup_file                                                     */
/* ------------------------------------------------------------------ */
static parsec_mca_param_file_value_t *fv[NFILE_A];
static char *fv_value[NFILE_A];

static void build_file_list(void)
{
    PARSEC_OBJ_CONSTRUCT(&parsec_mca_param_file_values, parsec_list_t);
    for (int k = 0; k < NFILE; k++) {
        char nm[2];
        V_ASSUME(is_name(vin.fname[k]));
        nm[0] = vin.fname[k]; nm[1] = 0;
        assume_string(vin.fval[k]);
        fv[k] = PARSEC_OBJ_NEW(parsec_mca_param_file_value_t);
        fv[k]->mbpfv_param = strdup(nm);
        fv[k]->mbpfv_value = fv_value[k] = vin.fval_null[k] ? NULL : strdup(vin.fval[k]);
        fv[k]->mbpfv_file = vin.ffile_null[k] ? NULL : strdup("f");
        parsec_list_nolock_push_back(&parsec_mca_param_file_values, &fv[k]->super);
    }
}
static bool spec_file_matches(int k)
{
    if (vin.fname[k] == vin.pname) return true;
    for (int i = 0; i < NSYN; i++) if (vin.fname[k] == vin.sname[i]) return true;
    return false;
}

void h_lookup_file(void)
{
    vin_load();
    parsec_mca_param_t *p = build_param();
    build_file_list();
    p->mbp_file_value_set = vin.file_cached != 0;
    assume_string(vin.sval[K_FILE]);
    for (int i = 0; i < SLEN; i++) fc_str[i] = vin.sval[K_FILE][i];
    if (vin.type == 0) p->mbp_file_value.intval = vin.ival[K_FILE];
    else if (vin.type == 1) p->mbp_file_value.sizetval = vin.zval[K_FILE];
    else p->mbp_file_value.stringval = vin.file_cached ? (vin.snull[K_FILE] ? NULL : fc_str) : NULL;
    parsec_mca_param_storage_t st;
    st.sizetval = vin.storage0;
    char *sf = (char *)p_name;

    bool r = lookup_file(p, &st, vin.want_source_file ? &sf : NULL);

    int hit = -1;
    for (int k = 0; k < NFILE; k++) if (hit < 0 && spec_file_matches(k)) hit = k;

    /* walk what is left of the list */
    parsec_list_item_t *left[NFILE_A + 1];
    int nleft = 0, closed = 0;
    parsec_list_item_t *it = PARSEC_LIST_ITERATOR_FIRST(&parsec_mca_param_file_values);
    for (int s = 0; s <= NFILE; s++) {
        if (it == PARSEC_LIST_ITERATOR_END(&parsec_mca_param_file_values)) { closed = 1; break; }
        left[nleft++] = it;
        it = PARSEC_LIST_ITERATOR_NEXT(it);
    }
    V_ASSERT(closed, "C38.lookup_file.inv.file_value_list_closed");

    if (vin.file_cached) {
        V_ASSERT(r, "C38.lookup_file.post.cached_file_value_found");
        if (vin.type == 0) V_ASSERT(st.intval == vin.ival[K_FILE], "C38.lookup_file.post.cached_int_value");
        else if (vin.type == 1) V_ASSERT(st.sizetval == vin.zval[K_FILE], "C38.lookup_file.post.cached_sizet_value");
        else if (vin.snull[K_FILE]) V_ASSERT(st.stringval == NULL, "C38.lookup_file.post.cached_null_string");
        else V_ASSERT(st.stringval != NULL && st.stringval != fc_str && str_eq(st.stringval, fc_str),
                      "C38.lookup_file.post.cached_string_value_is_fresh_copy");
        V_ASSERT(nleft == NFILE, "C38.lookup_file.post.cached_lookup_leaves_list_alone");
    } else {
        V_ASSERT(r == (hit >= 0), "C38.lookup_file.post.found_iff_entry_named_by_parameter_or_any_synonym");
        if (hit >= 0 && r) {
            V_ASSERT(p->mbp_file_value_set, "C38.lookup_file.post.match_is_cached_on_the_parameter");
            if (vin.type <= 1) {
                if (vin.fval_null[hit])
                    V_ASSERT(vin.type == 0 ? st.intval == 0 : st.sizetval == 0, "C38.lookup_file.post.entry_without_value_reads_as_zero");
                else {
                    V_ASSERT(vin.type == 0 ? st.intval == (int)vin.numtab[((unsigned char)vin.fval[hit][0]) & 7]
                                           : st.sizetval == (size_t)vin.numtab[((unsigned char)vin.fval[hit][0]) & 7],
                             "C38.lookup_file.post.numeric_value_of_first_matching_entry");
                }
                V_ASSERT(vin.type == 0 ? p->mbp_file_value.intval == st.intval : p->mbp_file_value.sizetval == st.sizetval,
                         "C38.lookup_file.post.cached_value_equals_returned_value");
            } else {
                if (vin.fval_null[hit]) V_ASSERT(st.stringval == NULL && p->mbp_file_value.stringval == NULL,
                                                 "C38.lookup_file.post.entry_without_value_reads_as_null_string");
                else {
                    V_ASSERT(p->mbp_file_value.stringval == fv_value[hit], "C38.lookup_file.post.string_ownership_moves_to_the_parameter");
                    char want[SLEN];
                    for (int i = 0; i < SLEN; i++) want[i] = vin.fval[hit][i];
                    V_ASSERT(st.stringval != NULL && st.stringval != fv_value[hit] && str_eq(st.stringval, want),
                             "C38.lookup_file.post.string_value_of_first_matching_entry_fresh_copy");
                }
            }
            /* removed from the list: the others stay, in order */
            V_ASSERT(nleft == NFILE - 1, "C38.lookup_file.post.matched_entry_removed_from_list");
            int ok = 1, j = 0;
            for (int k = 0; k < NFILE; k++) {
                if (k == hit) continue;
                if (j >= nleft || left[j] != &fv[k]->super) ok = 0;
                j++;
            }
            V_ASSERT(ok, "C38.lookup_file.post.other_entries_stay_in_order");
            if (vin.want_source_file)
                V_ASSERT(sf == p->mbp_source_file && (vin.ffile_null[hit] ? sf == NULL : (sf != NULL && sf[0] == 'f' && sf[1] == 0)),
                         "C38.lookup_file.post.source_file_reported");
        }
        if (!r) {
            V_ASSERT(st.sizetval == vin.storage0 && !p->mbp_file_value_set, "C38.lookup_file.post.nothing_cached_storage_untouched_when_absent");
            V_ASSERT(nleft == NFILE, "C38.lookup_file.post.list_unchanged_when_absent");
        }
    }
    V_CANARY("lookup_file");
}

/* ------------------------------------------------------------------ */
/* (B4) lookup_default / set                                            */
/* ------------------------------------------------------------------ */
void h_lookup_default(void)
{
    vin_load();
    parsec_mca_param_t *p = build_param();
    assume_string(vin.sval[K_DEFAULT]);
    for (int i = 0; i < SLEN; i++) df_str[i] = vin.sval[K_DEFAULT][i];
    if (vin.type == 0) p->mbp_default_value.intval = vin.ival[K_DEFAULT];
    else if (vin.type == 1) p->mbp_default_value.sizetval = vin.zval[K_DEFAULT];
    else p->mbp_default_value.stringval = vin.snull[K_DEFAULT] ? NULL : df_str;
    parsec_mca_param_storage_t st;
    st.sizetval = vin.storage0;

    bool r = lookup_default(p, &st);

    V_ASSERT(r, "C38.lookup_default.post.always_found");
    if (vin.type == 0) V_ASSERT(st.intval == vin.ival[K_DEFAULT], "C38.lookup_default.post.int_value_is_default");
    else if (vin.type == 1) V_ASSERT(st.sizetval == vin.zval[K_DEFAULT], "C38.lookup_default.post.sizet_value_is_default");
    else if (vin.snull[K_DEFAULT]) V_ASSERT(st.stringval == NULL, "C38.lookup_default.post.null_default_string");
    else V_ASSERT(st.stringval != NULL && st.stringval != df_str && str_eq(st.stringval, df_str),
                  "C38.lookup_default.post.string_value_is_fresh_copy_of_default");
    /* set() rejects anything that is not one of the three types */
    parsec_mca_param_storage_t a, b;
    a.sizetval = vin.storage0; b.sizetval = vin.zval[0];
    V_ASSERT(!set(PARSEC_MCA_PARAM_TYPE_MAX, &a, &b) && a.sizetval == vin.storage0, "C38.set.post.unknown_type_rejected_untouched");
    V_CANARY("lookup_default");
}

/* ------------------------------------------------------------------ */
/* (C) composition on the real bodies: all four sources concrete        */
/* ------------------------------------------------------------------ */
void h_resolve(void)
{
    vin_load();
    parsec_mca_param_t *p = build_param();
    build_env();
    build_file_list();
    V_ASSUME(vin.type <= 1);                       /* int and size_t; strings are covered by (A)+(B) */
    p->mbp_override_value_set = vin.override_set != 0;
    p->mbp_file_value_set = false;
    if (vin.type == 0) { p->mbp_override_value.intval = vin.ival[K_OVERRIDE]; p->mbp_default_value.intval = vin.ival[K_DEFAULT]; }
    else { p->mbp_override_value.sizetval = vin.zval[K_OVERRIDE]; p->mbp_default_value.sizetval = vin.zval[K_DEFAULT]; }
    for (int k = 0; k < NFILE; k++) V_ASSUME(!vin.fval_null[k]);
    parsec_mca_param_storage_t st;
    st.sizetval = vin.storage0;
    parsec_mca_param_source_t src = MCA_PARAM_SOURCE_MAX;

    bool r = param_lookup(vin.index, &st, &src, NULL);

    int ehit = spec_env_hit();
    int fhit = -1;
    for (int k = 0; k < NFILE; k++) if (fhit < 0 && spec_file_matches(k)) fhit = k;
    V_ASSERT(r, "C38.resolve.post.registered_parameter_always_resolves");
    if (vin.read_only) {
        V_ASSERT(src == MCA_PARAM_SOURCE_DEFAULT && (vin.type == 0 ? st.intval == vin.ival[K_DEFAULT] : st.sizetval == vin.zval[K_DEFAULT]),
                 "C38.resolve.post.read_only_parameter_always_default");
    } else if (vin.override_set) {
        V_ASSERT(src == MCA_PARAM_SOURCE_OVERRIDE && (vin.type == 0 ? st.intval == vin.ival[K_OVERRIDE] : st.sizetval == vin.zval[K_OVERRIDE]),
                 "C38.resolve.post.override_beats_everything");
    } else if (ehit >= 0) {
        V_ASSERT(src == MCA_PARAM_SOURCE_ENV && value_is_number((parsec_mca_param_type_t)vin.type, &st, e_val[ehit]),
                 "C38.resolve.post.environment_or_synonym_beats_file_and_default");
    } else if (fhit >= 0) {
        V_ASSERT(src == MCA_PARAM_SOURCE_FILE && (vin.type == 0 ? st.intval == (int)vin.numtab[((unsigned char)vin.fval[fhit][0]) & 7]
                                                                 : st.sizetval == (size_t)vin.numtab[((unsigned char)vin.fval[fhit][0]) & 7]),
                 "C38.resolve.post.file_beats_default");
    } else {
        V_ASSERT(src == MCA_PARAM_SOURCE_DEFAULT && (vin.type == 0 ? st.intval == vin.ival[K_DEFAULT] : st.sizetval == vin.zval[K_DEFAULT]),
                 "C38.resolve.post.default_when_nothing_else");
    }
    V_CANARY("resolve");
}

/* ------------------------------------------------------------------ */
/* (R) re-registration keeps an explicit override on top                */
/* ------------------------------------------------------------------ */
/* Registry of two existing parameters of type RTYPE (full names "a" and "b", no type / component part).  Through the real public entry points: [set_<type>(idx, v1)] ; reg_<type>_name(same name,
 * new default) -- the usual way to read a parameter by name -- ; lookup.  Then param_register on the same
 * name again, with or without an explicit override value.
 *   POST: re-registration returns the existing index; an existing override (flag AND value) is kept when no
 *   new override is supplied and replaced when one is; the default is replaced by the new default; no file
 *   value appears; the value handed back and the reported source follow the precedence
 *   override > environment > default. */
#ifndef RTYPE
#define RTYPE 0
#endif
#ifndef RIDX
#define RIDX 1          /* which of the two existing parameters is registered again (fixed per cbmc process) */
#endif
static char r_name[2][2], r_env[2][2];
static char nd_str[SLEN], o2_str[SLEN];

static bool st_is(const parsec_mca_param_storage_t *st, int k, const char *str, bool str_null)
{
    if (RTYPE == 0) return st->intval == vin.ival[k];
    if (RTYPE == 1) return st->sizetval == vin.zval[k];
    if (str_null) return st->stringval == NULL;
    return st->stringval != NULL && st->stringval != str && str_eq(st->stringval, str);
}

void h_reregister(void)
{
    vin_load();
    initialized = true; home = NULL; parsec_show_help = stub_show_help;
    mca_params.array_items = (unsigned char *)params;
    mca_params.array_item_sizeof = sizeof(params[0]);
    mca_params.array_size = 2; mca_params.array_alloc_size = 2;
    /* names and index concrete: every strlen / malloc size inside param_register is then concrete */
    V_ASSUME(vin.index == RIDX && vin.rname[0] == 'a' && vin.rname[1] == 'b');
    V_ASSUME(is_name(vin.renv[0]) && is_name(vin.renv[1]) && vin.renv[0] != vin.renv[1]);
    for (int k = 0; k < 4; k++) assume_string(vin.sval[k]);
    for (int i = 0; i < SLEN; i++) { ov_str[i] = vin.sval[K_OVERRIDE][i]; df_str[i] = vin.sval[K_DEFAULT][i];
                                     nd_str[i] = vin.sval[K_FILE][i]; o2_str[i] = vin.sval[K_ENV][i]; }
    for (int i = 0; i < 2; i++) {
        PARSEC_OBJ_CONSTRUCT(&params[i], parsec_mca_param_t);
        r_name[i][0] = 'a' + i; r_name[i][1] = 0; r_env[i][0] = vin.renv[i]; r_env[i][1] = 0;
        params[i].mbp_type = (parsec_mca_param_type_t)RTYPE;
        params[i].mbp_full_name = r_name[i];
        params[i].mbp_param_name = r_name[i];
        params[i].mbp_env_var_name = r_env[i];
        if (RTYPE == 0) params[i].mbp_default_value.intval = vin.ival[K_DEFAULT];
        else if (RTYPE == 1) params[i].mbp_default_value.sizetval = vin.zval[K_DEFAULT];
        else params[i].mbp_default_value.stringval = vin.snull[K_DEFAULT] ? NULL : strdup(df_str);
    }
    build_env();
    build_file_list();
    const int idx = RIDX;
    parsec_mca_param_t *p = &params[idx];
    bool ov = vin.override_set != 0;

    /* an explicit override, through the public setter */
    if (ov) {
        if (RTYPE == 0) parsec_mca_param_set_int(idx, vin.ival[K_OVERRIDE]);
        else if (RTYPE == 1) parsec_mca_param_set_sizet(idx, vin.zval[K_OVERRIDE]);
        else parsec_mca_param_set_string(idx, vin.snull[K_OVERRIDE] ? NULL : ov_str);
    }
    V_ASSERT(p->mbp_override_value_set == ov, "C38.set_override.post.flag_set_by_public_setter");

    /* register the same name again (new default = the K_FILE slot of the inputs) */
    parsec_mca_param_storage_t cur;
    cur.sizetval = vin.storage0;
    int rc;
    int    cur_i = 0; size_t cur_z = 0; char *cur_s = NULL;
    if (RTYPE == 0) { rc = parsec_mca_param_reg_int_name(NULL, r_name[idx], NULL, false, false, vin.ival[K_FILE], &cur_i); cur.intval = cur_i; }
    else if (RTYPE == 1) { rc = parsec_mca_param_reg_sizet_name(NULL, r_name[idx], NULL, false, false, vin.zval[K_FILE], &cur_z); cur.sizetval = cur_z; }
    else { rc = parsec_mca_param_reg_string_name(NULL, r_name[idx], NULL, false, false, vin.snull[K_FILE] ? NULL : nd_str, &cur_s); cur.stringval = cur_s; }

    V_ASSERT(rc == idx, "C38.param_register.post.reregistration_returns_existing_index");
    V_ASSERT(mca_params.array_size == 2, "C38.param_register.post.reregistration_adds_no_entry");
    V_ASSERT(p->mbp_override_value_set == ov, "C38.param_register.post.reregistration_without_override_keeps_override_flag");
    if (ov) {
        if (RTYPE == 0) V_ASSERT(p->mbp_override_value.intval == vin.ival[K_OVERRIDE], "C38.param_register.post.reregistration_keeps_override_value");
        else if (RTYPE == 1) V_ASSERT(p->mbp_override_value.sizetval == vin.zval[K_OVERRIDE], "C38.param_register.post.reregistration_keeps_override_value");
        else V_ASSERT(vin.snull[K_OVERRIDE] ? p->mbp_override_value.stringval == NULL
                                            : (p->mbp_override_value.stringval != NULL && str_eq(p->mbp_override_value.stringval, ov_str)),
                      "C38.param_register.post.reregistration_keeps_override_value");
    }
    if (RTYPE == 0) V_ASSERT(p->mbp_default_value.intval == vin.ival[K_FILE], "C38.param_register.post.reregistration_replaces_default");
    else if (RTYPE == 1) V_ASSERT(p->mbp_default_value.sizetval == vin.zval[K_FILE], "C38.param_register.post.reregistration_replaces_default");
    else V_ASSERT(vin.snull[K_FILE] ? p->mbp_default_value.stringval == NULL
                                    : (p->mbp_default_value.stringval != NULL && p->mbp_default_value.stringval != nd_str &&
                                       str_eq(p->mbp_default_value.stringval, nd_str)),
                  "C38.param_register.post.reregistration_replaces_default");
    V_ASSERT(!p->mbp_file_value_set, "C38.param_register.post.reregistration_invents_no_file_value");
    V_ASSERT(params[1 - idx].mbp_override_value_set == false && params[1 - idx].mbp_full_name == r_name[1 - idx],
             "C38.param_register.post.other_parameter_untouched");

    /* value handed back, and what a lookup by index now says: override > environment > (new) default */
    int ehit = env_index_of(vin.renv[idx]);
    if (ov)
        V_ASSERT(st_is(&cur, K_OVERRIDE, ov_str, vin.snull[K_OVERRIDE] != 0), "C38.reregister.post.explicit_override_still_has_top_precedence");
    else if (ehit >= 0)
        V_ASSERT(RTYPE <= 1 ? value_is_number((parsec_mca_param_type_t)RTYPE, &cur, e_val[ehit])
                            : (cur.stringval != NULL && str_eq(cur.stringval, e_val[ehit])),
                 "C38.reregister.post.environment_beats_new_default");
    else
        V_ASSERT(st_is(&cur, K_FILE, nd_str, vin.snull[K_FILE] != 0), "C38.reregister.post.new_default_when_nothing_else");
    parsec_mca_param_source_t src = MCA_PARAM_SOURCE_MAX;
    V_ASSERT(parsec_mca_param_lookup_source(idx, &src, NULL) == PARSEC_SUCCESS, "C38.reregister.post.lookup_succeeds");
    V_ASSERT(src == (ov ? MCA_PARAM_SOURCE_OVERRIDE : ehit >= 0 ? MCA_PARAM_SOURCE_ENV : MCA_PARAM_SOURCE_DEFAULT),
             "C38.reregister.post.source_override_then_environment_then_default");

    /* register once more through param_register itself, this time possibly WITH an override value (K_ENV slot) */
    parsec_mca_param_storage_t dv, o2, got;
    if (RTYPE == 0) { dv.intval = vin.ival[K_FILE]; o2.intval = vin.ival[K_ENV]; }
    else if (RTYPE == 1) { dv.sizetval = vin.zval[K_FILE]; o2.sizetval = vin.zval[K_ENV]; }
    else { dv.stringval = vin.snull[K_FILE] ? NULL : nd_str; o2.stringval = vin.snull[K_ENV] ? NULL : o2_str; }
    got.sizetval = vin.storage0;
    rc = param_register(NULL, NULL, r_name[idx], NULL, (parsec_mca_param_type_t)RTYPE, false, false,
                        &dv, NULL, vin.new_override ? &o2 : NULL, &got);
    V_ASSERT(rc == idx, "C38.param_register.post.second_reregistration_returns_existing_index");
    if (vin.new_override) {
        V_ASSERT(p->mbp_override_value_set, "C38.param_register.post.supplied_override_sets_flag");
        V_ASSERT(st_is(&got, K_ENV, o2_str, vin.snull[K_ENV] != 0), "C38.param_register.post.supplied_override_replaces_value_and_wins");
    } else {
        V_ASSERT(p->mbp_override_value_set == ov, "C38.param_register.post.second_reregistration_keeps_override_flag");
        if (ov) V_ASSERT(st_is(&got, K_OVERRIDE, ov_str, vin.snull[K_OVERRIDE] != 0), "C38.reregister.post.override_survives_repeated_reregistration");
    }
    V_CANARY("reregister");
}
