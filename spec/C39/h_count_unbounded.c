/* C39: UNBOUNDED contract of parsec_argv_count by a loop contract (inductive invariant) inserted by the
 * overlay at "parsec_argv_count, loop #0" of a scratch copy of the real argv.c (goto-instrument --dfcc
 * --apply-loop-contracts): for EVERY vector length (only capped by NMAX for the object size) the result is the
 * index of the first NULL entry.  The vector contents are arbitrary; `ghost` is a universally quantified index. */
#include "verif.h"
#include <stdlib.h>
#include <string.h>
#include "parsec/parsec_config.h"
static unsigned g_n, g_ghost;      /* ghost: length of the vector, a universally quantified index */
#include "parsec/utils/argv.c"
#define NMAX 100000
struct vin { unsigned n; unsigned ghost; } vin;
#include "verif_vin.h"
void h_count(void)
{
    vin_load();
    V_ASSUME(vin.n < NMAX);
    g_n = vin.n; g_ghost = vin.ghost;
    char **v = malloc(sizeof(char*) * ((size_t)vin.n + 1));   /* contents arbitrary (uninitialised = nondet) */
    V_ASSUME(v != NULL);
    v[vin.n] = NULL;
    int r = parsec_argv_count(v);
    V_ASSERT(r >= 0 && (unsigned)r <= vin.n && v[r] == NULL, "C39.parsec_argv_count.post.returns_index_of_a_terminator");
    V_ASSERT(V_IMPLIES(vin.ghost < (unsigned)r, v[vin.ghost] != NULL), "C39.parsec_argv_count.post.no_terminator_before_it");
    V_CANARY("count");
}
