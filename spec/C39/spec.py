from vlib import Job

FUNCS = ["parsec_argv_split", "parsec_argv_split_with_empty", "parsec_argv_split_inter", "parsec_argv_join",
         "parsec_argv_join_range", "parsec_argv_count", "parsec_argv_len", "parsec_argv_append", "parsec_argv_append_nosize",
         "parsec_argv_prepend_nosize", "parsec_argv_insert", "parsec_argv_insert_element", "parsec_argv_delete",
         "parsec_argv_copy", "parsec_argv_free",
         "free_parse_results", "parsec_cmd_line_get_tail", "parsec_cmd_line_parse", "parsec_cmd_line_get_ninsts",
         "parsec_cmd_line_is_taken", "parsec_cmd_line_get_param", "parsec_cmd_line_get_argc", "parsec_cmd_line_get_argv",
         "parsec_cmd_line_make_opt3"]

META = dict(
    level="other",
    functions=FUNCS,
    explanation="Pre/post contracts on the real parsec/utils/argv.c (included verbatim), discharged by CBMC with pointer and bounds "
                "checks on.  split / split_with_empty: for EVERY string of a given length over the alphabet {delimiter, a, b, c} "
                "(enumerated, one path per string) the result is exactly fields(s,d): the maximal delimiter-free runs in order, a "
                "trailing delimiter acting as terminator, empty runs kept iff with_empty, NULL-terminated, pieces are fresh copies; "
                "the round trip join(split(s,d),d) equals s with empty fields squeezed, join(split_with_empty(s,d),d) equals s minus "
                "one trailing delimiter; a field of 127 / 128 / 129 characters (the internal ARGSIZE buffer boundary) is copied "
                "completely.  join / join_range / count / len / copy / append / prepend: for vectors of a fixed number of entries "
                "with symbolic characters and symbolic string lengths 0..SL and a symbolic delimiter: join is v0 d v1 ... with no "
                "delimiter after the last piece, join_range is the join of the addressed sub-range.  insert / insert_element: for "
                "every position from -1 to count+2: target' = target[0,start) ++ fresh copies of source ++ target[start,..), same "
                "pointers for the untouched entries, nothing freed, source unaffected, negative position rejected without change.  "
                "delete: for every (start, num) in [-1,count+1]^2 exactly the positions [start, min(start+num,count)) are removed and "
                "freed exactly once (ghost counter on free), the others keep their order and are not freed, result NULL-terminated, "
                "*argc equals the new count after every call, also when the range runs past the end of the vector (only the "
                "existing tokens are removed) or the call is a no-op / rejected.  "
                "Command line (real cmd_line.c with the real object system and list class, h_cmdline.c): free_parse_results, from ANY "
                "recorded counts and fixed vector / record shapes, resets lcl_argc, lcl_argv, lcl_tail_argc, lcl_tail_argv, empties the "
                "parameter list and releases every record, vector and string exactly once, thereby establishing the representation "
                "invariant lcl_tail_argc == count(lcl_tail_argv); parsec_cmd_line_get_tail, under that invariant, returns exactly "
                "(count, fresh copy of the tail) and keeps it; parsec_cmd_line_parse, for EVERY command line of argv[0] plus up to 2 "
                "(thorough: 3) tokens from {--num, -v, --, x, y, -q} with the options -n/--num (1 parameter) and -v/--verbose (0) "
                "declared, ignore_unknown true and false, on a fresh handle and on a handle that already parsed another command line, "
                "agrees with a reference written from cmd_line.h: instances and parameters of each declared option in order (by long "
                "and short name), is_taken, nothing for undeclared names, tail == remaining arguments of THIS parse, error iff unknown "
                "option / missing parameter / un-ignored unknown token, argc/argv recorded as copies, tail invariant kept.",
    trusted_base=["CBMC's models of malloc/calloc/free/strdup/strlen/strcpy/strncpy",
                  "realloc modelled in the harness (verif_realloc: always moves, copies the entries up to the NULL terminator, rest of "
                  "the new block arbitrary, frees the old block) instead of CBMC's built-in model",
                  "free() of argv.c / cmd_line.c / the object system routed through a ghost counter (verif_free) before the real free",
                  "strtoul stubbed as an arbitrary number in h_cmdline.c (set_dest converts before testing for a destination; none is declared)",
                  "CBMC's models of fprintf/atol/strcmp/strncmp",
                  "cbmc option --max-field-sensitivity-array-size 200 (so that the 128-byte buffer of split is tracked per element)"],
    assumptions=["allocation does not fail (--no-malloc-may-fail); argv.c does not test several of its allocations",
                 "vectors handed to the functions are NULL-terminated heap arrays owning heap strings (the header's stated usage)",
                 "the delimiter is a non-NUL character value passed as (int)(char)c",
                 "strings to split are enumerated over a 4-letter alphabet (3 letters for length 6); lengths and vector sizes are bounded "
                 "(see the bounded notes of the jobs)"],
)

MANIFEST = dict(
    category="other",
    text="Contracts taken from the property statement (split == fields, join == v0 d v1 ..., split/join round-trip lemmas, "
         "insert/delete change exactly the addressed positions, deleted entries freed exactly once) checked on the real argv.c by "
         "CBMC over a bounded shape (command-line parsing: every command line of up to 2-3 tokens over a 6-token alphabet against a "
         "reference parser, plus free_parse_results / get_tail contracts): every string up to length 4 (thorough: 6) over a small alphabet for split, vectors of up to 3 "
         "(thorough: 4) entries with symbolic strings of length <= 2 (3) for the vector operations, every position argument in "
         "range.  Bounded in string length / vector size, hence 'other', not 'proof'.",
    note="Command-line clause: decided only for enumerated small shapes (two declared options with 0/1 parameter, <= 2 tokens quick / "
         "3 thorough from a 6-token alphabet, '--', an unknown option, unknown tokens, ignore_unknown both ways, re-parse on the "
         "same handle) plus the contracts of free_parse_results and get_tail.  NOT decided there: combined short options (split_shorts "
         "beyond one unknown letter), single-dash names, options with >= 2 parameters, variable / MCA destinations (set_dest), "
         "parsec_cmd_line_create from a table, the usage message, the destructor, concurrent use of a handle (mutex taken as "
         "call-atomic), longer command lines.  Split strings are "
         "enumerated, not symbolic (symbolic characters make the engine explore the malloc(arglen+1) long-field branch with a "
         "symbolic size and do not finish).  parsec_argv_delete: the argc clause holds without precondition since /repo 307ebf2 "
         "(before it, a range running past the end left *argc below the real count; selftest 08 reverts that fix and must be "
         "detected).  parsec_argv_append_unique_nosize is not under contract.  Allocation failure paths are not examined.",
    technique="pre/post contracts + ghost free-counter on the real argv.c, CBMC pointer/bounds checks, complete unwinding over "
              "enumerated / bounded shapes",
    design_ref="DESIGN.md section 5, C39")

FS = ["--max-field-sensitivity-array-size", "200"]
CHUNK = 64


def split_jobs(slen, alpha, delim=None, tag="", slen_lo=None):
    """all strings of the lengths slen_lo..slen (default: exactly slen), in chunks of CHUNK codes"""
    n = alpha ** slen
    lo_len = slen if slen_lo is None else slen_lo
    J = []
    lo = 0
    while lo < n:
        hi = min(lo + CHUNK, n) - 1
        d = {"SLEN": slen, "SLEN_LO": lo_len, "ALPHA": alpha, "CODE_LO": lo, "CODE_HI": hi}
        if delim is not None:
            d["DELIM"] = delim
        J.append(Job("split%s.len%s.codes%d-%d" % (tag, slen if lo_len == slen else "%d-%d" % (lo_len, slen), lo, hi), "h_argv.c",
                     entry="h_split", defines=d,
                     unwind=slen + 4, unwindset={"h_split.2": hi - lo + 3}, object_bits=14, extra_cbmc=FS,
                     bounded="strings to split: all strings of length %s over {delimiter%s, a, b%s} (%d of length %d; this job: codes "
                             "%d..%d), both split and split_with_empty"
                             % (slen if lo_len == slen else "%d..%d" % (lo_len, slen), "" if delim is None else " = (char)%s" % delim,
                                ", c" if alpha == 4 else "", n, slen, lo, hi),
                     functions=["parsec_argv_split", "parsec_argv_split_with_empty", "parsec_argv_join", "parsec_argv_count",
                                "parsec_argv_append", "parsec_argv_free"],
                     timeout=900, mem_gb=6, min_obligations=8))
        lo = hi + 1
    return J


def jobs(tier):
    full = tier == "thorough"
    J = []
    # ---- split / round trip
    J += split_jobs(2, 4, slen_lo=0)
    J += split_jobs(3, 4)
    J += split_jobs(4, 4 if full else 3)
    # a delimiter with the sign bit set (sign extension of *p vs the int argument)
    J += split_jobs(3 if full else 2, 4, delim="(-23)", tag=".negdelim", slen_lo=0)
    if full:
        J += split_jobs(5, 4)
        J += split_jobs(6, 3)
    J.append(Job("split.long", "h_argv.c", entry="h_split_long", unwind=136, extra_cbmc=FS,
                 bounded="one field of 127 / 128 / 129 characters followed by a delimiter and a 1-character field (ARGSIZE boundary)",
                 functions=["parsec_argv_split", "parsec_argv_split_with_empty"], timeout=600, min_obligations=3))
    # ---- vectors
    nmax = 4 if full else 3
    sl = 3 if full else 2
    def vb(nt=None, ns=None):
        parts = []
        if nt is not None:
            parts.append("target vector of exactly %d entries" % nt)
        if ns is not None:
            parts.append("source vector of exactly %d entries" % ns)
        return ", ".join(parts) + "; strings of symbolic length 0..%d with symbolic characters" % sl
    J.append(Job("null_inputs", "h_argv.c", entry="h_nulls", defines={"NT": 2, "NS": 1, "SL": sl}, unwind=sl + 8, extra_cbmc=FS, canaries=3,
                 functions=["parsec_argv_split", "parsec_argv_join", "parsec_argv_len", "parsec_argv_copy", "parsec_argv_free",
                            "parsec_argv_insert", "parsec_argv_insert_element", "parsec_argv_delete"],
                 bounded="NULL string / NULL vector / NULL source, target of 2 entries", min_obligations=10))
    for ns in range(0, nmax + 1):
        # join_range over 3-4 strings of symbolic length is slow: thorough tier only, shorter strings for n = 4
        jr = ns >= 1 and (full or ns <= 2)
        sls = 1 if ns == 4 else 2
        d = {"NS": ns, "SL": sls, "NT": 1}
        if not jr:
            d["NO_JOIN_RANGE"] = None
        uw = max(ns * (sls + 1), ns + 3) + 4
        J.append(Job("join_copy%s.n%d" % ("_joinrange" if jr else "", ns), "h_argv.c", entry="h_source_ops", defines=d, unwind=uw,
                     extra_cbmc=FS, object_bits=12, canaries=3 if jr else 2,
                     bounded="vector of exactly %d entries; strings of symbolic length 0..%d with symbolic characters, symbolic "
                             "delimiter%s" % (ns, sls, "; join_range: every (start,end) in [0,n+1]x[0,n+2]" if jr else ""),
                     functions=["parsec_argv_join", "parsec_argv_count", "parsec_argv_len", "parsec_argv_copy", "parsec_argv_append",
                                "parsec_argv_free"] + (["parsec_argv_join_range"] if jr else []), timeout=1200, min_obligations=10))
    for nt in range(0, nmax + 1):
        d = {"NT": nt, "NS": 1, "SL": sl}
        J.append(Job("append_insertelement_delete.n%d" % nt, "h_argv.c", entry="h_target_ops", defines=d, unwind=nt + sl + 7,
                     extra_cbmc=FS, object_bits=12, canaries=3,
                     bounded=vb(nt=nt) + "; append/prepend (n = 0: NULL vector); insert_element: every location in [-1,n+2]; "
                                         "delete: every (start,num) in [-1,n+1]^2",
                     functions=["parsec_argv_append", "parsec_argv_append_nosize", "parsec_argv_prepend_nosize",
                                "parsec_argv_insert_element", "parsec_argv_delete", "parsec_argv_free"], min_obligations=20))
    pairs = [(0, 1), (2, 2), (3, 2), (1, 3)] + ([(1, 1), (2, 1), (4, 2), (3, 3), (2, 4), (4, 4), (0, 3)] if full else [])
    for (nt, ns) in pairs:
        J.append(Job("insert.t%d.s%d" % (nt, ns), "h_argv.c", entry="h_insert", defines={"NT": nt, "NS": ns, "SL": sl},
                     unwind=nt + ns + sl + 7, extra_cbmc=FS, object_bits=12, bounded=vb(nt, ns) + "; every position in [-1,n+2]",
                     functions=["parsec_argv_insert", "parsec_argv_append"], min_obligations=8))
    # ---- unbounded: loop contract on the real parsec_argv_count (no unwinding bound on the vector length)
    J.append(Job("count.loop_contract", "h_count_unbounded.c", entry="h_count", loop_contracts=True, unwind=2,
                 overlay=[("parsec/utils/argv.c", [{"function": "parsec_argv_count", "loops": 1, "loop": 0,
                           "text": "__CPROVER_assigns(i, p) "
                                   "__CPROVER_loop_invariant(0 <= i && (unsigned)i <= g_n && p == argv + i && "
                                   "(g_ghost >= (unsigned)i || argv[g_ghost] != NULL)) "
                                   "__CPROVER_decreases(g_n - (unsigned)i)"}])],
                 functions=["parsec_argv_count"], min_obligations=6, timeout=300))
    # ---- command line (h_cmdline.c)
    US = {"expand_array.0": 11}
    CF = ["free_parse_results", "parsec_cmd_line_get_tail", "parsec_cmd_line_parse"]
    for (na, ntl, np_) in [(0, 0, 0), (2, 2, 2), (1, 0, 1)] + ([(0, 3, 0)] if full else []):
        J.append(Job("cmdline.free_results_get_tail.a%d.t%d.p%d" % (na, ntl, np_), "h_cmdline.c", entry="h_cmd_small",
                     defines={"NA": na, "NTL": ntl, "NP": np_}, unwind=12, unwindset=US, object_bits=12, extra_cbmc=FS, canaries=3,
                     bounded="handle with lcl_argv of %d, tail of %d entries (0 = NULL), %d parameter records (record k has k parameters); "
                             "recorded counts arbitrary (free_parse_results) / consistent (get_tail)" % (na, ntl, np_),
                     functions=CF, min_obligations=12))
    PF = ["parsec_cmd_line_parse", "parsec_cmd_line_get_ninsts", "parsec_cmd_line_is_taken", "parsec_cmd_line_get_param",
          "parsec_cmd_line_get_tail", "parsec_cmd_line_get_argc", "parsec_cmd_line_get_argv", "parsec_cmd_line_make_opt3",
          "free_parse_results"]
    firsts = {0: "fresh handle", 1: "handle that already parsed 'prog --num 7 -- p q'", 2: "handle that already parsed 'prog -v -v t'"}
    # one process per (earlier parse, ignore_unknown): 43 command lines each
    combos = [(0, 1), (0, 0), (1, 1)] + ([(1, 0), (2, 1), (2, 0)] if full else [])
    for (first, ign) in combos:
        J.append(Job("cmdline.parse.len0-2.first%d.ign%d" % (first, ign), "h_cmdline.c", entry="h_parse",
                     defines={"MAXTOK": 2, "LEN_LO": 0, "FIRST": first, "IGN": ign, "CODE_LO": 0, "CODE_HI": 35}, unwind=12,
                     unwindset=dict(US, **{"h_parse.3": 39}), object_bits=14, extra_cbmc=FS,
                     bounded="all 43 command lines of argv[0] + 0..2 tokens from {--num,-v,--,x,y,-q}, ignore_unknown=%d, on a %s"
                             % (ign, firsts[first]),
                     functions=PF, timeout=1200, min_obligations=15))
    if full:
        for first, igns in ((1, (0, 1)), (0, (1,))):
            for ign in igns:
                for lo in range(0, 216, 36):
                    J.append(Job("cmdline.parse.len3.first%d.ign%d.codes%d-%d" % (first, ign, lo, lo + 35), "h_cmdline.c", entry="h_parse",
                                 defines={"MAXTOK": 3, "LEN_LO": 3, "FIRST": first, "IGN": ign, "CODE_LO": lo, "CODE_HI": lo + 35},
                                 unwind=12, unwindset=dict(US, **{"h_parse.3": 39}), object_bits=12, extra_cbmc=FS,
                                 bounded="command lines of argv[0] + 3 tokens from {--num,-v,--,x,y,-q} (216; this job: codes %d..%d), "
                                         "ignore_unknown=%d, on a %s" % (lo, lo + 35, ign, firsts[first]),
                                 functions=PF, timeout=1800, min_obligations=15))
    return J
