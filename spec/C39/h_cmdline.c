/* C39, command-line clause: contracts on the part of parsec/utils/cmd_line.c that is within reach
 * (cmd_line.c, argv.c, the object system and the list class are included verbatim; sequential use).
 *
 *  (1) free_parse_results   POST lcl_argc == 0, lcl_argv == NULL, lcl_tail_argc == 0, lcl_tail_argv == NULL,
 *                           parameter list empty, every parsed-parameter record / its argv / every string of
 *                           the two vectors released exactly once       (pre-state: ANY counts, fixed shapes)
 *  (2) parsec_cmd_line_get_tail   PRE/POST representation invariant lcl_tail_argc == count(lcl_tail_argv);
 *                           returns exactly (lcl_tail_argc, fresh copy of lcl_tail_argv), handle unchanged
 *  (3) parsec_cmd_line_parse on ENUMERATED small command lines (argv[0] + up to MAXTOK tokens from a fixed
 *      6-token alphabet; two declared options: -n/--num with 1 parameter, -v/--verbose with 0), compared with
 *      a reference written from cmd_line.h: each declared option present is reported by is_taken / get_ninsts
 *      / get_param with its parameters in order, the remaining arguments are the tail, errors are reported;
 *      and the same after a FIRST parse of another command line on the same handle: only the last command
 *      line is reported.
 * NOT covered: usage message, mca / variable destinations (set_dest with a destination), combined short
 * options ("-vn": split_shorts beyond a single unknown letter), single-dash names, concurrency.
 */
#include "verif.h"
#include <stdlib.h>
#include <string.h>
#include <stdio.h>
#include <stdint.h>
#include <stdbool.h>

/* ---- ghost instrumentation of free(): tracked blocks and how often each was released ---- */
#define GH_MAX 24
static void *gh_ptr[GH_MAX];
static int   gh_freed[GH_MAX];
static int   gh_n;
static void gh_track(void *p) { if (p != NULL && gh_n < GH_MAX) { gh_ptr[gh_n] = p; gh_freed[gh_n] = 0; gh_n++; } }
static void verif_free(void *p)
{
    for (int i = 0; i < GH_MAX; i++) { if (i >= gh_n) break; if (p != NULL && p == gh_ptr[i]) gh_freed[i]++; }
    free(p);
}
/* realloc of an argument vector: same model as in h_argv.c (always moves, copies up to the NULL terminator,
 * rest arbitrary, old block freed), so that vector contents stay constant-propagated */
#ifndef VERIF_REPLAY
static void *verif_realloc(void *p, size_t n)
{
    if (p == NULL) return malloc(n);
    __CPROVER_assert(n % sizeof(char *) == 0 && n > 0, "C39.realloc_model.pre.new_size_is_a_whole_number_of_pointers");
    char **q = (char **)malloc(n);
    char **o = (char **)p;
    for (size_t i = 0; i < n / sizeof(char *); i++) { q[i] = o[i]; if (o[i] == NULL) break; }
    free(p);
    return q;
}
#define realloc(p, n) verif_realloc(p, n)
/* set_dest() converts the parameter with strtoul() before looking whether the option has a destination; the
 * options declared here have none, the value is unused: stubbed as an arbitrary number */
unsigned long nondet_ulong(void);
unsigned long strtoul(const char *s, char **e, int b) { (void)s; (void)e; (void)b; return nondet_ulong(); }
#endif
#define free(p) verif_free(p)
#include "parsec/class/parsec_object.c"
#include "parsec/class/parsec_list.c"
#include "parsec/utils/argv.c"
#include "parsec/utils/cmd_line.c"
#undef free
#undef realloc

#ifndef NA
#define NA 2      /* entries of lcl_argv in the hand-built pre-state        */
#endif
#ifndef NTL
#define NTL 2     /* entries of lcl_tail_argv (0 = NULL vector)              */
#endif
#ifndef NP
#define NP 1      /* parsed-parameter records on the handle                  */
#endif
#ifndef MAXTOK
#define MAXTOK 2  /* tokens after argv[0] in the enumerated command lines    */
#endif
#define NTOK 6    /* size of the token alphabet                              */

struct vin {
    int32_t argc0, tailc0;       /* arbitrary counts in the pre-state of free_parse_results */
    char    c[8];                /* characters of the pre-state strings                     */
    uint8_t ignore_unknown;
    uint8_t first;               /* which command line was parsed before (0 = none)          */
    int32_t len;                 /* number of tokens of the command line                     */
    uint32_t code;               /* which command line of that length                        */
} vin;
#include "verif_vin.h"

static parsec_cmd_line_t g_cmd;

static int sp_streq(const char *a, const char *b)
{
    for (int i = 0; i < 16; i++) { if (a[i] != b[i]) return 0; if (a[i] == '\0') return 1; }
    return 0;
}

/* a heap vector of n one-character strings, every block tracked by the free counter */
static char **mk_vector(int n, int salt)
{
    char **v = (char **)malloc(sizeof(char *) * (n + 1));
    gh_track(v);
    for (int i = 0; i < n; i++) {
        char *s = (char *)malloc(2);
        s[0] = vin.c[(salt + i) & 7]; s[1] = '\0';
        v[i] = s; gh_track(s);
    }
    v[n] = NULL;
    return v;
}

/* ------------------------------------------------------------------ */
/* (1) free_parse_results                                              */
/* ------------------------------------------------------------------ */
void h_free_results(void)
{
    vin_load();
    gh_n = 0;
    PARSEC_OBJ_CONSTRUCT(&g_cmd, parsec_cmd_line_t);
    /* pre-state: vectors of the fixed shape, ANY recorded counts (also inconsistent ones) */
    g_cmd.lcl_argc = vin.argc0;
    g_cmd.lcl_argv = NA > 0 ? mk_vector(NA, 0) : NULL;
    g_cmd.lcl_tail_argc = vin.tailc0;
    g_cmd.lcl_tail_argv = NTL > 0 ? mk_vector(NTL, 3) : NULL;
    for (int k = 0; k < NP; k++) {
        cmd_line_param_t *p = PARSEC_OBJ_NEW(cmd_line_param_t);
        gh_track(p);
        p->clp_argc = k; p->clp_argv = k > 0 ? mk_vector(k, 5) : NULL;     /* record k has k parameters */
        parsec_list_append(&g_cmd.lcl_params, &p->super);
    }
    int tracked = gh_n;

    free_parse_results(&g_cmd);

    V_ASSERT(g_cmd.lcl_argc == 0 && g_cmd.lcl_argv == NULL, "C39.free_parse_results.post.argv_pair_reset");
    V_ASSERT(g_cmd.lcl_tail_argv == NULL, "C39.free_parse_results.post.tail_vector_reset");
    V_ASSERT(g_cmd.lcl_tail_argc == 0, "C39.free_parse_results.post.tail_count_reset");
    V_ASSERT(g_cmd.lcl_tail_argc == parsec_argv_count(g_cmd.lcl_tail_argv),
             "C39.free_parse_results.post.establishes_tail_invariant_count_equals_vector_length");
    V_ASSERT(parsec_list_is_empty(&g_cmd.lcl_params), "C39.free_parse_results.post.parameter_list_empty");
    for (int i = 0; i < GH_MAX; i++) {
        if (i >= tracked) break;
        V_ASSERT(gh_freed[i] == 1, "C39.free_parse_results.post.every_record_vector_and_string_released_exactly_once");
    }
    V_CANARY("free_results");
}

/* ------------------------------------------------------------------ */
/* (2) parsec_cmd_line_get_tail                                        */
/* ------------------------------------------------------------------ */
void h_get_tail(void)
{
    vin_load();
    gh_n = 0;
    PARSEC_OBJ_CONSTRUCT(&g_cmd, parsec_cmd_line_t);
    char **tv = NTL > 0 ? mk_vector(NTL, 3) : NULL;
    g_cmd.lcl_tail_argv = tv;
    g_cmd.lcl_tail_argc = NTL;        /* PRE: representation invariant lcl_tail_argc == count(lcl_tail_argv) */
    int tracked = gh_n;
    int tailc = -7; char **tailv = (char **)&g_cmd;
    int rc = parsec_cmd_line_get_tail(&g_cmd, &tailc, &tailv);
    V_ASSERT(rc == PARSEC_SUCCESS, "C39.parsec_cmd_line_get_tail.post.success");
    V_ASSERT(tailc == NTL && tailc == parsec_argv_count(tailv),
             "C39.parsec_cmd_line_get_tail.post.count_equals_number_of_strings_returned");
    V_ASSERT(V_IMPLIES(NTL > 0, tailv != NULL && tailv != tv), "C39.parsec_cmd_line_get_tail.post.vector_is_a_copy");
    if (tailv != NULL) {
        for (int i = 0; i < NTL; i++)
            V_ASSERT(tailv[i] != NULL && tailv[i] != tv[i] && sp_streq(tailv[i], tv[i]),
                     "C39.parsec_cmd_line_get_tail.post.strings_are_equal_fresh_copies_in_order");
    }
    V_ASSERT(g_cmd.lcl_tail_argv == tv && g_cmd.lcl_tail_argc == NTL, "C39.parsec_cmd_line_get_tail.post.handle_unchanged_invariant_kept");
    for (int i = 0; i < GH_MAX; i++) { if (i >= tracked) break; V_ASSERT(gh_freed[i] == 0, "C39.parsec_cmd_line_get_tail.post.nothing_of_the_handle_released"); }
    V_ASSERT(parsec_cmd_line_get_tail(NULL, &tailc, &tailv) == PARSEC_ERROR, "C39.parsec_cmd_line_get_tail.post.null_handle_rejected");
    V_CANARY("get_tail");
}

/* ------------------------------------------------------------------ */
/* (3) parsec_cmd_line_parse on enumerated command lines               */
/* ------------------------------------------------------------------ */
static char *const alphabet[NTOK] = { "--num", "-v", "--", "x", "y", "-q" };
/* reference (cmd_line.h): result of parsing argv[0..argc) */
struct ref { int err; int n_num; const char *num_param[MAXTOK + 1]; int n_verbose; int tail_start; /* == argc: empty tail */ };
static void reference(int argc, char **argv, int ignore_unknown, struct ref *r)
{
    r->err = 0; r->n_num = 0; r->n_verbose = 0; r->tail_start = argc;
    int i = 1;
    for (int guard = 0; guard < MAXTOK + 1; guard++) {
        if (i >= argc) break;
        const char *t = argv[i];
        if (sp_streq(t, "--")) { r->tail_start = i + 1; break; }                    /* everything after "--" is the tail  */
        else if (sp_streq(t, "--num") || sp_streq(t, "-n")) {                       /* declared, 1 parameter              */
            if (i + 1 >= argc) { r->err = 1; r->tail_start = argc; break; }          /* too few parameters: error          */
            r->num_param[r->n_num++] = argv[i + 1]; i += 2;
        }
        else if (sp_streq(t, "--verbose") || sp_streq(t, "-v")) { r->n_verbose++; i += 1; }
        else if (t[0] == '-') { r->err = 1; r->tail_start = i; break; }              /* unknown option: always an error    */
        else { r->err = !ignore_unknown; r->tail_start = i; break; }                 /* unknown token: parsing stops       */
    }
}

static char *g_av[MAXTOK + 2];
static void decode(int L, unsigned code)
{
    g_av[0] = "prog";
    for (int i = 0; i < MAXTOK; i++) { if (i >= L) break; g_av[1 + i] = alphabet[code % NTOK]; code /= NTOK; }
    g_av[1 + L] = NULL;
}

static void check_parse(int L, unsigned code, int ignore_unknown)
{
    struct ref r;
    decode(L, code);
    int argc = L + 1;
    int rc = parsec_cmd_line_parse(&g_cmd, ignore_unknown != 0, argc, g_av);
    reference(argc, g_av, ignore_unknown, &r);

    V_ASSERT(V_IFF(rc != PARSEC_SUCCESS, r.err), "C39.parsec_cmd_line_parse.post.error_iff_unknown_option_or_missing_parameter_or_unignored_token");
    /* declared options with their parameters, by long and by short name */
    V_ASSERT(parsec_cmd_line_get_ninsts(&g_cmd, "num") == r.n_num && parsec_cmd_line_get_ninsts(&g_cmd, "n") == r.n_num,
             "C39.parsec_cmd_line_parse.post.each_declared_option_reported_as_often_as_present");
    V_ASSERT(parsec_cmd_line_get_ninsts(&g_cmd, "verbose") == r.n_verbose && parsec_cmd_line_get_ninsts(&g_cmd, "v") == r.n_verbose,
             "C39.parsec_cmd_line_parse.post.each_declared_option_reported_as_often_as_present");
    V_ASSERT(parsec_cmd_line_is_taken(&g_cmd, "num") == (r.n_num > 0) && parsec_cmd_line_is_taken(&g_cmd, "verbose") == (r.n_verbose > 0),
             "C39.parsec_cmd_line_parse.post.is_taken_iff_present");
    V_ASSERT(parsec_cmd_line_get_ninsts(&g_cmd, "q") == 0 && !parsec_cmd_line_is_taken(&g_cmd, "zzz"),
             "C39.parsec_cmd_line_parse.post.undeclared_option_never_reported");
    for (int k = 0; k < MAXTOK + 1; k++) {
        char *p = parsec_cmd_line_get_param(&g_cmd, "num", k, 0);
        if (k < r.n_num)
            V_ASSERT(p != NULL && sp_streq(p, r.num_param[k]), "C39.parsec_cmd_line_parse.post.parameters_of_each_instance_in_order");
        else
            V_ASSERT(p == NULL, "C39.parsec_cmd_line_parse.post.no_parameter_beyond_the_instances_present");
    }
    V_ASSERT(parsec_cmd_line_get_param(&g_cmd, "num", 0, 1) == NULL && parsec_cmd_line_get_param(&g_cmd, "verbose", 0, 0) == NULL,
             "C39.parsec_cmd_line_parse.post.no_parameter_beyond_the_declared_number");
    /* the remaining arguments are the tail */
    int tailc = -7; char **tailv = NULL;
    V_ASSERT(parsec_cmd_line_get_tail(&g_cmd, &tailc, &tailv) == PARSEC_SUCCESS, "C39.parsec_cmd_line_get_tail.post.success");
    V_ASSERT(tailc == argc - r.tail_start, "C39.parsec_cmd_line_parse.post.tail_count_is_number_of_remaining_arguments_of_this_parse");
    V_ASSERT(tailc == parsec_argv_count(tailv), "C39.parsec_cmd_line_get_tail.post.count_equals_number_of_strings_returned");
    V_ASSERT(g_cmd.lcl_tail_argc == parsec_argv_count(g_cmd.lcl_tail_argv), "C39.parsec_cmd_line_parse.inv.tail_count_equals_tail_vector_length");
    for (int k = 0; k < MAXTOK; k++) {
        if (k >= argc - r.tail_start) break;
        V_ASSERT(tailv != NULL && k < parsec_argv_count(tailv) && sp_streq(tailv[k], g_av[r.tail_start + k]),
                 "C39.parsec_cmd_line_parse.post.tail_is_the_remaining_arguments_in_order");
    }
    parsec_argv_free(tailv);
    /* the handle keeps a copy of the command line; the caller's argv is untouched */
    V_ASSERT(parsec_cmd_line_get_argc(&g_cmd) == argc, "C39.parsec_cmd_line_parse.post.argc_recorded");
    for (int k = 0; k < MAXTOK + 1; k++) {
        if (k >= argc) break;
        char *a = parsec_cmd_line_get_argv(&g_cmd, k);
        V_ASSERT(a != NULL && a != g_av[k] && sp_streq(a, g_av[k]), "C39.parsec_cmd_line_parse.post.argv_recorded_as_a_copy");
    }
}

#ifndef CODE_LO
#define CODE_LO 0
#define CODE_HI 215
#endif
#ifndef LEN_LO
#define LEN_LO 0
#endif
void h_parse(void)
{
    vin_load();
    gh_n = 0;
    V_ASSUME(vin.ignore_unknown <= 1 && vin.first <= 2);
#ifdef IGN
    vin.ignore_unknown = IGN;
#endif
#ifdef FIRST
    vin.first = FIRST;
#endif
    V_ASSUME(vin.len >= LEN_LO && vin.len <= MAXTOK);
    PARSEC_OBJ_CONSTRUCT(&g_cmd, parsec_cmd_line_t);
    V_ASSERT(parsec_cmd_line_make_opt3(&g_cmd, 'n', NULL, "num", 1, "a number") == PARSEC_SUCCESS, "C39.parsec_cmd_line_make_opt3.post.success");
    V_ASSERT(parsec_cmd_line_make_opt3(&g_cmd, 'v', NULL, "verbose", 0, "be verbose") == PARSEC_SUCCESS, "C39.parsec_cmd_line_make_opt3.post.success");
    /* an earlier parse on the same handle (its results must be gone afterwards) */
    if (vin.first == 1) {
        char *first1[] = { "prog", "--num", "7", "--", "p", "q", NULL };      /* one option with parameter, tail of 2 */
        (void)parsec_cmd_line_parse(&g_cmd, true, 6, first1);
    } else if (vin.first == 2) {
        char *first2[] = { "prog", "-v", "-v", "t", NULL };                   /* option twice, unknown token: tail of 1 */
        (void)parsec_cmd_line_parse(&g_cmd, true, 4, first2);
    }
    for (int L = LEN_LO; L <= MAXTOK; L++) {
        if (vin.len != L) continue;
        unsigned ncodes = 1;
        for (int i = 0; i < L; i++) ncodes *= NTOK;
        V_ASSUME(vin.code >= CODE_LO && vin.code <= CODE_HI && vin.code < ncodes);
        for (unsigned c = CODE_LO; c <= CODE_HI; c++) {
            if (c >= ncodes) break;
            if (vin.code == c) {
                if (vin.ignore_unknown) check_parse(L, c, 1); else check_parse(L, c, 0);
                break;
            }
        }
        break;
    }
    V_CANARY("parse");
}

/* bozo case: argc == 0 / argv == NULL leaves the handle alone */
void h_parse_null(void)
{
    vin_load();
    PARSEC_OBJ_CONSTRUCT(&g_cmd, parsec_cmd_line_t);
    V_ASSERT(parsec_cmd_line_parse(&g_cmd, true, 0, NULL) == PARSEC_SUCCESS && parsec_cmd_line_get_argc(&g_cmd) == 0,
             "C39.parsec_cmd_line_parse.post.empty_command_line_is_a_noop");
    int tailc = -7; char **tailv = (char **)&g_cmd;
    V_ASSERT(parsec_cmd_line_get_tail(&g_cmd, &tailc, &tailv) == PARSEC_SUCCESS && tailc == 0 && tailv == NULL,
             "C39.parsec_cmd_line_get_tail.post.fresh_handle_has_an_empty_tail");
    V_CANARY("parse_null");
}

/* combined entry: (1) + (2) + the bozo case in one cbmc process (each part has its own inputs and canary) */
void h_cmd_small(void) { h_free_results(); h_get_tail(); h_parse_null(); }
