/* C39: contracts on the real argument-vector utilities (parsec/utils/argv.c,
 * included verbatim).  Route "harness": V_ASSUME(pre); call; V_ASSERT(post).
 *
 * Shape bounds (labelled Job(bounded=...)): the strings handed to split are
 * ENUMERATED (all strings of the lengths SLEN_LO..SLEN over a 3-4 letter
 * alphabet, one path per string); for the vector operations the number of
 * entries (NT target / NS source) is fixed per cbmc process, the characters,
 * the string lengths (0..SL) and the delimiter are symbolic, and position /
 * count arguments are case-split over their whole stated range.
 * parsec_cmd_line_parse (cmd_line.c) is NOT under contract (out of reach).
 *
 * Spec vocabulary, written from the property statement / the header:
 *   fields(s,d,with_empty) = the maximal delimiter-free runs of s, a trailing
 *   delimiter acting as terminator (no final empty field), empty runs dropped
 *   unless with_empty;   join(v,d) = v0 d v1 d ... v(n-1).
 */
#include "verif.h"
#include <stdlib.h>
#include <string.h>
#include <stdint.h>

/* ghost instrumentation of free(): which of the pre-state strings of the
 * target vector were released, and how often ("freed exactly once") */
#ifndef NT
#define NT 2        /* entries of the target vector                       */
#endif
#define GH_MAX (NT > 0 ? NT : 1)
static char *gh_str[GH_MAX];
static int   gh_freed[GH_MAX];
static int   gh_n;
static void verif_free(void *p)
{
    for (int i = 0; i < GH_MAX; i++)
        if (i < gh_n && p != NULL && p == (void *)gh_str[i]) gh_freed[i]++;
    free(p);
}
/* realloc() of an argument vector: modelled as "always moves": a fresh block of the new size; the entries up to
 * and including the NULL terminator (or as many as fit) are copied one by one, the rest of the new block is
 * uninitialised (= arbitrary: an over-approximation of realloc, which would preserve them); old block freed.
 * Every read of the old block is bounds-checked.  Reason: CBMC's built-in model copies with an opaque array
 * operation after which the vector's contents, hence every count and allocation size derived from them, are no
 * longer constant-propagated, and the checks do not finish. */
#ifndef VERIF_REPLAY
static void *verif_realloc(void *p, size_t n)
{
    if (p == NULL) return malloc(n);
    __CPROVER_assert(n % sizeof(char *) == 0 && n > 0, "C39.realloc_model.pre.new_size_is_a_whole_number_of_pointers");
    char **q = (char **)malloc(n);
    char **o = (char **)p;
    for (size_t i = 0; i < n / sizeof(char *); i++) { q[i] = o[i]; if (o[i] == NULL) break; }
    free(p);
    return q;
}
#define realloc(p, n) verif_realloc(p, n)
#endif
#define free(p) verif_free(p)
#include "parsec/utils/argv.c"
#undef free
#undef realloc

#ifndef SLEN
#define SLEN 3      /* length of the string handed to split               */
#endif
#ifndef NS
#define NS 1        /* entries of the source vector                       */
#endif
#ifndef SL
#define SL 2        /* capacity (max strlen) of the strings in vectors    */
#endif
#define NTA (NT > 0 ? NT : 1)
#define NSA (NS > 0 ? NS : 1)

struct vin {
    uint32_t code;              /* which string of the enumeration is split        */
    int32_t len;                /* its length                                      */
    char    delim;              /* delimiter character                             */
    uint8_t with_empty;
    char    t[NTA][SL + 1];     /* target vector strings (NUL somewhere in 0..SL)  */
    char    u[NSA][SL + 1];     /* source vector strings                           */
    int32_t start, num;         /* position / count arguments                      */
    int32_t end;
    uint8_t which;              /* variant selector                                */
} vin;
#include "verif_vin.h"

/* ---------- spec helpers (independent of the code under contract) ---------- */
static int sp_len(const char *x, int cap)          /* strlen, bounded by cap */
{
    int n = 0;
    for (int i = 0; i < cap; i++) { if (x[i] == '\0') break; n++; }
    return n;
}
static int sp_eq(const char *a, const char *b, int cap)   /* string equality up to cap+1 bytes */
{
    for (int i = 0; i <= cap; i++) {
        if (a[i] != b[i]) return 0;
        if (a[i] == '\0') return 1;
    }
    return 1;
}
#ifndef VERIF_REPLAY
#define SAME_OBJECT(p, q) (__CPROVER_POINTER_OBJECT(p) == __CPROVER_POINTER_OBJECT(q))
#else
#define SAME_OBJECT(p, q) ((const char *)(p) >= (const char *)(q) && (const char *)(p) <= (const char *)(q) + sizeof(vin))
#endif

/* ------------------------------------------------------------------ */
/* split / split_with_empty, and the split-join round trip             */
/* ------------------------------------------------------------------ */
static int f_start[SLEN + 1], f_len[SLEN + 1], f_n;      /* SLEN = the largest length of this process */
static void spec_fields(const char *s, int L, char d, int with_empty)
{
    int st = 0;
    f_n = 0;
    for (int i = 0; i <= L; i++) {
        if (i == L || s[i] == d) {
            int len = i - st;
            int terminator_only = (i == L && len == 0);   /* the string ended on a delimiter (or is empty) */
            if (!terminator_only && (len > 0 || with_empty)) { f_start[f_n] = st; f_len[f_n] = len; f_n++; }
            st = i + 1;
        }
    }
}

/* The strings handed to split are ENUMERATED: every string of length SLEN over the alphabet
 * { DELIM, 'a', 'b' [, 'c'] } (ALPHA letters, code = base-ALPHA number), one path per string, so that every
 * branch and allocation size of the real code is concrete on its path (symbolic characters make the
 * `arglen > ARGSIZE-1` branch with its malloc(arglen+1) reachable for the symbolic engine and do not finish). */
#ifndef ALPHA
#define ALPHA 4
#endif
#ifndef DELIM
#define DELIM ':'
#endif
#ifndef CODE_LO
#define CODE_LO 0
#define CODE_HI 63
#endif
static const char alphabet[4] = { (char)(DELIM), 'a', 'b', 'c' };

static void check_split(const char *s, int L, int with_empty)
{
    const char dl = (char)(DELIM);
    int d = (int)dl;
    char **r = with_empty ? parsec_argv_split_with_empty(s, d) : parsec_argv_split(s, d);
    spec_fields(s, L, dl, with_empty);

    V_ASSERT(parsec_argv_count(r) == f_n, "C39.parsec_argv_split.post.count_equals_number_of_fields");
    V_ASSERT(V_IMPLIES(f_n > 0, r != NULL), "C39.parsec_argv_split.post.nonempty_result_for_nonempty_fields");
    if (r != NULL) {
        V_ASSERT(r[f_n] == NULL, "C39.parsec_argv_split.post.null_terminated_after_last_field");
        for (int k = 0; k < SLEN + 1; k++) {
            if (k >= f_n) break;
            V_ASSERT(r[k] != NULL, "C39.parsec_argv_split.post.no_hole_before_the_end");
            if (r[k] == NULL) continue;
            V_ASSERT(!SAME_OBJECT(r[k], s), "C39.parsec_argv_split.post.pieces_are_copies_not_references");
            int same = 1;
            for (int j = 0; j < SLEN; j++) { if (j >= f_len[k]) break; if (r[k][j] != s[f_start[k] + j]) same = 0; }
            V_ASSERT(same && r[k][f_len[k]] == '\0', "C39.parsec_argv_split.post.piece_k_is_the_kth_delimiter_free_run");
        }
    }
    /* round trip: join(split(s,d),d) */
    char *j = parsec_argv_join(r, d);
    V_ASSERT(j != NULL, "C39.parsec_argv_join.post.returns_a_string");
    if (j != NULL) {
        /* expected: with_empty -> s with one trailing delimiter removed;
         * otherwise  -> s with leading/trailing delimiters removed and runs of delimiters squeezed to one */
        char e[SLEN + 1]; int n = 0;
        if (with_empty) {
            int E = L;
            if (E > 0 && s[E - 1] == dl) E--;
            for (int i = 0; i < SLEN; i++) { if (i >= E) break; e[n++] = s[i]; }
        } else {
            int pending = 0;
            for (int i = 0; i < SLEN; i++) {
                if (i >= L) break;
                if (s[i] == dl) { if (n > 0) pending = 1; }
                else { if (pending) { e[n++] = dl; pending = 0; } e[n++] = s[i]; }
            }
        }
        e[n] = '\0';
        int same = 1;
        for (int i = 0; i <= SLEN; i++) { if (i > n) break; if (j[i] != e[i]) same = 0; }
        if (with_empty)
            V_ASSERT(same, "C39.split_join.lemma.join_of_split_with_empty_is_s_minus_one_trailing_delimiter");
        else
            V_ASSERT(same, "C39.split_join.lemma.join_of_split_is_s_with_empty_fields_squeezed");
    }
    free(j);
    parsec_argv_free(r);
}

/* lengths SLEN_LO..SLEN and, for each length L, the codes CODE_LO..min(CODE_HI, ALPHA^L - 1) */
#ifndef SLEN_LO
#define SLEN_LO SLEN
#endif
static char g_s[SLEN + 1];
void h_split(void)
{
    vin_load();
    V_ASSUME(vin.with_empty <= 1);
    V_ASSUME(vin.len >= SLEN_LO && vin.len <= SLEN);
    for (int L = SLEN_LO; L <= SLEN; L++) {
        if (vin.len != L) continue;
        unsigned ncodes = 1;
        for (int i = 0; i < L; i++) ncodes *= ALPHA;
        V_ASSUME(vin.code >= CODE_LO && vin.code <= CODE_HI && vin.code < ncodes);
        for (unsigned c = CODE_LO; c <= CODE_HI; c++) {
            if (c >= ncodes) break;
            if (vin.code == c) {
                unsigned x = c;
                for (int i = 0; i < SLEN; i++) { if (i >= L) break; g_s[i] = alphabet[x % ALPHA]; x /= ALPHA; }
                g_s[L] = '\0';
                if (vin.with_empty) check_split(g_s, L, 1); else check_split(g_s, L, 0);
                break;
            }
        }
        break;
    }
    V_CANARY("split");
}

/* NULL / empty input */
void h_split_null(void)
{
    vin_load();
    char **r = vin.with_empty ? parsec_argv_split_with_empty(NULL, (int)vin.delim) : parsec_argv_split(NULL, (int)vin.delim);
    V_ASSERT(r == NULL && parsec_argv_count(r) == 0, "C39.parsec_argv_split.post.null_string_gives_empty_vector");
    char *j = parsec_argv_join(NULL, (int)vin.delim);
    V_ASSERT(j != NULL && j[0] == '\0', "C39.parsec_argv_join.post.null_vector_gives_empty_string");
    free(j);
    V_ASSERT(parsec_argv_len(NULL) == 0, "C39.parsec_argv_len.post.null_vector_has_length_0");
    V_ASSERT(parsec_argv_copy(NULL) == NULL, "C39.parsec_argv_copy.post.null_vector_copies_to_null");
    parsec_argv_free(NULL);
    V_CANARY("split_null");
}

/* a field at the internal buffer boundary (ARGSIZE = 128): LONG non-delimiter characters, a delimiter, one more
 * character, for LONG = 127, 128, 129 */
#define LONG_HI 129
static char g_long[LONG_HI + 3];
static void check_split_long(int LONG, int with_empty)
{
    const char dl = (char)(DELIM);
    for (int i = 0; i < LONG_HI; i++) { if (i >= LONG) break; g_long[i] = (char)('a' + i % 23); }
    g_long[LONG] = dl; g_long[LONG + 1] = 'y'; g_long[LONG + 2] = '\0';
    char **r = with_empty ? parsec_argv_split_with_empty(g_long, (int)dl) : parsec_argv_split(g_long, (int)dl);
    V_ASSERT(parsec_argv_count(r) == 2, "C39.parsec_argv_split.post.long_field_count");
    if (r != NULL && r[0] != NULL) {
        int same = 1;
        for (int i = 0; i < LONG_HI; i++) { if (i >= LONG) break; if (r[0][i] != g_long[i]) same = 0; }
        V_ASSERT(same && r[0][LONG] == '\0', "C39.parsec_argv_split.post.long_field_copied_completely");
        V_ASSERT(r[1] != NULL && r[1][0] == 'y' && r[1][1] == '\0', "C39.parsec_argv_split.post.field_after_long_field");
    }
    parsec_argv_free(r);
}
void h_split_long(void)
{
    vin_load();
    V_ASSUME(vin.with_empty <= 1);
    V_ASSUME(vin.len >= 127 && vin.len <= LONG_HI);
    for (int L = 127; L <= LONG_HI; L++)
        if (vin.len == L) { if (vin.with_empty) check_split_long(L, 1); else check_split_long(L, 0); break; }
    V_CANARY("split_long");
}

/* ------------------------------------------------------------------ */
/* vectors                                                             */
/* ------------------------------------------------------------------ */
static char *g_tp[NTA];            /* the heap strings of the target vector in the pre-state */
static char *g_sv[NSA + 1];        /* source vector (static storage, read-only for the code) */

static char **build_target(void)
{
    char **t = (char **)malloc(sizeof(char *) * (NT + 1));
    gh_n = 0;
    for (int i = 0; i < NT; i++) {
        vin.t[i][SL] = '\0';
        char *x = (char *)malloc(SL + 1);
        for (int j = 0; j <= SL; j++) x[j] = vin.t[i][j];
        t[i] = x; g_tp[i] = x;
        gh_str[gh_n] = x; gh_freed[gh_n] = 0; gh_n++;
    }
    t[NT] = NULL;
    return t;
}
static void build_source(void)
{
    for (int i = 0; i < NS; i++) { vin.u[i][SL] = '\0'; g_sv[i] = vin.u[i]; }
    g_sv[NS] = NULL;
}

/* Position / count arguments are case-split: the call and its postconditions run with a concrete value on each
 * path (`k` is the loop counter), all values of the stated range are covered. */
#define FOR_EACH_CASE(k, lo, hi, sym) for (int k = (lo); k <= (hi); k++) if ((sym) == k)

/* join / count / len on a static vector of NS strings (symbolic characters, symbolic lengths 0..SL) */
void h_join(void)
{
    vin_load();
    build_source();
    V_ASSUME(vin.delim != '\0');
    int d = (int)vin.delim;
    int len[NSA]; int total = 0;
    for (int i = 0; i < NS; i++) { len[i] = sp_len(vin.u[i], SL); total += len[i]; }

    V_ASSERT(parsec_argv_count(g_sv) == NS, "C39.parsec_argv_count.post.number_of_entries_before_NULL");
    V_ASSERT(parsec_argv_len(g_sv) == sizeof(char *) * (NS + 1) + (size_t)total + NS,
             "C39.parsec_argv_len.post.bytes_of_pointers_and_strings");

    char *j = parsec_argv_join(g_sv, d);
    V_ASSERT(j != NULL, "C39.parsec_argv_join.post.returns_a_string");
    if (j != NULL) {
        int pos = 0, ok = 1;
        for (int i = 0; i < NS; i++) {
            if (i > 0) { if (j[pos] != vin.delim) ok = 0; pos++; }
            for (int k = 0; k < SL; k++) { if (k >= len[i]) break; if (j[pos] != vin.u[i][k]) ok = 0; pos++; }
        }
        V_ASSERT(ok, "C39.parsec_argv_join.post.pieces_in_order_separated_by_one_delimiter");
        V_ASSERT(j[pos] == '\0' && pos == total + (NS > 0 ? NS - 1 : 0),
                 "C39.parsec_argv_join.post.no_delimiter_after_the_last_piece");
    }
    free(j);
    for (int i = 0; i < NS; i++)
        V_ASSERT(g_sv[i] == vin.u[i], "C39.parsec_argv_join.post.vector_unchanged");
    V_CANARY("join");
}

/* join_range(v, start, end, d) == join(v[start .. min(end,count)), d) */
static void check_join_range(int start, int end)
{
    int d = (int)vin.delim;
    char *r = parsec_argv_join_range(g_sv, (size_t)start, (size_t)end, d);
    V_ASSERT(r != NULL, "C39.parsec_argv_join_range.post.returns_a_string");
    if (r == NULL) return;
    int hi = end < NS ? end : NS;
    int pos = 0, ok = 1, first = 1;
    for (int i = 0; i < NS; i++) {
        if (i < start || i >= hi) continue;
        int len = sp_len(vin.u[i], SL);
        if (!first) { if (r[pos] != vin.delim) ok = 0; pos++; }
        first = 0;
        for (int k = 0; k < SL; k++) { if (k >= len) break; if (r[pos] != vin.u[i][k]) ok = 0; pos++; }
    }
    V_ASSERT(ok, "C39.parsec_argv_join_range.post.pieces_of_the_range_in_order_separated_by_one_delimiter");
    V_ASSERT(r[pos] == '\0', "C39.parsec_argv_join_range.post.ends_after_last_piece_of_range");
    free(r);
}
void h_join_range(void)
{
    vin_load();
    build_source();
    V_ASSUME(vin.delim != '\0');
    V_ASSUME(vin.start >= 0 && vin.start <= NS + 1 && vin.end >= 0 && vin.end <= NS + 2);
    FOR_EACH_CASE(a, 0, NS + 1, vin.start) {
        FOR_EACH_CASE(b, 0, NS + 2, vin.end) { check_join_range(a, b); break; }
        break;
    }
    V_CANARY("join_range");
}

/* insert(start, source):  target' = target[0,start) ++ copies(source) ++ target[start,..) */
static void check_insert(int start)
{
    char **t = build_target();
    int rc = parsec_argv_insert(&t, start, g_sv);
    if (start < 0) {
        V_ASSERT(rc == PARSEC_ERR_BAD_PARAM, "C39.parsec_argv_insert.post.negative_position_rejected");
        V_ASSERT(parsec_argv_count(t) == NT, "C39.parsec_argv_insert.post.rejected_call_leaves_target_unchanged");
        for (int i = 0; i < NT; i++) V_ASSERT(t[i] == g_tp[i], "C39.parsec_argv_insert.post.rejected_call_leaves_target_unchanged");
    } else {
        int at = start > NT ? NT : start;     /* beyond the end = append */
        V_ASSERT(rc == PARSEC_SUCCESS, "C39.parsec_argv_insert.post.success");
        V_ASSERT(parsec_argv_count(t) == NT + NS, "C39.parsec_argv_insert.post.count_is_sum");
        V_ASSERT(t[NT + NS] == NULL, "C39.parsec_argv_insert.post.null_terminated");
        for (int i = 0; i < NT + NS; i++) {
            if (i < at)
                V_ASSERT(t[i] == g_tp[i], "C39.parsec_argv_insert.post.prefix_entries_untouched");
            else if (i < at + NS) {
                V_ASSERT(t[i] != NULL && t[i] != g_sv[i - at] && !SAME_OBJECT(t[i], &vin),
                         "C39.parsec_argv_insert.post.inserted_entries_are_fresh_copies");
                V_ASSERT(t[i] != NULL && sp_eq(t[i], vin.u[i - at], SL),
                         "C39.parsec_argv_insert.post.inserted_entries_equal_source_in_order");
            } else
                V_ASSERT(t[i] == g_tp[i - NS], "C39.parsec_argv_insert.post.suffix_entries_shifted_by_source_count");
        }
    }
    for (int i = 0; i < NT; i++) {
        V_ASSERT(gh_freed[i] == 0, "C39.parsec_argv_insert.post.no_target_string_freed");
        V_ASSERT(sp_eq(g_tp[i], vin.t[i], SL), "C39.parsec_argv_insert.post.target_strings_unmodified");
    }
    for (int i = 0; i <= NS; i++)
        V_ASSERT(g_sv[i] == (i < NS ? vin.u[i] : NULL), "C39.parsec_argv_insert.post.source_vector_unaffected");
}
void h_insert(void)
{
    vin_load();
    build_source();
    V_ASSUME(vin.start >= -1 && vin.start <= NT + 2);
    FOR_EACH_CASE(a, -1, NT + 2, vin.start) { check_insert(a); break; }
    V_CANARY("insert");
}

/* insert(start, NULL source): nothing happens; NULL target: rejected */
void h_insert_null(void)
{
    vin_load();
    char **t = build_target();
    V_ASSUME(vin.start >= 0 && vin.start <= NT + 1);
    int rc = parsec_argv_insert(&t, vin.start, NULL);
    V_ASSERT(rc == PARSEC_SUCCESS && parsec_argv_count(t) == NT, "C39.parsec_argv_insert.post.null_source_is_a_noop");
    for (int i = 0; i < NT; i++) V_ASSERT(t[i] == g_tp[i], "C39.parsec_argv_insert.post.null_source_is_a_noop");
    rc = parsec_argv_insert_element(&t, vin.start, NULL);
    V_ASSERT(rc == PARSEC_SUCCESS && parsec_argv_count(t) == NT, "C39.parsec_argv_insert_element.post.null_source_is_a_noop");
    for (int i = 0; i < NT; i++) V_ASSERT(t[i] == g_tp[i], "C39.parsec_argv_insert_element.post.null_source_is_a_noop");
    char **n = NULL;
    build_source();
    V_ASSERT(parsec_argv_insert(&n, vin.start, g_sv) == PARSEC_ERR_BAD_PARAM && n == NULL, "C39.parsec_argv_insert.post.null_target_rejected");
    V_ASSERT(parsec_argv_insert(NULL, vin.start, g_sv) == PARSEC_ERR_BAD_PARAM, "C39.parsec_argv_insert.post.null_target_rejected");
    V_ASSERT(parsec_argv_insert_element(&n, vin.start, vin.u[0]) == PARSEC_ERR_BAD_PARAM && n == NULL, "C39.parsec_argv_insert_element.post.null_target_rejected");
    V_CANARY("insert_null");
}

/* insert_element(location, string) */
static void check_insert_element(int loc)
{
    char **t = build_target();
    int rc = parsec_argv_insert_element(&t, loc, vin.u[0]);
    if (loc < 0) {
        V_ASSERT(rc == PARSEC_ERR_BAD_PARAM, "C39.parsec_argv_insert_element.post.negative_position_rejected");
        V_ASSERT(parsec_argv_count(t) == NT, "C39.parsec_argv_insert_element.post.rejected_call_leaves_target_unchanged");
        for (int i = 0; i < NT; i++) V_ASSERT(t[i] == g_tp[i], "C39.parsec_argv_insert_element.post.rejected_call_leaves_target_unchanged");
    } else {
        int at = loc > NT ? NT : loc;
        V_ASSERT(rc == PARSEC_SUCCESS, "C39.parsec_argv_insert_element.post.success");
        V_ASSERT(parsec_argv_count(t) == NT + 1, "C39.parsec_argv_insert_element.post.count_plus_one");
        V_ASSERT(t[NT + 1] == NULL, "C39.parsec_argv_insert_element.post.null_terminated");
        for (int i = 0; i < NT + 1; i++) {
            if (i < at)
                V_ASSERT(t[i] == g_tp[i], "C39.parsec_argv_insert_element.post.prefix_entries_untouched");
            else if (i == at)
                V_ASSERT(t[i] != NULL && t[i] != vin.u[0] && !SAME_OBJECT(t[i], &vin) && sp_eq(t[i], vin.u[0], SL),
                         "C39.parsec_argv_insert_element.post.new_entry_is_a_fresh_copy_at_location");
            else
                V_ASSERT(t[i] == g_tp[i - 1], "C39.parsec_argv_insert_element.post.suffix_entries_shifted_by_one");
        }
    }
    for (int i = 0; i < NT; i++) V_ASSERT(gh_freed[i] == 0, "C39.parsec_argv_insert_element.post.no_target_string_freed");
}
void h_insert_element(void)
{
    vin_load();
    build_source();
    V_ASSUME(vin.start >= -1 && vin.start <= NT + 2);
    FOR_EACH_CASE(a, -1, NT + 2, vin.start) { check_insert_element(a); break; }
    V_CANARY("insert_element");
}

/* append / append_nosize / prepend_nosize on a vector of NT entries (NT == 0: NULL vector) */
void h_append(void)
{
    vin_load();
    char **t = NT > 0 ? build_target() : NULL;
    if (NT == 0) gh_n = 0;
    build_source();
    V_ASSUME(vin.which <= 2);
    int argc = NT, rc;
    if (vin.which == 0) rc = parsec_argv_append(&argc, &t, vin.u[0]);
    else if (vin.which == 1) rc = parsec_argv_append_nosize(&t, vin.u[0]);
    else rc = parsec_argv_prepend_nosize(&t, vin.u[0]);
    V_ASSERT(rc == PARSEC_SUCCESS && t != NULL, "C39.parsec_argv_append.post.success");
    V_ASSERT(parsec_argv_count(t) == NT + 1 && t[NT + 1] == NULL, "C39.parsec_argv_append.post.count_plus_one_null_terminated");
    if (vin.which == 0) V_ASSERT(argc == NT + 1, "C39.parsec_argv_append.post.argc_is_new_count");
    int at = vin.which == 2 ? 0 : NT;
    for (int i = 0; i < NT + 1; i++) {
        if (i == at)
            V_ASSERT(t[i] != NULL && t[i] != vin.u[0] && !SAME_OBJECT(t[i], &vin) && sp_eq(t[i], vin.u[0], SL),
                     "C39.parsec_argv_append.post.new_entry_is_a_copy_at_the_end_resp_front");
        else
            V_ASSERT(t[i] == g_tp[i < at ? i : i - 1], "C39.parsec_argv_append.post.old_entries_kept_in_order");
    }
    for (int i = 0; i < NT; i++) V_ASSERT(gh_freed[i] == 0, "C39.parsec_argv_append.post.no_target_string_freed");
    V_CANARY("append");
}

/* copy */
void h_copy(void)
{
    vin_load();
    build_source();
    gh_n = 0;
    char **c = parsec_argv_copy(g_sv);
    V_ASSERT(c != NULL && c != g_sv, "C39.parsec_argv_copy.post.new_vector");
    if (c != NULL) {
        V_ASSERT(parsec_argv_count(c) == NS && c[NS] == NULL, "C39.parsec_argv_copy.post.same_count_null_terminated");
        for (int i = 0; i < NS; i++)
            V_ASSERT(c[i] != NULL && c[i] != g_sv[i] && !SAME_OBJECT(c[i], &vin) && sp_eq(c[i], vin.u[i], SL),
                     "C39.parsec_argv_copy.post.entries_are_equal_fresh_copies");
    }
    for (int i = 0; i <= NS; i++)
        V_ASSERT(g_sv[i] == (i < NS ? vin.u[i] : NULL), "C39.parsec_argv_copy.post.original_unaffected");
    parsec_argv_free(c);
    V_CANARY("copy");
}

/* delete(start, num): exactly the positions [start, start+num) (cut at the end of the vector) are removed and
 * freed once; everything else keeps its place in order; NULL terminated */
static void check_delete(int start, int num)
{
    char **t = build_target();
    int argc = NT;
    int rc = parsec_argv_delete(&argc, &t, start, num);
    int lo, hi;      /* removed range [lo,hi) */
    if (num == 0 || start > NT) { lo = hi = 0; V_ASSERT(rc == PARSEC_SUCCESS, "C39.parsec_argv_delete.post.noop_cases_succeed"); }
    else if (start < 0 || num < 0) { lo = hi = 0; V_ASSERT(rc == PARSEC_ERR_BAD_PARAM, "C39.parsec_argv_delete.post.negative_arguments_rejected"); }
    else {
        lo = start; hi = start + num; if (hi > NT) hi = NT;
        V_ASSERT(rc == PARSEC_SUCCESS, "C39.parsec_argv_delete.post.success");
    }
    int removed = hi - lo;
    V_ASSERT(t != NULL && parsec_argv_count(t) == NT - removed, "C39.parsec_argv_delete.post.count_reduced_by_removed_positions");
    V_ASSERT(t[NT - removed] == NULL, "C39.parsec_argv_delete.post.null_terminated");
    for (int i = 0; i < NT; i++) {
        if (i >= lo && i < hi)
            V_ASSERT(gh_freed[i] == 1, "C39.parsec_argv_delete.post.addressed_positions_freed_exactly_once");
        else {
            V_ASSERT(gh_freed[i] == 0, "C39.parsec_argv_delete.post.other_positions_not_freed");
            V_ASSERT(t[i < lo ? i : i - removed] == g_tp[i], "C39.parsec_argv_delete.post.other_entries_kept_in_order");
            V_ASSERT(sp_eq(g_tp[i], vin.t[i], SL), "C39.parsec_argv_delete.post.other_strings_unmodified");
        }
    }
    /* argc tracks the vector for EVERY call (no precondition on start+num): accepted, no-op (num == 0 or
     * start > count), range running past the end (only the existing tokens count), rejected */
    if (rc == PARSEC_SUCCESS && start >= 0 && num > 0 && start <= NT && start + num > NT)
        V_ASSERT(argc == NT - removed, "C39.parsec_argv_delete.post.argc_equals_new_count_also_when_range_runs_past_the_end");
    else if (rc == PARSEC_SUCCESS)
        V_ASSERT(argc == NT - removed, "C39.parsec_argv_delete.post.argc_equals_new_count");
    else
        V_ASSERT(argc == NT, "C39.parsec_argv_delete.post.rejected_call_keeps_argc");
    /* the remaining vector is still owned and releasable: every string released exactly once overall */
    parsec_argv_free(t);
    for (int i = 0; i < NT; i++)
        V_ASSERT(gh_freed[i] == 1, "C39.parsec_argv_delete.post.every_string_released_exactly_once_after_free");
}
void h_delete(void)
{
    vin_load();
    V_ASSUME(vin.start >= -1 && vin.start <= NT + 1);
    V_ASSUME(vin.num >= -1 && vin.num <= NT + 1);
    FOR_EACH_CASE(a, -1, NT + 1, vin.start) {
        FOR_EACH_CASE(b, -1, NT + 1, vin.num) { check_delete(a, b); break; }
        break;
    }
    V_CANARY("delete");
}

/* delete on a NULL vector / NULL pointer: no-op */
void h_delete_null(void)
{
    vin_load();
    char **n = NULL; int argc = 0;
    V_ASSERT(parsec_argv_delete(&argc, &n, vin.start, vin.num) == PARSEC_SUCCESS && n == NULL && argc == 0,
             "C39.parsec_argv_delete.post.null_vector_is_a_noop");
    V_ASSERT(parsec_argv_delete(&argc, NULL, vin.start, vin.num) == PARSEC_SUCCESS && argc == 0,
             "C39.parsec_argv_delete.post.null_vector_is_a_noop");
    V_CANARY("delete_null");
}

/* combined entries (one cbmc process per vector size): each part havocs its own inputs and ends with its own canary */
void h_source_ops(void) { h_join(); h_copy();
#if NS >= 1 && !defined(NO_JOIN_RANGE)
    h_join_range();
#endif
}
void h_target_ops(void) { h_append(); h_insert_element(); h_delete(); }
void h_nulls(void) { h_split_null(); h_insert_null(); h_delete_null(); }
