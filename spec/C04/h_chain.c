/* NOT REGISTERED AS A JOB (spec.py): CBMC 6.11's symbolic execution of the walk does not finish within 5-10 min
 * (NCHAIN=3, flow indices concrete via -DFI_FIXED=0,1,0, unwind 5, unwindset made_sure_nextinline_is_null.0:1,
 * release_ownership_of_data.0:1).  Kept for further work; no claim is derived from it.
 *
 * C04 (readers hold the copy before the next writer is activated): contract on the REAL
 * parsec_dtd_ordering_correctly (parsec/interfaces/dtd/overlap_strategies.c, included verbatim), the walk over
 * the successor chain of a completed task.
 *
 * Pre-state: a completed local task T with one tracked flow on tile A (any op type) whose successor chain on
 * that tile is E1 -> E2 -> ... -> E_NCHAIN (distinct local tasks with two flows each).  Element k uses the tile
 * at ITS OWN flow index fi[k] in {0,1} (symbolic); the op types of BOTH flows of every element are arbitrary
 * 32-bit words (the other flow stands for another tile); the last element is a writer on its own flow (so the
 * chain contains a writer; a chain that ends in a reader goes through made_sure_nextinline_is_null: not covered).
 * Call-atomic (no interference): T's completion is the only walker of this chain (the descendant links of the
 * readers are consumed by the walk).
 *
 * Post (from the property: a writer does not start while a reader inserted before it is pending or running):
 *   let w = the first element whose OWN flow's op type is OUTPUT or INOUT.  Exactly E1..Ew are activated (ontask
 *   called once each, in chain order), nothing behind the first writer is touched; every reader E_k (k < w) is
 *   activated WITH a reader hold: when ontask(E_k) is called the counter already contains one retain per reader
 *   E_1..E_k; when the writer Ew is activated the counter contains the holds of ALL w-1 readers before it (so the
 *   gate of h_gate.c answers AGAIN until they release); the writer itself takes no hold; T's own hold (if T was
 *   a reader) is released exactly once; each activated element receives T's output copy in data_in of its own flow;
 *   the descendant link of every activated reader is cleared (the writer is not activated a second time when that
 *   reader completes).
 *
 * Stubbed: the ontask callback (records), parsec_dtd_task_is_local/_is_remote (everything local),
 *   parsec_dtd_get_arena_datatype (NULL), parsec_dtd_release_local_task, parsec_dtd_remote_task_release (counted).
 */
#include "verif.h"
#define VERIF_RG_DEFAULT_HOOKS          /* call-atomic: no interference injected; spin locks become "wait until free" */
#include "verif_rg.h"
#include "parsec/interfaces/dtd/overlap_strategies.c"

#ifndef NCHAIN
#define NCHAIN 4
#endif
#define EF 2                          /* flows per chain element */

struct vin {
    int32_t t_op;                     /* op type word of T's flow                         */
    int32_t t_flags;
    uint8_t fi[NCHAIN];               /* flow index at which element k uses the tile      */
    int32_t op[NCHAIN][EF];           /* op type words of both flows of every element     */
    int32_t readers0;                 /* reader counter of the copy when T completes      */
    int32_t refcount0;
    uint8_t ghost_k;
} vin;
#include "verif_vin.h"

typedef struct { parsec_dtd_task_t t; parsec_dtd_task_flow_t f[EF]; } elem_t;
_Static_assert(offsetof(elem_t, f) == sizeof(parsec_dtd_task_t), "flow array must start where TASK_FLOW_OF expects it");
static elem_t T, e0, e1, e2, e3, e4, e5;
static elem_t *const E[6] = { &e0, &e1, &e2, &e3, &e4, &e5 };
static parsec_dtd_task_class_t tcT, tcE;
static parsec_flow_t flowsE[EF], flowT;
static parsec_taskpool_t tpool;
static parsec_context_t ctx;
static parsec_dtd_tile_t tileA;
static parsec_data_copy_t copyA;
static parsec_execution_stream_t es;
static parsec_release_dep_fct_arg_t rarg;

/* ---- ghost ---- */
#define NREC (NCHAIN + 2)
static int     g_n_ontask, g_rec_elem[NREC], g_rec_flow_ok[NREC], g_args_ok;
static int32_t g_rec_readers[NREC];
static int     g_n_release_local, g_n_remote_release, g_release_local_other;

static int elem_index(const void *p) { for (int k = 0; k < NCHAIN; k++) if (p == (const void *)&E[k]->t) return k; return -1; }

static parsec_ontask_iterate_t stub_ontask(struct parsec_execution_stream_s *e, const parsec_task_t *newctx, const parsec_task_t *oldctx,
                                           const parsec_dep_t *dep, parsec_dep_data_description_t *data, int rank_src, int rank_dst,
                                           int vpid_dst, data_repo_t *repo, parsec_key_t key, void *param)
{
    (void)rank_src; (void)rank_dst; (void)vpid_dst; (void)repo; (void)key;
    int k = elem_index(newctx);
    if (e != &es || oldctx != &T.t.super || param != (void *)&rarg || data->data != &copyA) g_args_ok = 0;
    if (g_n_ontask < NREC) {
        g_rec_elem[g_n_ontask] = k;
        g_rec_readers[g_n_ontask] = copyA.readers;               /* holds taken so far */
        g_rec_flow_ok[g_n_ontask] = (k >= 0 && dep->flow == &flowsE[vin.fi[k]]);
    }
    g_n_ontask++;
    return PARSEC_ITERATE_CONTINUE;
}
int parsec_dtd_task_is_local(parsec_dtd_task_t *t) { (void)t; return 1; }
int parsec_dtd_task_is_remote(parsec_dtd_task_t *t) { (void)t; return 0; }
parsec_arena_datatype_t *parsec_dtd_get_arena_datatype(parsec_context_t *c, int id) { (void)c; (void)id; return NULL; }
parsec_hook_return_t parsec_dtd_release_local_task(parsec_dtd_task_t *t)
{ g_n_release_local++; if (t != &T.t) g_release_local_other = 1; return PARSEC_HOOK_RETURN_DONE; }
void parsec_dtd_remote_task_release(parsec_dtd_task_t *t) { (void)t; g_n_remote_release++; }
#ifndef VERIF_REPLAY
void parsec_output(int id, const char *fmt, ...) { (void)id; (void)fmt; }
#endif

static int is_writer_word(int32_t w) { int t = w & PARSEC_GET_OP_TYPE; return t == PARSEC_OUTPUT || t == PARSEC_INOUT; }

void h_chain_walk(void)
{
    vin_load();
    tpool.context = &ctx; ctx.nb_vp = 1;
    tcT.super.nb_flows = 1; tcT.super.out[0] = &flowT; tcT.super.name = "T";
    tcE.super.nb_flows = EF; tcE.super.name = "E";
    for (int j = 0; j < EF; j++) tcE.super.in[j] = &flowsE[j];
    /* the completed task T */
    T.t.super.task_class = &tcT.super; T.t.super.taskpool = &tpool; T.t.rank = 0;
    T.f[0].flow.op_type = vin.t_op; T.f[0].flow.flags = vin.t_flags; T.f[0].flow.tile = &tileA;
    V_ASSUME(!(vin.t_op & PARSEC_DONT_TRACK));
    T.t.super.data[0].data_in = &copyA; T.t.super.data[0].data_out = &copyA;
    int t_is_reader = (vin.t_op & PARSEC_GET_OP_TYPE) == PARSEC_INPUT;
    V_ASSUME(vin.readers0 >= (t_is_reader ? 1 : 0) && vin.readers0 < 1000000);   /* Inv: T's own hold is outstanding */
    V_ASSUME(vin.refcount0 >= 1 && vin.refcount0 < 1000000);
    copyA.readers = vin.readers0;
    copyA.super.super.obj_reference_count = vin.refcount0;
    tileA.data_copy = &copyA;
    /* the chain */
#ifdef FI_FIXED   /* flow indices fixed per cbmc process (one Job per tuple): keeps every chain pointer concrete */
    { static const uint8_t fi_fixed[NCHAIN] = { FI_FIXED }; for (int k = 0; k < NCHAIN; k++) vin.fi[k] = fi_fixed[k]; }
#endif
    for (int k = 0; k < NCHAIN; k++) {
        V_ASSUME(vin.fi[k] < EF);
        E[k]->t.super.task_class = &tcE.super; E[k]->t.super.taskpool = &tpool; E[k]->t.rank = 0;
        for (int j = 0; j < EF; j++) {
            E[k]->f[j].flow.op_type = vin.op[k][j];
            E[k]->f[j].flow.tile = (j == vin.fi[k]) ? &tileA : NULL;
            E[k]->f[j].desc.task = NULL; E[k]->f[j].desc.flow_index = 0;
            E[k]->t.super.data[j].data_in = NULL; E[k]->t.super.data[j].data_out = NULL;
        }
    }
    T.f[0].desc.task = &E[0]->t; T.f[0].desc.flow_index = vin.fi[0];
    for (int k = 0; k + 1 < NCHAIN; k++) {
        E[k]->f[vin.fi[k]].desc.task = &E[k + 1]->t;
        E[k]->f[vin.fi[k]].desc.flow_index = vin.fi[k + 1];
    }
    /* PRE: the chain contains a writer (its last element at the latest) */
    V_ASSUME(is_writer_word(vin.op[NCHAIN - 1][vin.fi[NCHAIN - 1]]));
    g_n_ontask = 0; g_args_ok = 1; g_n_release_local = 0; g_n_remote_release = 0; g_release_local_other = 0;

    parsec_dtd_ordering_correctly(&es, &T.t.super, PARSEC_ACTION_RELEASE_LOCAL_DEPS | 0x1, stub_ontask, &rarg);

    /* specification: each element is classified by ITS OWN flow's op type */
    int w = NCHAIN - 1;
    for (int k = NCHAIN - 1; k >= 0; k--) if (is_writer_word(vin.op[k][vin.fi[k]])) w = k;     /* first writer (0-based) */
    int32_t base = vin.readers0 - (t_is_reader ? 1 : 0);

    V_ASSERT(g_n_ontask == w + 1, "C04.ordering_correctly.post.exactly_the_readers_up_to_and_including_the_first_writer_are_activated");
    V_ASSERT(g_args_ok, "C04.ordering_correctly.post.activation_carries_T_and_its_output_copy");
    {
        int k = vin.ghost_k;
        V_ASSUME(k < NCHAIN);
        if (k <= w && k < g_n_ontask) {
            V_ASSERT(g_rec_elem[k] == k && g_rec_flow_ok[k], "C04.ordering_correctly.post.activations_in_chain_order_each_on_its_own_flow");
        }
        if (k < w && k < g_n_ontask) {
            V_ASSERT(g_rec_readers[k] == base + k + 1,
                     "C04.ordering_correctly.post.reader_is_activated_with_its_reader_hold_already_taken");
            V_ASSERT(E[k]->f[vin.fi[k]].desc.task == NULL,
                     "C04.ordering_correctly.post.descendant_link_of_activated_reader_is_consumed");
        }
        if (k <= w) {
            V_ASSERT(E[k]->t.super.data[vin.fi[k]].data_in == &copyA, "C04.ordering_correctly.post.activated_element_receives_the_copy_on_its_own_flow");
            V_ASSERT(E[k]->t.super.data[1 - vin.fi[k]].data_in == NULL, "C04.ordering_correctly.post.other_flow_of_the_element_untouched");
        }
        if (k > w) {
            V_ASSERT(E[k]->t.super.data[0].data_in == NULL && E[k]->t.super.data[1].data_in == NULL,
                     "C04.ordering_correctly.post.nothing_behind_the_first_writer_is_touched");
        }
    }
    if (w < g_n_ontask && w < NREC) {
        V_ASSERT(g_rec_elem[w] == w && g_rec_readers[w] == base + w,
                 "C04.ordering_correctly.post.writer_activated_after_every_earlier_reader_holds_the_copy");
    }
    V_ASSERT(copyA.readers == base + w, "C04.ordering_correctly.post.one_hold_per_activated_reader_none_for_the_writer_own_hold_released");
    V_ASSERT(copyA.super.super.obj_reference_count == vin.refcount0 + w + 1, "C04.ordering_correctly.post.one_reference_per_activated_element");
    V_ASSERT(g_n_release_local == 1 && !g_release_local_other && g_n_remote_release == 0,
             "C04.ordering_correctly.post.T_released_once_when_the_next_writer_is_found");
    V_CANARY("chain_walk");
}
