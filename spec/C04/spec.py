from vlib import Job
import vlib

META = dict(
    level="other",
    functions=["data_lookup_of_dtd_task", "parsec_dtd_data_copy_reader_count", "parsec_dtd_data_copy_reader_retain",
               "parsec_dtd_data_copy_reader_release", "__parsec_task_progress (owner C16; composed with the gate here)"],
    explanation="The reader gate of DTD only (the property is decided PARTIALLY).  "
                "(1) gate.data_lookup: rely/guarantee contract on the real data_lookup_of_dtd_task (insert_function.c included verbatim) "
                "for a task with nb_flows in 0..NFIX flows (thorough: NFIX = MAX_PARAM_COUNT = 20, the size of task->data[]: complete; quick: 8, "
                "labelled bounded), every 32-bit op-type word per flow, data_in NULL or one of two data copies (flows may share a copy), "
                "on-demand allocation or not, every non-negative 32-bit reader counter, the environment giving every counter a new arbitrary "
                "non-negative value before and after each atomic operation of the function.  A specification automaton runs in lock-step with the "
                "function's own atomic operations: they must be exactly the atomic reads of readers(f_1), readers(f_2), ... for the flows f_i "
                "(in flow order) whose op type has PARSEC_OUTPUT and whose data_in is non-NULL, stopping at the first read that OBSERVED a value "
                "> 0; the function returns AGAIN iff such an observation happened and DONE iff every written copy was examined and each "
                "observation was 0; a task without written copy never waits (readers between the same two writers are not serialised by the "
                "gate); the function never writes a counter (atomic or plain) and leaves access modes / data pointers alone.  "
                "(2) count.*: contracts on the real parsec_dtd_data_copy_reader_count/_retain/_release for every 32-bit counter value under the "
                "same interference: exactly one atomic operation on the counter, change by exactly 0/+1/-1, never below 0, the value returned is "
                "the one at the linearisation point, no other write.  count.lemma: under Inv 'counter = number of outstanding retains' an "
                "observation of 0 means no outstanding retain.  "
                "(3) progress_gate: the real __parsec_task_progress (scheduling.c linked as second TU; its one-pass contract is owned by C16: "
                "AGAIN => body not called, rescheduled once) drives the real data_lookup_of_dtd_task as prepare_input for up to NPASS passes "
                "(the writer's retry path while readers are outstanding): the body stub is never entered in a pass whose gate observed a reader, "
                "only after every written copy was observed with 0 readers, and the waiting writer is re-queued exactly once per pass.",
    trusted_base=["rely/guarantee soundness theorem (per-thread obligations imply the invariant for every interleaving)",
                  "stub parsec_hash_table_nolock_find (behind parsec_dtd_get_arena_datatype): returns the registered arena datatype or NULL",
                  "stub parsec_arena_allocate_device_private (arena.c): sets device_private, does not touch the reader counter",
                  "stubs parsec_output (no-op), getpid, *parsec_weaksym_exit (process exit: path ends)",
                  "progress_gate: stub body hook / release_task, stub scheduler module behind parsec_current_scheduler->module.schedule, "
                  "stub parsec_select_best_device, parsec_pins_instrument, parsec_my_execution_stream, parsec_mca_device_is_gpu (as in spec/C16)",
                  "the task and its flow array are one static object laid out as TASK_FLOW_OF expects (static assertion on the offset)"],
    assumptions=["RELY: every thread changes copy->readers only through parsec_dtd_data_copy_reader_retain/_release (+-1 steps) and never takes "
                 "it below 0 (the callers in overlap_strategies.c / insert_function.c release only what they retained: NOT checked here)",
                 "GAP: that every reader inserted before a writer has RETAINED the copy before the writer can be selected for execution is "
                 "established by parsec_dtd_ordering_correctly (overlap_strategies.c) and is not under contract; seeded change C04-r2 "
                 "(chain element classified by the previous element's flow index) is therefore not detected (h_chain.c is an unregistered, "
                 "unfinished harness for it: symbolic execution does not terminate in the budget)",
                 "GAP: writer/writer exclusion and reader-after-writer ordering come from the DTD dependency chain (last_writer / last_user), "
                 "not from this gate: not checked",
                 "GAP: the window between the gate's atomic read and the start of the body (no reader inserted after the writer can retain "
                 "before the writer completes: dependency chain, not checked)",
                 "a task is owned by one thread while inside __parsec_task_progress; the flow descriptors and data_in pointers of the task "
                 "are not modified concurrently",
                 "reader counters stay below INT32_MAX (retain's +1 is defined)",
                 "at most two distinct data copies per task in the harness (flows may share them); the function treats copies uniformly"],
)


def jobs(tier):
    full = tier == "thorough"
    nf = 20 if full else 8
    J = [
        Job("gate.data_lookup", "h_gate.c", entry="h_data_lookup", unwind=nf + 3,
            defines={"NFIX": nf, "NB_SYMBOLIC": None},
            bounded=None if full else "nb_flows <= 8 (thorough: <= 20 = MAX_PARAM_COUNT, the code's limit)",
            functions=["data_lookup_of_dtd_task", "parsec_dtd_data_copy_reader_count"],
            timeout=1500 if full else 600, min_obligations=17),
        Job("count.reader_count", "h_count.c", entry="h_reader_count", unwind=3,
            functions=["parsec_dtd_data_copy_reader_count"], timeout=300, min_obligations=5),
        Job("count.reader_retain", "h_count.c", entry="h_reader_retain", unwind=3,
            functions=["parsec_dtd_data_copy_reader_retain"], timeout=300, min_obligations=6),
        Job("count.reader_release", "h_count.c", entry="h_reader_release", unwind=3,
            functions=["parsec_dtd_data_copy_reader_release"], timeout=300, min_obligations=6),
        Job("count.lemma", "h_count.c", entry="h_lemma", unwind=3, functions=[], timeout=300, min_obligations=3),
    ]
    cnf, npass = (6, 3) if full else (3, 2)
    J.append(Job("progress_gate", "h_compose.c", entry="h_progress_gate", unwind=max(cnf, npass) + 3,
                 defines={"NFIX": cnf, "NB_SYMBOLIC": None, "NPASS": npass},
                 extra_cc=[vlib.REPO + "/parsec/scheduling.c"], replay=False,
                 bounded="composition of at most %d passes of one writer through the real __parsec_task_progress + gate, nb_flows <= %d "
                         "(the one-pass contracts gate.data_lookup and C16 progress.step are not bounded in the number of passes)" % (npass, cnf),
                 functions=["__parsec_task_progress", "data_lookup_of_dtd_task"], timeout=900, min_obligations=9))
    return J


MANIFEST = dict(
    category="other",
    text="Partial: only the reader gate of the property is decided.  CBMC discharges, on the real code, (1) the rely/guarantee contract of "
         "data_lookup_of_dtd_task for every task shape up to MAX_PARAM_COUNT flows (thorough tier; 8 in the quick tier), every op-type word, "
         "every non-negative 32-bit reader counter and arbitrary interference allowed by the rely between its atomic reads: DONE is returned "
         "only if every flow that writes an existing copy observed 0 readers through the function's own atomic read, AGAIN iff one of these "
         "observations was positive, read-only flows never wait, the counters are never written; (2) the contracts of "
         "parsec_dtd_data_copy_reader_count/_retain/_release (one atomic step, exactly 0/+1/-1, returned value is the value at that step) for "
         "all 32-bit values; (3) composed with the real __parsec_task_progress (contract owned by C16) over a bounded number of passes: the "
         "writer's body is not entered in a pass whose gate observed a reader and the writer is re-queued exactly once.  'other' and not "
         "'proof' because the clauses listed in the note are outside the check.",
    note="NOT decided: that every reader inserted before a writer has retained the copy before the writer becomes selectable: "
         "parsec_dtd_ordering_correctly (overlap_strategies.c, the walk over the successor chain at task completion) is NOT under "
         "contract, and the seeded change C04-r2 in it (2nd and later chain elements classified reader/writer by the PREVIOUS "
         "element's flow index, so a reader is activated without a reader hold and the next writer starts while a reader is "
         "pending) is NOT detected by this check.  A harness on the real function exists (h_chain.c: chain T -> E1..En of static "
         "tasks, postconditions 'each reader activated with its hold taken, walk stops at the first writer, each element classified "
         "by its own flow') but CBMC's symbolic execution of the walk did not finish in 5-10 min even with 3 elements and concrete "
         "flow indices, so it is not registered as a job and no claim is made; that releases match retains at the call sites; "
         "writer/writer and reader-after-writer exclusion (dependency chain last_user/last_writer); the window between the gate's read and "
         "the body; 'all schedulers' only through the module interface (stub, C17-C19); device / remote-dependency users of copy->readers; "
         "memory model (sequentially consistent atomics assumed); progress_gate is a bounded composition (2/3 passes, 3/6 flows).",
    technique="function contracts + rely/guarantee ghost state (lock-step specification automaton over the function's own atomic operations, "
              "environment steps before and after each atomic operation) on the real insert_function.c / insert_function_internal.h / "
              "scheduling.c, discharged by CBMC 6.11 (SAT), complete unwinding over nb_flows <= MAX_PARAM_COUNT",
    design_ref="DESIGN.md section 5, C04")
