/* C04 (reader counting): rely/guarantee contracts on the REAL
 * parsec_dtd_data_copy_reader_count / _retain / _release (static inline in
 * parsec/interfaces/dtd/insert_function_internal.h, included verbatim), for every 32-bit counter value.
 *
 * Shared word: copy->readers.  Inv: readers >= 0.
 * Rely  : other threads change the counter by +-1 steps without taking it below 0 (transitive closure: any
 *         value >= 0; while my own retain is outstanding the others cannot take it below 1: Inv is about the
 *         number of outstanding retains).  The environment acts before and after my atomic operation.
 * Guar  : each function performs exactly ONE atomic operation on the counter and nothing else touches it
 *         (the counter is compared with what the environment / my own linearised step left, in both hooks);
 *         that operation changes the counter by exactly 0 / +1 / -1.
 * Post  : the value returned is the counter's value AT the linearisation point (after my step), not a later one.
 */
#include "verif.h"
#define VERIF_RG_POST_STEP
#include "verif_rg.h"
#include "parsec/parsec_internal.h"
#include "parsec/interfaces/dtd/insert_function.h"
#include "parsec/interfaces/dtd/insert_function_internal.h"

#define NENV 4
struct vin {
    int32_t readers0;
    int32_t env[NENV];
    int32_t r1, k1, k2;           /* lemma inputs */
} vin;
#include "verif_vin.h"

static parsec_data_copy_t copy;
static parsec_data_copy_t other;       /* a second copy that must not be touched */
static int     g_env_k;
static int32_t g_exp;                  /* what the counter must hold now (environment's value, or my linearised step) */
static int     g_wrote;                /* it held something else: a write that is not my single atomic step */
static int     g_lin;                  /* my atomic operations on the counter */
static int     g_other_ops;            /* my atomic operations on anything else */
static int32_t g_before, g_after;      /* counter just before / just after my atomic operation */
static int32_t g_floor, g_floor_after; /* lowest value the environment may reach before / after my step (Inv + my outstanding retain) */
static int32_t g_ceil;                 /* highest value (retain: INT32_MAX-1, so that +1 is defined) */

static void watch_check(void) { if (copy.readers != g_exp) g_wrote = 1; }

void verif_env_step(int op, volatile void *loc)
{
    (void)op; (void)loc;
    watch_check();
    if (g_env_k < NENV) {
        int32_t v = vin.env[g_env_k];
        V_ASSUME(v >= g_floor && v <= g_ceil);          /* Rely */
        copy.readers = v; g_exp = v;
    }
    g_env_k++;
    if (!g_lin) g_before = copy.readers;               /* the value my operation will see */
}
void verif_own_step(int op, volatile void *loc, int success)
{
    (void)success;
    if (op == V_OP_FETCH && loc == (volatile void *)&copy.readers) {
        g_lin++;
        g_after = copy.readers;
        g_exp = copy.readers;                           /* my single atomic step is the only allowed own write */
        g_floor = g_floor_after;                        /* my retain is outstanding from now on / no longer */
    } else {
        g_other_ops++;
        watch_check();
    }
}

static void init(int32_t floor0, int32_t floor1, int32_t ceil)
{
    V_ASSUME(vin.readers0 >= floor0 && vin.readers0 <= ceil);
    g_floor_after = floor1; g_ceil = ceil;
    copy.readers = vin.readers0; g_exp = vin.readers0; g_before = vin.readers0;
    other.readers = 7;
    g_env_k = 0; g_wrote = 0; g_lin = 0; g_other_ops = 0; g_floor = floor0;
}

/* reader_count: one atomic read, no change, returns the value observed by that read */
void h_reader_count(void)
{
    vin_load();
    init(0, 0, INT32_MAX);
    int32_t r = parsec_dtd_data_copy_reader_count(&copy);
    V_ASSERT(g_lin == 1 && g_other_ops == 0, "C04.reader_count.post.exactly_one_atomic_read_of_the_counter");
    V_ASSERT(g_after == g_before, "C04.reader_count.guar.does_not_change_the_counter");
    V_ASSERT(r == g_before, "C04.reader_count.post.returns_value_observed_by_its_own_atomic_read");
    V_ASSERT(!g_wrote && copy.readers == g_exp, "C04.reader_count.guar.no_plain_write_to_the_counter");
    V_ASSERT(other.readers == 7, "C04.reader_count.post.other_copies_untouched");
    V_CANARY("reader_count");
}

/* retain: PRE counter in 0..INT32_MAX-1 at my step (the code's assert previous >= 0; +1 must not overflow) */
void h_reader_retain(void)
{
    vin_load();
    init(0, 1, INT32_MAX - 1);
    int32_t r = parsec_dtd_data_copy_reader_retain(&copy);
    V_ASSERT(g_lin == 1 && g_other_ops == 0, "C04.reader_retain.post.exactly_one_linearisation_point");
    V_ASSERT(g_after == g_before + 1, "C04.reader_retain.guar.counter_plus_exactly_1");
    V_ASSERT(r == g_after, "C04.reader_retain.post.returns_new_value_at_linearisation_point");
    V_ASSERT(r >= 1, "C04.reader_retain.post.counter_positive_while_retained");
    V_ASSERT(!g_wrote && copy.readers == g_exp, "C04.reader_retain.guar.counter_changed_only_by_the_single_atomic_step");
    V_ASSERT(other.readers == 7, "C04.reader_retain.post.other_copies_untouched");
    V_CANARY("reader_retain");
}

/* release: PRE my retain is outstanding, so the counter is >= 1 whatever the others do (the code's assert previous > 0) */
void h_reader_release(void)
{
    vin_load();
    init(1, 0, INT32_MAX);   /* once my release is linearised the others may take the counter down to 0 */
    int32_t r = parsec_dtd_data_copy_reader_release(&copy);
    V_ASSERT(g_lin == 1 && g_other_ops == 0, "C04.reader_release.post.exactly_one_linearisation_point");
    V_ASSERT(g_after == g_before - 1, "C04.reader_release.guar.counter_minus_exactly_1");
    V_ASSERT(g_after >= 0, "C04.reader_release.guar.counter_never_below_0");
    V_ASSERT(r == g_after, "C04.reader_release.post.returns_new_value_at_linearisation_point");
    V_ASSERT(!g_wrote && copy.readers == g_exp, "C04.reader_release.guar.counter_changed_only_by_the_single_atomic_step");
    V_ASSERT(other.readers == 7, "C04.reader_release.post.other_copies_untouched");
    V_CANARY("reader_release");
}

/* lemma (loop-free, all 32-bit values): with Inv "counter == number of outstanding retains" kept by the steps above,
 * a gate that observes 0 at its atomic read proves that no retain is outstanding at that instant, and a gate that
 * runs while a reader's retain is outstanding observes >= 1.  r = outstanding retains of others, mine = 0/1. */
void h_lemma(void)
{
    vin_load();
    int32_t others = vin.r1, mine = vin.k1;
    V_ASSUME(others >= 0 && others < INT32_MAX && (mine == 0 || mine == 1));
    int32_t counter = others + mine;                 /* Inv */
    V_ASSERT(V_IMPLIES(counter == 0, mine == 0 && others == 0), "C04.lemma.gate_observing_0_means_no_outstanding_retain");
    V_ASSERT(V_IMPLIES(mine == 1, counter > 0), "C04.lemma.outstanding_retain_makes_the_gate_answer_AGAIN");
    V_ASSERT(V_IFF(counter > 0, !(counter == 0)) && counter >= 0, "C04.lemma.positive_iff_not_zero_under_Inv");
    V_CANARY("lemma");
}
