/* C04 (the reader gate): contract on the REAL data_lookup_of_dtd_task
 * (parsec/interfaces/dtd/insert_function.c, included verbatim) under rely/guarantee interference on
 * the reader counters of the data copies.
 *
 * Shared state : copy->readers of every data copy reachable from the task.
 * Inv / Rely   : other threads (readers retaining / releasing, device and remote-dep paths) change a
 *                counter by +-1 steps and never take it below 0; the transitive closure is "any value >= 0",
 *                so an environment step gives every counter an arbitrary non-negative value.  The
 *                environment acts before the call, before AND after each atomic operation of the function
 *                (VERIF_RG_POST_STEP), so a value re-read after the function's own atomic read is unrelated to
 *                the one it observed.
 * Guarantee    : the function never writes a counter (neither through its atomic operation nor by a plain
 *                store: every counter is compared with the value the environment left, in both hooks).
 * Post         : let f_1 < f_2 < ... be the flows below nb_flows whose op type has PARSEC_OUTPUT and whose
 *                data_in is non-NULL.  The function performs its own atomic reads exactly on
 *                readers(f_1), readers(f_2), ... in that order, stops at the first one that OBSERVED a value
 *                > 0 and returns AGAIN there; it returns DONE iff every such flow was examined and each of
 *                these observations was 0.  No other return code.
 *
 * Stubbed (outside the function under contract, listed in META.trusted_base):
 *   parsec_hash_table_nolock_find  (reached through parsec_dtd_get_arena_datatype: on-demand allocation path)
 *   parsec_arena_allocate_device_private (arena.c), parsec_output, *parsec_weaksym_exit (path ends).
 */
#include "h_gate_common.h"

/* ------------------------------------------------------------------ */
/* contract of data_lookup_of_dtd_task                                 */
/* ------------------------------------------------------------------ */
void h_data_lookup(void)
{
    vin_load();
    build();
    /* (the counters on entry are arbitrary non-negative values: the environment has acted before the call) */

    int rc = data_lookup_of_dtd_task(&es, &dtask->super);

    int missed = 0, n_gated = 0;                 /* written flows the function never examined although it went on */
    for (int i = 0; i < NFIX; i++) {
        if (is_gated(i)) { n_gated++; if (!g_saw_reader && i >= g_pos) missed = 1; }
    }
    V_ASSERT(!g_order_bad, "C04.data_lookup.post.atomic_reads_are_exactly_the_written_copies_in_flow_order_stopping_at_first_observed_reader");
    V_ASSERT(!missed, "C04.data_lookup.post.every_written_copy_examined_by_own_atomic_read_unless_a_reader_was_observed");
    V_ASSERT(rc == PARSEC_HOOK_RETURN_DONE || rc == PARSEC_HOOK_RETURN_AGAIN, "C04.data_lookup.post.returns_DONE_or_AGAIN_only");
    V_ASSERT(V_IMPLIES(g_saw_reader, rc == PARSEC_HOOK_RETURN_AGAIN),
             "C04.data_lookup.post.AGAIN_if_an_observed_reader_count_was_positive");
    V_ASSERT(V_IMPLIES(rc == PARSEC_HOOK_RETURN_AGAIN, g_saw_reader),
             "C04.data_lookup.post.AGAIN_only_if_an_observed_reader_count_was_positive");
    V_ASSERT(V_IMPLIES(rc == PARSEC_HOOK_RETURN_DONE, !g_saw_reader && !missed && !g_order_bad),
             "C04.data_lookup.post.DONE_only_if_every_written_copy_was_observed_with_0_readers");
    /* the same clause per flow (ghost index) */
    {
        int g = vin.ghost_flow;
        V_ASSUME(g < (NFIX > 0 ? NFIX : 1));
        if (rc == PARSEC_HOOK_RETURN_DONE && is_gated(g)) {
            V_ASSERT(g_ghost_seen && g_ghost_val == 0, "C04.data_lookup.post.DONE_implies_this_written_flow_observed_0_readers_by_own_atomic_read");
        }
        /* read-only flows are never a reason to wait: readers between the same two writers may run concurrently */
        V_ASSERT(V_IMPLIES(n_gated == 0, rc == PARSEC_HOOK_RETURN_DONE && g_nops == 0),
                 "C04.data_lookup.post.task_without_written_copy_never_waits_and_never_reads_a_counter");
        V_ASSERT(V_IMPLIES(rc == PARSEC_HOOK_RETURN_AGAIN, is_gated(g_stop_flow)),
                 "C04.data_lookup.post.AGAIN_is_caused_by_a_written_flow_never_by_a_read_only_flow");
        /* frame on the task: access modes and data pointers untouched */
        if (NFIX > 0) {
            V_ASSERT(tobj.f[g].flow.op_type == vin.op_type[g] && FLOW_OF(dtask, g)->op_type == vin.op_type[g] &&
                     dtask->super.data[g].data_in == sel_copy(vin.copy_sel[g]) &&
                     dtask->super.data[g].data_out == sel_copy(vin.out_sel[g]),
                     "C04.data_lookup.post.flow_modes_and_data_pointers_unchanged");
        }
    }
    V_ASSERT(!g_wrote, "C04.data_lookup.guar.never_writes_a_reader_counter");
    for (int c = 0; c < NC; c++) { V_ASSERT(CP(c)->readers == g_exp[c], "C04.data_lookup.guar.counter_left_as_environment_left_it"); }
    /* side contract of the on-demand allocation that precedes the gate */
    V_ASSERT(!g_alloc_bad && !g_find_bad, "C04.data_lookup.post.on_demand_allocation_only_for_on_demand_copies_of_this_task");
    for (int c = 0; c < NC; c++) { V_ASSERT(g_nalloc[c] <= 1 && V_IMPLIES(!vin.on_demand[c], g_nalloc[c] == 0), "C04.data_lookup.post.on_demand_allocated_at_most_once"); }
    V_CANARY("data_lookup");
}
