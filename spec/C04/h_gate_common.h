/* C04: objects, rely/guarantee hooks, lock-step specification ghost and stubs shared by h_gate.c and h_compose.c.
 * Includes the REAL parsec/interfaces/dtd/insert_function.c verbatim. */
#include "verif.h"
#define VERIF_RG_POST_STEP
#include "verif_rg.h"
#include "parsec/interfaces/dtd/insert_function.c"

#ifndef NFIX
#define NFIX MAX_PARAM_COUNT      /* capacity of the task's flow array; nb_flows ranges over 0..NFIX */
#endif
#define NC 2                      /* distinct data copies the flows may point to (flows may share one) */
#ifndef NPASS
#define NPASS 1                   /* passes of the task through the gate (h_compose.c: retry path) */
#endif
#define NENV (NPASS * 2 * NFIX + 2)

struct vin {
    uint8_t  nb_flows;
    int32_t  op_type[NFIX];       /* any 32-bit op type word (mode, region, flags)             */
    int32_t  flow_flags[NFIX];
    int16_t  arena_index[NFIX];
    uint8_t  copy_sel[NFIX];      /* 0: data_in == NULL, 1: data_in = &copy_a, 2: &copy_b      */
    uint8_t  out_sel[NFIX];       /* same for data_out (must not matter)                       */
    uint8_t  on_demand[NC];       /* device_private == PARSEC_DATA_CREATE_ON_DEMAND            */
    uint8_t  adt_found;           /* arena datatype registered in the context                  */
    int32_t  readers0[NC];        /* counters when the call starts                             */
    int32_t  env[NENV][NC];       /* counters after each environment step                      */
    uint8_t  ghost_flow;          /* ghost index for per-flow clauses                          */
#ifdef VIN_EXTRA
    VIN_EXTRA
#endif
} vin;
#include "verif_vin.h"

/* ---- objects ---- */
static parsec_data_copy_t      copy_a, copy_b;     /* separate objects: cheaper than an array under symbolic pointers */
#define CP(c) ((c) == 0 ? &copy_a : &copy_b)
/* the task followed by its flow array, laid out as the DTD mempool element is (TASK_FLOW_OF: flows start at
 * (char*)task + sizeof(parsec_dtd_task_t)) */
static struct { parsec_dtd_task_t t; parsec_dtd_task_flow_t f[NFIX > 0 ? NFIX : 1]; } tobj;
#define dtask (&tobj.t)
_Static_assert(offsetof(__typeof__(tobj), f) == sizeof(parsec_dtd_task_t), "flow array must start where TASK_FLOW_OF expects it");
static parsec_dtd_task_class_t dtc;
static parsec_taskpool_t       tpool;
static parsec_context_t        ctx;
static parsec_arena_datatype_t g_adt;
static parsec_arena_t          g_arena;
static char                    g_buf[NC][8];
static parsec_execution_stream_t es;

/* ---- ghost state ---- */
static int     g_env_k;
static int32_t g_exp[NC];          /* value the environment left in each counter               */
static int     g_wrote;            /* a counter differs from what the environment left         */
static int     g_nops;             /* my atomic operations so far                              */
/* the specification runs in lock-step with my atomic operations: */
static int     g_pos;              /* flows below g_pos are accounted for                       */
static int     g_saw_reader;       /* one of my atomic reads observed a value > 0 (the function must stop there) */
static int     g_stop_flow;        /* ... and it was the read made for this flow                */
static int     g_order_bad;        /* an atomic operation that is not the read the specification expects next */
static int     g_ghost_seen; static int32_t g_ghost_val;   /* observation made for flow vin.ghost_flow */
static int     g_nalloc[NC], g_alloc_bad, g_find_bad, g_nfind, g_nexit;

static int is_gated(int i);
static void watch_check(void)
{
    for (int c = 0; c < NC; c++) if (CP(c)->readers != g_exp[c]) g_wrote = 1;
}
void verif_env_step(int op, volatile void *loc)
{
    (void)op; (void)loc;
    watch_check();                                  /* Guarantee: nothing but the environment wrote */
    if (g_env_k < NENV) {
        for (int c = 0; c < NC; c++) {
            int32_t v = vin.env[g_env_k][c];
            V_ASSUME(v >= 0);                       /* Rely: +-1 steps, never below 0 */
            CP(c)->readers = v; g_exp[c] = v;
        }
    }
    g_env_k++;
}
void verif_own_step(int op, volatile void *loc, int success)
{
    (void)op; (void)success;
    g_nops++;
    if (g_saw_reader) g_order_bad = 1;              /* no access after the observation that answers AGAIN */
    else {
        int found = 0, fi = 0, fc = 0;
        for (int i = 0; i < NFIX; i++)
            if (!found && i >= g_pos && is_gated(i)) { found = 1; fi = i; fc = vin.copy_sel[i] - 1; }
        if (!found || loc != (volatile void *)&CP(fc)->readers) g_order_bad = 1;
        else {
            /* the value my operation observed is the environment's value: I must not have changed it (watch_check) */
            int32_t seen = g_exp[fc];
            if (fi == vin.ghost_flow) { g_ghost_seen = 1; g_ghost_val = seen; }
            if (seen > 0) { g_saw_reader = 1; g_stop_flow = fi; }
            g_pos = fi + 1;
        }
    }
    watch_check();                                  /* Guarantee: my atomic operation left the counter unchanged */
}

/* ---- stubs of what lies outside the function under contract ---- */
void *parsec_hash_table_nolock_find(parsec_hash_table_t *ht, parsec_key_t key)
{
    g_nfind++;
    if (ht != &ctx.dtd_arena_datatypes_hash_table) g_find_bad = 1;
    (void)key;
    return vin.adt_found ? (void *)&g_adt : NULL;
}
int parsec_arena_allocate_device_private(parsec_data_copy_t *copy, parsec_arena_t *arena,
                                         size_t count, int device, parsec_datatype_t dtt)
{
    (void)dtt; (void)device;
    int c = -1;
    for (int k = 0; k < NC; k++) if (copy == CP(k)) c = k;
    if (c < 0 || arena != &g_arena || count != 1) { g_alloc_bad = 1; return PARSEC_ERROR; }
    if (copy->device_private != PARSEC_DATA_CREATE_ON_DEMAND) g_alloc_bad = 1;
    g_nalloc[c]++;
    copy->device_private = g_buf[c];
    return PARSEC_SUCCESS;
}
static void stub_exit(int status)
{
    (void)status;
    g_nexit++;
    /* parsec_fatal: allowed only when an on-demand copy has no registered arena datatype */
    V_ASSERT(!vin.adt_found && g_nfind > 0, "C04.data_lookup.post.fatal_exit_only_when_arena_datatype_missing");
#ifdef VERIF_REPLAY
    printf("REPLAY: parsec_fatal reached\n"); exit(0);
#else
    __CPROVER_assume(0);
#endif
}
#ifndef VERIF_REPLAY
void parsec_output(int id, const char *fmt, ...) { (void)id; (void)fmt; }
pid_t getpid(void) { return 1; }
void (*parsec_weaksym_exit)(int status) = stub_exit;
int parsec_debug_history_on_fatal = 0, parsec_debug_coredump_on_fatal = 0;
#endif

static parsec_data_copy_t *sel_copy(uint8_t s) { return s == 0 ? NULL : CP(s - 1); }

static void build(void)
{
#ifdef NB_SYMBOLIC
    V_ASSUME(vin.nb_flows <= NFIX);
#else
    vin.nb_flows = NFIX;                         /* nb_flows fixed per cbmc process (one Job per value) */
#endif
#ifdef VERIF_REPLAY
    parsec_weaksym_exit = stub_exit;
    parsec_debug_history_on_fatal = 0; parsec_debug_coredump_on_fatal = 0;
#endif
    dtc.super.nb_flows = vin.nb_flows;
    dtc.super.name = "T";
    dtask->super.task_class = &dtc.super;
    dtask->super.taskpool = &tpool;
    tpool.context = &ctx;
    g_adt.arena = &g_arena;
    for (int c = 0; c < NC; c++) {
        V_ASSUME(vin.readers0[c] >= 0);                          /* Inv on entry */
        CP(c)->readers = vin.readers0[c]; g_exp[c] = vin.readers0[c];
        CP(c)->device_private = vin.on_demand[c] ? (void *)PARSEC_DATA_CREATE_ON_DEMAND : (void *)g_buf[c];
        g_nalloc[c] = 0;
    }
    for (int i = 0; i < NFIX; i++) {
        V_ASSUME(vin.copy_sel[i] <= NC && vin.out_sel[i] <= NC);
        tobj.f[i].flow.op_type = vin.op_type[i];
        tobj.f[i].flow.flags = vin.flow_flags[i];
        tobj.f[i].flow.arena_index = vin.arena_index[i];
        tobj.f[i].flow.tile = NULL;
        dtask->super.data[i].data_in = sel_copy(vin.copy_sel[i]);
        dtask->super.data[i].data_out = sel_copy(vin.out_sel[i]);
    }
    g_env_k = 0; g_wrote = 0; g_nops = 0; g_pos = 0; g_saw_reader = 0; g_stop_flow = 0; g_order_bad = 0; g_ghost_seen = 0; g_alloc_bad = 0; g_find_bad = 0; g_nfind = 0; g_nexit = 0;
}

static int is_gated(int i)   /* from the property statement: a flow that writes an existing copy */
{
    return i < vin.nb_flows && (vin.op_type[i] & PARSEC_OUTPUT) && vin.copy_sel[i] != 0;
}

