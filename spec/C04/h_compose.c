/* C04 (lemma on the real code): a writer's body cannot start in a pass whose gate observed a reader.
 *
 * The REAL __parsec_task_progress (parsec/scheduling.c, compiled as a second translation unit and linked:
 * its one-pass contract is owned by C16) drives the REAL data_lookup_of_dtd_task (insert_function.c, included
 * verbatim here) installed as the task class' prepare_input exactly as parsec_dtd_create_task_class does
 * (tc->prepare_input = data_lookup_of_dtd_task).  The body is a stub that looks at the specification ghost of
 * h_gate_common.h at the instant it is entered.  The task goes through up to NPASS passes (the writer's retry
 * path while readers are outstanding): the environment changes the reader counters between and inside passes.
 *
 * Stubbed: everything h_gate.c stubs, plus (as in spec/C16/h_progress.c) the scheduler module behind
 * parsec_current_scheduler->module.schedule, parsec_select_best_device, parsec_pins_instrument,
 * parsec_my_execution_stream, parsec_mca_device_is_gpu, the class hooks hook / release_task.
 */
#ifndef NPASS
#define NPASS 2
#endif
#define VIN_EXTRA  int32_t prio0; int32_t distance; int32_t sched_rc; int32_t release_rc; uint8_t dev_type;
#include "h_gate_common.h"
#include "parsec/scheduling.h"
#include "parsec/mca/sched/sched.h"

static int g_n_hook, g_n_release, g_n_sched, g_n_select, g_args_ok;
static int g_body_started_after_reader_seen;    /* the body was entered although this pass' gate observed a reader     */
static int g_body_started_with_unexamined_copy; /* ... or a written copy was not examined / examined out of contract  */
static int g_in_scheduler;

static parsec_sched_module_t sched;
static parsec_device_module_t dev;
static __parsec_chore_t chores[2];

static int gate_missed(void)
{
    int missed = 0;
    for (int i = 0; i < NFIX; i++) if (is_gated(i) && !g_saw_reader && i >= g_pos) missed = 1;
    return missed;
}
static int stub_body(parsec_execution_stream_t *e, parsec_task_t *t)
{
    if (e != &es || t != &dtask->super) g_args_ok = 0;
    g_n_hook++;
    if (g_saw_reader) g_body_started_after_reader_seen = 1;
    if (g_order_bad || gate_missed()) g_body_started_with_unexamined_copy = 1;
    return PARSEC_HOOK_RETURN_DONE;
}
static int stub_release_task(parsec_execution_stream_t *e, parsec_task_t *t)
{
    if (e != &es || t != &dtask->super) g_args_ok = 0;
    g_n_release++;
    return vin.release_rc;
}
static int stub_schedule(parsec_execution_stream_t *e, parsec_task_t *ring, int32_t distance)
{
    (void)distance;
    if (e != &es || ring != &dtask->super) g_args_ok = 0;
    g_n_sched++; g_in_scheduler++;
    return vin.sched_rc;
}
int parsec_select_best_device(parsec_task_t *t)
{
    g_n_select++;
    if (NULL == t->selected_device) { t->selected_device = &dev; t->selected_chore = 0; t->load = 0; }
    return PARSEC_SUCCESS;
}
void parsec_pins_instrument(struct parsec_execution_stream_s *e, PARSEC_PINS_FLAG f, struct parsec_task_s *t)
{ (void)e; (void)f; (void)t; }
parsec_execution_stream_t *parsec_my_execution_stream(void) { return &es; }
int parsec_mca_device_is_gpu(int idx) { (void)idx; return 0; }

void h_progress_gate(void)
{
    vin_load();
    build();
    chores[0].type = PARSEC_DEV_CPU;  chores[0].hook = stub_body; chores[0].evaluate = NULL;
    chores[1].type = PARSEC_DEV_NONE; chores[1].hook = NULL;      chores[1].evaluate = NULL;
    dtc.super.prepare_input = data_lookup_of_dtd_task;            /* as parsec_dtd_create_task_class installs it */
    dtc.super.incarnations = chores;
    dtc.super.prepare_output = NULL;
    dtc.super.complete_execution = NULL;
    dtc.super.release_task = stub_release_task;
    dev.type = PARSEC_DEV_CPU;
    sched.module.schedule = stub_schedule;
    parsec_current_scheduler = &sched;
    dtask->super.status = PARSEC_TASK_STATUS_NONE;
    dtask->super.priority = vin.prio0;
    dtask->super.selected_device = NULL; dtask->super.selected_chore = 0; dtask->super.load = 0;
    dtask->super.super.list_next = &dtask->super.super; dtask->super.super.list_prev = &dtask->super.super;
    V_ASSUME(vin.distance >= 0 && vin.distance < 1000);
    g_n_hook = g_n_release = g_n_sched = g_n_select = 0; g_args_ok = 1; g_in_scheduler = 1;
    int finished = 0, distance = vin.distance;

    for (int k = 0; k < NPASS; k++) {
        /* a worker selects the task; a new pass of the gate starts: the specification restarts at flow 0 */
        g_in_scheduler--;
        g_pos = 0; g_saw_reader = 0; g_order_bad = 0; g_ghost_seen = 0; g_nops = 0;
        int hook_before = g_n_hook, sched_before = g_n_sched;
        int rc = __parsec_task_progress(&es, &dtask->super, distance);
        int reader_seen = g_saw_reader;
        V_ASSERT(V_IMPLIES(reader_seen, g_n_hook == hook_before),
                 "C04.progress_gate.lemma.body_not_started_in_a_pass_whose_gate_observed_a_reader");
        V_ASSERT(V_IMPLIES(reader_seen, rc == PARSEC_HOOK_RETURN_AGAIN && g_n_sched == sched_before + 1 && g_n_release == 0 && g_in_scheduler == 1),
                 "C04.progress_gate.lemma.writer_that_observed_a_reader_is_requeued_exactly_once_not_completed");
        V_ASSERT(V_IMPLIES(g_n_hook > hook_before, !reader_seen && !g_order_bad && !gate_missed()),
                 "C04.progress_gate.lemma.body_started_only_after_every_written_copy_was_observed_with_0_readers");
        V_ASSERT(V_IMPLIES(!reader_seen, g_n_hook == hook_before + 1 && g_n_release == 1 && g_n_sched == sched_before),
                 "C04.progress_gate.lemma.gate_that_observed_no_reader_lets_the_body_run_once");
        if (rc != PARSEC_HOOK_RETURN_AGAIN) { finished = 1; break; }
        distance++;
    }
    V_ASSERT(!g_body_started_after_reader_seen, "C04.progress_gate.lemma.no_reader_observed_by_this_pass_at_body_entry");
    V_ASSERT(!g_body_started_with_unexamined_copy, "C04.progress_gate.lemma.no_unexamined_written_copy_at_body_entry");
    V_ASSERT(g_n_hook <= 1 && g_args_ok, "C04.progress_gate.lemma.body_at_most_once_with_this_task");
    V_ASSERT(V_IMPLIES(!finished, g_n_hook == 0 && g_in_scheduler == 1 && g_n_release == 0),
             "C04.progress_gate.lemma.writer_still_queued_body_not_run_while_every_pass_observed_a_reader");
    V_ASSERT(!g_wrote, "C04.progress_gate.guar.gate_never_writes_a_reader_counter");
    V_CANARY("progress_gate");
}
