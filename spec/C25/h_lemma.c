/* C25: from the per-call contracts (jobs create.rg / addto.rg / used_once.rg) to the statement, as an inductive
 * step over the abstract history state (loop free, all values):
 *   h = creators that have not released yet, a = uses announced so far, n = uses recorded so far (mathematical
 *   counts, < 2^31), represented by retained = h, usagelmt = a, usagecnt = n (32-bit fields of the entry).
 * For each operation the concrete post-state given by its contract again represents the abstract post-state, and
 * the contract's reclamation condition coincides with "all creators released and all announced uses happened". */
#include "verif.h"
#include <stdint.h>
struct vin { int64_t h, a, n; uint32_t u; uint8_t op; } vin;
#include "verif_vin.h"
#define OB(kind, clause) "C25.history." kind "." clause
#define LIM 2147483647LL

void h_lemma(void)
{
    vin_load();
    int64_t h = vin.h, a = vin.a, n = vin.n;
    V_ASSUME(h >= 0 && h < LIM && a >= 0 && a <= LIM && n >= 0 && n <= LIM);
    V_ASSUME(h > 0 || n < a);                         /* the entry exists (Inv; uses never exceed announcements once all released) */
    int32_t R = (int32_t)h, L = (int32_t)a, C = (int32_t)n;
    int64_t h1 = h, a1 = a, n1 = n; int32_t R1 = R, L1 = L, C1 = C; int reclaimed = 0;
    if (vin.op == 0) {                                 /* create on an existing entry: contract post retained+1 */
        h1 = h + 1; R1 = R + 1;
    } else if (vin.op == 1) {                          /* addto(u): PRE the caller is a creator */
        V_ASSUME(h >= 1 && (int64_t)vin.u + a <= LIM);
        h1 = h - 1; a1 = a + vin.u;
        L1 = (int32_t)((uint32_t)L + vin.u); R1 = R - 1; reclaimed = (L1 == C) && (R1 == 0);
    } else {                                           /* used_once */
        V_ASSUME(n + 1 <= LIM);
        n1 = n + 1;
        C1 = (int32_t)((uint32_t)C + 1u); reclaimed = (L == C1) && (R == 0);
    }
    V_ASSUME(!(h1 == 0 && n1 > a1));                  /* protocol: every use is announced by one of the creators */
    V_ASSERT(R1 == (int32_t)h1 && L1 == (int32_t)a1 && C1 == (int32_t)n1, OB("lemma", "entry_fields_track_holders_announced_and_uses"));
    V_ASSERT(V_IMPLIES(h1 > 0 || n1 < a1, !reclaimed), OB("lemma", "step_keeps_entry_while_held_or_fewer_uses_than_announced"));
    V_ASSERT(V_IMPLIES(h1 == 0 && n1 == a1, reclaimed), OB("lemma", "step_reclaims_as_soon_as_released_and_all_uses_happened_either_order"));
    /* exactly once: after the reclaiming call no operation of this incarnation is enabled any more (no creator
     * left to release, no announced use left), so nobody can reach the freed entry or reclaim it again */
    V_ASSERT(V_IMPLIES(reclaimed, h1 == 0 && !(n1 < a1)), OB("lemma", "after_reclamation_no_release_or_use_is_pending"));
    V_CANARY("lemma");
}
