/* C25 - shared part of the harnesses: the REAL parsec/datarepo.c is included verbatim; what lies outside of it is
 * replaced by the (assumed) contracts of its callees, written as executable stubs over ghost state:
 *
 *   hash table (C32)  : one-key view  g_present in {-1, slot}  of repo->table for the key K under analysis, a ghost
 *                       bucket lock, and the preconditions of the handle API (only under the lock, no duplicate key,
 *                       key initialised, remove only what is there) turned into obligations of the caller;
 *   mempool   (C27)   : allocate returns some block that is neither live nor in the table, with arbitrary content;
 *                       free takes back a block exactly once, to the thread-mempool it came from, and (this is the
 *                       datarepo's duty) never one that is still reachable through the table.
 *
 * Concurrency (DESIGN 4.3): every shared access of the functions under contract happens between
 * lock_bucket_handle and unlock_bucket_handle, so the environment (= the other threads, running any number of the
 * three operations on the same key) acts exactly at lock acquisition (env_step below).  The state it leaves is
 * constrained by the invariant and by what the current thread holds:
 *   M_NONE   (lookup_and_create, lookup)  anything satisfying Inv: the entry may have been created, used,
 *            reclaimed and re-created in another block; blocks privately owned by me are never touched;
 *   M_RETAIN (addto_usage_limit) I am one of the creators: same entry still present, retained >= 1;
 *   M_USE    (used_once) my use is one of those announced or still to be announced: same entry still present;
 *   M_SEQ    no interference (history harness: operations are call-atomic, sequential composition).
 * Inv (checked at every lock release): present => retained >= 0 and (retained > 0 or usagecnt != usagelmt);
 * the present block is a TABLE block with the right key; a block in a mempool is not in the table.
 */
#ifndef C25_MODEL_H
#define C25_MODEL_H
#include "verif.h"
#define VERIF_RG_POST_STEP   /* environment also acts after each of my atomic operations */
#include "verif_rg.h"
#include "parsec/runtime.h"

/* the mempool entry points are `static inline` in the real header: rename them there, supply the contract here */
#define parsec_thread_mempool_allocate real_parsec_thread_mempool_allocate
#define parsec_thread_mempool_free     real_parsec_thread_mempool_free
#include "parsec/mempool.h"
#undef parsec_thread_mempool_allocate
#undef parsec_thread_mempool_free
static void *parsec_thread_mempool_allocate(parsec_thread_mempool_t *thread_mempool);
static void  parsec_thread_mempool_free(parsec_thread_mempool_t *thread_mempool, void *elt);

#include "parsec/datarepo.c"          /* the code under contract */

#ifndef FN
#error "define FN (name of the function under contract) before including c25_model.h"
#endif
#define OB(kind, clause) "C25." FN "." kind "." clause

#ifndef NB_MAX
#define NB_MAX MAX_PARAM_COUNT         /* repo->nbdata <= MAX_PARAM_COUNT: es->datarepo_mempools[MAX_PARAM_COUNT+1] */
#endif
#ifndef NPOOL
#define NPOOL 3
#endif
#define NENV  3
#ifndef NSTEP
#define NSTEP 1
#endif

struct envv { uint8_t present, slot, owner; int32_t R, C, L; };
struct vin {
    uint64_t key;                 /* the key K                                             */
    uint8_t  nbdata;              /* repo->nbdata                                          */
    uint32_t u;                   /* addto: the announced number of uses                   */
    uint8_t  p0;                  /* initial present slot (addto / used_once)              */
    uint8_t  owner0;
    int32_t  R0, C0, L0;          /* initial counters of the present entry                 */
    struct envv env[NENV];        /* what the other threads leave at each lock acquisition */
    uint8_t  alloc_slot[NSTEP + 1];  /* which free block the mempool hands out             */
    int32_t  gR, gC, gL;          /* garbage found in a recycled block                     */
    uint64_t gkey;
    uint8_t  gdata;               /* garbage pointer pattern in data[]                     */
    uint8_t  ghost_j;             /* ghost index for the data[j]==NULL clause              */
    uint8_t  other_key;           /* lookup: ask for another key                           */
    /* history harness */
    uint8_t  op[NSTEP];
    uint8_t  pu[3];               /* uses announced by pair i                              */
} vin;
#include "verif_vin.h"

/* ---- the blocks: entry + room for nbdata pointers (the real code uses the data[1] struct hack) ---- */
/* (heap blocks: CBMC models writes through the size-1 trailing array only for dynamic objects) */
static data_repo_entry_t *blk[NPOOL];
#define ENT(s) (blk[s])
#define DATA_AT(s, j) (((struct parsec_data_copy_s **)((char *)blk[s] + offsetof(data_repo_entry_t, data)))[j])
enum { ST_FREE = 0, ST_PRIVATE, ST_TABLE };
enum { M_NONE = 0, M_RETAIN, M_USE, M_SEQ };

static parsec_thread_mempool_t   mps[2];     /* [0] = this thread's mempool for repo->nbdata, [1] = any other one */
static parsec_execution_stream_t es;
static data_repo_t               repo;
static parsec_key_t              K;

static int g_mode;
static int g_status[NPOOL];
static int g_owner[NPOOL];       /* ghost: thread-mempool the block belongs to                  */
static int g_present = -1;       /* ghost one-key view of repo->table                           */
static int g_locked;
static const parsec_key_handle_t *g_handle;
static int g_env_k;
static int g_freed[NPOOL];       /* times I returned block i to a mempool                        */
static int g_allocs, g_frees, g_inserts, g_removes, g_last_alloc = -1;
static int g_sections;           /* critical sections entered                                    */
/* snapshots: state seen right after lock acquisition (after the environment acted) and left at lock release */
static int     l_P[NENV], u_P[NENV];
static int32_t l_R[NENV], l_C[NENV], l_L[NENV], u_R[NENV], u_C[NENV], u_L[NENV];

static int slot_of(const void *p)
{
    for (int i = 0; i < NPOOL; i++) if (p == (const void *)ENT(i)) return i;
    return -1;
}
static int inv_holds(void)
{
    if (g_present < 0) return 1;
    if (g_present >= NPOOL) return 0;
    data_repo_entry_t *e = ENT(g_present);
    return g_status[g_present] == ST_TABLE && e->ht_item.key == K && e->retained >= 0
        && (e->retained > 0 || e->usagecnt != e->usagelmt);
}
static void put_present(int s, int owner, int32_t R, int32_t C, int32_t L)
{
    data_repo_entry_t *e = ENT(s);
    g_present = s; g_status[s] = ST_TABLE; g_owner[s] = owner & 1;
    e->ht_item.key = K; e->data_repo_mempool_owner = &mps[owner & 1];
    e->retained = R; e->usagecnt = C; e->usagelmt = L;
}

/* ---- the environment: other threads run create / addto / used_once on the same key ---- */
static void env_step(void)
{
    if (g_mode == M_SEQ) return;
    V_ASSERT(g_env_k < NENV, OB("guar", "at_most_NENV_critical_sections"));
    struct envv *v = &vin.env[g_env_k++];
    if (g_mode == M_NONE) {
        /* Rely: any Inv state; my private blocks are untouched, everything else is either the present entry or
         * back in a mempool */
        for (int i = 0; i < NPOOL; i++) if (g_status[i] != ST_PRIVATE) g_status[i] = ST_FREE;
        g_present = -1;
        if (v->present) {
            V_ASSUME(v->slot < NPOOL && g_status[v->slot] == ST_FREE);
            V_ASSUME(v->R >= 0 && v->R < INT32_MAX && (v->R > 0 || v->C != v->L));   /* fewer than 2^31-1 creators at a time */
            put_present(v->slot, v->owner, v->R, v->C, v->L);
        }
    } else if (g_mode == M_RETAIN) {
        /* Rely: nobody can drop the retention I hold: same entry, retained >= 1; limits and uses move freely */
        V_ASSUME(v->R >= 1);
        put_present(g_present, g_owner[g_present], v->R, v->C, v->L);
    } else { /* M_USE */
        /* Rely: my use is (or will be) announced, so nobody else reclaims the entry before I recorded it */
        V_ASSUME(v->R >= 0 && (v->R > 0 || v->C != v->L));
        put_present(g_present, g_owner[g_present], v->R, v->C, v->L);
    }
}

/* ---- hash table handle API: assumed contract over the one-key view ---- */
void parsec_hash_table_lock_bucket_handle(parsec_hash_table_t *ht, parsec_key_t key, parsec_key_handle_t *h)
{
    V_ASSERT(ht == &repo.table, OB("guar", "uses_the_table_of_the_repo"));
    V_ASSERT(!g_locked, OB("guar", "bucket_lock_not_taken_twice"));
    V_ASSERT(key == K, OB("guar", "locks_the_bucket_of_the_requested_key"));
    env_step();
    g_locked = 1; g_handle = h;
    h->key = key; h->hash64 = key * 0x9E3779B97F4A7C15ull; h->hash = h->hash64 & 0xf;
    if (g_sections < NENV) {
        int k = g_sections;
        l_P[k] = g_present;
        if (g_present >= 0) { l_R[k] = ENT(g_present)->retained; l_C[k] = ENT(g_present)->usagecnt; l_L[k] = ENT(g_present)->usagelmt; }
    }
    g_sections++;
}
void parsec_hash_table_unlock_bucket_handle_impl(parsec_hash_table_t *ht, const parsec_key_handle_t *h, const char *file, int line)
{
    (void)file; (void)line;
    V_ASSERT(ht == &repo.table && g_locked && h == g_handle, OB("guar", "unlocks_only_the_bucket_it_locked"));
    V_ASSERT(inv_holds(), OB("inv", "present_entry_is_retained_or_has_outstanding_uses_at_lock_release"));
    if (g_sections >= 1 && g_sections <= NENV) {
        int k = g_sections - 1;
        u_P[k] = g_present;
        if (g_present >= 0) { u_R[k] = ENT(g_present)->retained; u_C[k] = ENT(g_present)->usagecnt; u_L[k] = ENT(g_present)->usagelmt; }
    }
    g_locked = 0; g_handle = 0;
}
void *parsec_hash_table_nolock_find_handle(parsec_hash_table_t *ht, const parsec_key_handle_t *h)
{
    V_ASSERT(ht == &repo.table && g_locked && h == g_handle, OB("guar", "find_only_under_the_bucket_lock"));
    return (g_present >= 0 && h->key == K) ? (void *)ENT(g_present) : (void *)0;
}
void parsec_hash_table_nolock_insert_handle(parsec_hash_table_t *ht, const parsec_key_handle_t *h, parsec_hash_table_item_t *item)
{
    int s = -1;
    V_ASSERT(ht == &repo.table && g_locked && h == g_handle, OB("guar", "insert_only_under_the_bucket_lock"));
    for (int i = 0; i < NPOOL; i++) if (item == &ENT(i)->ht_item) s = i;
    V_ASSERT(s >= 0 && g_status[s] == ST_PRIVATE, OB("guar", "inserts_a_block_it_owns"));
    V_ASSERT(g_present < 0, OB("guar", "never_inserts_a_second_entry_for_the_key"));
    V_ASSERT(item->key == h->key, OB("guar", "inserted_item_has_its_key_set"));
    if (s < 0) return;
    item->hash64 = h->hash64; item->next_item = 0;
    g_present = s; g_status[s] = ST_TABLE; g_inserts++;
}
void *parsec_hash_table_nolock_remove_handle(parsec_hash_table_t *ht, const parsec_key_handle_t *h)
{
    V_ASSERT(ht == &repo.table && g_locked && h == g_handle, OB("guar", "remove_only_under_the_bucket_lock"));
    if (g_present < 0 || h->key != K) return (void *)0;
    int s = g_present;
    g_present = -1; g_status[s] = ST_PRIVATE; g_removes++;     /* now mine: I have to give it back */
    return (void *)ENT(s);
}
/* locking find (used by data_repo_lookup_entry): linearises inside its own critical section */
void *parsec_hash_table_find(parsec_hash_table_t *ht, parsec_key_t key)
{
    V_ASSERT(ht == &repo.table && !g_locked, OB("guar", "find_called_without_holding_the_bucket"));
    if (key != K) return (void *)0;          /* other keys: not in the one-key view (and never equal to our entry) */
    env_step();
    if (g_sections < NENV) {
        int k = g_sections;
        l_P[k] = u_P[k] = g_present;
        if (g_present >= 0) { l_R[k] = u_R[k] = ENT(g_present)->retained; l_C[k] = u_C[k] = ENT(g_present)->usagecnt; l_L[k] = u_L[k] = ENT(g_present)->usagelmt; }
    }
    g_sections++;
    return g_present >= 0 ? (void *)ENT(g_present) : (void *)0;
}

/* ---- mempool: assumed contract ---- */
static void *parsec_thread_mempool_allocate(parsec_thread_mempool_t *mp)
{
    V_ASSERT(mp == &mps[0], OB("guar", "allocates_from_this_threads_mempool_for_nbdata"));
    V_ASSERT(!g_locked, OB("guar", "no_allocation_while_holding_the_bucket"));
    V_ASSERT(g_allocs <= NSTEP, OB("guar", "allocates_at_most_once_per_call"));
    int s = vin.alloc_slot[g_allocs <= NSTEP ? g_allocs : 0];
    V_ASSUME(s < NPOOL && g_status[s] == ST_FREE);          /* a mempool never hands out a live block (C27) */
    g_status[s] = ST_PRIVATE; g_owner[s] = (mp == &mps[1]); g_allocs++; g_last_alloc = s;
    data_repo_entry_t *e = ENT(s);                      /* recycled block: arbitrary content */
    e->retained = vin.gR; e->usagecnt = vin.gC; e->usagelmt = vin.gL; e->ht_item.key = (parsec_key_t)vin.gkey;
    e->generator = vin.gdata ? (void *)blk[s] : (void *)0;
    e->data_repo_mempool_owner = vin.gdata ? &mps[1] : (parsec_thread_mempool_t *)0;
    for (int i = 0; i <= NB_MAX; i++) DATA_AT(s, i) = vin.gdata ? (struct parsec_data_copy_s *)blk[s] : (struct parsec_data_copy_s *)0;
    return e;
}
static void parsec_thread_mempool_free(parsec_thread_mempool_t *mp, void *elt)
{
    int s = slot_of(elt);
    V_ASSERT(s >= 0, OB("guar", "frees_only_repository_blocks"));
    if (s < 0) return;
    V_ASSERT(g_status[s] != ST_TABLE && g_present != s, OB("guar", "never_frees_an_entry_still_in_the_table"));
    V_ASSERT(g_status[s] != ST_FREE, OB("guar", "never_frees_a_block_twice"));
    V_ASSERT(mp == &mps[g_owner[s]], OB("guar", "block_goes_back_to_the_mempool_it_came_from"));
    g_status[s] = ST_FREE; g_freed[s]++; g_frees++;
}

void verif_env_step(int op, volatile void *loc)
{
    /* atomics on usagecnt / usagelmt are issued inside the critical section: nobody else moves (Rely: every
     * writer of the entry holds the bucket lock; checked for me by the obligation below) */
    (void)loc;
    if (op == V_OP_CAS || op == V_OP_FETCH)
        V_ASSERT(g_locked, OB("guar", "counters_modified_only_under_the_bucket_lock"));
}
void verif_own_step(int op, volatile void *loc, int success) { (void)op; (void)loc; (void)success; }

static void setup(int mode)
{
    K = (parsec_key_t)vin.key;
    g_mode = mode; g_present = -1; g_locked = 0; g_env_k = 0; g_sections = 0;
    g_allocs = g_frees = g_inserts = g_removes = 0; g_last_alloc = -1;
    for (int i = 0; i < NPOOL; i++) {
        g_status[i] = ST_FREE; g_freed[i] = 0; g_owner[i] = 0;
        blk[i] = (data_repo_entry_t *)malloc(sizeof(data_repo_entry_t) + NB_MAX * sizeof(void *));
    }
    V_ASSUME(vin.nbdata <= NB_MAX);
    repo.nbdata = vin.nbdata;
    for (int i = 0; i <= MAX_PARAM_COUNT; i++) es.datarepo_mempools[i] = (i == vin.nbdata) ? &mps[0] : &mps[1];
    if (mode == M_RETAIN || mode == M_USE) {
        V_ASSUME(vin.p0 < NPOOL);
        put_present(vin.p0, vin.owner0, vin.R0, vin.C0, vin.L0);
    }
}
#endif
