/* C25: the property statement itself, checked on call-atomic histories of the REAL operations starting from an
 * empty repository: up to NPAIR create/addto_usage_limit pairs (pair i announces pu[i] <= UMAX uses) and the
 * matching used_once calls, in every order the protocol allows.  The specification side below (holders /
 * announced / uses) is written from the statement and never looks at the entry's fields; findability is observed
 * through the real data_repo_lookup_entry.  The operations are call-atomic here (each runs alone); the one
 * operation with two critical sections, lookup_and_create, is covered under interference by job create.rg. */
#define FN "history"
#ifndef NPAIR
#define NPAIR 3
#endif
#ifndef UMAX
#define UMAX 2
#endif
#define NSTEP (2 * NPAIR + NPAIR * UMAX)
#include "c25_model.h"
/* obligation, then continue only on the paths where it holds (what follows a violation is meaningless) */
#define V_CHECK(c, m) do { V_ASSERT(c, m); V_ASSUME(c); } while (0)

void h_history(void)
{
    vin_load();
    setup(M_SEQ);
    for (int i = 0; i < NPAIR; i++) V_ASSUME(vin.pu[i] <= UMAX);
    int created = 0, released = 0;        /* pairs 0..created-1 have created, 0..released-1 have announced (FIFO, wlog) */
    int live = 0, reclaimed = 0;
    long holders = 0, announced = 0, promised = 0, uses = 0;   /* of the current incarnation of the entry */
    data_repo_entry_t *cur = NULL;

    for (int s = 0; s < NSTEP; s++) {
        int op = vin.op[s], frees_before = g_frees;
        if (op == 0 && created < NPAIR) {
            data_repo_entry_t *r = data_repo_lookup_entry_and_create(&es, &repo, K);
            if (!live) { live = 1; holders = announced = promised = uses = 0; cur = r; }
            V_CHECK(r != NULL && r == cur, OB("post", "create_returns_the_live_entry"));
            holders++; promised += vin.pu[created]; created++;
        } else if (op == 1 && released < created) {          /* some creator still holds it */
            data_repo_entry_addto_usage_limit(&repo, K, vin.pu[released]);
            holders--; announced += vin.pu[released]; released++;
        } else if (op == 2 && live && uses < promised) {     /* a use that a creator of this entry announces */
            data_repo_entry_used_once(&repo, K);
            uses++;
        } else
            continue;
        data_repo_entry_t *f = data_repo_lookup_entry(&repo, K);
        if (holders > 0 || uses < announced) {
            V_CHECK(f != NULL && f == cur, OB("lemma", "findable_while_a_creator_holds_it_or_fewer_uses_than_announced"));
            V_CHECK(g_frees == frees_before, OB("lemma", "not_reclaimed_while_in_use"));
        } else {
            V_CHECK(f == NULL, OB("lemma", "gone_as_soon_as_all_creators_released_and_all_announced_uses_happened"));
            V_CHECK(g_frees == frees_before + 1 && g_status[slot_of(cur) >= 0 ? slot_of(cur) : 0] == ST_FREE,
                     OB("lemma", "reclaimed_exactly_once_in_the_very_call_that_completes_the_condition"));
            live = 0; reclaimed++;
        }
    }
    V_CHECK(g_frees == reclaimed && g_allocs == reclaimed + live, OB("lemma", "one_reclamation_per_incarnation_no_leak"));
    V_CHECK(!g_locked, OB("post", "bucket_lock_released"));
    V_CANARY("history");
}
