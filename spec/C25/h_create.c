/* C25: contract of the real __data_repo_lookup_entry_and_create (parsec/datarepo.c) and of data_repo_lookup_entry,
 * under interference of the other threads at each bucket-lock acquisition (see c25_model.h). */
#ifdef H_LOOKUP
#define FN "lookup_entry"
#else
#define FN "lookup_entry_and_create"
#endif
#include "c25_model.h"


void h_create(void)
{
    vin_load();
    setup(M_NONE);

    data_repo_entry_t *r = data_repo_lookup_entry_and_create(&es, &repo, K);

    int n = g_sections;
    V_ASSERT(!g_locked, OB("post", "bucket_lock_released"));
    V_ASSERT(n == 1 || n == 2, OB("post", "one_or_two_critical_sections"));
    if (n != 1 && n != 2) return;
    int last = n - 1;
    /* create: the entry is present afterwards and it is the one handed to the caller */
    V_ASSERT(r != NULL && u_P[last] >= 0 && r == ENT(u_P[last]), OB("post", "returned_entry_is_the_one_findable_in_the_table"));
    if (n == 2) {
        V_ASSERT(l_P[0] < 0 && u_P[0] < 0, OB("guar", "first_section_without_hit_leaves_the_table_unchanged"));
        V_ASSERT(g_allocs == 1, OB("post", "exactly_one_block_allocated_after_a_miss"));
    } else {
        V_ASSERT(l_P[0] >= 0, OB("post", "single_section_only_on_a_hit"));
        V_ASSERT(g_allocs == 0 && g_frees == 0, OB("post", "no_allocation_on_a_hit"));
    }
    V_ASSERT(g_removes == 0, OB("guar", "create_never_removes"));
    if (l_P[last] >= 0) {
        /* somebody else's entry was there when I took the lock (possibly a racing creator between my two
         * sections): it is reused, my retention is added, its counts are not touched */
        V_ASSERT(u_P[last] == l_P[last], OB("post", "existing_entry_reused"));
        V_ASSERT(u_R[last] == l_R[last] + 1, OB("post", "retained_incremented_on_existing_entry"));
        V_ASSERT(u_C[last] == l_C[last] && u_L[last] == l_L[last], OB("post", "counts_of_existing_entry_untouched"));
        V_ASSERT(g_inserts == 0, OB("post", "nothing_inserted_when_an_entry_exists"));
        V_ASSERT(g_frees == g_allocs, OB("post", "local_entry_returned_to_the_mempool_exactly_once"));
        if (n == 2 && g_last_alloc >= 0)
            V_ASSERT(g_freed[g_last_alloc] == 1 && g_status[g_last_alloc] == ST_FREE && g_present != g_last_alloc,
                     OB("post", "racing_creator_wins_local_block_freed_once_and_not_in_table"));
    } else {
        V_ASSERT(n == 2 && g_inserts == 1 && g_frees == 0, OB("post", "fresh_entry_inserted_once_and_not_freed"));
        if (g_last_alloc >= 0 && r == ENT(g_last_alloc)) {
            V_ASSERT(r->retained == 1 && r->usagecnt == 0 && r->usagelmt == 0, OB("post", "fresh_entry_retained_once_no_uses_no_limit"));
            V_ASSERT(r->ht_item.key == K, OB("post", "fresh_entry_carries_the_key"));
            V_ASSERT(r->data_repo_mempool_owner == &mps[0] && r->generator == NULL, OB("post", "fresh_entry_owner_is_the_allocating_mempool"));
            int j = vin.ghost_j;
            V_ASSUME(j < vin.nbdata);
            V_ASSERT(DATA_AT(g_last_alloc, j) == NULL, OB("post", "fresh_entry_data_slots_are_NULL"));
        } else
            V_ASSERT(0, OB("post", "fresh_entry_is_the_allocated_block"));
    }
    V_CANARY("create");
}

#ifdef H_LOOKUP
void h_lookup(void)
{
    vin_load();
    setup(M_NONE);
    parsec_key_t q = vin.other_key ? (parsec_key_t)(K + 1 + vin.other_key) : K;
    data_repo_entry_t *r = data_repo_lookup_entry(&repo, q);
    if (q == K) {
        V_ASSERT(g_sections == 1, OB("post", "one_lookup"));
        V_ASSERT(V_IFF(r != NULL, l_P[0] >= 0), OB("post", "found_iff_present"));
        V_ASSERT(V_IMPLIES(r != NULL, l_P[0] >= 0 && r == ENT(l_P[0])), OB("post", "returns_the_entry_of_the_key"));
        if (g_present >= 0)
            V_ASSERT(ENT(g_present)->retained == l_R[0] && ENT(g_present)->usagecnt == l_C[0] && ENT(g_present)->usagelmt == l_L[0],
                     OB("post", "no_side_effect_on_the_counters"));
        V_ASSERT(g_present == l_P[0], OB("post", "no_side_effect_on_the_table"));
    } else
        V_ASSERT(r == NULL, OB("post", "other_key_not_confused_with_this_entry"));
    V_ASSERT(g_allocs == 0 && g_frees == 0 && g_inserts == 0 && g_removes == 0 && !g_locked, OB("post", "no_allocation_no_removal"));
    V_CANARY("lookup");
}
#endif
