from vlib import Job

FUNCS = ["__data_repo_lookup_entry_and_create", "__data_repo_entry_addto_usage_limit",
         "__data_repo_entry_used_once", "data_repo_lookup_entry"]

META = dict(
    level="proof",
    functions=FUNCS,
    explanation="Rely/guarantee contracts on the real functions of parsec/datarepo.c (included verbatim, reached through the "
                "public macros data_repo_lookup_entry_and_create / _entry_addto_usage_limit / _entry_used_once). The hash-table "
                "handle API and the thread-mempool are replaced by their assumed contracts, written as stubs over a ghost one-key "
                "view of the table (present slot or none), a ghost bucket lock and per-block ghost status/free counters "
                "(c25_model.h). Every shared access of the three operations lies between lock_bucket_handle and unlock, so the "
                "environment (the other threads running any number of the three operations on the same key) acts at each lock "
                "acquisition; what it may leave is any state satisfying the invariant `present => retained>=0 and (retained>0 or "
                "usagecnt != usagelmt)` that respects what the current thread holds (nothing / one retention / one pending use). "
                "In particular between the two critical sections of lookup_and_create the entry may be created, used, reclaimed "
                "and re-created in another block. Postconditions are stated over the values seen right after the last lock "
                "acquisition: create: returned entry is the one in the table, retained+1 on an existing entry (counts untouched), "
                "fresh entry has retained=1, cnt=lmt=0, key, owner mempool, data[0..nbdata) NULL for every nbdata <= "
                "MAX_PARAM_COUNT, a racing creator's entry is reused and the local block goes back to its mempool exactly once; "
                "addto(u): lmt+u, retained-1, reclaimed <=> lmt+u==cnt and retained-1==0; used_once: cnt+1, reclaimed <=> "
                "lmt==cnt+1 and retained==0; reclaimed => removed from the table and freed exactly once to the owning mempool, "
                "never freed while still in the table; not reclaimed => still present and not freed; the invariant holds at every "
                "lock release; all table accesses and counter updates happen under the bucket lock, which is released on return. "
                "All 32-bit counter values, all u, all keys (complete; only loop: data[] initialisation, unwound to the code's "
                "limit MAX_PARAM_COUNT, and the CAS retry loop, shown to exit at the first attempt). Job lemma.step lifts the "
                "contracts to the statement over abstract holders/announced/uses counts (inductive step, all values < 2^31). "
                "Job history re-checks the statement itself on call-atomic histories of the real operations from an empty "
                "repository (bounded: see the job's bound), with a specification that never reads the entry's fields.",
    trusted_base=[
        "rely/guarantee soundness theorem (per-thread obligations imply the invariant for every interleaving)",
        "stub contracts of parsec_hash_table_lock_bucket_handle / nolock_find_handle / nolock_insert_handle / "
        "nolock_remove_handle / unlock_bucket_handle_impl / parsec_hash_table_find over a one-key ghost view (the bucket lock "
        "is a correct mutex; find/insert/remove act as a map for the key; other keys do not interfere) - property C32",
        "stub contracts of parsec_thread_mempool_allocate / parsec_thread_mempool_free (renamed away in the real mempool.h): "
        "allocate returns a block that is neither live nor in the table, with arbitrary content and room for nbdata pointers; "
        "free takes the block back - property C27",
        "CBMC's model of writes through the size-1 trailing array data[1] of a heap block (struct hack)",
    ],
    assumptions=[
        "callers follow the documented protocol: addto_usage_limit is called by a thread that created/retained the entry and has "
        "not released it yet (the code's compiled-out asserts e!=NULL, retained>0); used_once is called only for a use that one "
        "of the creators has announced or will announce, so the entry exists when the call takes the lock (the code's "
        "compiled-out assert e!=NULL)",
        "usagecnt / usagelmt / retained and the table membership of the key are modified only by the three operations of "
        "datarepo.c (true in /repo: no other file mentions these fields)",
        "fewer than 2^31-1 creators retain one entry at the same time; fewer than 2^31 uses announced per entry (lemma.step)",
    ],
)


def jobs(tier):
    full = tier == "thorough"
    cas = {"__data_repo_entry_addto_usage_limit.0": 2}      # CAS retry loop: exits at the first attempt (unwinding assertion)
    J = [
        Job("create.rg", "h_create.c", entry="h_create", unwind=23, defines={"NB_MAX": 20},
            functions=["__data_repo_lookup_entry_and_create"], timeout=600, min_obligations=18),
        Job("lookup", "h_create.c", entry="h_lookup", unwind=23, defines={"NB_MAX": 20, "H_LOOKUP": None},
            functions=["data_repo_lookup_entry"], timeout=300, min_obligations=6),
        Job("addto.rg", "h_release.c", entry="h_addto", unwind=23, unwindset=cas, defines={"NB_MAX": 20},
            functions=["__data_repo_entry_addto_usage_limit"], timeout=300, min_obligations=12),
        Job("used_once.rg", "h_release.c", entry="h_used", unwind=23, defines={"NB_MAX": 20, "H_USED": None},
            functions=["__data_repo_entry_used_once"], timeout=300, min_obligations=12),
        Job("lemma.step", "h_lemma.c", entry="h_lemma", unwind=2, functions=[], timeout=300, min_obligations=4),
    ]

    def hist(npair, umax, npool, checks=True, timeout=600):
        return Job("history.%dx%d" % (npair, umax), "h_history.c", entry="h_history", unwind=23, unwindset=cas,
                   defines={"NB_MAX": 1, "NPOOL": npool, "NPAIR": npair, "UMAX": umax}, object_bits=12,
                   checks=(("--pointer-check", "--bounds-check") if checks else ()), slice_formula=not checks,
                   bounded="call-atomic histories from an empty repository of at most %d create/addto_usage_limit pairs, each "
                           "announcing at most %d uses, with the matching used_once calls, every order the protocol allows "
                           "(%d steps); %d blocks in the mempool; nbdata<=1%s" % (
                               npair, umax, 2 * npair + npair * umax, npool,
                               "" if checks else "; pointer checks off in this job (covered by the *.rg jobs)"),
                   functions=FUNCS, timeout=timeout, min_obligations=6)
    if full:
        J += [hist(2, 2, 3), hist(3, 1, 2, timeout=1200), hist(3, 2, 2, checks=False, timeout=1800)]
    else:
        J += [hist(2, 1, 2, timeout=400)]
    return J


MANIFEST = dict(
    category="proof",
    text="Every obligation of the rely/guarantee contracts of __data_repo_lookup_entry_and_create, "
         "__data_repo_entry_addto_usage_limit, __data_repo_entry_used_once and data_repo_lookup_entry is discharged by CBMC on the "
         "real parsec/datarepo.c for all counter values, keys, announced limits, nbdata up to the code's limit and arbitrary "
         "interference of other threads at every bucket-lock acquisition (the functions are loop-free apart from the data[] "
         "initialisation, unwound completely, and a CAS retry shown to succeed at once): an entry is kept in the table and not "
         "freed unless, in that very call, retained becomes/is 0 and usagecnt equals usagelmt, in which case it is removed and "
         "returned to its mempool exactly once (both orders: last release after last use, last use after last release). A "
         "loop-free lemma lifts this to holders/announced/uses counts. Proof level because all non-bounded obligations are "
         "complete over the property's domain; the history re-check on sequences of real calls (<=3 pairs, small limits) is "
         "reported separately as bounded.",
    note="Modulo the assumed contracts of the hash-table handle API / bucket lock (C32) and of the thread mempool (C27), which are "
         "stubs over ghost state here, rely/guarantee soundness and sequentially consistent atomics. Assumes callers follow the "
         "protocol (addto only by a retaining creator, used_once only for announced uses: the code's asserts are compiled out) "
         "and fewer than 2^31 creators/uses. NOT decided: the 'concurrent stress on the real repository' part of the quantifier "
         "(no testing in this technique); behaviour when the protocol is violated (use of an absent entry dereferences NULL); "
         "interactions between different keys sharing a bucket; liveness of the lock; data_repo_create/destroy.",
    technique="function contracts + rely/guarantee ghost state on the real datarepo.c (callee contracts as ghost-state stubs), "
              "discharged by CBMC (SAT), complete unwinding; bounded history re-check on real calls",
    design_ref="DESIGN.md section 5, C25")
