/* C25: contracts of the real __data_repo_entry_addto_usage_limit and __data_repo_entry_used_once
 * (parsec/datarepo.c), under interference at the bucket-lock acquisition (see c25_model.h).
 * All values l_* are those seen right after the lock was obtained (after the others acted). */
#ifdef H_USED
#define FN "entry_used_once"
#else
#define FN "entry_addto_usage_limit"
#endif
#include "c25_model.h"

#ifndef H_USED
void h_addto(void)
{
    vin_load();
    /* PRE (the code's asserts, compiled out): the caller is a creator that has not released yet */
    V_ASSUME(vin.R0 >= 1);
    setup(M_RETAIN);
    int p = g_present;

    data_repo_entry_addto_usage_limit(&repo, K, vin.u);

    V_ASSERT(!g_locked, OB("post", "bucket_lock_released"));
    V_ASSERT(g_sections == 1, OB("post", "one_critical_section"));
    V_ASSERT(l_P[0] == p, OB("post", "acts_on_the_retained_entry"));
    int32_t expL = (int32_t)((uint32_t)l_L[0] + vin.u), expR = l_R[0] - 1;
    int reclaim = (expL == l_C[0]) && (expR == 0);       /* all creators released and all announced uses happened */
    V_ASSERT(g_allocs == 0 && g_inserts == 0, OB("guar", "never_allocates_or_inserts"));
    if (reclaim) {
        V_ASSERT(u_P[0] < 0 && g_present < 0 && g_removes == 1, OB("post", "reclaimed_when_last_release_meets_all_announced_uses"));
        V_ASSERT(g_frees == 1 && g_freed[p] == 1 && g_status[p] == ST_FREE, OB("post", "reclaimed_entry_freed_exactly_once"));
    } else {
        V_ASSERT(u_P[0] == p && g_present == p && g_removes == 0, OB("post", "kept_findable_while_retained_or_uses_outstanding"));
        V_ASSERT(g_frees == 0 && g_status[p] == ST_TABLE, OB("post", "kept_entry_not_freed"));
        V_ASSERT(u_L[0] == expL, OB("post", "limit_increased_by_the_announced_uses"));
        V_ASSERT(u_R[0] == expR, OB("post", "one_retention_dropped"));
        V_ASSERT(u_C[0] == l_C[0], OB("post", "use_count_untouched"));
    }
    V_CANARY("addto");
}
#else
void h_used(void)
{
    vin_load();
    /* PRE (the code's assert, compiled out): the entry exists - the use is one a creator announced or will announce */
    V_ASSUME(vin.R0 >= 0 && (vin.R0 > 0 || vin.C0 != vin.L0));
    setup(M_USE);
    int p = g_present;

    data_repo_entry_used_once(&repo, K);

    V_ASSERT(!g_locked, OB("post", "bucket_lock_released"));
    V_ASSERT(g_sections == 1, OB("post", "one_critical_section"));
    V_ASSERT(l_P[0] == p, OB("post", "acts_on_the_entry_of_the_key"));
    int32_t expC = (int32_t)((uint32_t)l_C[0] + 1u);
    int reclaim = (l_L[0] == expC) && (l_R[0] == 0);
    V_ASSERT(g_allocs == 0 && g_inserts == 0, OB("guar", "never_allocates_or_inserts"));
    if (reclaim) {
        V_ASSERT(u_P[0] < 0 && g_present < 0 && g_removes == 1, OB("post", "reclaimed_when_last_announced_use_and_no_creator_holds_it"));
        V_ASSERT(g_frees == 1 && g_freed[p] == 1 && g_status[p] == ST_FREE, OB("post", "reclaimed_entry_freed_exactly_once"));
    } else {
        V_ASSERT(u_P[0] == p && g_present == p && g_removes == 0, OB("post", "kept_findable_while_retained_or_uses_outstanding"));
        V_ASSERT(g_frees == 0 && g_status[p] == ST_TABLE, OB("post", "kept_entry_not_freed"));
        V_ASSERT(u_C[0] == expC, OB("post", "use_recorded_once"));
        V_ASSERT(u_L[0] == l_L[0] && u_R[0] == l_R[0], OB("post", "limit_and_retention_untouched"));
    }
    V_CANARY("used_once");
}
#endif
