/* C27 (thread memory pool part): contracts on the REAL parsec/mempool.c + mempool.h (included verbatim):
 *   parsec_mempool_construct, parsec_thread_mempool_allocate, parsec_thread_mempool_allocate_when_empty,
 *   parsec_thread_mempool_free, parsec_mempool_free.
 * The per-thread LIFO push/pop are replaced by the C30 contract (abstract stack keyed by the LIFO's address).
 * Elements: NSLOT tracked elements in an arbitrary state satisfying Inv + fresh ones from posix_memalign.
 * Inv: an element that was handed out carries in its owner field the thread pool that created it; it is either
 *      owned by a client or cached in the LIFO of exactly that thread pool, never both.
 * Inductive step: arbitrary Inv state -> one real call -> postconditions + Inv.
 */
#include "verif.h"
#define VERIF_RG_DEFAULT_HOOKS
#define VERIF_RG_POST_STEP   /* environment also acts after each of my atomic operations */
#include "verif_rg.h"
#include "parsec/parsec_config.h"

#define parsec_lifo_pop  real_parsec_lifo_pop
#define parsec_lifo_push real_parsec_lifo_push
#include "parsec/class/lifo.h"
#undef parsec_lifo_pop
#undef parsec_lifo_push
static parsec_list_item_t *parsec_lifo_pop(parsec_lifo_t *lifo);
static void parsec_lifo_push(parsec_lifo_t *lifo, parsec_list_item_t *item);

#include "parsec/class/parsec_object.c"
#include "parsec/class/parsec_list.c"
#include "parsec/class/parsec_lifo.c"
#include "parsec/mempool.c"

#define NSLOT 3
#define NTH 2
#ifndef TID
#define TID 0                 /* the thread pool that serves the request (one Job per value) */
#endif
#ifndef OBJC
#define OBJC 0                /* 0: mempool without object class, 1: elements are parsec_list_item_t objects */
#endif

typedef struct elt_s {
    parsec_list_item_t       super;
    char                     pad0[8];
    parsec_thread_mempool_t *owner;       /* pool_owner_offset points here */
    char                     payload[24];
} elt_t;

struct vin {
    uint8_t  st[NSLOT];        /* 0 never handed out, 1 owned by a client, 2 cached */
    uint8_t  own[NSLOT];       /* creating thread pool */
    uint32_t nb_elt[NTH];
} vin;
#include "verif_vin.h"

static parsec_mempool_t mp;
static elt_t slots[NSLOT];
static int g_live[NSLOT];      /* clients' view */
static int g_in[NSLOT];        /* LIFO's view: 0 not cached, k+1: in the LIFO of thread pool k */
static int g_fresh_in;         /* a non-tracked element was pushed (to LIFO k+1) */
static int g_pop_calls, g_push_calls, g_popped, g_pushed, g_pushed_to;

static int lifo_id(parsec_lifo_t *l)
{
    for (int k = 0; k < NTH; k++) if (l == &mp.thread_mempools[k].mempool) return k + 1;
    return 0;
}
static int slot_of(const void *p)
{
    for (int s = 0; s < NSLOT; s++) if ((const void *)&slots[s] == p) return s;
    return -1;
}
/* C30 contract.  W.l.o.g. slot 0 is the element a pop hands out, if it hands out any. */
static parsec_list_item_t *parsec_lifo_pop(parsec_lifo_t *lifo)
{
    int id = lifo_id(lifo);
    V_ASSERT(id != 0, "C27.mempool.lifo_pop.pre.lifo_of_a_thread_pool");
    g_pop_calls++;
    if (g_in[0] == id) { g_in[0] = 0; g_popped = 0; return &slots[0].super; }
    for (int s = 0; s < NSLOT; s++) V_ASSUME(g_in[s] != id);    /* NULL only if this LIFO is empty */
    return NULL;
}
static void parsec_lifo_push(parsec_lifo_t *lifo, parsec_list_item_t *item)
{
    int id = lifo_id(lifo);
    V_ASSERT(id != 0, "C27.mempool.lifo_push.pre.lifo_of_a_thread_pool");
    g_push_calls++; g_pushed_to = id;
    int s = slot_of(item);
    if (s < 0) { g_fresh_in = id; return; }
    V_ASSERT(g_in[s] == 0, "C27.mempool.lifo_push.pre.element_not_already_cached");
    g_in[s] = id; g_pushed = s;
}

static int pre_live[NSLOT], pre_in[NSLOT];
static parsec_thread_mempool_t *pre_owner[NSLOT];
static uint32_t pre_nb[NTH];

static void setup(void)
{
    parsec_class_t *cls = OBJC ? PARSEC_OBJ_CLASS(parsec_list_item_t) : NULL;
    parsec_mempool_construct(&mp, cls, sizeof(elt_t), offsetof(elt_t, owner), NTH);
    V_ASSERT(mp.nb_thread_mempools == NTH && mp.elt_size == sizeof(elt_t) && mp.pool_owner_offset == offsetof(elt_t, owner),
             "C27.mempool_construct.post.configuration_recorded");
    for (int k = 0; k < NTH; k++) {
        V_ASSERT(mp.thread_mempools[k].parent == &mp && mp.thread_mempools[k].nb_elt == 0,
                 "C27.mempool_construct.post.thread_pools_point_to_parent_and_are_empty");
        mp.thread_mempools[k].nb_elt = vin.nb_elt[k];
        V_ASSUME(vin.nb_elt[k] < 0xffffffffu);
        pre_nb[k] = vin.nb_elt[k];
    }
    for (int s = 0; s < NSLOT; s++) {
        V_ASSUME(vin.st[s] <= 2 && vin.own[s] < NTH);
        g_live[s] = vin.st[s] == 1;
        g_in[s] = vin.st[s] == 2 ? vin.own[s] + 1 : 0;                 /* Inv: cached in the creator's LIFO */
        slots[s].owner = vin.st[s] ? &mp.thread_mempools[vin.own[s]] : NULL;
        pre_live[s] = g_live[s]; pre_in[s] = g_in[s]; pre_owner[s] = slots[s].owner;
    }
    g_pop_calls = g_push_calls = 0; g_popped = g_pushed = -1; g_fresh_in = 0; g_pushed_to = 0;
}
static int others_untouched(int t)
{
    for (int s = 0; s < NSLOT; s++) {
        if (s == t) continue;
        if (g_live[s] != pre_live[s] || g_in[s] != pre_in[s] || slots[s].owner != pre_owner[s]) return 0;
    }
    return 1;
}
static int inv(void)
{
    for (int s = 0; s < NSLOT; s++) {
        if (g_live[s] && g_in[s]) return 0;
        if (g_in[s] && slots[s].owner != &mp.thread_mempools[g_in[s] - 1]) return 0;
        if (g_live[s] && lifo_id(&slots[s].owner->mempool) == 0) return 0;
    }
    return 1;
}

void h_mp_alloc(void)
{
    vin_load();
    setup();
    parsec_thread_mempool_t *tp = &mp.thread_mempools[TID];
    void *e = parsec_thread_mempool_allocate(tp);
    V_ASSERT(e != NULL, "C27.mempool_allocate.post.returns_an_element");
    int s = slot_of(e);
    if (s >= 0) {
        V_ASSERT(s == g_popped && pre_in[s] == TID + 1, "C27.mempool_allocate.post.reused_element_came_from_this_pools_cache");
        V_ASSERT(!pre_live[s], "C27.mempool_allocate.post.element_had_no_owner");
        V_ASSERT(g_in[s] == 0, "C27.mempool_allocate.post.element_no_longer_cached");
        V_ASSERT(tp->nb_elt == pre_nb[TID], "C27.mempool_allocate.post.reuse_does_not_count_as_new");
        g_live[s] = 1;
    } else {
        /* fresh element: the cache of this thread pool was empty */
        V_ASSERT(g_popped < 0, "C27.mempool_allocate.post.fresh_only_when_cache_empty");
        V_ASSERT(tp->nb_elt == pre_nb[TID] + 1, "C27.mempool_allocate.post.new_element_counted");
        V_ASSERT((((uintptr_t)e) & (sizeof(void *) - 1)) == 0, "C27.mempool_allocate.post.element_aligned_for_lifo");
#ifndef VERIF_REPLAY
        V_ASSERT(__CPROVER_OBJECT_SIZE(e) >= mp.elt_size && __CPROVER_POINTER_OFFSET(e) == 0,
                 "C27.mempool_allocate.post.element_at_least_elt_size");
#endif
    }
    V_ASSERT(((elt_t *)e)->owner == tp, "C27.mempool_allocate.post.owner_field_is_this_thread_pool");
    V_ASSERT(g_push_calls == 0 && g_fresh_in == 0, "C27.mempool_allocate.post.nothing_pushed");
    V_ASSERT(mp.thread_mempools[1 - TID].nb_elt == pre_nb[1 - TID], "C27.mempool_allocate.post.other_pool_untouched");
    V_ASSERT(others_untouched(s), "C27.mempool_allocate.post.other_elements_untouched");
    V_ASSERT(inv(), "C27.mempool_allocate.inv.owner_and_cache_consistent");
    V_CANARY("mp_alloc");
}

void h_mp_free(void)
{
    vin_load();
    setup();
    V_ASSUME(g_live[0]);                               /* PRE: the caller owns element 0 (w.l.o.g.) */
    int creator = vin.own[0];
#ifdef THREAD_FREE
    parsec_thread_mempool_free(&mp.thread_mempools[creator], &slots[0]);     /* PRE of this entry: the pool is the owner */
#else
    parsec_mempool_free(&mp, &slots[0]);
#endif
    g_live[0] = 0;
    V_ASSERT(g_push_calls == 1 && g_pushed == 0, "C27.mempool_free.post.element_pushed_exactly_once");
    V_ASSERT(g_in[0] == creator + 1, "C27.mempool_free.post.pushed_to_the_owners_lifo");
    V_ASSERT(slots[0].owner == pre_owner[0], "C27.mempool_free.post.owner_field_kept");
    V_ASSERT(g_pop_calls == 0, "C27.mempool_free.post.nothing_popped");
    V_ASSERT(others_untouched(0), "C27.mempool_free.post.other_elements_untouched");
    V_ASSERT(inv(), "C27.mempool_free.inv.owner_and_cache_consistent");
    V_CANARY("mp_free");
}
