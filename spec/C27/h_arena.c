/* C27 (arena part): contracts on the REAL parsec/arena.c (included verbatim below):
 *   parsec_arena_construct_ex, parsec_arena_allocate_device_private (+ static parsec_arena_get_chunk),
 *   parsec_arena_release (+ static parsec_arena_release_chunk).
 *
 * The arena's free list (parsec_lifo_push / parsec_lifo_pop of parsec/class/lifo.h) is replaced by the C30
 * contract: an abstract stack; pop returns SOME element that was pushed and not yet popped and removes it, NULL
 * only when nothing is cached; push requires an element that is not in the stack.  The user allocator behind
 * arena->data_malloc / data_free is a stub that hands out blocks not currently allocated and records sizes.
 *
 * Ghost state per block ("slot"):  g_alloc (allocator's view: handed out by data_malloc, not yet data_free'd),
 *   g_incache (free list's view), g_owner (clients' view: handed to a client by allocate, not yet released),
 *   g_size (bytes requested from data_malloc), g_cnt (elements the block was handed out for).
 * Inv (call boundaries), for every tracked block s:
 *   g_owner => g_alloc && !g_incache;  g_incache => g_alloc && !g_owner && count==1;  g_alloc => g_owner || g_incache
 *   allocated blocks: chunk->origin == arena, chunk->count == g_cnt, chunk->data = first aligned address after the header,
 *                     cached: (data - chunk) + elem_size <= g_size
 *   limits active:  used == rest_used + sum(g_cnt over allocated blocks) <= max_used
 *                   released == rest_cached + #cached <= max_released
 *   (rest_* >= 0 stand for the blocks that are not tracked: the operation under contract touches one block, which
 *    is chosen among the NSLOT tracked ones without loss of generality.)
 * Every entry is an INDUCTIVE STEP: arbitrary state satisfying Inv -> one call of the real function -> the
 * property's postconditions + Inv again.  History length is therefore unbounded.
 */
#include "verif.h"
#define VERIF_RG_POST_STEP   /* environment also acts after each of my atomic operations */
#include "verif_rg.h"
#include "parsec/parsec_config.h"

/* ---- C30 contract in place of the real LIFO push/pop (the real ones stay available as real_*) ---- */
#define parsec_lifo_pop  real_parsec_lifo_pop
#define parsec_lifo_push real_parsec_lifo_push
#include "parsec/class/lifo.h"
#undef parsec_lifo_pop
#undef parsec_lifo_push
static parsec_list_item_t *parsec_lifo_pop(parsec_lifo_t *lifo);
static void parsec_lifo_push(parsec_lifo_t *lifo, parsec_list_item_t *item);

#include "parsec/class/parsec_object.c"
#include "parsec/class/parsec_list.c"
#include "parsec/class/parsec_lifo.c"
#include "parsec/arena.c"

#ifndef NSLOT
#define NSLOT 3
#endif
#ifndef OFF
#define OFF 0                /* base address of every block modulo 64: one Job per multiple of 8 in [0,64)      */
#endif
/* ALIGN_FIX (optional): the arena alignment is enumerated (128, 4096, ...) instead of symbolic <= 64; OFF is then the
 * base address of every block modulo ALIGN_FIX (any multiple of 8 below it), the pool is aligned on ALIGN_FIX. */
#if defined(ALIGN_FIX) && ALIGN_FIX > 64
#define PALIGN ALIGN_FIX
#else
#define PALIGN 64
#endif
#define OFFMAX PALIGN
/* Roles of the tracked blocks (without loss of generality, by symmetry of the block names):
 *   slot P_SLOT is the block the free list hands out if it hands out any (so: nothing cached => slot P not cached),
 *   slot F_SLOT is the block the allocator returns if it returns any; the remaining slots are bystanders in an
 *   arbitrary state.  Concrete roles keep every pointer that the object system dereferences concrete. */
#define P_SLOT 0
#define F_SLOT 1
#define R_SLOT 0             /* the block given back by release */
#ifndef AMAX
#ifdef ALIGN_FIX
#define AMAX ALIGN_FIX
#else
#define AMAX 64              /* largest alignment (power of two) */
#endif
#endif
#define HDR ((uint64_t)sizeof(parsec_arena_chunk_t))
#define POOLSZ (OFFMAX + 96)
#if (OFF % 8) != 0 || OFF < 0 || OFF >= OFFMAX
#error "OFF must be a multiple of 8 in [0, OFFMAX)"
#endif
#define NENV 4

struct vin {
    /* arena configuration */
    uint64_t elem_size, alignment;
    int32_t  max_used, max_released;
    int32_t  rest_used, rest_cached;
    /* blocks */
    uint8_t  st[NSLOT];          /* 0 not allocated, 1 owned by a client, 2 cached */
    uint32_t cnt[NSLOT];
    uint64_t size[NSLOT];
    uint64_t dataoff[NSLOT];
    /* the operation */
    uint64_t count;
    uint8_t  pop_empty, alloc_fails;
    uint8_t  has_original;
    /* construct_ex */
    uint64_t max_alloc_mem, max_cached_mem;
    /* interference (RG jobs) */
    int32_t  env_used[NENV], env_rel[NENV];
} vin;
#include "verif_vin.h"

/* PALIGN-aligned so that a native replay sees the same base-address residues as CBMC (object base = offset 0) */
/* a block: OFF untouched bytes, then the header area; sizeof is a multiple of PALIGN, so every block base is OFF mod PALIGN */
typedef struct {
#if OFF > 0
    char pad[OFF];
#endif
    union { parsec_arena_chunk_t hdr; char b[96]; uint64_t force_align; } u;
} __attribute__((aligned(PALIGN))) slot_mem_t;
/* one object per block (an array of blocks would make every conditional header write a whole-array update) */
static slot_mem_t pool0, pool1, pool2, pool3;
static slot_mem_t *const pool_of[4] = { &pool0, &pool1, &pool2, &pool3 };
#if NSLOT > 4
#error "at most 4 tracked blocks"
#endif
static parsec_arena_t arena;
static parsec_data_t  the_data;
static parsec_data_copy_t the_copy;

static parsec_arena_chunk_t *g_base[NSLOT];
static int      g_alloc[NSLOT], g_incache[NSLOT], g_owner[NSLOT];
static uint64_t g_size[NSLOT];
static uint32_t g_cnt[NSLOT];
static int32_t  g_rest_used, g_rest_cached;
static int g_pop_calls, g_push_calls, g_malloc_calls, g_free_calls;
static int g_popped, g_fresh, g_pushed, g_freed;
static uint64_t g_malloc_size;
static int g_malloc_null;
static int g_pop_slot = P_SLOT, g_malloc_slot = F_SLOT;

/* ---- interference hooks -------------------------------------------------------------------------------- */
#ifdef RG
/* Rely: the other threads run the same functions.  `used` = (their contribution) + (mine); their contribution
 * stays >= 0 and small enough that int32 does not wrap; `released` is kept within [0,max_released] by each of them
 * at the end of each of THEIR steps (this is the guarantee the cache-limit obligation asks of every thread). */
static int     g_env_k;
static int32_t g_mine_used;        /* my net contribution to arena.used */
static int32_t g_pre_used, g_pre_rel;
static int32_t g_used_after_my_add = -1;
static int32_t g_rel_after_my_inc = -1;
static int     g_my_rel_incs;
#define RG_BOUND (1 << 28)
void verif_env_step(int op, volatile void *loc)
{
    (void)op; (void)loc;
    if (g_env_k < NENV) {
        int32_t du = vin.env_used[g_env_k], dr = vin.env_rel[g_env_k];
        g_env_k++;
        V_ASSUME(du > -RG_BOUND && du < RG_BOUND && dr > -RG_BOUND && dr < RG_BOUND);
        if (arena.max_used != INT32_MAX) {
            int32_t others = arena.used - g_mine_used + du;
            V_ASSUME(others >= 0 && others < RG_BOUND);
            arena.used = others + g_mine_used;
        }
        if (arena.max_released != INT32_MAX) {
            int32_t r = arena.released + dr;
            V_ASSUME(r >= 0 && r <= arena.max_released);
            arena.released = r;
        }
    }
    g_pre_used = arena.used; g_pre_rel = arena.released;
}
void verif_own_step(int op, volatile void *loc, int success)
{
    (void)success;
    if (op == V_OP_FETCH && loc == (volatile void *)&arena.used) {
        g_mine_used += arena.used - g_pre_used;
        if (arena.used > g_pre_used) g_used_after_my_add = arena.used;
    }
    if (op == V_OP_FETCH && loc == (volatile void *)&arena.released) {
        if (arena.released > g_pre_rel) { g_my_rel_incs++; g_rel_after_my_inc = arena.released; }
    }
    g_pre_used = arena.used; g_pre_rel = arena.released;
}
#else
void verif_env_step(int op, volatile void *loc) { (void)op; (void)loc; }
void verif_own_step(int op, volatile void *loc, int success) { (void)op; (void)loc; (void)success; }
#endif

/* parsec/data.c is not part of this property: detaching the copy from its parsec_data_t does not touch the arena
 * (trusted stub; parsec_arena_release calls it only when copy->original != NULL) */
static int g_detach_calls;
int parsec_data_copy_detach(parsec_data_t *data, parsec_data_copy_t *copy, uint8_t device)
{ (void)data; (void)copy; (void)device; g_detach_calls++; return 0; }

static int slot_of(const void *p)
{
    for (int s = 0; s < NSLOT; s++) if ((const void *)g_base[s] == p) return s;
    return -1;
}

/* ---- C30 contract: abstract stack ---------------------------------------------------------------------- */
static parsec_list_item_t *parsec_lifo_pop(parsec_lifo_t *lifo)
{
    V_ASSERT(lifo == &arena.area_lifo, "C27.lifo_pop.pre.free_list_of_this_arena");
#ifdef RG
    verif_env_step(V_OP_CAS, (volatile void *)lifo);
#endif
    g_pop_calls++;
    int s = g_pop_slot;
#ifdef RG
    if (vin.pop_empty) return NULL;                /* the others may have emptied the cache meanwhile */
#endif
    if (g_incache[s]) {
        g_incache[s] = 0; g_popped = s;
        return &g_base[s]->item;
    }
#ifndef RG
    /* call-atomic: NULL only when nothing at all is cached */
    for (int i = 0; i < NSLOT; i++) V_ASSUME(!g_incache[i]);
    V_ASSUME(g_rest_cached == 0);
#endif
    return NULL;
}
static void parsec_lifo_push(parsec_lifo_t *lifo, parsec_list_item_t *item)
{
    V_ASSERT(lifo == &arena.area_lifo, "C27.lifo_push.pre.free_list_of_this_arena");
#ifdef RG
    verif_env_step(V_OP_CAS, (volatile void *)lifo);
#endif
    int s = slot_of(item);
    V_ASSERT(s >= 0, "C27.lifo_push.pre.item_is_a_block_header");
    if (s < 0) return;
    V_ASSERT(!g_incache[s], "C27.lifo_push.pre.block_not_already_cached");
    V_ASSERT(g_alloc[s], "C27.lifo_push.pre.block_not_freed");
    g_incache[s] = 1; g_pushed = s; g_push_calls++;
}

/* ---- the user allocator behind arena->data_malloc / data_free (trusted stub) ---------------------------- */
static void *stub_malloc(size_t size)
{
    g_malloc_calls++; g_malloc_size = size;
    if (vin.alloc_fails) { g_malloc_null = 1; return NULL; }
    int s = g_malloc_slot;
    V_ASSUME(!g_alloc[s]);          /* an allocator never returns a block that is still allocated */
    g_alloc[s] = 1; g_size[s] = size; g_fresh = s;
    return g_base[s];
}
static void stub_free(void *p)
{
    int s = slot_of(p);
    g_free_calls++;
    V_ASSERT(s >= 0, "C27.data_free.pre.pointer_is_a_block_base");
    if (s < 0) return;
    V_ASSERT(g_alloc[s], "C27.data_free.pre.block_is_allocated_no_double_free");
    V_ASSERT(!g_incache[s], "C27.data_free.pre.block_not_in_cache");
    g_alloc[s] = 0; g_freed = s;
}

/* ---- state set-up: arbitrary state satisfying Inv -------------------------------------------------------- */
static int limited_used(void) { return arena.max_used != INT32_MAX; }
static int limited_rel(void)  { return arena.max_released != INT32_MAX; }

static int64_t sum_used(void)
{
    int64_t t = g_rest_used;
    for (int s = 0; s < NSLOT; s++) if (g_alloc[s]) t += g_cnt[s];
    return t;
}
static int64_t sum_cached(void)
{
    int64_t t = g_rest_cached;
    for (int s = 0; s < NSLOT; s++) if (g_incache[s]) t += 1;
    return t;
}

#ifndef COUNT_MAX
#define COUNT_MAX 0x7fffffffULL
#endif
static void setup_state(void)
{
    /* the class of the list item is initialised by the real object system */
    PARSEC_OBJ_CONSTRUCT(&arena.area_lifo, parsec_lifo_t);
    /* configuration as parsec_arena_construct_ex leaves it (contract of h_construct) */
    V_ASSUME(vin.alignment >= 2 && (vin.alignment & (vin.alignment - 1)) == 0 && vin.alignment <= AMAX);
#ifdef ALIGN_FIX
    V_ASSUME(vin.alignment == ALIGN_FIX);
#endif
    V_ASSUME(vin.elem_size >= 1 && vin.elem_size <= 0xffffffffULL);
    V_ASSUME(vin.max_used >= 0 && vin.max_released >= 0);
    arena.alignment = vin.alignment; arena.elem_size = vin.elem_size;
    arena.max_used = vin.max_used; arena.max_released = vin.max_released;
    arena.data_malloc = stub_malloc; arena.data_free = stub_free;
    V_ASSUME(vin.rest_used >= 0 && vin.rest_cached >= 0 && vin.rest_cached <= vin.rest_used);
    g_rest_used = vin.rest_used; g_rest_cached = vin.rest_cached;
    for (int s = 0; s < NSLOT; s++) {
        g_base[s] = &pool_of[s]->u.hdr;                             /* allocators return pointer-aligned memory */
        V_ASSERT((((uintptr_t)g_base[s]) & (PALIGN - 1)) == OFF, "C27.harness.inv.block_base_address_is_OFF_modulo_alignment_domain");
        V_ASSUME(vin.st[s] <= 2);
        g_alloc[s] = vin.st[s] != 0; g_owner[s] = vin.st[s] == 1; g_incache[s] = vin.st[s] == 2;
        g_size[s] = 0; g_cnt[s] = 0;
        if (g_alloc[s]) {
            V_ASSUME(vin.cnt[s] >= 1 && vin.cnt[s] <= COUNT_MAX);
            if (g_incache[s]) V_ASSUME(vin.cnt[s] == 1);
            g_cnt[s] = vin.cnt[s]; g_size[s] = vin.size[s];
            g_base[s]->origin = &arena;
            g_base[s]->count = vin.cnt[s];
            V_ASSUME(vin.dataoff[s] >= HDR && vin.dataoff[s] < HDR + vin.alignment);   /* Inv: first aligned address behind the header (post of allocate) */
            g_base[s]->data = (char *)g_base[s] + vin.dataoff[s];
            V_ASSUME((((uintptr_t)g_base[s]->data) & (vin.alignment - 1)) == 0);
            if (g_incache[s]) V_ASSUME(vin.dataoff[s] + vin.elem_size <= vin.size[s]);
        }
    }
    /* counters */
    arena.used = 0; arena.released = 0;
    if (limited_used()) { V_ASSUME(sum_used() <= arena.max_used); arena.used = (int32_t)sum_used(); }
    if (limited_rel())  { V_ASSUME(sum_cached() <= arena.max_released); arena.released = (int32_t)sum_cached(); }
    g_pop_calls = g_push_calls = g_malloc_calls = g_free_calls = 0;
    g_popped = g_fresh = g_pushed = g_freed = -1; g_malloc_null = 0;
}

static int     pre_alloc[NSLOT], pre_incache[NSLOT], pre_owner[NSLOT];
static int32_t pre_used, pre_released;
static parsec_arena_chunk_t pre_hdr[NSLOT];
static void snapshot(void)
{
    for (int s = 0; s < NSLOT; s++) {
        pre_alloc[s] = g_alloc[s]; pre_incache[s] = g_incache[s]; pre_owner[s] = g_owner[s];
        pre_hdr[s].origin = g_base[s]->origin; pre_hdr[s].count = g_base[s]->count; pre_hdr[s].data = g_base[s]->data;
    }
    pre_used = arena.used; pre_released = arena.released;
}
/* blocks other than t keep their state, their owner and their header */
static int others_untouched(int t)
{
    for (int s = 0; s < NSLOT; s++) {
        if (s == t) continue;
        if (pre_alloc[s] != g_alloc[s] || pre_incache[s] != g_incache[s] || pre_owner[s] != g_owner[s]) return 0;
        if (pre_alloc[s] && (pre_hdr[s].origin != g_base[s]->origin || pre_hdr[s].count != g_base[s]->count ||
                             pre_hdr[s].data != g_base[s]->data)) return 0;
    }
    return 1;
}
static int inv_blocks(void)
{
    for (int s = 0; s < NSLOT; s++) {
        if (g_owner[s] && (!g_alloc[s] || g_incache[s])) return 0;
        if (g_incache[s] && (!g_alloc[s] || g_owner[s] || g_base[s]->count != 1)) return 0;
        if (g_alloc[s] && !g_owner[s] && !g_incache[s]) return 0;              /* leaked block */
        if (g_alloc[s] && (g_base[s]->origin != &arena || g_base[s]->count != g_cnt[s])) return 0;
    }
    return 1;
}
static int inv_counters(void)
{
    if (limited_used() && !((int64_t)arena.used == sum_used() && arena.used <= arena.max_used)) return 0;
    if (limited_rel() && !((int64_t)arena.released == sum_cached() && arena.released <= arena.max_released)) return 0;
    return 1;
}

/* ======================================================================================================= */
/* allocate: parsec_arena_allocate_device_private (count == 1: via parsec_arena_get_chunk)                    */
/* ======================================================================================================= */
static void alloc_step(int any_count)
{
#ifdef COUNT_FIX
    size_t count = COUNT_FIX;                                   /* multiplier enumerated concretely (one Job per value) */
#else
    size_t count = vin.count;
#endif
#ifdef ELEM_FIX
    V_ASSUME(arena.elem_size == ELEM_FIX);
#endif
    V_ASSUME(count >= 1);                                       /* the code's assert(count > 1) in the else branch */
    if (!any_count) {
        /* domain of the main contract: used + count is representable in the int32 counter */
        V_ASSUME(count <= COUNT_MAX);
        if (limited_used()) V_ASSUME((int64_t)arena.used + (int64_t)count <= INT32_MAX);
    } else {
        V_ASSUME(count <= 0xffffffffULL);
    }
    the_copy.original = &the_data; the_copy.device_index = 0;
    snapshot();

    int rc = parsec_arena_allocate_device_private(&the_copy, &arena, count, 0, NULL);

    if (rc == PARSEC_SUCCESS) {
        parsec_arena_chunk_t *chunk = the_copy.arena_chunk;
        int s = slot_of(chunk);
        V_ASSERT(s >= 0, "C27.allocate.post.returns_a_block_from_allocator_or_cache");
        if (s < 0) return;
        if (!any_count) {
        V_ASSERT(!pre_owner[s], "C27.allocate.post.block_had_no_owner");
        V_ASSERT((s == g_fresh && !pre_alloc[s] && g_malloc_calls == 1 && g_popped < 0) ||
                 (s == g_popped && pre_incache[s] && g_malloc_calls == 0),
                 "C27.allocate.post.block_is_fresh_xor_taken_from_cache");
        V_ASSERT(g_alloc[s] && !g_incache[s], "C27.allocate.post.block_allocated_and_no_longer_cached");
        V_ASSERT(chunk->origin == &arena, "C27.allocate.post.origin_recorded");
        V_ASSERT(chunk->count == count, "C27.allocate.post.count_recorded");
        V_ASSERT((((uintptr_t)chunk->data) & (arena.alignment - 1)) == 0, "C27.allocate.post.data_aligned_as_requested");
        V_ASSERT((uintptr_t)chunk->data >= (uintptr_t)chunk + HDR, "C27.allocate.post.data_does_not_overlap_header");
        V_ASSERT((uintptr_t)chunk->data - ((uintptr_t)chunk + HDR) < arena.alignment, "C27.allocate.post.data_is_first_aligned_address_behind_header");
        V_ASSERT(((uintptr_t)chunk->data - (uintptr_t)chunk) + arena.elem_size * count <= g_size[s],
                 "C27.allocate.post.block_at_least_count_times_elem_size");
        V_ASSERT(the_copy.device_private == chunk->data, "C27.allocate.post.copy_points_to_data");
        V_ASSERT(the_data.span == arena.elem_size * count, "C27.allocate.post.span_recorded");
        V_ASSERT(V_IMPLIES(limited_rel(), arena.released == pre_released - (s == g_popped ? 1 : 0)),
                 "C27.allocate.post.released_counts_cached_blocks");
        }
        if (limited_used()) {
            int64_t grow = (s == g_fresh) ? (int64_t)count : 0;
            if (!any_count) {
                V_ASSERT((int64_t)arena.used == (int64_t)pre_used + grow, "C27.allocate.post.used_grows_by_count_of_fresh_block");
                V_ASSERT(arena.used <= arena.max_used, "C27.allocate.post.success_stays_within_max_used");
            } else {
                V_ASSERT((int64_t)pre_used + grow <= (int64_t)arena.max_used,
                         "C27.allocate.post.limit_refuses_any_count_beyond_max_used");
            }
        }
        if (any_count) return;
        /* ghost: the client now owns the block */
        g_owner[s] = 1; g_cnt[s] = (uint32_t)count;
        V_ASSERT(others_untouched(s), "C27.allocate.post.other_blocks_untouched");
    } else {
        if (any_count) return;
        V_ASSERT(rc == PARSEC_ERR_OUT_OF_RESOURCE, "C27.allocate.post.refusal_code");
        V_ASSERT(arena.used == pre_used && arena.released == pre_released, "C27.allocate.post.refusal_leaves_counters_unchanged");
        V_ASSERT(others_untouched(-1), "C27.allocate.post.refusal_touches_no_block");
        V_ASSERT(g_malloc_null ||
                 (limited_used() && (int64_t)pre_used + (int64_t)count > (int64_t)arena.max_used),
                 "C27.allocate.post.refused_only_beyond_limit_or_allocator_failure");
    }
    V_ASSERT(inv_blocks(), "C27.allocate.inv.block_states");
    V_ASSERT(inv_counters(), "C27.allocate.inv.counters_match_blocks_and_limits");
}

void h_alloc(void)
{
    vin_load();
    setup_state();
    alloc_step(0);
    V_CANARY("alloc");
}

/* the limit clause without the representability assumption on used + count (see report: int32 wrap) */
void h_alloc_anycount(void)
{
    vin_load();
    setup_state();
    alloc_step(1);
    V_CANARY("alloc_anycount");
}

/* ======================================================================================================= */
/* release: parsec_arena_release -> parsec_arena_release_chunk                                               */
/* ======================================================================================================= */
static void release_step(void)
{
    int r = R_SLOT;                                    /* w.l.o.g. (symmetry of block names) */
    V_ASSUME(g_owner[r]);                              /* PRE: the caller owns the block */
    the_copy.original = vin.has_original ? &the_data : NULL;
    the_copy.arena_chunk = g_base[r];
    uint32_t cnt = g_cnt[r];
    snapshot();

    parsec_arena_release(&the_copy);
    g_owner[r] = 0;                                    /* ghost: the client gave the block up */

    int cached = g_incache[r] && g_alloc[r] && g_push_calls == 1 && g_free_calls == 0 && g_pushed == r;
    int freed  = !g_alloc[r] && !g_incache[r] && g_free_calls == 1 && g_push_calls == 0 && g_freed == r;
    V_ASSERT(cached != freed, "C27.release.post.block_cached_xor_freed_exactly_once");
    V_ASSERT(V_IFF(cached, cnt == 1 && pre_released < arena.max_released),
             "C27.release.post.cached_iff_single_element_and_cache_below_limit");
    if (cached) {
        V_ASSERT(V_IMPLIES(limited_rel(), arena.released == pre_released + 1 && arena.released <= arena.max_released),
                 "C27.release.post.cache_limit_respected");
        V_ASSERT(arena.used == pre_used, "C27.release.post.cached_block_still_counted_as_used");
    } else {
        V_ASSERT(V_IMPLIES(limited_used(), (int64_t)arena.used == (int64_t)pre_used - (int64_t)cnt),
                 "C27.release.post.freed_block_gives_back_count_elements");
        V_ASSERT(arena.released == pre_released, "C27.release.post.freed_block_not_counted_as_cached");
    }
    V_ASSERT(g_pop_calls == 0 && g_malloc_calls == 0, "C27.release.post.no_allocation_side_effect");
    V_ASSERT(others_untouched(r), "C27.release.post.other_blocks_untouched");
    V_ASSERT(inv_blocks(), "C27.release.inv.block_states");
    V_ASSERT(inv_counters(), "C27.release.inv.counters_match_blocks_and_limits");
}
void h_release(void)
{
    vin_load();
    setup_state();
    release_step();
    V_CANARY("release");
}

/* ======================================================================================================= */
/* lemma: two consecutive operations never give the same block to two owners (uses the step contracts)       */
/* ======================================================================================================= */
#if NSLOT >= 4
void h_two_allocs(void)
{
    vin_load();
    setup_state();
    alloc_step(0);
    parsec_arena_chunk_t *first = the_copy.arena_chunk;
    int ok1 = slot_of(first) >= 0 && g_owner[slot_of(first)];
    /* second request: fresh nondeterministic choices */
    struct vin v2; vin.count = v2.count; vin.alloc_fails = v2.alloc_fails;
    g_pop_slot = 2; g_malloc_slot = 3;      /* roles for the second request (again w.l.o.g.) */
    g_pop_calls = g_push_calls = g_malloc_calls = g_free_calls = 0; g_popped = g_fresh = -1; g_malloc_null = 0;
    static parsec_data_copy_t copy2; the_copy = copy2;
    alloc_step(0);
    parsec_arena_chunk_t *second = the_copy.arena_chunk;
    if (ok1 && slot_of(second) >= 0 && g_owner[slot_of(second)] && second != NULL)
        V_ASSERT(first != second, "C27.lemma.two_live_allocations_are_distinct_blocks");
    V_CANARY("two_allocs");
}
#endif

/* ======================================================================================================= */
/* rely/guarantee variants: interference on the two counters before each atomic operation                   */
/* ======================================================================================================= */
#ifdef RG
void h_alloc_rg(void)
{
    vin_load();
    setup_state();
    g_env_k = 0; g_mine_used = 0;
#ifdef COUNT_FIX
    size_t count = COUNT_FIX;
#else
    size_t count = vin.count;
#endif
#ifdef ELEM_FIX
    V_ASSUME(arena.elem_size == ELEM_FIX);
#endif
    V_ASSUME(count >= 1 && count < RG_BOUND);
    V_ASSUME(arena.used >= 0 && arena.used < RG_BOUND);
    the_copy.original = &the_data;
    verif_env_step(V_OP_FENCE, 0);                      /* others act before I start */
    int rc = parsec_arena_allocate_device_private(&the_copy, &arena, count, 0, NULL);
    if (limited_used()) {
        if (rc == PARSEC_SUCCESS) {
            int s = slot_of(the_copy.arena_chunk);
            int fresh = s >= 0 && s == g_fresh;
            V_ASSERT(g_mine_used == (fresh ? (int32_t)count : 0), "C27.allocate.guar.own_contribution_to_used_is_exactly_count");
            V_ASSERT(V_IMPLIES(fresh, g_used_after_my_add >= 0 && g_used_after_my_add <= arena.max_used),
                     "C27.allocate.guar.used_within_limit_at_my_increment");
        } else {
            V_ASSERT(g_mine_used == 0, "C27.allocate.guar.refusal_undoes_own_increment_under_interference");
        }
    }
    V_ASSERT(g_my_rel_incs == 0, "C27.allocate.guar.never_increments_released");
    V_CANARY("alloc_rg");
}
static void release_rg_common(void)
{
    vin_load();
    setup_state();
    g_env_k = 0; g_mine_used = 0; g_my_rel_incs = 0;
    int r = R_SLOT;
    V_ASSUME(g_owner[r]);
    V_ASSUME(g_cnt[r] < RG_BOUND && arena.used < RG_BOUND);
    the_copy.original = NULL; the_copy.arena_chunk = g_base[r];
    verif_env_step(V_OP_FENCE, 0);
    parsec_arena_release(&the_copy);
}
void h_release_rg(void)
{
    release_rg_common();
    int r = R_SLOT;
    int cached = g_incache[r] && g_push_calls == 1 && g_free_calls == 0;
    int freed  = !g_alloc[r] && g_free_calls == 1 && g_push_calls == 0;
    V_ASSERT(cached != freed, "C27.release.guar.cached_xor_freed_once_under_interference");
    if (limited_used())
        V_ASSERT(g_mine_used == (freed ? -(int32_t)g_cnt[r] : 0), "C27.release.guar.own_contribution_to_used_is_minus_count_iff_freed");
    if (limited_rel())
        V_ASSERT(g_my_rel_incs == (cached ? 1 : 0), "C27.release.guar.released_incremented_iff_cached");
    V_CANARY("release_rg");
}
/* expected to FAIL on the unchanged tree: `released < max_released` is read, the increment is a separate step */
void h_release_rg_cache_limit(void)
{
    release_rg_common();
    if (limited_rel() && g_my_rel_incs)
        V_ASSERT(g_rel_after_my_inc <= arena.max_released, "C27.release.guar.cache_limit_respected_under_interference");
    V_CANARY("release_rg_cache_limit");
}
#endif

/* ======================================================================================================= */
/* construct_ex                                                                                              */
/* ======================================================================================================= */
void h_construct(void)
{
    vin_load();
    size_t es = vin.elem_size, al = vin.alignment, ma = vin.max_alloc_mem, mc = vin.max_cached_mem;
#ifdef ELEM_FIX
    V_ASSUME(es == ELEM_FIX);
#endif
    int rc = parsec_arena_construct_ex(&arena, es, al, ma, mc);
    int ok = al >= 2 && (al & (al - 1)) == 0 && es != 0;
    V_ASSERT(V_IFF(rc == PARSEC_SUCCESS, ok), "C27.construct_ex.post.accepts_iff_power_of_two_alignment_and_nonzero_size");
    if (rc == PARSEC_SUCCESS) {
        V_ASSERT(arena.alignment == al && arena.elem_size == es, "C27.construct_ex.post.configuration_recorded");
        V_ASSERT(arena.used == 0 && arena.released == 0, "C27.construct_ex.post.counters_zero");
        V_ASSERT(arena.max_used >= 0 && arena.max_released >= 0, "C27.construct_ex.post.limits_non_negative");
        V_ASSERT(arena.area_lifo.lifo_head.data.item == NULL, "C27.construct_ex.post.cache_empty");
        /* the limits are the memory limits expressed in elements: max_used*es <= ma < (max_used+1)*es unless saturated */
        V_ASSERT(arena.max_used == INT32_MAX ? (ma / es >= (size_t)INT32_MAX)
                                             : ((size_t)arena.max_used == ma / es), "C27.construct_ex.post.max_used_is_memory_limit_in_elements");
        V_ASSERT(arena.max_released == INT32_MAX ? (mc / es >= (size_t)INT32_MAX)
                                                 : ((size_t)arena.max_released == mc / es), "C27.construct_ex.post.max_released_is_cache_limit_in_elements");
    } else {
        V_ASSERT(rc == PARSEC_ERR_BAD_PARAM, "C27.construct_ex.post.bad_param_code");
        V_ASSERT(arena.elem_size == 0, "C27.construct_ex.post.rejected_arena_marked_uninitialised");
    }
    V_CANARY("construct");
}

/* pure lemma on the real PARSEC_ALIGN macro: for every 64-bit base, header size and power-of-two alignment,
 * the aligned data pointer leaves room for n bytes inside a block of PARSEC_ALIGN(n + a + hdr, a) bytes */
struct { uint64_t base, n, a; } lin;
void h_lemma_align(void)
{
    __typeof__(lin) t; lin = t;
    uint64_t base = lin.base, n = lin.n, a = lin.a;
    V_ASSUME(a >= 2 && (a & (a - 1)) == 0 && a <= (1ULL << 61));
    V_ASSUME(n <= (1ULL << 61) && base <= (1ULL << 61));         /* no 64-bit wrap of the sums */
    uint64_t size = PARSEC_ALIGN(n + a + HDR, a, size_t);
    uint64_t data = (uint64_t)PARSEC_ALIGN_PTR((base + HDR), a, void *);
    V_ASSERT((data & (a - 1)) == 0, "C27.lemma_align.data_aligned");
    V_ASSERT(data >= base + HDR && data - (base + HDR) < a, "C27.lemma_align.data_is_first_aligned_address_after_header");
    V_ASSERT(data + n <= base + size, "C27.lemma_align.n_bytes_fit_in_block");
    V_ASSERT((size & (a - 1)) == 0 && size >= n + HDR, "C27.lemma_align.size_is_aligned_and_sufficient");
    V_CANARY("lemma_align");
}
