import json, os
from vlib import Job, VERIF

# Loop bounds.  The global unwind is 1 (the `do { } while(0)` macro loops of the real code); every real loop that is
# executed gets its own complete bound: class-table growth (increment 10), class hierarchy depth <= 3, constructor
# arrays <= 3 entries, and the harness' own loops over the NSLOT tracked blocks.  (A larger global bound makes symex
# wander through the destructor candidates of every indirect constructor call; those paths are infeasible and their
# unwinding assertions are discharged.)
def us(extra=None):
    d = {"expand_array.0": 11, "parsec_class_initialize.0": 4, "parsec_class_initialize.1": 4,
         "parsec_obj_run_constructors.0": 4, "slot_of.0": 6, "sum_used.0": 6, "sum_cached.0": 6, "snapshot.0": 6,
         "others_untouched.0": 6, "inv_blocks.0": 6, "parsec_lifo_pop.0": 6}
    for i in range(8):
        d["setup_state.%d" % i] = 6
    d.update(extra or {})
    return d

FINDING_JOBS = ("arena.release.rg.cache_limit", "arena.alloc.anycount")

def _registered(name):
    """The two obligations that FAIL on the unchanged tree live in their own jobs.  They run when a matching entry
    exists in /verif/known_findings.json (then they print KNOWN-FINDING) or when VERIF_C27_FINDINGS=1."""
    if os.environ.get("VERIF_C27_FINDINGS") == "1":
        return True
    try:
        import re
        for k in json.load(open(os.path.join(VERIF, "known_findings.json"))):
            if k.get("property") == "C27" and k.get("status") == "known" and re.fullmatch(k.get("job", ".*"), name):
                return True
    except Exception:
        pass
    return False

F_ARENA = ["parsec_arena_allocate_device_private", "parsec_arena_get_chunk"]
F_REL = ["parsec_arena_release", "parsec_arena_release_chunk"]

def jobs(tier):
    full = tier == "thorough"
    J = []
    # allocate, one element (cache or fresh block), every base address modulo 64, every alignment <= 64, elem_size symbolic
    # (thorough: all 8 residues = complete for alignment <= 64 and pointer-aligned allocators; quick: 4 of them, labelled)
    for off in (range(0, 64, 8) if full else (0, 8, 24, 56)):
        J.append(Job("arena.alloc.one.off%d" % off, "h_arena.c", entry="h_alloc", defines={"COUNT_FIX": 1, "OFF": off},
                     unwind=1, unwindset=us(), functions=F_ARENA, timeout=300, min_obligations=15,
                     bounded=None if full else "quick tier: base address residues {0,8,24,56} mod 64 only (thorough: all 8)"))
    # allocate, several elements: the multiplier count * elem_size is enumerated on one side
    counts = [3] + ([2, 7, 16, 1000, 65536] if full else [])
    for c in counts:
        J.append(Job("arena.alloc.count%d" % c, "h_arena.c", entry="h_alloc", defines={"COUNT_FIX": c, "OFF": 8},
                     unwind=1, unwindset=us(), functions=F_ARENA, timeout=300, min_obligations=15,
                     bounded="count fixed to %d (elem_size, alignment <= 64, limits, block states symbolic); base address 8 mod 64" % c))
    # alignments above 64, enumerated, with the base-address residues that matter for 16-aligned allocators
    # (window just below a multiple of the alignment once the 72-byte header is added, plus 0 and a mid value)
    BIG = [(128, r) for r in (0, 16, 64, 112)] + [(4096, r) for r in (0, 4032, 4080)]
    if full:
        BIG += [(128, r) for r in (8, 56, 120)] + [(256, r) for r in (0, 184, 240)] + [(4096, r) for r in (16, 4024, 4088)]
    for a, r in BIG:
        for c in ([1, 3] + ([2, 1000] if full else [])):
            J.append(Job("arena.alloc.align%d.off%d.count%d" % (a, r, c), "h_arena.c", entry="h_alloc",
                         defines={"COUNT_FIX": c, "ALIGN_FIX": a, "OFF": r}, unwind=1, unwindset=us(), functions=F_ARENA,
                         timeout=300, min_obligations=15,
                         bounded="alignment %d, block base address %d mod %d, count %d (elem_size, limits, block states symbolic)" % (a, r, a, c)))
    if full:
        for a, r in ((128, 64), (4096, 4032)):
            J.append(Job("arena.alloc.align%d.off%d.elem8" % (a, r), "h_arena.c", entry="h_alloc",
                         defines={"ELEM_FIX": 8, "ALIGN_FIX": a, "OFF": r}, unwind=1, unwindset=us(), functions=F_ARENA,
                         timeout=600, min_obligations=15,
                         bounded="alignment %d, block base address %d mod %d, elem_size 8, count symbolic" % (a, r, a)))
    elems = [8] + ([1, 1000, 4096, 72] if full else [])
    for e in elems:
        J.append(Job("arena.alloc.elem%d" % e, "h_arena.c", entry="h_alloc", defines={"ELEM_FIX": e, "OFF": 24},
                     unwind=1, unwindset=us(), functions=F_ARENA, timeout=600, min_obligations=15,
                     bounded="elem_size fixed to %d (count <= 2^31-1, alignment <= 64, limits, block states symbolic); base address 24 mod 64" % e))
    J.append(Job("arena.release", "h_arena.c", entry="h_release", unwind=1, unwindset=us(), functions=F_REL,
                 timeout=300, min_obligations=10))
    J.append(Job("arena.lemma_align", "h_arena.c", entry="h_lemma_align", unwind=1, functions=[], timeout=300, min_obligations=4))
    for e in ([1, 8] + ([1000, 4096, 72] if full else [])):
        J.append(Job("arena.construct_ex.elem%d" % e, "h_arena.c", entry="h_construct", defines={"ELEM_FIX": e},
                     unwind=1, unwindset=us(), functions=["parsec_arena_construct_ex"], timeout=600, min_obligations=8,
                     bounded="elem_size fixed to %d or 0 (divisor enumerated); alignment and memory limits: all 64-bit values" % e))
    if full:
        J.append(Job("arena.lemma.two_allocs", "h_arena.c", entry="h_two_allocs", defines={"NSLOT": 4, "ELEM_FIX": 8, "OFF": 16},
                     unwind=1, unwindset=us(), functions=F_ARENA, timeout=900, min_obligations=15,
                     bounded="two consecutive requests, elem_size 8, counts symbolic, 4 tracked blocks"))
        J.append(Job("arena.lemma.two_allocs.one", "h_arena.c", entry="h_two_allocs", defines={"NSLOT": 4, "COUNT_FIX": 1, "OFF": 16},
                     unwind=1, unwindset=us(), functions=F_ARENA, timeout=900, min_obligations=15,
                     bounded="two consecutive single-element requests, elem_size symbolic, 4 tracked blocks"))
    # rely/guarantee: interference on used / released before every atomic step
    for c in (1, 3):
        J.append(Job("arena.alloc.rg.count%d" % c, "h_arena.c", entry="h_alloc_rg", defines={"RG": None, "COUNT_FIX": c, "OFF": 8},
                     unwind=1, unwindset=us(), functions=F_ARENA, timeout=600, min_obligations=4,
                     bounded="count %d; counter values and interference < 2^28 (4 interference steps = one before each atomic step of the code)" % c))
    if full:
        J.append(Job("arena.alloc.rg", "h_arena.c", entry="h_alloc_rg", defines={"RG": None, "ELEM_FIX": 8, "OFF": 8},
                     unwind=1, unwindset=us(), functions=F_ARENA, timeout=900, min_obligations=4,
                     bounded="elem_size 8, count symbolic < 2^28; counter values and interference < 2^28"))
    J.append(Job("arena.release.rg", "h_arena.c", entry="h_release_rg", defines={"RG": None}, unwind=1, unwindset=us(),
                 functions=F_REL, timeout=600, min_obligations=3,
                 bounded="counter values and interference < 2^28"))
    if _registered("arena.release.rg.cache_limit"):
        J.append(Job("arena.release.rg.cache_limit", "h_arena.c", entry="h_release_rg_cache_limit", defines={"RG": None},
                     unwind=1, unwindset=us(), functions=F_REL, timeout=600, min_obligations=1, replay=False))
    if _registered("arena.alloc.anycount"):
        J.append(Job("arena.alloc.anycount", "h_arena.c", entry="h_alloc_anycount", defines={"ELEM_FIX": 1, "OFF": 0},
                     unwind=1, unwindset=us(), functions=F_ARENA, timeout=600, min_obligations=1))
    # thread memory pools
    for tid in (0, 1):
        for objc in (0, 1):
            J.append(Job("mempool.allocate.t%d.cls%d" % (tid, objc), "h_mempool.c", entry="h_mp_alloc",
                         defines={"TID": tid, "OBJC": objc}, unwind=1, unwindset=us_mp(), timeout=300, min_obligations=10,
                         functions=["parsec_thread_mempool_allocate", "parsec_thread_mempool_allocate_when_empty",
                                    "parsec_mempool_construct", "parsec_lifo_item_alloc"],
                         bounded="mempool of 2 thread pools, one concrete element type (72+ bytes, owner field after the list item); "
                                 "serving pool %d, %s" % (tid, "elements are parsec_list_item_t objects" if objc else "no object class")))
    J.append(Job("mempool.free", "h_mempool.c", entry="h_mp_free", unwind=1, unwindset=us_mp(), timeout=300, min_obligations=6,
                 functions=["parsec_mempool_free", "parsec_thread_mempool_free"],
                 bounded="mempool of 2 thread pools, one concrete element type"))
    J.append(Job("mempool.thread_free", "h_mempool.c", entry="h_mp_free", defines={"THREAD_FREE": None}, unwind=1,
                 unwindset=us_mp(), timeout=300, min_obligations=6, functions=["parsec_thread_mempool_free"],
                 bounded="mempool of 2 thread pools, one concrete element type"))
    return J

def us_mp():
    d = {"expand_array.0": 11, "parsec_class_initialize.0": 4, "parsec_class_initialize.1": 4,
         "parsec_obj_run_constructors.0": 4, "parsec_mempool_construct.0": 3, "lifo_id.0": 4, "slot_of.0": 5,
         "parsec_lifo_pop.0": 5, "others_untouched.0": 5, "inv.0": 5}
    for i in range(6):
        d["setup.%d" % i] = 4
    return d

META = dict(
    level="other",
    functions=["parsec_arena_construct_ex", "parsec_arena_allocate_device_private", "parsec_arena_get_chunk",
               "parsec_arena_release", "parsec_arena_release_chunk", "parsec_mempool_construct",
               "parsec_thread_mempool_allocate", "parsec_thread_mempool_allocate_when_empty", "parsec_thread_mempool_free",
               "parsec_mempool_free", "parsec_lifo_item_alloc", "PARSEC_ALIGN / PARSEC_ALIGN_PTR (macros)"],
    explanation="Inductive-step contracts on the real arena.c and mempool.c/.h (real object system compiled in). Ghost state per "
                "block: allocator view, free-list view, client view. From EVERY state satisfying the invariant (owned => not "
                "cached; cached => single element, not owned; allocated => owned or cached; header origin/count/data consistent; "
                "with limits active used == sum of the element counts of all allocated blocks <= max_used and released == number "
                "of cached blocks <= max_released; untracked blocks enter through symbolic non-negative remainders) ONE call of "
                "the real allocate / release re-establishes the invariant and gives the property's postconditions: data aligned "
                "to the arena alignment, behind the header, count*elem_size bytes inside the block obtained from data_malloc, "
                "block fresh xor taken from the cache and never one that has an owner, origin/count recorded, used grows by "
                "count and stays <= max_used, refusal only beyond the limit or on allocator failure and without leaking the "
                "increment, release caches iff count==1 and released<max_released else frees exactly once and gives count "
                "elements back. History length is unbounded (induction); all 8 base addresses modulo 64 and all alignments "
                "2..64 are covered for single-element requests with symbolic elem_size. count*elem_size is symbolic*symbolic: "
                "those jobs fix one factor (labelled bounded). Rely/guarantee jobs let the other threads change used/released "
                "before every atomic step: own contribution to `used` is exact and the limit holds at the own increment.",
    trusted_base=["C30 contract used in place of parsec_lifo_push/pop (abstract stack: pop returns some pushed, not yet popped "
                  "element, NULL only when empty (call-atomic jobs); push of an element not in the stack) - macro-renamed stub in the harness",
                  "stub for arena->data_malloc/data_free (never returns a block that is still allocated; may return NULL; records the size)",
                  "stub parsec_data_copy_detach (parsec/data.c, does not touch the arena)",
                  "CBMC's model of posix_memalign/malloc (mempool elements)",
                  "symmetry argument: the block touched by an operation is named slot 0/1 (tracked), all other blocks are bystanders or remainders",
                  "rely/guarantee soundness theorem for the counter jobs"],
    assumptions=["alignment <= 64 (PARSEC_ARENA_ALIGNMENT_CL1) symbolic in the function-level jobs, 128 / 4096 (thorough also 256) enumerated with selected base-address residues; the pure lemma on PARSEC_ALIGN covers every power of two <= 2^61 and every base address",
                 "elem_size < 2^32, count <= 2^31-1 and used + count <= INT32_MAX in the main allocate contract: beyond that the int32 counter wraps "
                 "(job arena.alloc.anycount shows the limit is then not enforced; reported as finding)",
                 "data_malloc returns pointer-aligned (8) memory",
                 "call-atomic execution except in the *.rg jobs; the cache limit under interference is a separate (failing) job arena.release.rg.cache_limit",
                 "release is called by the owner of the block (no double release by clients)"],
)

MANIFEST = dict(
    category="other",
    text="Contracts on the real arena / mempool functions, discharged by CBMC as inductive steps from every invariant state: "
         "alignment, size, fresh-xor-cached origin of a block, no second owner, used/released accounting, refusal beyond max_used, "
         "cache limit (call-atomic). Unbounded in history; complete over alignments <= 64, base addresses and elem_size for "
         "single-element requests; the count*elem_size product forces one factor to be enumerated (bounded jobs), mempool element "
         "type is one concrete layout: therefore 'other', not 'proof'.",
    note="NOT decided: LIFO correctness itself (C30 contract trusted); interleavings inside the LIFO; alignments > 64 at function level other than the enumerated 128 / 4096 (thorough: 256) with enumerated base-address residues; "
         "counts/elem sizes outside the enumerated factors for multi-element requests; parsec_arena_get_new_copy / GPU path; "
         "destructors. Two obligations fail on the unchanged tree and live in their own jobs (run when registered in "
         "known_findings.json or with VERIF_C27_FINDINGS=1): cache limit exceeded by concurrent releases (check-then-increment), "
         "max_used not enforced when used+count wraps int32.",
    technique="inductive invariants + pre/post contracts on the real arena.c / mempool.c, ghost ownership state, rely/guarantee on the two counters, CBMC",
    design_ref="DESIGN.md section 5, C27")
