/* C26: contracts on the real parsec_data_start_transfer_ownership_to_copy,
 * parsec_data_end_transfer_ownership_to_copy and parsec_data_transfer_ownership_to_copy
 * (parsec/data.c, included verbatim).
 *
 * Vocabulary (written from the property statement):
 *   valid(i)      copy i attached and not INVALID
 *   newest        largest version among the valid copies
 *   up_to_date(i) valid(i) and version(i) == newest
 *   wf(data)      W0 some copy is valid
 *                 W1 owner_device is -1 or names a valid copy in state OWNED or SHARED
 *                 W2 a copy in state OWNED is the one named by owner_device (=> at most one owner)
 *                 W3 an EXCLUSIVE copy excludes every other valid copy
 *                 W4 the copy named by owner_device holds the newest version
 *                 W5 without an owner all valid copies hold the same version
 *                 W6 coherency states are one of INVALID/OWNED/EXCLUSIVE/SHARED
 *                 W7 owner_device names a SHARED copy <=> ghost owner_read (set only by the owner's own READ)
 *
 * Caller protocol between two operations (what the property's histories do; assumption, see spec.py):
 *   - when a transfer from copy r is requested the caller copies the payload: version(target) := version(r)
 *   - a writer stamps its copy with  newest + bump  (bump >= 0; "version bump")
 *
 * The operations run under data->lock (call-atomic): the real combined function takes it, the
 * accelerator layer holds it around start / end.
 */
#include "verif.h"
#define VERIF_RG_DEFAULT_HOOKS
#include "verif_rg.h"
#include "parsec/data.c"

#ifndef NDEV
#define NDEV 3          /* parsec_nb_devices of the job */
#endif
#ifndef KSTEPS
#define KSTEPS 8        /* history length of the property's quantifier */
#endif
#define VMAX 0x3fffffffu /* versions stay far from wrap-around (assumption) */

#define INV  PARSEC_DATA_COHERENCY_INVALID
#define OWN  PARSEC_DATA_COHERENCY_OWNED
#define EXC  PARSEC_DATA_COHERENCY_EXCLUSIVE
#define SHA  PARSEC_DATA_COHERENCY_SHARED
#define RD   PARSEC_FLOW_ACCESS_READ
#define WR   PARSEC_FLOW_ACCESS_WRITE

struct vin {
    /* symbolic pre-state of the inductive step */
    uint8_t  present[NDEV];
    uint8_t  coh[NDEV];
    uint32_t ver[NDEV];
    int32_t  readers[NDEV];
    int8_t   owner;
    uint8_t  dev;
    uint8_t  mode;
    uint32_t bump;
    uint8_t  g_owner_read;     /* ghost bit of the pre-state, see quirk ghost below */
    /* histories */
    uint8_t  h_init;
    uint8_t  h_dev[KSTEPS];
    uint8_t  h_mode[KSTEPS];
    uint8_t  h_bump[KSTEPS];
} vin;
#include "verif_vin.h"

/* ---- abstract view of a parsec_data_t ---- */
struct snap {
    uint8_t  present[NDEV];
    uint8_t  coh[NDEV];
    uint32_t ver[NDEV];
    int32_t  readers[NDEV];
    int      owner;
};

static parsec_data_copy_t pool[NDEV];
static parsec_data_t *data;

static void build(const struct snap *s)
{
    data = (parsec_data_t *)malloc(sizeof(parsec_data_t) + NDEV * sizeof(parsec_data_copy_t *));
    V_ASSUME(data != NULL);
    parsec_nb_devices = NDEV;
    parsec_atomic_lock_init(&data->lock);
    data->owner_device = (int8_t)s->owner;
    data->preferred_device = -1;
    data->nb_copies = 0;
    data->dc = NULL;
    for (int i = 0; i < NDEV; i++) {
        pool[i].device_index = (int8_t)i;
        pool[i].flags = 0;
        pool[i].coherency_state = s->coh[i];
        pool[i].version = s->ver[i];
        pool[i].readers = s->readers[i];
        pool[i].older = NULL;
        pool[i].original = s->present[i] ? data : NULL;
        pool[i].data_transfer_status = PARSEC_DATA_STATUS_NOT_TRANSFER;
        data->device_copies[i] = s->present[i] ? &pool[i] : NULL;
        if (s->present[i]) data->nb_copies++;
    }
}

static void take(struct snap *s)
{
    s->owner = data->owner_device;
    for (int i = 0; i < NDEV; i++) {
        s->present[i] = (data->device_copies[i] != NULL);
        s->coh[i] = pool[i].coherency_state;
        s->ver[i] = pool[i].version;
        s->readers[i] = pool[i].readers;
    }
}

static int s_valid(const struct snap *s, int i) { return s->present[i] && s->coh[i] != INV; }

static uint32_t s_newest(const struct snap *s)
{
    uint32_t m = 0;
    for (int i = 0; i < NDEV; i++) if (s_valid(s, i) && s->ver[i] > m) m = s->ver[i];
    return m;
}
static int s_up_to_date(const struct snap *s, int i) { return s_valid(s, i) && s->ver[i] == s_newest(s); }

static int s_nb_owned(const struct snap *s)
{
    int n = 0;
    for (int i = 0; i < NDEV; i++) if (s->present[i] && s->coh[i] == OWN) n++;
    return n;
}

/* the individual clauses of wf (reported separately) */
static int wf_some_valid(const struct snap *s)
{
    int any = 0;
    for (int i = 0; i < NDEV; i++) if (s_valid(s, i)) any = 1;
    return any;
}
static int wf_owner_names_valid(const struct snap *s)
{
    if (s->owner == -1) return 1;
    if (s->owner < 0 || s->owner >= NDEV) return 0;
    return s_valid(s, s->owner) && s->coh[s->owner] != EXC;   /* an EXCLUSIVE copy is nobody's: no code names one as owner */
}
static int wf_owned_is_owner(const struct snap *s)
{
    int ok = 1;
    for (int i = 0; i < NDEV; i++) if (s->present[i] && s->coh[i] == OWN && i != s->owner) ok = 0;
    return ok;
}
static int wf_exclusive_alone(const struct snap *s)
{
    int ok = 1;
    for (int i = 0; i < NDEV; i++)
        for (int j = 0; j < NDEV; j++)
            if (i != j && s->present[i] && s->coh[i] == EXC && s_valid(s, j)) ok = 0;
    return ok;
}
static int wf_owner_newest(const struct snap *s)
{
    if (s->owner < 0 || s->owner >= NDEV) return 1;
    return s->ver[s->owner] == s_newest(s);
}
static int wf_no_owner_all_equal(const struct snap *s)
{
    if (s->owner != -1) return 1;
    int ok = 1;
    uint32_t m = s_newest(s);
    for (int i = 0; i < NDEV; i++) if (s_valid(s, i) && s->ver[i] != m) ok = 0;
    return ok;
}
static int wf_states(const struct snap *s)
{
    int ok = 1;
    for (int i = 0; i < NDEV; i++)
        if (s->present[i] && !(s->coh[i] == INV || s->coh[i] == OWN || s->coh[i] == EXC || s->coh[i] == SHA)) ok = 0;
    return ok;
}
static int wf(const struct snap *s)
{
    return wf_some_valid(s) && wf_owner_names_valid(s) && wf_owned_is_owner(s) && wf_exclusive_alone(s)
        && wf_owner_newest(s) && wf_no_owner_all_equal(s) && wf_states(s);
}

/* Ghost bit "owner_read": the copy named by owner_device lost state OWNED through the OWNER'S OWN read access
 * (start takes the 'already has ownership' shortcut, end(owner, READ) turns the copy SHARED, owner_device stays).
 * The spec updates it: set exactly by a step (device == owner_device, READ), cleared by every write access,
 * unchanged otherwise.  Coupling invariant W7: owner_device names a SHARED copy  <=>  owner_read.
 * Hence an owner's copy can lose OWNED only through a write by another device or the owner's own read; the
 * known finding (stale copy served without transfer) is confined to owner_read states, everything else is
 * an unlisted violation in the main jobs. */
static int owner_copy_shared(const struct snap *s)
{
    return s->owner >= 0 && s->owner < NDEV && s->present[s->owner] && s->coh[s->owner] == SHA;
}
static int ghost_next(int g, const struct snap *pre, int t, int mode)
{
    if (mode & WR) return 0;
    if (t == pre->owner) return 1;
    return g;
}

/* ------------------------------------------------------------------ */
/* post-conditions of start(t, mode) relating pre, mid (=after start)  */
/* ------------------------------------------------------------------ */
#ifndef ONLY_DEFECT
#define OBL(c, name) V_ASSERT(c, name)
#else
#define OBL(c, name) do { } while (0)   /* the defect jobs hold the known-failing obligation only */
#endif

/* permitted transitions of the copies of the OTHER devices, per (access mode, old state), as the unchanged
 * protocol needs them; `aft` is the state after start (end does not touch other copies) */
#define DEF_TABLE(fn, P) \
static void fn(const struct snap *pre, const struct snap *aft, int t, int mode) \
{ \
    for (int i = 0; i < NDEV; i++) { \
        if (i == t || !pre->present[i]) continue; \
        int o = pre->coh[i], n = aft->coh[i]; \
        OBL(V_IMPLIES(o == INV, n == INV), P ".table.other_INVALID_copy_stays_INVALID"); \
        OBL(V_IMPLIES(mode == RD && o == OWN, n == OWN), P ".table.read_by_another_device_never_demotes_OWNED_copy"); \
        OBL(V_IMPLIES(mode == RD && o == EXC, n == SHA), P ".table.read_by_another_device_turns_EXCLUSIVE_copy_SHARED"); \
        OBL(V_IMPLIES(mode == RD && o == SHA, n == SHA || (n == INV && pre->coh[t] == OWN && pre->ver[i] < pre->ver[t])), \
            P ".table.read_keeps_SHARED_copy_or_invalidates_it_when_stale_under_owner"); \
        OBL(V_IMPLIES((mode & WR) && t != pre->owner && o != INV, n == SHA), P ".table.write_by_non_owner_turns_other_valid_copies_SHARED"); \
        OBL(V_IMPLIES((mode & WR) && t == pre->owner, n == o), P ".table.write_by_owner_leaves_other_copies_unchanged"); \
    } \
}
DEF_TABLE(table_start, "C26.start.post")
DEF_TABLE(table_transfer, "C26.transfer.post")
DEF_TABLE(table_history, "C26.history")

static void check_start(const struct snap *pre, const struct snap *mid, int t, int mode, int r, int g)
{
    table_start(pre, mid, t, mode);
    int want_transfer = (mode & RD) && !s_up_to_date(pre, t);
    /* "a transfer is requested exactly when the target copy is not up to date" (a pure write overwrites: never) */
#ifdef ONLY_DEFECT
    V_ASSERT(V_IFF(r != -1, want_transfer), "C26.start.post.transfer_requested_iff_target_not_up_to_date");
#else
    /* same clause on every state not produced by the owner's own read (ghost owner_read clear) */
    OBL(V_IMPLIES(!g, V_IFF(r != -1, want_transfer)),
        "C26.start.post.transfer_requested_iff_target_not_up_to_date.unless_owner_read_its_own_copy");
    /* one direction holds everywhere: a requested transfer is never superfluous */
    OBL(V_IMPLIES(r != -1, want_transfer), "C26.start.post.transfer_requested_only_if_target_not_up_to_date");
    OBL(V_IMPLIES(!(mode & RD), r == -1), "C26.start.post.pure_write_requests_no_transfer");
    OBL(V_IMPLIES((mode & RD) && !s_valid(pre, t), r != -1), "C26.start.post.invalid_target_read_requests_transfer");
#endif
    /* "the copy named as transfer source holds the newest version" */
    OBL(r >= -1 && r < NDEV, "C26.start.post.result_is_minus1_or_a_device");
    if (r >= 0 && r < NDEV) {
        OBL(r != t, "C26.start.post.source_is_not_the_target");
        OBL(s_valid(pre, r) && s_valid(mid, r), "C26.start.post.source_copy_is_valid");
        OBL(pre->ver[r] == s_newest(pre), "C26.start.post.source_holds_newest_version");
        OBL(mid->coh[t] == INV, "C26.start.post.target_invalid_until_transfer_ends");
    }
    /* "a write access makes the target the owner" */
    OBL(V_IMPLIES(mode & WR, mid->owner == t), "C26.start.post.write_sets_owner_device_to_target");
    OBL(V_IMPLIES(!(mode & WR), mid->owner == pre->owner || mid->owner == -1), "C26.start.post.read_keeps_or_clears_owner_device");
    /* frame */
    for (int i = 0; i < NDEV; i++) {
        OBL(mid->present[i] == pre->present[i], "C26.start.post.frame.copies_stay_attached");
        OBL(mid->ver[i] == pre->ver[i], "C26.start.post.frame.no_version_changed");
        if (i == t) {
            OBL(mid->readers[i] == pre->readers[i] + ((mode & RD) ? 1 : 0), "C26.start.post.read_increments_readers_of_target_once");
        } else {
            OBL(mid->readers[i] == pre->readers[i], "C26.start.post.frame.readers_of_other_copies_unchanged");
            OBL(mid->coh[i] == pre->coh[i]
                || (pre->coh[i] == EXC && mid->coh[i] == SHA)
                || (pre->coh[i] == OWN && mid->coh[i] == SHA)
                || (mid->coh[i] == INV && mode == RD && pre->ver[i] < pre->ver[t]),
                "C26.start.post.other_copies_only_demoted");
            OBL(V_IMPLIES(mode & WR, !s_valid(mid, i) || mid->coh[i] == SHA), "C26.start.post.write_leaves_other_valid_copies_SHARED");
            OBL(V_IMPLIES(s_valid(pre, i) && !s_valid(mid, i), pre->ver[i] < s_newest(pre)), "C26.start.post.only_stale_copies_invalidated");
        }
    }
}

static void check_end(const struct snap *mid, const struct snap *post, int t, int mode)
{
    OBL(V_IMPLIES(mode & WR, post->coh[t] == OWN), "C26.end.post.write_target_is_OWNED");
    OBL(V_IMPLIES(mode == RD, post->coh[t] == SHA), "C26.end.post.read_target_is_SHARED");
    OBL(post->owner == mid->owner, "C26.end.post.frame.owner_device_unchanged");
    for (int i = 0; i < NDEV; i++) {
        OBL(post->ver[i] == mid->ver[i] && post->readers[i] == mid->readers[i] && post->present[i] == mid->present[i],
            "C26.end.post.frame.versions_readers_unchanged");
        if (i != t) OBL(post->coh[i] == mid->coh[i], "C26.end.post.frame.other_copies_unchanged");
    }
}

static void check_wf(const struct snap *s, int g)
{
    OBL(V_IFF(owner_copy_shared(s), g), "C26.inv.owner_copy_SHARED_only_after_the_owners_own_read");
    OBL(s_nb_owned(s) <= 1, "C26.inv.at_most_one_copy_is_OWNED");
    OBL(wf_owned_is_owner(s), "C26.inv.OWNED_copy_is_named_by_owner_device");
    OBL(wf_owner_names_valid(s), "C26.inv.owner_device_is_minus1_or_a_valid_copy");
    OBL(wf_exclusive_alone(s), "C26.inv.EXCLUSIVE_copy_excludes_other_valid_copies");
    OBL(wf_owner_newest(s), "C26.inv.owner_holds_newest_version");
    OBL(wf_no_owner_all_equal(s), "C26.inv.without_owner_all_valid_copies_hold_the_same_version");
    OBL(wf_some_valid(s), "C26.inv.some_copy_is_valid");
    OBL(wf_states(s), "C26.inv.coherency_states_well_formed");
}

/* caller protocol after the operation (see header comment) */
static void caller_after(const struct snap *pre, int t, int mode, int r, uint32_t bump)
{
    if (r >= 0 && r < NDEV) pool[t].version = pool[r].version;
    if (mode & WR) pool[t].version = s_newest(pre) + bump;
}

static void load_symbolic_wf_state(struct snap *pre)
{
    for (int i = 0; i < NDEV; i++) {
        pre->present[i] = vin.present[i] ? 1 : 0;
        pre->coh[i] = vin.coh[i];
        pre->ver[i] = vin.ver[i];
        pre->readers[i] = vin.readers[i];
        V_ASSUME(vin.ver[i] <= VMAX);
        V_ASSUME(vin.readers[i] >= 0 && vin.readers[i] <= 0x3fffffff);
    }
    pre->owner = vin.owner;
    V_ASSUME(wf(pre));
    V_ASSUME(vin.g_owner_read <= 1 && V_IFF(owner_copy_shared(pre), vin.g_owner_read));   /* W7 */
#ifdef ONLY_DEFECT
    V_ASSUME(vin.g_owner_read == 1);   /* the known finding's own states only */
#endif
}

/* ------------------------------------------------------------------ */
/* inductive step, start and end called separately (accelerator path)  */
/* ------------------------------------------------------------------ */
void h_step(void)
{
    struct snap pre, mid, post, fin;
    vin_load();
    load_symbolic_wf_state(&pre);
    int t = vin.dev, mode = vin.mode;
    V_ASSUME(t < NDEV && pre.present[t]);                        /* the code's assert: the target copy exists */
    V_ASSUME(mode == RD || mode == WR || mode == (RD | WR));
    V_ASSUME(vin.bump <= VMAX);
    build(&pre);

    int r = parsec_data_start_transfer_ownership_to_copy(data, (uint8_t)t, (uint8_t)mode);
    take(&mid);
    check_start(&pre, &mid, t, mode, r, vin.g_owner_read);

    if (r >= 0 && r < NDEV) pool[t].version = pool[r].version;   /* the requested transfer happens */
    take(&mid);
    parsec_data_end_transfer_ownership_to_copy(data, (uint8_t)t, (uint8_t)mode);
    take(&post);
    check_end(&mid, &post, t, mode);

    caller_after(&pre, t, mode, -1, vin.bump);
    take(&fin);
    check_wf(&fin, ghost_next(vin.g_owner_read, &pre, t, mode));
    OBL(V_IMPLIES(!vin.g_owner_read, s_up_to_date(&fin, t)),
        "C26.step.post.target_up_to_date_after_access.unless_owner_read_its_own_copy");
    V_CANARY("step");
}

/* ------------------------------------------------------------------ */
/* inductive step through the real combined function (CPU path)        */
/* ------------------------------------------------------------------ */
void h_combined(void)
{
    struct snap pre, post, fin;
    vin_load();
    load_symbolic_wf_state(&pre);
    int t = vin.dev, mode = vin.mode;
    V_ASSUME(t < NDEV && pre.present[t]);
    V_ASSUME(mode == RD || mode == WR || mode == (RD | WR));
    V_ASSUME(vin.bump <= VMAX);
    build(&pre);

    int r = parsec_data_transfer_ownership_to_copy(data, (uint8_t)t, (uint8_t)mode);
    take(&post);
    OBL(data->lock == 0, "C26.transfer.post.lock_released");
    table_transfer(&pre, &post, t, mode);
    OBL(V_IMPLIES(!vin.g_owner_read, V_IFF(r != -1, (mode & RD) && !s_up_to_date(&pre, t))),
        "C26.transfer.post.transfer_requested_iff_target_not_up_to_date.unless_owner_read_its_own_copy");
    OBL(V_IMPLIES(r != -1, (mode & RD) && !s_up_to_date(&pre, t)), "C26.transfer.post.transfer_requested_only_if_target_not_up_to_date");
    OBL(r >= -1 && r < NDEV, "C26.transfer.post.result_is_minus1_or_a_device");
    if (r >= 0 && r < NDEV)
        OBL(r != t && s_valid(&post, r) && post.ver[r] == s_newest(&pre), "C26.transfer.post.source_valid_and_holds_newest_version");
    OBL(V_IMPLIES(mode & WR, post.owner == t && post.coh[t] == OWN), "C26.transfer.post.write_makes_target_the_owner");
    OBL(V_IMPLIES(mode == RD, post.coh[t] == SHA), "C26.transfer.post.read_target_is_SHARED");
    for (int i = 0; i < NDEV; i++)
        OBL(post.ver[i] == pre.ver[i] && post.present[i] == pre.present[i]
            && post.readers[i] == pre.readers[i] + ((i == t && (mode & RD)) ? 1 : 0), "C26.transfer.post.frame.versions_and_other_readers_unchanged");
    caller_after(&pre, t, mode, r, vin.bump);
    take(&fin);
    check_wf(&fin, ghost_next(vin.g_owner_read, &pre, t, mode));
    V_CANARY("combined");
}

/* ------------------------------------------------------------------ */
/* the property's own histories: <= KSTEPS operations from creation    */
/* ------------------------------------------------------------------ */
void h_history(void)
{
    struct snap pre, post, fin;
    vin_load();
    /* the state parsec_data_create leaves (copy 0 OWNED, owner_device 0), or a data whose only valid copy is
     * SHARED / EXCLUSIVE without owner; the other device copies are attached and INVALID (constructor state) */
    V_ASSUME(vin.h_init < 3);
    for (int i = 0; i < NDEV; i++) { pre.present[i] = 1; pre.coh[i] = INV; pre.ver[i] = 0; pre.readers[i] = 0; }
    pre.coh[0] = vin.h_init == 0 ? OWN : (vin.h_init == 1 ? SHA : EXC);
    pre.owner = vin.h_init == 0 ? 0 : -1;
    build(&pre);
    /* the clauses are checked after every step, so a history of KSTEPS steps covers all its prefixes */
    int done = 0;
    int g = 0;     /* ghost owner_read: no access has happened yet */
    for (int s = 0; s < KSTEPS; s++) {
        int t = vin.h_dev[s], mode = vin.h_mode[s];
        V_ASSUME(t < NDEV);
        V_ASSUME(mode == RD || mode == WR || mode == (RD | WR));
        V_ASSUME(vin.h_bump[s] <= 1);
        take(&pre);
        int r = parsec_data_transfer_ownership_to_copy(data, (uint8_t)t, (uint8_t)mode);
        take(&post);
#ifdef ONLY_DEFECT
        /* only in the states the owner's own read produced (ghost set at a step device == owner_device, READ) */
        V_ASSERT(V_IMPLIES(g, V_IFF(r != -1, (mode & RD) && !s_up_to_date(&pre, t))), "C26.history.transfer_requested_iff_target_not_up_to_date");
#endif
        table_history(&pre, &post, t, mode);
        OBL(V_IMPLIES(!g, V_IFF(r != -1, (mode & RD) && !s_up_to_date(&pre, t))),
            "C26.history.transfer_requested_iff_target_not_up_to_date.unless_owner_read_its_own_copy");
        OBL(V_IMPLIES(r != -1, (mode & RD) && !s_up_to_date(&pre, t)), "C26.history.transfer_requested_only_if_target_not_up_to_date");
        OBL(r >= -1 && r < NDEV, "C26.history.result_is_minus1_or_a_device");
        if (r >= 0 && r < NDEV)
            OBL(r != t && s_valid(&post, r) && post.ver[r] == s_newest(&pre), "C26.history.source_valid_and_holds_newest_version");
        OBL(V_IMPLIES(mode & WR, post.owner == t && post.coh[t] == OWN), "C26.history.write_makes_target_the_owner");
        OBL(s_nb_owned(&post) <= 1, "C26.history.at_most_one_copy_is_OWNED");
        caller_after(&pre, t, mode, r, vin.h_bump[s]);
        take(&fin);
        g = ghost_next(g, &pre, t, mode);
        check_wf(&fin, g);
        done++;
    }
    OBL(done == KSTEPS, "C26.history.all_steps_executed");
    V_CANARY("history");
}

/* ------------------------------------------------------------------ */
/* lemma: wf gives the observable clauses of the statement             */
/* ------------------------------------------------------------------ */
void h_lemma(void)
{
    struct snap s;
    vin_load();
    load_symbolic_wf_state(&s);
    V_ASSERT(s_nb_owned(&s) <= 1, "C26.lemma.wf_implies_at_most_one_owner");
    int holder = 0;
    for (int i = 0; i < NDEV; i++) if (s_up_to_date(&s, i)) holder = 1;
    V_ASSERT(holder, "C26.lemma.wf_implies_some_valid_copy_holds_newest_version");
    V_ASSERT(V_IMPLIES(s.owner >= 0, s_up_to_date(&s, s.owner)), "C26.lemma.wf_implies_owner_is_up_to_date");
    for (int i = 0; i < NDEV; i++)
        V_ASSERT(V_IMPLIES(s.present[i] && s.coh[i] == EXC, s_up_to_date(&s, i)), "C26.lemma.wf_implies_EXCLUSIVE_copy_is_up_to_date");
    V_CANARY("lemma");
}
