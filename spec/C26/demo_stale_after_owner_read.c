#include "parsec/parsec_config.h"
#include "parsec/data_internal.h"
#include "parsec/mca/device/device.h"
#include "parsec/parsec_description_structures.h"
#include <stdio.h>
#include <stdlib.h>
static const char *st(int c){return c==0?"INVALID":c==1?"OWNED":c==2?"EXCLUSIVE":"SHARED";}
int main(void){
    parsec_nb_devices = 2;
    parsec_data_t *d = calloc(1, sizeof(parsec_data_t)+2*sizeof(void*));
    parsec_data_copy_t *c = calloc(2, sizeof(parsec_data_copy_t));
    /* state left by parsec_data_create: copy 0 OWNED version 0, owner_device 0; copy 1 attached, INVALID */
    d->owner_device = 0; d->preferred_device = -1;
    for(int i=0;i<2;i++){ c[i].device_index=i; c[i].original=d; d->device_copies[i]=&c[i]; }
    c[0].coherency_state = PARSEC_DATA_COHERENCY_OWNED;
    int r;
#define SHOW(msg) printf("%-34s -> %2d | owner=%2d  c0=%s v%u  c1=%s v%u\n", msg, r, d->owner_device, st(c[0].coherency_state), c[0].version, st(c[1].coherency_state), c[1].version)
    r = parsec_data_transfer_ownership_to_copy(d, 1, PARSEC_FLOW_ACCESS_READ); if(r>=0) c[1].version=c[r].version; SHOW("1: dev1 READ");
    r = parsec_data_transfer_ownership_to_copy(d, 0, PARSEC_FLOW_ACCESS_RW); c[0].version++; SHOW("2: dev0 RW + version bump");
    r = parsec_data_transfer_ownership_to_copy(d, 0, PARSEC_FLOW_ACCESS_READ); SHOW("3: dev0 READ (owner reads)");
    r = parsec_data_transfer_ownership_to_copy(d, 1, PARSEC_FLOW_ACCESS_READ); SHOW("4: dev1 READ");
    if (r == -1 && c[1].version < c[0].version) { printf("DEFECT: no transfer requested, but dev1 holds version %u and the newest is %u\n", c[1].version, c[0].version); return 1; }
    return 0;
}
