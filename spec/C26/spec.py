import os
from vlib import Job

START = "parsec_data_start_transfer_ownership_to_copy"
END = "parsec_data_end_transfer_ownership_to_copy"
BOTH = "parsec_data_transfer_ownership_to_copy"

META = dict(
    level="proof",
    functions=[START, END, BOTH],
    explanation="Pre/post contracts (route harness: assume wf / call the real function / assert the named clauses, frame by snapshot "
                "comparison of the whole abstract state) on the real ownership-transfer functions of parsec/data.c. "
                "wf(data), written from the statement: some copy is valid; owner_device is -1 or names a valid copy in state OWNED or SHARED; a copy in state OWNED "
                "is the one named by owner_device (hence at most one owner); an EXCLUSIVE copy excludes every other valid copy; the copy named "
                "by owner_device holds the newest version; without an owner all valid copies hold the same version; "
                "owner_device names a SHARED copy exactly when the ghost bit owner_read is set, which the spec sets only at a step (device == "
                "owner_device, READ) and clears at every write (so an owner's copy loses OWNED only through a write by another device or the "
                "owner's own read).  Transition table of the copies of the OTHER devices per (mode, old state): INVALID stays; READ keeps OWNED, "
                "turns EXCLUSIVE SHARED, keeps SHARED (or invalidates it when stale under an OWNED target); WRITE by a non-owner turns every "
                "valid copy SHARED, WRITE by the owner changes nothing.  "
                "(step) inductive step for EVERY wf pre-state with parsec_nb_devices = N (copies attached or not, versions < 2^30, any "
                "readers counts, any owner), every target and access mode READ / WRITE / RW: start() returns -1 or a device; a requested "
                "transfer names a valid copy other than the target that holds the newest version and leaves the target INVALID until end(); a "
                "transfer is requested only when the target is not up to date, never for a pure write, always for an INVALID target that is "
                "read, and exactly when the target is not up to date in every state whose ghost owner_read is clear; READ increments the target's readers once; WRITE sets owner_device to the target; no version changes; other copies "
                "are only demoted (EXCLUSIVE/OWNED -> SHARED, stale -> INVALID); end() makes the target SHARED (read) or OWNED (write) and "
                "touches nothing else; after the caller's version stamp wf holds again (so the clauses hold after histories of any length).  "
                "(combined) the same through the real parsec_data_transfer_ownership_to_copy, lock released.  (frame) route dfcc: goto-instrument --dfcc "
                "--enforce-contract checks every write of the real start / end bodies against the assigns clauses (start: owner_device and, per "
                "attached copy, coherency_state and readers; end: the target's coherency_state), for every coherency pre-state, wf or not.  (history) the property's own "
                "quantifier: every sequence of 8 (device, mode, bump) steps from the state parsec_data_create leaves, every clause asserted "
                "after every step.  (lemma) wf implies the observable clauses.  "
                "One clause of the statement FAILS on the unchanged tree and is kept in the defect.* jobs: after the owner has read its own "
                "copy (end(owner, READ) turns it SHARED, owner_device unchanged) a stale SHARED copy on another device is served without a "
                "transfer.  The defect.* jobs assert the clause ONLY in states with the ghost owner_read set; a stale read reached any other way "
                "fails in the main jobs.",
    trusted_base=["harness builds the parsec_data_t / parsec_data_copy_t objects field by field (malloc'ed data with N device slots, static "
                  "pool of copies) instead of going through the object system and parsec_data_copy_attach",
                  "parsec_atomic_lock / unlock through verif_rg.h without interference (operations are call-atomic under data->lock)"],
    assumptions=["caller protocol between two operations (what the accelerator layer and the generated CPU code do): when a transfer from "
                 "copy r is requested the target receives r's version; a writer stamps its copy with newest + bump, bump >= 0",
                 "start / end and the combined function run under data->lock; start..end windows of two different targets do not interleave "
                 "(the accelerator layer releases the lock in between: not examined)",
                 "versions stay below 2^30 and readers below 2^30 (no wrap-around)",
                 "the target copy is attached (the code's assert), access mode is READ, WRITE or RW (mode NONE is not examined)"],
)

MANIFEST = dict(
    category="proof",
    text="Inductive-step contracts on the real start / end / combined ownership-transfer functions, discharged by CBMC for every "
         "well-formed data item over 2 and 3 device slots (the property's own domain; thorough also 4 and 5), every target, access mode and "
         "version bump: unbounded history length by induction on wf, plus the property's literal histories of 8 steps from creation "
         "(2 devices in the quick tier, 2 and 3 in the thorough tier). All loops are bounded by parsec_nb_devices and unwound completely.",
    note="NOT decided / outside: the clause 'a transfer is requested exactly when the target is not up to date' is violated by the unchanged "
         "code in the states reached after the owner reads its own copy (kept as failing obligation in the defect.* jobs, native "
         "demonstration in spec/C26/demo_stale_after_owner_read.c); elsewhere it is proved. Caller's version stamping is assumed, "
         "interleaving of start..end windows of different devices, data_transfer_status handling, version wrap-around and access mode "
         "NONE are not examined.",
    technique="inductive invariant + pre/post contracts on the real data.c (harness route, frame by state snapshot), complete unwinding, CBMC SAT",
    design_ref="DESIGN.md section 5, C26")


def jobs(tier):
    full = tier == "thorough"
    J = []
    for n in ((2, 3, 4, 5) if full else (2, 3)):
        J.append(Job("step.n%d" % n, "h_own.c", entry="h_step", defines={"NDEV": n}, unwind=n + 2,
                     functions=[START, END], timeout=900, min_obligations=30))
        J.append(Job("combined.n%d" % n, "h_own.c", entry="h_combined", defines={"NDEV": n}, unwind=n + 2,
                     functions=[BOTH, START, END], timeout=900, min_obligations=15))
    # route dfcc: assigns frame of the real bodies (nothing but owner_device / coherency_state / readers is written)
    for n in ((3, 5) if full else (3,)):
        J.append(Job("frame.start.n%d" % n, "h_frame.c", entry="h_frame_start", enforce=START, defines={"NDEV": n}, unwind=n + 3,
                     functions=[START], timeout=900, min_obligations=8))
        J.append(Job("frame.end.n%d" % n, "h_frame.c", entry="h_frame_end", enforce=END, defines={"NDEV": n}, unwind=n + 3,
                     functions=[END], timeout=900, min_obligations=4))
    J.append(Job("lemma.n3", "h_own.c", entry="h_lemma", defines={"NDEV": 3}, unwind=5, functions=[], timeout=300, min_obligations=4))
    # the property's own histories (length 8, 2..3 copies)
    J.append(Job("history.n2.k8", "h_own.c", entry="h_history", defines={"NDEV": 2, "KSTEPS": 8}, unwind=10,
                 functions=[BOTH, START, END], timeout=900, min_obligations=12))
    if full:
        J.append(Job("history.n3.k8", "h_own.c", entry="h_history", defines={"NDEV": 3, "KSTEPS": 8}, unwind=10,
                     functions=[BOTH, START, END], timeout=2400, mem_gb=8, min_obligations=12))
    # Obligation derived from the statement that FAILS on the unchanged tree (genuine defect): own jobs, nothing else in them.
    if not os.environ.get("C26_SKIP_DEFECT"):
        J.append(Job("defect.step.n2", "h_own.c", entry="h_step", defines={"NDEV": 2, "ONLY_DEFECT": None}, unwind=4,
                     functions=[START], timeout=600, min_obligations=1))
        J.append(Job("defect.history.n2.k4", "h_own.c", entry="h_history", defines={"NDEV": 2, "KSTEPS": 4, "ONLY_DEFECT": None}, unwind=10,
                     bounded="4 steps from creation (shortest failing history)",
                     functions=[BOTH], timeout=600, min_obligations=1))
    return J
