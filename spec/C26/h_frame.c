/* C26, route dfcc: the assigns frame of the real start / end functions (parsec/data.c included verbatim).
 * start() may write only data->owner_device and, of each attached copy, coherency_state and readers;
 * end() may write only the target's coherency_state.  Everything else of the data item and of the copies
 * (versions, flags, data_transfer_status, nb_copies, lock, pointers) is outside the frame.
 * goto-instrument --dfcc --enforce-contract checks every write of the real body against these clauses. */
#include "verif.h"
#define VERIF_RG_DEFAULT_HOOKS
#include "verif_rg.h"
#include "parsec/parsec_config.h"
#include "parsec/data_internal.h"
#include "parsec/parsec_description_structures.h"

#ifndef NDEV
#define NDEV 3
#endif

#define COPY_FRAME(k) \
    __CPROVER_assigns(data->device_copies[k] != NULL : data->device_copies[k]->coherency_state, data->device_copies[k]->readers)
#if NDEV > 2
#define COPY_FRAME_2 COPY_FRAME(2)
#else
#define COPY_FRAME_2
#endif
#if NDEV > 3
#define COPY_FRAME_3 COPY_FRAME(3)
#else
#define COPY_FRAME_3
#endif
#if NDEV > 4
#define COPY_FRAME_4 COPY_FRAME(4)
#else
#define COPY_FRAME_4
#endif

int parsec_data_start_transfer_ownership_to_copy(parsec_data_t *data, uint8_t device, uint8_t access_mode)
__CPROVER_requires(device < NDEV && data->device_copies[device] != NULL)
__CPROVER_assigns(data->owner_device)
COPY_FRAME(0) COPY_FRAME(1) COPY_FRAME_2 COPY_FRAME_3 COPY_FRAME_4
__CPROVER_ensures(__CPROVER_return_value >= -1 && __CPROVER_return_value < NDEV)
__CPROVER_ensures((access_mode & PARSEC_FLOW_ACCESS_WRITE) == 0 || data->owner_device == (int8_t)device);

void parsec_data_end_transfer_ownership_to_copy(parsec_data_t *data, uint8_t device, uint8_t access_mode)
__CPROVER_requires(device < NDEV && data->device_copies[device] != NULL)
__CPROVER_assigns(data->device_copies[device]->coherency_state)
__CPROVER_ensures((access_mode & PARSEC_FLOW_ACCESS_WRITE) == 0 || data->device_copies[device]->coherency_state == PARSEC_DATA_COHERENCY_OWNED)
__CPROVER_ensures(access_mode != PARSEC_FLOW_ACCESS_READ || data->device_copies[device]->coherency_state == PARSEC_DATA_COHERENCY_SHARED);

#include "parsec/data.c"

struct vin {
    uint8_t  present[NDEV];
    uint8_t  coh[NDEV];
    uint32_t ver[NDEV];
    int32_t  readers[NDEV];
    int8_t   owner;
    uint8_t  dev;
    uint8_t  mode;
} vin;
#include "verif_vin.h"

static parsec_data_copy_t pool[NDEV];
static parsec_data_t *data_;

static void build(void)
{
    data_ = (parsec_data_t *)malloc(sizeof(parsec_data_t) + NDEV * sizeof(parsec_data_copy_t *));
    V_ASSUME(data_ != NULL);
    parsec_nb_devices = NDEV;
    parsec_atomic_lock_init(&data_->lock);
    V_ASSUME(vin.owner >= -1 && vin.owner < NDEV);
    data_->owner_device = vin.owner;
    data_->nb_copies = 0;
    for (int i = 0; i < NDEV; i++) {
        V_ASSUME(vin.coh[i] == 0 || vin.coh[i] == 1 || vin.coh[i] == 2 || vin.coh[i] == 4);
        V_ASSUME(vin.readers[i] >= 0 && vin.readers[i] < 0x3fffffff);
        pool[i].device_index = (int8_t)i;
        pool[i].coherency_state = vin.coh[i];
        pool[i].version = vin.ver[i];
        pool[i].readers = vin.readers[i];
        pool[i].original = data_;
        data_->device_copies[i] = vin.present[i] ? &pool[i] : NULL;
    }
    V_ASSUME(vin.dev < NDEV && vin.present[vin.dev]);
    V_ASSUME(vin.mode == PARSEC_FLOW_ACCESS_READ || vin.mode == PARSEC_FLOW_ACCESS_WRITE || vin.mode == PARSEC_FLOW_ACCESS_RW);
}

/* every coherency pre-state (wf or not): the frame does not depend on wf */
void h_frame_start(void)
{
    vin_load();
    build();
    int r = parsec_data_start_transfer_ownership_to_copy(data_, vin.dev, vin.mode);
    V_ASSERT(r >= -1 && r < NDEV, "C26.start.post.frame.result_in_range");
    V_CANARY("frame_start");
}

void h_frame_end(void)
{
    vin_load();
    build();
    parsec_data_end_transfer_ownership_to_copy(data_, vin.dev, vin.mode);
    V_ASSERT(pool[vin.dev].version == vin.ver[vin.dev], "C26.end.post.frame.version_unchanged");
    V_CANARY("frame_end");
}
