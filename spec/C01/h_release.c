/* C01 gate (c): the readiness check creates exactly one ready copy.
 *
 * Function under contract: the REAL parsec_release_local_OUT_dependencies (parsec/parsec.c, included verbatim).
 * It reaches tc->find_deps and tc->update_deps through the task class; both are installed here as stubs that
 * behave as their C07 contracts say:  find_deps returns the address of the dependency word of `task`;
 * update_deps performs this predecessor's release (its single linearisation point, ghost g_lin) and answers
 * "ready" -- true for exactly one of the releases of the instance (C07) -- which is a free boolean for one call.
 *
 * Contract, from the property statement ("runs exactly once"):
 *   PRE   dest_flow->flow_index < tc->nb_flows (the code's assert), ring of NRING queued tasks well formed
 *   POST  find_deps / update_deps are called exactly once each, with (origin->taskpool, [es,] task, ...) and the
 *         word find_deps returned;   the release is therefore performed exactly once;
 *         ready      => exactly ONE task object is obtained from es->context_mempool; it is not `task`;
 *                       taskpool / task_class / priority / chore_mask and ALL locals are those of `task`;
 *                       data[i] is cleared for i < nb_flows except data[dest] = (target_repo, target_repo_entry,
 *                       target_dc); repo_entry NULL; mempool_owner kept; status NONE;
 *                       not immediate: *pready_ring is a well formed ring holding the NRING old tasks and the
 *                       new one, each exactly once (and sorted by priority if the old ring was);
 *                       immediate class: the copy is executed and completed exactly once, in that order, and
 *                       does not enter the ring (ring untouched);
 *         not ready  => no task object is obtained, nothing is executed, ring untouched (same head, same links);
 *         `task` and `origin` are not modified; answer PARSEC_SUCCESS.
 */
#include "verif.h"
#ifndef VERIF_REPLAY
/* libc memset as a byte loop.  CBMC's built-in model (__CPROVER_array_set) mis-handles the call
 * memset(new_context->data, 0, sizeof(parsec_data_pair_t) * new_context->task_class->nb_flows): the size is read through
 * a pointer that was just copied byte-wise by memcpy, is therefore not a constant for CBMC, and the array_set then leaves
 * data[1..] unchanged (spurious failure of other_flows_cleared, seen in the trace with n == 80).  Unwound completely. */
#include <stddef.h>
void *memset(void *s, int c, size_t n)
{
    unsigned char *p = s;
    for (size_t i = 0; i < n; i++) p[i] = (unsigned char)c;
    return s;
}
#endif
#include "parsec/parsec_config.h"
#include "parsec/parsec_internal.h"
#include "parsec/parsec.c"
#include "parsec/class/parsec_list.c"     /* parsec_list_item_construct (static there) */

#ifndef NFLOWS
#define NFLOWS 2          /* tc->nb_flows: fixed per cbmc process (memset size), enumerated by spec.py */
#endif
#ifndef NRING
#define NRING 1           /* tasks already in *pready_ring: fixed per cbmc process                       */
#endif
#define POOLED 0          /* the thread mempool is empty: the object comes from allocate_when_empty (stub: malloc, contents
                           * nondeterministic = whatever a recycled object may hold).  A pooled object popped by the
                           * real parsec_lifo_pop (128-bit CAS) did not finish in 100 s and is not part of the check. */
#define NL MAX_LOCAL_COUNT
#define NRMAX 2

struct vin {
    uint8_t  ready;                 /* answer of update_deps (C07: true for exactly one release)      */
    uint16_t tc_flags;
    uint8_t  dest_index;
    int32_t  prio, ring_prio[NRMAX];
    int32_t  locals[NL];
    uint8_t  status, chore_mask;
    int32_t  junk;                  /* stale contents of a recycled task object                       */
    uint8_t  same_tp;               /* task->taskpool == origin->taskpool ?                           */
    int32_t  exec_rc, complete_rc;
} vin;
#include "verif_vin.h"

/* ---- ghost ---- */
static parsec_dependency_t g_word;
static int g_find, g_update, g_lin, g_args_bad;
static int g_alloc;
static parsec_task_t *g_fresh;               /* object handed out by allocate_when_empty              */
static int g_exec, g_complete, g_seq, g_seq_exec, g_seq_complete;
static parsec_task_t *g_exec_task, *g_complete_task;
static parsec_execution_stream_t *g_exec_es, *g_complete_es;

static parsec_taskpool_t tp_a, tp_b;
static parsec_task_class_t tc;
static parsec_task_t origin, task, ring_item[NRMAX];
static parsec_flow_t origin_flow, dest_flow;
static parsec_execution_stream_t es;
static parsec_thread_mempool_t tmpool;
static char o_repo, o_entry, o_dc;           /* three distinct addresses */
static parsec_task_t *ring;
static parsec_task_t *pooled;

/* C07 contracts, as stubs behind the class' function pointers */
static parsec_dependency_t *stub_find_deps(const parsec_taskpool_t *tp_, parsec_execution_stream_t *e, const parsec_task_t *t)
{
    g_find++;
    if (tp_ != origin.taskpool || e != &es || t != &task) g_args_bad = 1;
    return &g_word;
}
static int stub_update_deps(parsec_taskpool_t *tp_, const parsec_task_t *t, parsec_dependency_t *deps,
                            const parsec_task_t *o, const parsec_flow_t *of, const parsec_flow_t *df)
{
    g_update++;
    if (tp_ != origin.taskpool || t != &task || deps != &g_word || o != &origin || of != &origin_flow || df != &dest_flow)
        g_args_bad = 1;
    if (g_find != 1) g_args_bad = 1;          /* the word must have been looked up before */
    g_lin++;                                  /* this predecessor's release: C07's linearisation point */
    return vin.ready;
}
/* parsec/mempool.c */
void *parsec_thread_mempool_allocate_when_empty(parsec_thread_mempool_t *tm)
{
    if (tm != &tmpool) g_args_bad = 1;
    g_alloc++;
    parsec_task_t *t = malloc(sizeof(parsec_task_t));
    t->mempool_owner = tm;                    /* what the real allocator sets through pool_owner_offset */
    g_fresh = t;
    return t;
}
/* parsec/scheduling.c (contracts of their own: C16) */
int __parsec_execute(parsec_execution_stream_t *e, parsec_task_t *t)
{
    g_exec++; g_seq_exec = ++g_seq; g_exec_task = t; g_exec_es = e;
    return vin.exec_rc;
}
int __parsec_complete_execution(parsec_execution_stream_t *e, parsec_task_t *t)
{
    g_complete++; g_seq_complete = ++g_seq; g_complete_task = t; g_complete_es = e;
    return vin.complete_rc;
}

/* The constructor chain of parsec_task_t, as parsec_class_initialize (parsec_object.c; the object system is C34's
 * subject) builds it on first use: parent first = parsec_object_t (none), parsec_list_item_t, parsec_task_t.
 * Installed directly: running the real class initialisation inside the parsec.c unit makes CBMC explore every
 * address-taken function of parsec.c behind the constructor array (measured: no result in 5 min). */
static parsec_construct_t h_task_ctors[3];
static void install_task_class(void)
{
    h_task_ctors[0] = (parsec_construct_t)parsec_list_item_construct;
    h_task_ctors[1] = (parsec_construct_t)__parsec_task_constructor;
    h_task_ctors[2] = NULL;
    parsec_task_t_class.cls_construct_array = h_task_ctors;
    parsec_task_t_class.cls_initialized = 1;
}

static int in_old_ring(const parsec_task_t *t)
{
    for (int i = 0; i < NRING; i++) if (t == &ring_item[i]) return 1;
    return 0;
}

void h_release(void)
{
    vin_load();
    install_task_class();
    /* ---- pre-state ---- */
    tc.flags = vin.tc_flags;
    tc.nb_flows = NFLOWS;
    tc.find_deps = stub_find_deps;
    tc.update_deps = stub_update_deps;
    V_ASSUME(vin.dest_index < NFLOWS);                       /* PRE (the code's assert) */
    dest_flow.flow_index = vin.dest_index;
    origin.taskpool = &tp_a; origin.task_class = &tc;
    task.taskpool = vin.same_tp ? &tp_a : &tp_b;
    task.task_class = &tc;
    task.priority = vin.prio;
    task.status = vin.status;
    task.chore_mask = vin.chore_mask;
    for (int i = 0; i < NL; i++) task.locals[i].value = vin.locals[i];
    es.context_mempool = &tmpool;
#if POOLED
    pooled = malloc(sizeof(parsec_task_t));
    memset(pooled, 0, sizeof(parsec_task_t));
    pooled->mempool_owner = &tmpool;
    pooled->priority = vin.junk; pooled->status = (uint8_t)vin.junk;
    pooled->locals[0].value = vin.junk; pooled->locals[NL - 1].value = vin.junk;
    pooled->data[0].data_in = (parsec_data_copy_t *)&o_repo; pooled->data[NFLOWS - 1].data_out = (parsec_data_copy_t *)&o_repo;
    pooled->repo_entry = (data_repo_entry_t *)&o_entry;
    pooled->super.list_next = NULL;
    tmpool.mempool.lifo_head.data.item = &pooled->super;
#else
    tmpool.mempool.lifo_head.data.item = NULL;
#endif
    /* the ring the caller accumulates ready tasks in: NRING tasks, circular, any priorities */
    for (int i = 0; i < NRING; i++) {
        ring_item[i].priority = vin.ring_prio[i];
        ring_item[i].super.list_next = &ring_item[(i + 1) % NRING].super;
        ring_item[i].super.list_prev = &ring_item[(i + NRING - 1) % NRING].super;
    }
    ring = NRING ? &ring_item[0] : NULL;
    int old_sorted = 1;
    for (int i = 0; i + 1 < NRING; i++) if (vin.ring_prio[i] < vin.ring_prio[i + 1]) old_sorted = 0;
    parsec_task_t task0 = task, origin0 = origin;

    int rc = parsec_release_local_OUT_dependencies(&es, &origin, &origin_flow, &task, &dest_flow, NULL, &ring,
                                                   (data_repo_t *)&o_repo, (parsec_data_copy_t *)&o_dc,
                                                   (data_repo_entry_t *)&o_entry);

    /* ---- post ---- */
    V_ASSERT(rc == PARSEC_SUCCESS, "C01.release_local_OUT.post.answers_SUCCESS");
    V_ASSERT(g_find == 1 && g_update == 1 && g_lin == 1, "C01.release_local_OUT.post.release_performed_exactly_once");
    V_ASSERT(!g_args_bad, "C01.release_local_OUT.post.deps_of_this_task_in_origins_taskpool_updated");
    {
        int same = task.taskpool == task0.taskpool && task.task_class == task0.task_class && task.priority == task0.priority &&
                   task.status == task0.status && task.chore_mask == task0.chore_mask &&
                   origin.taskpool == origin0.taskpool && origin.task_class == origin0.task_class;
        for (int i = 0; i < NL; i++) if (task.locals[i].value != vin.locals[i]) same = 0;
        V_ASSERT(same, "C01.release_local_OUT.post.task_and_origin_not_modified");
    }
    int immediate = (vin.tc_flags & PARSEC_IMMEDIATE_TASK) != 0;
    if (!vin.ready) {
        V_ASSERT(g_alloc == 0, "C01.release_local_OUT.post.not_ready_no_task_created");
#if POOLED
        V_ASSERT(tmpool.mempool.lifo_head.data.item == &pooled->super, "C01.release_local_OUT.post.not_ready_no_task_created");
#endif
        V_ASSERT(g_exec == 0 && g_complete == 0, "C01.release_local_OUT.post.not_ready_nothing_executed");
        V_ASSERT(ring == (NRING ? &ring_item[0] : NULL), "C01.release_local_OUT.post.not_ready_ring_untouched");
        for (int i = 0; i < NRING; i++)
            V_ASSERT(ring_item[i].super.list_next == &ring_item[(i + 1) % NRING].super &&
                     ring_item[i].super.list_prev == &ring_item[(i + NRING - 1) % NRING].super,
                     "C01.release_local_OUT.post.not_ready_ring_untouched");
    } else {
        parsec_task_t *n;
#if POOLED
        V_ASSERT(g_alloc == 0 && tmpool.mempool.lifo_head.data.item == NULL, "C01.release_local_OUT.post.ready_exactly_one_task_object");
        n = pooled;
#else
        V_ASSERT(g_alloc == 1, "C01.release_local_OUT.post.ready_exactly_one_task_object");
        n = g_fresh;
#endif
        V_ASSERT(n != &task && n != &origin, "C01.release_local_OUT.post.ready_copy_is_a_new_object");
        V_ASSERT(n->taskpool == task0.taskpool && n->task_class == &tc && n->priority == vin.prio && n->chore_mask == vin.chore_mask,
                 "C01.release_local_OUT.post.copy_has_class_taskpool_priority_of_task");
        for (int i = 0; i < NL; i++)
            V_ASSERT(n->locals[i].value == vin.locals[i], "C01.release_local_OUT.post.copy_has_the_locals_of_task");
        V_ASSERT(n->status == PARSEC_TASK_STATUS_NONE && n->repo_entry == NULL && n->mempool_owner == &tmpool,
                 "C01.release_local_OUT.post.copy_status_NONE_no_repo_entry_owner_kept");
        for (int i = 0; i < NFLOWS; i++) {
            if (i == vin.dest_index)
                V_ASSERT(n->data[i].source_repo == (data_repo_t *)&o_repo && n->data[i].source_repo_entry == (data_repo_entry_t *)&o_entry &&
                         n->data[i].data_in == (parsec_data_copy_t *)&o_dc && n->data[i].data_out == NULL,
                         "C01.release_local_OUT.post.dest_flow_gets_supplied_repo_entry_and_copy");
            else
                V_ASSERT(n->data[i].source_repo == NULL && n->data[i].source_repo_entry == NULL && n->data[i].data_in == NULL &&
                         n->data[i].data_out == NULL, "C01.release_local_OUT.post.other_flows_cleared");
        }
        if (immediate) {
            V_ASSERT(g_exec == 1 && g_complete == 1 && g_seq_exec < g_seq_complete && g_exec_task == n && g_complete_task == n &&
                     g_exec_es == &es && g_complete_es == &es,
                     "C01.release_local_OUT.post.immediate_copy_executed_and_completed_exactly_once");
            V_ASSERT(ring == (NRING ? &ring_item[0] : NULL), "C01.release_local_OUT.post.immediate_copy_not_queued");
            for (int i = 0; i < NRING; i++)
                V_ASSERT(ring_item[i].super.list_next == &ring_item[(i + 1) % NRING].super &&
                         ring_item[i].super.list_prev == &ring_item[(i + NRING - 1) % NRING].super,
                         "C01.release_local_OUT.post.immediate_copy_not_queued");
        } else {
            V_ASSERT(g_exec == 0 && g_complete == 0, "C01.release_local_OUT.post.queued_copy_not_executed_here");
            /* walk the ring: NRING+1 members, each old task and the copy exactly once, links consistent */
            V_ASSERT(ring != NULL, "C01.release_local_OUT.post.ready_copy_in_ring_exactly_once");
            int seen_new = 0, seen_old[NRMAX + 1] = {0}, bad = 0, sorted = 1;
            parsec_task_t *p = ring;
            for (int k = 0; k < NRING + 1; k++) {
                if (p == n) seen_new++;
                else if (in_old_ring(p)) seen_old[p - ring_item]++;
                else { bad = 1; break; }
                parsec_task_t *nx = (parsec_task_t *)p->super.list_next;
                if (nx != n && !in_old_ring(nx)) { bad = 1; break; }
                if ((parsec_task_t *)nx->super.list_prev != p) bad = 1;
                if (k < NRING && nx->priority > p->priority) sorted = 0;
                p = nx;
            }
            V_ASSERT(!bad && p == ring, "C01.release_local_OUT.post.ring_well_formed_with_one_more_member");
            V_ASSERT(seen_new == 1, "C01.release_local_OUT.post.ready_copy_in_ring_exactly_once");
            for (int i = 0; i < NRING; i++)
                V_ASSERT(seen_old[i] == 1, "C01.release_local_OUT.post.tasks_already_in_ring_kept_exactly_once");
            V_ASSERT(V_IMPLIES(old_sorted, sorted), "C01.release_local_OUT.post.ring_stays_sorted_by_priority");
        }
    }
    V_CANARY("release");
}
