/* C01 gates (a) and (b) on GENERATED code.
 *
 * Functions under contract: <jdf>_<CLASS>_internal_init (its counting part) and __jdf2c_startup_<CLASS>, cut by name
 * (spec.py _cut) out of the C unit that the PTG compiler -- rebuilt on every run from $VERIF_REPO's jdf2c.c / jdf.c --
 * emits for a corpus JDF of spec/C01/jdf/.  Nothing inside the two functions is changed.
 *
 * The execution space, the placement and the "has no input dependency" guard of each corpus class are written below BY
 * HAND FROM THE JDF TEXT (spec_in_space / spec_guard / affinity), over a box: parameter A takes the values OFF_A+0..BOX-1 etc.
 *
 *  (a) internal_init:  initial_number_tasks grows by exactly the number of points of the declared space that are placed
 *      on this process; the placement predicate is evaluated exactly once per point of the space and never outside it
 *      (ghost: calls of rank_of per affinity argument pair).
 *  (b) startup: over the calls of the generator (first call + re-entries while it answers AGAIN) every point that is in
 *      the space, local, and without input dependency is handed to the scheduler exactly once, as a task carrying exactly
 *      that point's locals (derived locals included), the class, the taskpool and its priority; marked as startup task
 *      exactly once; no other instance is produced;  and (a)/(b) agree: startup instances are among the counted ones.
 *      Jobs startup.*        : one call that answers DONE, placement / vpid_of / priority / startup_iter symbolic.
 *      Jobs startup_chunked.*: the chunked generation.  parsec_task_startup_chunk, parsec_task_startup_iter, the placement
 *      (PLACE) and vpid_of (NO_VPID_OF / VP_TABLE) are FIXED per cbmc process, so that the control flow of every call is
 *      concrete; the generator is called again and again on the same, untouched task object while it answers AGAIN (what
 *      __parsec_task_progress does: C16), up to RMAX calls; __parsec_schedule_vp (stub) consumes and CLEARS the rings it is
 *      given.  Same obligations over all calls together + "yields only after more than chunk new tasks" + non-vacuity lemma
 *      "the configuration re-enters the generator at least MIN_CALLS-1 times".
 *      (Measured: with anything symbolic that decides a branch -- placement, myrank, chunk -- the state at the restore_context
 *      jump is a merge, the loop counters and ring pointers become symbolic and CBMC 6.11 does not finish: > 10 min, > 6 GB.)
 */
#include "verif.h"
#include "parsec/parsec_config.h"
#include "parsec/parsec_internal.h"
#include "parsec/execution_stream.h"
#include "parsec/data_distribution.h"
#include "parsec/mempool.h"
#include <stdarg.h>

#ifndef PROP
#define PROP "C01"             /* prefix of the obligation names (spec/C22 reuses this harness on apply.jdf) */
#endif
#ifndef BOX
#define BOX 3                  /* each parameter takes BOX consecutive values at most                 */
#endif
#ifndef RMAX
#define RMAX 2                 /* calls of the generator (1 + re-entries)                              */
#endif
#define NVP 1
#define NPOOL (BOX * BOX * BOX + 1)

struct vin {
    int32_t  g[3];                          /* the JDF's integer globals, in declaration order          */
    uint64_t startup_iter, startup_chunk;   /* parsec_task_startup_iter / _chunk                        */
    uint32_t myrank;
    uint8_t  owner[BOX][BOX];               /* rank_of(x, y) over the affinity arguments: 0 = me        */
    uint8_t  has_vpid_of;
    uint8_t  vp[BOX][BOX];
    int32_t  tp_priority;
    int32_t  init0;                         /* initial_number_tasks before the call (other classes)    */
} vin;
#include "verif_vin.h"

/* ---- ghost ---- */
static int g_visit[BOX][BOX][BOX];          /* startup: tasks handed to the scheduler, per point       */
static int g_marked[BOX][BOX][BOX];         /* startup: mark_task_as_startup calls, per point          */
static int g_rank_calls[BOX][BOX];          /* evaluations of the placement, per affinity arguments    */
static int g_rank_outside;
static int g_alloc, g_scheduled, g_calls;
static int g_bad_point, g_bad_task, g_bad_distance;

/* ---- what the two functions reach outside the generated unit ---- */
size_t parsec_task_startup_iter, parsec_task_startup_chunk;
int parsec_debug_output;

#ifdef STATIC_POOL
static parsec_task_t h_p0, h_p1, h_p2, h_p3, h_p4, h_p5, h_p6, h_p7, h_p8;
static parsec_task_t *h_pool_slot(int k)
{
    switch (k) { case 0: return &h_p0; case 1: return &h_p1; case 2: return &h_p2; case 3: return &h_p3; case 4: return &h_p4;
                 case 5: return &h_p5; case 6: return &h_p6; case 7: return &h_p7; default: return &h_p8; }
}
#endif
void *parsec_thread_mempool_allocate_when_empty(parsec_thread_mempool_t *tm)
{
    (void)tm;
    V_ASSERT(g_alloc < NPOOL, PROP ".startup.post.no_more_tasks_than_points_of_the_box");
    g_alloc++;
#ifdef STATIC_POOL       /* chunked jobs: everything static, one object per task (separate objects, not an array) */
    return h_pool_slot(g_alloc - 1);
#else
    return malloc(sizeof(parsec_task_t));
#endif
}
#ifndef VERIF_REPLAY
void parsec_output(int id, const char *fmt, ...) { (void)id; (void)fmt; }
char *parsec_task_snprintf(char *s, size_t n, const parsec_task_t *t) { (void)n; (void)t; return s; }
/* class descriptor of parsec_task_t, already initialised, with an EMPTY constructor chain: the real chain
 * (parsec_list_item_construct, __parsec_task_constructor of parsec.c) only presets list links / status / selected_device /
 * selected_chore / load, none of which the obligations below read. */
static parsec_construct_t h_no_ctor[1] = { NULL };
parsec_class_t parsec_task_t_class = { "parsec_task_t", NULL, NULL, NULL, 1, 0, h_no_ctor, NULL, sizeof(parsec_task_t) };
#endif

static const parsec_task_class_t *g_expected_class;
static parsec_taskpool_t *g_expected_tp;
static int point_of(const parsec_task_t *t, int *a, int *b, int *c);
static int spec_derived_ok(const parsec_task_t *t);

/* C07 (mark_startup job there): here only "called exactly once per created task, before it is scheduled" */
void parsec_dependencies_mark_task_as_startup(parsec_task_t *t, parsec_execution_stream_t *e)
{
    (void)e;
    int a, b, c;
    if (point_of(t, &a, &b, &c)) g_marked[a][b][c]++; else g_bad_point = 1;
}

static void account_task(parsec_task_t *t)
{
    int a, b, c;
    g_scheduled++;
    if (!point_of(t, &a, &b, &c)) { g_bad_point = 1; return; }
    g_visit[a][b][c]++;
    if (g_marked[a][b][c] != g_visit[a][b][c]) g_bad_task = 1;
    if (t->task_class != g_expected_class || t->taskpool != g_expected_tp || t->priority != vin.tp_priority ||
        !spec_derived_ok(t) || t->chore_mask != PARSEC_DEV_ALL || t->repo_entry != NULL)
        g_bad_task = 1;
}

/* parsec/scheduling.c: hands every task of the rings to the scheduler (C08/C16); here it accounts for them */
int __parsec_schedule_vp(parsec_execution_stream_t *e, parsec_task_t **rings, int32_t distance)
{
    (void)e;
    if (distance != 0) g_bad_distance = 1;
    for (int vp = 0; vp < NVP; vp++) {
        parsec_task_t *ring = rings[vp];
        if (NULL == ring) continue;
        parsec_task_t *t = ring;
        int guard = 0;
        do {
            account_task(t);
            parsec_task_t *nx = (parsec_task_t *)t->super.list_next;
            if (nx == NULL || ((parsec_task_t *)nx->super.list_prev) != t) { g_bad_task = 1; break; }
            t = nx;
            if (++guard > NPOOL) { g_bad_task = 1; break; }
        } while (t != ring);
        rings[vp] = NULL;
    }
    return 0;
}

/* ---- the generated code (cut) ---- */
#include GEN_CUT

#define CAT_(a, b) a##b
#define CAT(a, b) CAT_(a, b)
#define STARTUP_FN CAT(__jdf2c_startup_, CLS)
#define INIT_FN    CAT(CAT(JDF, _), CAT(CLS, _internal_init))
#define TASK_T     CAT(CAT(CAT(__parsec_, JDF), CAT(_, CLS)), _task_t)
#define TP_T       CAT(CAT(__parsec_, JDF), _internal_taskpool_t)
#define CLASS_OBJ  CAT(CAT(JDF, _), CLS)

/* ---- specification, written from the JDF text (spec/C01/jdf/<jdf>.jdf) ----
 * Box coordinates (a,b,c) in 0..BOX-1 stand for the parameter values (a+OFF_A, b+OFF_B, c+OFF_C).
 * IDX_*: position of the parameter among the task's locals.  AFF_X/AFF_Y: arguments of the class' affinity.          */
#define L(t, i) ((t)->locals[i].value)
#define OFF_A 0
#define OFF_C 0
#ifdef CASE_HEADER /* execution-space specification supplied by another spec directory (same macros as the cases below) */
#include CASE_HEADER
#elif CASE == 1      /* tri.jdf T(m, n): m = 0..NM, lo = m, n = lo..NN : descA(m,n); READ A <- (n%2==0) ? descA(m,n) : A U(m,n) */
#define NPAR 2
#define IDX_A 0
#define IDX_B 2
#define OFF_B 0
static int spec_in_space(int a, int b, int c) { (void)c; return a >= 0 && a <= vin.g[0] && b >= a && b <= vin.g[1]; }
static int spec_guard(int a, int b, int c) { (void)a; (void)c; return (b % 2) == 0; }
static int spec_derived_ok(const parsec_task_t *t) { return L(t, 1) == L(t, 0); }
#define AFF_X(a, b, c) (a)
#define AFF_Y(a, b, c) (b)
#define SET_GLOBALS(s, d, g) do { (s)._g_descA = (d); (s)._g_NM = (g)[0]; (s)._g_NN = (g)[1]; } while (0)
#elif CASE == 2    /* tri.jdf U(m, n): m = 0..NM, n = m..NN : descA(m,n); READ A <- descA(m,n) */
#define NPAR 2
#define IDX_A 0
#define IDX_B 1
#define OFF_B 0
static int spec_in_space(int a, int b, int c) { (void)c; return a >= 0 && a <= vin.g[0] && b >= a && b <= vin.g[1]; }
static int spec_guard(int a, int b, int c) { (void)a; (void)b; (void)c; return 1; }
static int spec_derived_ok(const parsec_task_t *t) { (void)t; return 1; }
#define AFF_X(a, b, c) (a)
#define AFF_Y(a, b, c) (b)
#define SET_GLOBALS(s, d, g) do { (s)._g_descA = (d); (s)._g_NM = (g)[0]; (s)._g_NN = (g)[1]; } while (0)
#elif CASE == 3    /* box.jdf B(i,j,k): i = 0..NI, j = 0..NJ..2, s = i+j, k = j..NK : descA(i,k); RW A <- (s%3 != 1) ? descA(i,k) : A C(i,j,k) */
#define NPAR 3
#define IDX_A 0
#define IDX_B 1
#define IDX_C 3
#define OFF_B 0
static int spec_in_space(int a, int b, int c) { return a >= 0 && a <= vin.g[0] && b >= 0 && b <= vin.g[1] && (b % 2) == 0 && c >= b && c <= vin.g[2]; }
static int spec_guard(int a, int b, int c) { (void)c; return ((a + b) % 3) != 1; }
static int spec_derived_ok(const parsec_task_t *t) { return L(t, 2) == L(t, 0) + L(t, 1); }
#define AFF_X(a, b, c) (a)
#define AFF_Y(a, b, c) (c)
#define SET_GLOBALS(s, d, g) do { (s)._g_descA = (d); (s)._g_NI = (g)[0]; (s)._g_NJ = (g)[1]; (s)._g_NK = (g)[2]; } while (0)
#elif CASE == 4    /* neg.jdf D(i,j): i = NI..0..-1, j = -1..NJ : descA(i,j+1); CTL X <- (i < NI) ? X D(i+1,j); READ A <- descA(i,j+1) */
#define NPAR 2
#define IDX_A 0
#define IDX_B 1
#define OFF_B (-1)
/* parameter values: i = a, j = b - 1 */
static int spec_in_space(int a, int b, int c) { (void)c; return a >= 0 && a <= vin.g[0] && (b - 1) >= -1 && (b - 1) <= vin.g[1]; }
static int spec_guard(int a, int b, int c) { (void)b; (void)c; return !(a < vin.g[0]); }
static int spec_derived_ok(const parsec_task_t *t) { (void)t; return 1; }
#define AFF_X(a, b, c) (a)
#define AFF_Y(a, b, c) (b)               /* j + 1 */
#define SET_GLOBALS(s, d, g) do { (s)._g_descA = (d); (s)._g_NI = (g)[0]; (s)._g_NJ = (g)[1]; } while (0)
#define GMAX1 (BOX - 2)                   /* NJ <= BOX-2: j takes at most BOX values */
#else
#error unknown CASE
#endif
#ifndef GMAX1
#define GMAX1 (BOX - 1)
#endif

static int mine(int x, int y) { return vin.owner[x][y] == 0; }
static int spec_local(int a, int b, int c) { return spec_in_space(a, b, c) && mine(AFF_X(a, b, c), AFF_Y(a, b, c)); }
static int spec_is_startup(int a, int b, int c) { return spec_local(a, b, c) && spec_guard(a, b, c); }

static int point_of(const parsec_task_t *t, int *a, int *b, int *c)
{
    *a = L(t, IDX_A) - OFF_A; *b = L(t, IDX_B) - OFF_B; *c = 0;
#if NPAR == 3
    *c = L(t, IDX_C) - OFF_C;
#endif
    return *a >= 0 && *a < BOX && *b >= 0 && *b < BOX && *c >= 0 && *c < BOX;
}

static uint32_t stub_rank_of(parsec_data_collection_t *d, ...)
{
    va_list ap; va_start(ap, d);
    int x = va_arg(ap, int), y = va_arg(ap, int);
    va_end(ap);
    if (x < 0 || x >= BOX || y < 0 || y >= BOX) { g_rank_outside = 1; return vin.myrank + 1; }
    g_rank_calls[x][y]++;
    return vin.owner[x][y] == 0 ? vin.myrank : vin.myrank + 1;
}
static int32_t stub_vpid_of(parsec_data_collection_t *d, ...)
{
    va_list ap; va_start(ap, d);
    int x = va_arg(ap, int), y = va_arg(ap, int);
    va_end(ap);
    if (x < 0 || x >= BOX || y < 0 || y >= BOX) return 0;
    return vin.vp[x][y];
}

static TP_T tp;
#ifndef DC_T              /* type of the collection object (a case header may need a parsec_tiled_matrix_t) */
#define DC_T parsec_data_collection_t
#define DC_BASE(d) (d)
#endif
static DC_T dc;
static parsec_execution_stream_t es[NVP];
static parsec_thread_mempool_t h_tmpool[NVP];
static const parsec_task_class_t *h_classes[4];
static TASK_T gen_task;
static parsec_context_t h_ctx;
static parsec_vp_t h_vp;

static void setup(void)
{
    parsec_context_t *ctx = &h_ctx;
    ctx->nb_vp = NVP;
    h_vp.vp_id = 0; h_vp.parsec_context = ctx; h_vp.nb_cores = 1;
    h_vp.execution_streams[0] = &es[0];
    es[0].virtual_process = &h_vp;
    es[0].context_mempool = &h_tmpool[0];
    h_tmpool[0].mempool.lifo_head.data.item = NULL;
    ctx->virtual_processes[0] = &h_vp;
    /* domain: the box.  Upper bounds from -1 (empty range) to BOX-1 */
#ifdef SPEC_DOMAIN
    V_ASSUME(SPEC_DOMAIN(vin.g));
#else
    V_ASSUME(vin.g[0] >= -1 && vin.g[0] < BOX);
    V_ASSUME(vin.g[1] >= -1 && vin.g[1] <= GMAX1);
    V_ASSUME(vin.g[2] >= -1 && vin.g[2] < BOX);
#endif
#ifdef FIX_G0          /* globals fixed per cbmc process (enumerated by spec.py) */
    vin.g[0] = FIX_G0; vin.g[1] = FIX_G1; vin.g[2] = FIX_G2;
#endif
    for (int a = 0; a < BOX; a++) for (int b = 0; b < BOX; b++) V_ASSUME(vin.vp[a][b] < 2 * NVP);
#ifdef FIX_CHUNK          /* chunking parameters fixed per cbmc process (enumerated by spec.py) */
    vin.startup_chunk = FIX_CHUNK;
#endif
#ifdef FIX_ITER
    vin.startup_iter = FIX_ITER;
#endif
#ifdef NO_VPID_OF         /* the collection has no vpid_of: tasks are spread round-robin over the (one) virtual process */
    vin.has_vpid_of = 0;
#endif
#ifdef VP_TABLE           /* the collection has a vpid_of, fixed per cbmc process: bit (x*BOX+y) set = vpid 1 (too large: folded by the code) */
    vin.has_vpid_of = 1;
    for (int a = 0; a < BOX; a++) for (int b = 0; b < BOX; b++) vin.vp[a][b] = ((VP_TABLE) >> (a * BOX + b)) & 1;
#endif
#ifdef PLACE              /* chunked jobs: placement fixed per cbmc process: bit (x*BOX+y) of PLACE set = (x,y) is NOT local */
    for (int a = 0; a < BOX; a++) for (int b = 0; b < BOX; b++) vin.owner[a][b] = ((PLACE) >> (a * BOX + b)) & 1;
    vin.myrank = 0;
#endif
    parsec_task_startup_iter = vin.startup_iter;
    parsec_task_startup_chunk = vin.startup_chunk;
    DC_BASE(dc).myrank = vin.myrank;
    DC_BASE(dc).rank_of = stub_rank_of;
    DC_BASE(dc).vpid_of = vin.has_vpid_of ? stub_vpid_of : NULL;
    tp.super.super.context = ctx;
    tp.super.super.priority = vin.tp_priority;
    tp.super.super.task_classes_array = h_classes;
    h_classes[CLASS_OBJ.task_class_id] = &CLASS_OBJ;
    g_expected_class = &CLASS_OBJ; g_expected_tp = &tp.super.super;
    SET_GLOBALS(tp.super, &dc, vin.g);
    memset(&gen_task.locals, 0, sizeof(parsec_assignment_t) * MAX_LOCAL_COUNT);
    gen_task.taskpool = &tp.super.super;
}

/* ------------------------------------------------------------------ gate (a) */
void h_init(void)
{
    vin_load();
    setup();
    tp.initial_number_tasks = vin.init0;
    V_ASSUME(vin.init0 >= 0 && vin.init0 < (1 << 20));

    INIT_FN(&es[0], &gen_task);

    int32_t expect = 0;
    for (int a = 0; a < BOX; a++) for (int b = 0; b < BOX; b++) for (int c = 0; c < (NPAR == 3 ? BOX : 1); c++)
        if (spec_local(a, b, c)) expect++;
    V_ASSERT(tp.initial_number_tasks == vin.init0 + expect,
             PROP ".internal_init.post.initial_number_tasks_grows_by_number_of_local_points_of_declared_space");
    V_ASSERT(!g_rank_outside, PROP ".internal_init.post.no_point_outside_the_declared_space_considered");
    for (int x = 0; x < BOX; x++) for (int y = 0; y < BOX; y++) {
        int n = 0;
        for (int a = 0; a < BOX; a++) for (int b = 0; b < BOX; b++) for (int c = 0; c < (NPAR == 3 ? BOX : 1); c++)
            if (spec_in_space(a, b, c) && AFF_X(a, b, c) == x && AFF_Y(a, b, c) == y) n++;
        V_ASSERT(g_rank_calls[x][y] == n, PROP ".internal_init.post.each_point_of_the_space_considered_exactly_once");
    }
    V_CANARY("init");
}

/* ------------------------------------------------------------------ gate (b) */
void h_startup(void)
{
    vin_load();
    setup();
    int rc = PARSEC_HOOK_RETURN_AGAIN;
    /* The runtime's part of the protocol (scheduling.c __parsec_task_progress, contract: C16): a hook that answers AGAIN
     * is invoked again later on the SAME task object, left untouched in between. */
    for (int r = 0; r < RMAX && rc == PARSEC_HOOK_RETURN_AGAIN; r++) {
        int before = g_scheduled;
        rc = STARTUP_FN(&es[0], &gen_task);
        g_calls++;
        V_ASSERT(rc == PARSEC_HOOK_RETURN_AGAIN || rc == PARSEC_HOOK_RETURN_DONE, PROP ".startup.post.answers_AGAIN_or_DONE");
        V_ASSERT(g_alloc == g_scheduled, PROP ".startup.post.every_created_task_handed_to_scheduler_before_yielding");
        V_ASSERT(V_IMPLIES(rc == PARSEC_HOOK_RETURN_AGAIN, (uint64_t)(g_scheduled - before) > vin.startup_chunk),
                 PROP ".startup.post.yields_only_after_more_than_chunk_new_tasks");
    }
#ifdef ONE_CALL
    V_ASSUME(rc == PARSEC_HOOK_RETURN_DONE);      /* bounded stand-in: generations that finish within RMAX calls */
#else
    V_ASSERT(rc == PARSEC_HOOK_RETURN_DONE, PROP ".startup.post.completes_within_RMAX_calls");
#endif
    V_ASSERT(!g_bad_point, PROP ".startup.post.no_instance_outside_the_box");
    V_ASSERT(!g_bad_task, PROP ".startup.post.task_has_class_taskpool_priority_derived_locals_marked_startup_once");
    V_ASSERT(!g_bad_distance, PROP ".startup.post.scheduled_at_distance_0");
    int n_startup = 0, n_local = 0;
    for (int a = 0; a < BOX; a++) for (int b = 0; b < BOX; b++) for (int c = 0; c < (NPAR == 3 ? BOX : 1); c++) {
        if (spec_local(a, b, c)) n_local++;
        if (spec_is_startup(a, b, c)) {
            n_startup++;
            V_ASSERT(g_visit[a][b][c] == 1, PROP ".startup.post.every_local_instance_without_input_dependency_created_exactly_once");
        } else
            V_ASSERT(g_visit[a][b][c] == 0, PROP ".startup.post.no_other_instance_created");
    }
    V_ASSERT(g_scheduled == n_startup && n_startup <= n_local, PROP ".startup.post.created_tasks_are_among_the_counted_ones");
#ifdef MIN_CALLS          /* chunked jobs, non-vacuity: this configuration does make the generator yield and be re-entered */
    V_ASSERT(g_calls >= MIN_CALLS, PROP ".startup_chunked.lemma.configuration_reenters_the_generator");
#endif
    V_CANARY("startup");
}
