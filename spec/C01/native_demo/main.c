/* Native demonstration of the finding "startup generator ignores the sign of the range step".
 * (Repaired in /repo by commit 1363cc4; the observations below are those of the tree before it.)
 * Build and run:
 *   P=/repo/_build/parsec/interfaces/ptg/ptg-compiler/parsec-ptgpp; $P -E -i negdemo.jdf -o negdemo -f negdemo
 *   gcc -O0 -w -I. -I/repo/_build/parsec/include -I/repo/_build -I/repo/parsec/include -I/repo -I/usr/lib/x86_64-linux-gnu/openmpi/include \
 *       main.c negdemo.c -o negdemo -L/repo/_build/parsec -lparsec -Wl,-rpath,/repo/_build/parsec /usr/lib/x86_64-linux-gnu/openmpi/lib/libmpi.so -lpthread -lm
 *   OMPI_ALLOW_RUN_AS_ROOT=1 OMPI_ALLOW_RUN_AS_ROOT_CONFIRM=1 ./negdemo 3
 * Observed: "TIMEOUT (taskpool never completes): NI=3 declared instances=4, bodies run=0"; with the range written
 * ascending (i = 0 .. NI) the same program prints "completed: NI=3 declared instances=4, bodies run=4"; ./negdemo 0 crashes
 * (the generated loop `for(i = NI; i <= 0; i += -1)` walks i = 0, -1, -2, ... outside the declared space). */
#include "parsec.h"
#include "parsec/data_distribution.h"
#include "parsec/data_internal.h"
#include "negdemo.h"
#include <stdio.h>
#include <stdlib.h>
#include <unistd.h>
#include <signal.h>
#include <mpi.h>
int ran[16];
static int NI = 3;
static parsec_data_t *datas[16]; static int cells[16];
static uint32_t rank_of(parsec_data_collection_t *d, ...) { (void)d; return 0; }
static int32_t vpid_of(parsec_data_collection_t *d, ...) { (void)d; return 0; }
static parsec_data_key_t data_key(parsec_data_collection_t *d, ...) { va_list ap; va_start(ap, d); int i = va_arg(ap, int); va_end(ap); return i; }
static parsec_data_t *data_of(parsec_data_collection_t *d, ...) { va_list ap; va_start(ap, d); int i = va_arg(ap, int); va_end(ap);
    return parsec_data_create(&datas[i], d, i, &cells[i], sizeof(int), PARSEC_DATA_FLAG_PARSEC_MANAGED); }
static void report(int sig) { int n = 0; for (int i = 0; i <= NI; i++) n += ran[i];
    printf("%s: NI=%d declared instances=%d, bodies run=%d\n", sig ? "TIMEOUT (taskpool never completes)" : "completed", NI, NI + 1, n); fflush(stdout); _exit(sig ? 1 : 0); }
int main(int argc, char **argv)
{
    if (argc > 1) NI = atoi(argv[1]);
    { int prov; MPI_Init_thread(&argc, &argv, MPI_THREAD_SERIALIZED, &prov); }
    int pargc = 0; char **pargv = NULL;
    parsec_context_t *ctx = parsec_init(1, &pargc, &pargv);
    static parsec_data_collection_t dc;
    parsec_data_collection_init(&dc, 1, 0);
    dc.rank_of = rank_of; dc.vpid_of = vpid_of; dc.data_of = data_of; dc.data_key = data_key;
    parsec_negdemo_taskpool_t *tp = parsec_negdemo_new(&dc, NI);
    signal(SIGALRM, report); alarm(5);
    parsec_context_add_taskpool(ctx, (parsec_taskpool_t *)tp);
    parsec_context_start(ctx);
    parsec_context_wait(ctx);
    report(0);
    return 0;
}
