import os, re, subprocess, tempfile
from vlib import Job
import vlib

HERE = os.path.dirname(os.path.abspath(__file__))
PC = "parsec/interfaces/ptg/ptg-compiler"

# ----------------------------------------------------------------------------------------------------------------
# corpus of gates (a),(b): JDF (spec/C01/jdf), class, CASE number of the hand-written execution-space spec in h_gen.c
# ----------------------------------------------------------------------------------------------------------------
CORPUS = [
    # key      jdf    class CASE
    ("tri.T", "tri", "T", 1),    # triangular space through a derived local, guard on the input dependency
    ("tri.U", "tri", "U", 2),    # inner range starts at the outer parameter, every instance is a startup task
    ("box.B", "box", "B", 3),    # 3 parameters, step 2, derived local used by the guard, inner range from an outer parameter
    ("neg.D", "neg", "D", 4),    # descending range (step -1), negative lower bound, expression in the affinity, CTL input
]
_gen_cache = {}


def _definitions(clean):
    """name -> (line start, offset of '{', offset of matching '}') of every file-scope function definition."""
    defs = {}
    depth = 0
    i = 0
    n = len(clean)
    # positions at brace depth 0
    depth_at = []
    d = 0
    for ch in clean:
        depth_at.append(d)
        if ch == "{":
            d += 1
        elif ch == "}":
            d -= 1
    for m in re.finditer(r"\b([A-Za-z_]\w*)\s*\(", clean):
        if depth_at[m.start()] != 0:
            continue
        i = m.end() - 1
        dp = 0
        while i < n:
            if clean[i] == "(":
                dp += 1
            elif clean[i] == ")":
                dp -= 1
                if dp == 0:
                    break
            i += 1
        j = i + 1
        while j < n and clean[j] in " \t\n\r":
            j += 1
        if j < n and clean[j] == "{":
            k = j
            dd = 0
            while k < n:
                if clean[k] == "{":
                    dd += 1
                elif clean[k] == "}":
                    dd -= 1
                    if dd == 0:
                        break
                k += 1
            name = m.group(1)
            if name in defs:
                defs[name] = None          # ambiguous
            else:
                defs[name] = (clean.rfind("\n", 0, m.start()) + 1, j, k)
    return defs


def _cut(gen_c, jdf, cls, out, extra=(), parts=("init", "startup")):
    """(extra: names of further generated functions cut whole, with their generated callees -- used by spec/C22.)
    Mechanical cut of the generated unit: prelude (everything before the first make_key function) + the counting part of
    <jdf>_<CLS>_internal_init (up to and including the block that adds nb_tasks to initial_number_tasks) + the whole
    __jdf2c_startup_<CLS> + every generated function these two call (transitively) + one-line definitions of the task-class
    objects carrying only their task_class_id."""
    src = open(gen_c).read()
    src = re.sub(r"(?m)^#line .*$", "", src)
    clean = vlib.strip_comments_keep_layout(src)
    first = clean.find("static inline parsec_key_t __jdf2c_make_key_")
    if first < 0:
        raise vlib.Undecided("cut: no make_key function in %s" % gen_c)
    defs = _definitions(clean)
    init, start = "%s_%s_internal_init" % (jdf, cls), "__jdf2c_startup_%s" % cls
    for fn, part in ((init, "init"), (start, "startup")):
        if part in parts and not defs.get(fn):
            raise vlib.Undecided("cut: definition of %s not found exactly once" % fn)
    if "init" not in parts or "startup" not in parts:     # spec/C22 (reduce*.jdf): only the extra functions are cut
        if not extra or parts:
            raise vlib.Undecided("cut: unsupported selection of parts")
        want, todo, seen = [], [], set()
        for fn in extra:
            fn = fn.replace("<jdf>", jdf).replace("<CLS>", cls)
            if not defs.get(fn):
                raise vlib.Undecided("cut: definition of %s not found exactly once" % fn)
            seen.add(fn); want.append(fn); todo.append((fn, clean[defs[fn][1]:defs[fn][2]]))
        while todo:
            _, body = todo.pop()
            for w in set(re.findall(r"\b([A-Za-z_]\w*)\s*\(", body)):
                if w in defs and defs[w] and w not in seen and defs[w][0] >= first:
                    seen.add(w); want.append(w); todo.append((w, clean[defs[w][1]:defs[w][2]]))
        open(out, "w").write("/* cut mechanically from %s by spec/C01/spec.py */\n" % os.path.basename(gen_c) + src[:first] +
                             "".join(src[defs[w][0]:defs[w][2] + 1] + "\n" for w in sorted(want, key=lambda w: defs[w][0])))
        return
    # the counting part of internal_init
    s, b, e = defs[init]
    m = re.search(r"parsec_atomic_fetch_add_int32\s*\(\s*&__parsec_tp->initial_number_tasks\s*,\s*nb_tasks\s*\)\s*;\s*\}", clean[b:e])
    if m is None or len(re.findall(r"initial_number_tasks", clean[b:e])) != 2:
        # exactly two mentions: the fetch_add and the hand-over to the termination detector (taskpool_addto_nb_tasks)
        raise vlib.Undecided("cut: %s does not have the expected single update of initial_number_tasks" % init)
    stop = b + m.end()
    if clean[b:stop].count("{") - clean[b:stop].count("}") != 1:
        raise vlib.Undecided("cut: the update of initial_number_tasks is not at the top level of %s" % init)
    init_text = src[s:stop] + "\n  return 0;\n}\n"
    # transitive closure of called generated functions
    want = []
    todo = [(init, clean[b:stop]), (start, clean[defs[start][1]:defs[start][2]])]
    seen = {init, start}
    for fn in extra:
        fn = fn.replace("<jdf>", jdf).replace("<CLS>", cls)
        if not defs.get(fn):
            raise vlib.Undecided("cut: definition of %s not found exactly once" % fn)
        if fn not in seen:
            seen.add(fn)
            want.append(fn)
            todo.append((fn, clean[defs[fn][1]:defs[fn][2]]))
    while todo:
        _, body = todo.pop()
        for w in set(re.findall(r"\b([A-Za-z_]\w*)\s*\(", body)):
            if w in defs and defs[w] and w not in seen and defs[w][0] >= first:
                seen.add(w)
                want.append(w)
                todo.append((w, clean[defs[w][1]:defs[w][2]]))
    parts = ["/* cut mechanically from %s by spec/C01/spec.py */\n" % os.path.basename(gen_c), src[:first]]
    for w in sorted(want, key=lambda w: defs[w][0]):
        parts.append(src[defs[w][0]:defs[w][2] + 1] + "\n")
    parts.append(init_text)
    parts.append(src[defs[start][0]:defs[start][2] + 1] + "\n")
    # task-class objects: only the id is read by the two functions
    for m in re.finditer(r"static const parsec_task_class_t (%s_\w+) = \{(.*?)\n\};" % re.escape(jdf), src, re.S):
        mid = re.search(r"\.task_class_id\s*=\s*(\d+)", m.group(2))
        if not mid:
            raise vlib.Undecided("cut: no task_class_id in %s" % m.group(1))
        parts.append("static const parsec_task_class_t %s = { .task_class_id = %s };\n" % (m.group(1), mid.group(1)))
    open(out, "w").write("".join(parts))


def _generate(corpus=None, cache_key="cuts", prefix="c01"):
    """Build ptgpp from REPO's sources, translate the corpus, cut; returns (dir, {corpus key: cut file}).
    corpus entries: (key, jdf, class, case[, path of the .jdf (default spec/C01/jdf/<jdf>.jdf)[, extra functions to cut]])."""
    if corpus is None:
        corpus = CORPUS
    if cache_key in _gen_cache:
        return _gen_cache[cache_key]
    R = vlib.REPO
    B = vlib.build_dir()
    if B is None:
        raise vlib.Undecided("no build directory")
    base = os.path.join(os.environ.get("VERIF_TMP", "/tmp"), ".vscratch", str(os.getpid()))
    os.makedirs(base, exist_ok=True)
    d = tempfile.mkdtemp(prefix="c01gen-", dir=base)
    srcs = [os.path.join(R, PC, f) for f in ("jdf.c", "jdf2c.c", "jdf_unparse.c")] + \
           [os.path.join(B, PC, f) for f in ("parsec.y.c", "parsec.l.c")]
    cmd = ["gcc", "-O0", "-w", "-DBUILDING_PARSEC", "-D_GNU_SOURCE", "-DNDEBUG", "-std=gnu11",
           "-I" + os.path.join(R, PC), "-I" + B + "/parsec/include", "-I" + B, "-I" + R + "/parsec/include", "-I" + R,
           "-I" + os.path.join(B, PC)] + srcs + ["-o", os.path.join(d, "ptgpp"), "-lm", B + "/parsec/libparsec-base.a"]
    r = subprocess.run(cmd, capture_output=True, text=True, timeout=600)
    if r.returncode != 0:
        raise vlib.Undecided("building ptgpp from %s failed: %s" % (R, r.stderr[-500:]))
    cuts = {}
    for ent in corpus:
        key, jdf, cls, case = ent[:4]
        jdf_path = ent[4] if len(ent) > 4 and ent[4] else os.path.join(HERE, "jdf", jdf + ".jdf")
        extra = ent[5] if len(ent) > 5 else ()
        parts = ent[6] if len(ent) > 6 else ("init", "startup")
        name = prefix + jdf
        if not os.path.exists(os.path.join(d, name + ".c")):
            r = subprocess.run([os.path.join(d, "ptgpp"), "-E", "-i", jdf_path, "-o", name, "-f", name],
                               cwd=d, capture_output=True, text=True, timeout=120)
            if r.returncode != 0 or not os.path.exists(os.path.join(d, name + ".c")):
                raise vlib.Undecided("ptgpp failed on %s.jdf: %s" % (jdf, (r.stdout + r.stderr)[-500:]))
        out = os.path.join(d, "%s_%s_cut.h" % (name, cls))
        _cut(os.path.join(d, name + ".c"), name, cls, out, extra, parts)
        cuts[key] = out
    _gen_cache[cache_key] = (d, cuts)
    return _gen_cache[cache_key]


US_REL = {"parsec_lifo_pop.0": 2}


def _release_jobs(tier):
    J = []
    cfg = [(1, 0), (2, 1), (3, 2)] if tier == "quick" else [(1, 0), (1, 2), (2, 1), (3, 2), (5, 2), (20, 1)]
    for nf, nr in cfg:
        us = dict(US_REL)
        us["memset.0"] = 40 * nf + 1
        us["parsec_list_item_ring_push_sorted.0"] = nr + 2
        J.append(Job("release.nf%d.ring%d" % (nf, nr), "h_release.c", entry="h_release", defines={"NFLOWS": nf, "NRING": nr},
                     unwind=22, unwindset=us, functions=["parsec_release_local_OUT_dependencies"], timeout=900, mem_gb=4,
                     min_obligations=20,
                     bounded="class with %d flows (any destination flow), %d tasks already in the ready ring; locals, priorities, "
                             "flags, status symbolic; thread mempool empty" % (nf, nr)))
    return J


# gate (b): tuples of the JDF's integer globals (upper bounds / NI), fixed per cbmc process.  The neg.D tuples (descending range)
# failed before repository commit 1363cc4 (startup generator ignored the sign of the step; selftest m7 reverts that commit).
NPAR = {"tri.T": 2, "tri.U": 2, "box.B": 3, "neg.D": 2}
STARTUP = {
    "quick": {"tri.T": [(2, (1, 1, 0)), (2, (0, 1, 0))], "tri.U": [(2, (1, 1, 0)), (2, (1, 0, 0))],
              "box.B": [(2, (1, 1, 1)), (2, (0, 0, 1))], "neg.D": [(2, (1, 0, 0)), (2, (0, 0, 0))]},
    "thorough": {"tri.T": [(2, (a, b, 0)) for a in (-1, 0, 1) for b in (-1, 0, 1)] + [(3, (2, 2, 0)), (3, (1, 2, 0))],
                 "tri.U": [(2, (a, b, 0)) for a in (-1, 0, 1) for b in (-1, 0, 1)] + [(3, (2, 2, 0)), (3, (2, 1, 0))],
                 "box.B": [(2, (a, b, c)) for a in (0, 1) for b in (-1, 0, 1) for c in (0, 1)],
                 "neg.D": [(2, (a, b, 0)) for a in (-1, 0, 1) for b in (-1, 0)] + [(3, (2, 1, 0)), (3, (1, 0, 0))]},
}
# chunked generation: (class, box, globals, startup_chunk, startup_iter, placement bitmask, vpid_of table or None, min. calls)
CHUNKED = {
    "quick": [("tri.U", 3, (2, 2, 0), 2, 1, 32, None, 2), ("tri.T", 3, (2, 2, 0), 0, 0, 16, 0, 2)],
    "thorough": [("tri.U", 3, (2, 2, 0), c, i, p, v, 2) for c, i, p, v in
                 [(0, 0, 0, None), (0, 4, 0, 5), (1, 1, 0, None), (1, 2, 32, 0), (2, 1, 32, None), (2, 4, 0, None), (3, 1, 0, None), (3, 8, 2, 0)]] +
                [("tri.T", 3, (2, 2, 0), c, i, p, v, 2) for c, i, p, v in [(0, 0, 16, 0), (1, 2, 0, None), (2, 1, 0, None), (1, 0, 2, 3)]] +
                [("box.B", 3, (2, 2, 2), c, i, p, v, 2) for c, i, p, v in
                 [(0, 1, 0, None), (1, 2, 0, None), (2, 2, 0, None), (3, 1, 0, None), (4, 8, 0, None), (1, 1, 4, 1)]] +
                [("box.B", 3, (2, 2, 2), 5, 8, 0, None, 1)] +     # 8 tasks in batches of 2, 3, 3: never more than chunk -> one call

                [("neg.D", 3, (2, 1, 0), c, i, p, v, 2) for c, i, p, v in [(0, 1, 0, None), (1, 2, 1, 0)]] +
                [("tri.U", 2, (1, 1, 0), 1, 1, 0, None, 2)],
}


def _gen_jobs(tier):
    try:
        gdir, cuts = _generate()
    except Exception as e:   # a pipeline that cannot be built never counts as a pass
        return [Job("generate", "h_gen.c", entry="h_generation_failed_%s" % re.sub(r"\W", "_", str(e))[:80], timeout=60)]
    J = []
    case = {k: c for k, _, _, c in CORPUS}
    names = {k: ("c01" + j, cl) for k, j, cl, _ in CORPUS}
    for key, jdf, cls, _ in CORPUS:
        base = {"GEN_CUT": '"%s"' % cuts[key], "JDF": names[key][0], "CLS": cls, "CASE": case[key]}
        # (a): globals symbolic over the whole box
        box = 3 if tier == "quick" else 4
        d = dict(base); d["BOX"] = box
        J.append(Job("init.%s" % key, "h_gen.c", entry="h_init", defines=d, unwind=box + 2, extra_cc=["-I" + gdir], replay=False,
                     functions=["%s_%s_internal_init (generated, counting part)" % names[key]], timeout=600, mem_gb=4,
                     min_obligations=3, object_bits=10,
                     bounded="corpus class %s; upper bounds of the ranges symbolic in -1..%d (box %d^%d); placement of every point "
                             "symbolic" % (key, box - 1, box, NPAR[key])))
        # (b): one call of the generator that finishes (any parsec_task_startup_iter; chunk large enough), globals fixed
        for box, g in STARTUP[tier][key]:
            d = dict(base); d.update({"BOX": box, "RMAX": 1, "ONE_CALL": None, "FIX_G0": "(%d)" % g[0], "FIX_G1": "(%d)" % g[1],
                                      "FIX_G2": "(%d)" % g[2]})
            J.append(Job("startup.%s.g%s" % (key, "_".join(str(x).replace("-", "m") for x in g[:NPAR[key]])),
                         "h_gen.c", entry="h_startup", defines=d, unwind=box ** NPAR[key] + 2, unwindset=US_REL, extra_cc=["-I" + gdir],
                         replay=False, functions=["__jdf2c_startup_%s (generated)" % cls], timeout=900, mem_gb=6, object_bits=12,
                         min_obligations=8,
                         bounded="corpus class %s, globals fixed to %s (box %d), one virtual process, one call of the generator that "
                                 "answers DONE (parsec_task_startup_iter symbolic, chunk not reached); placement symbolic" % (key, g, box)))
    # (b) chunked generation: re-entry of the generator after it answered AGAIN.  Everything that decides a branch is fixed per
    # process (chunk, iter, placement, vpid_of, globals); measured 7-70 s, <= 1.5 GB per configuration.
    for key, box, g, chunk, it, place, vp, mincalls in CHUNKED[tier]:
        d = {"GEN_CUT": '"%s"' % cuts[key], "JDF": names[key][0], "CLS": names[key][1], "CASE": case[key], "BOX": box, "RMAX": 12,
             "FIX_G0": "(%d)" % g[0], "FIX_G1": "(%d)" % g[1], "FIX_G2": "(%d)" % g[2], "FIX_CHUNK": chunk, "FIX_ITER": it,
             "PLACE": place, "MIN_CALLS": mincalls}
        if vp is None:
            d["NO_VPID_OF"] = None
        else:
            d["VP_TABLE"] = vp
        J.append(Job("startup_chunked.%s.g%s.chunk%d.iter%d.place%d.%s" % (key, "_".join(str(x).replace("-", "m") for x in g[:NPAR[key]]),
                                                                           chunk, it, place, "novp" if vp is None else "vp%d" % vp),
                     "h_gen.c", entry="h_startup", defines=d, unwind=box ** NPAR[key] + 3, unwindset=dict(US_REL, **{"h_startup.0": 14}),
                     extra_cc=["-I" + gdir],
                     replay=False, functions=["__jdf2c_startup_%s (generated)" % names[key][1]], timeout=900, mem_gb=16, object_bits=12,
                     min_obligations=10,
                     bounded="corpus class %s, globals %s (box %d), parsec_task_startup_chunk=%d, parsec_task_startup_iter=%d, placement "
                             "pattern %d, %s, one virtual process, generator re-entered until DONE (<= 12 calls)"
                             % (key, g, box, chunk, it, place, "no vpid_of" if vp is None else "vpid_of table %d" % vp)))
    return J


def jobs(tier):
    return _release_jobs(tier) + _gen_jobs(tier)


META = dict(
    level="other",
    functions=["parsec_release_local_OUT_dependencies (parsec/parsec.c)",
               "<jdf>_<CLASS>_internal_init, counting part (generated; jdf2c.c: jdf_generate_internal_init)",
               "__jdf2c_startup_<CLASS> (generated; jdf2c.c: jdf_generate_startup_tasks)"],
    explanation="C01 is claimed only as the conjunction of three gates, each a contract on real code (harness route).  "
                "(c) parsec_release_local_OUT_dependencies of parsec.c (included verbatim), with find_deps / update_deps behind the task "
                "class replaced by stubs that behave as their C07 contracts (one release = one linearisation point, answer 'ready' a free "
                "boolean): the release is performed exactly once; ready => exactly one task object is taken from the thread's mempool, it "
                "carries task's taskpool, class, priority, chore mask and all MAX_LOCAL_COUNT locals, data[] cleared except the destination "
                "flow which gets the supplied repo / entry / copy, and it is EITHER inserted exactly once into *pready_ring (ring well formed, "
                "old members kept exactly once, sortedness kept) OR, for an immediate class, executed and completed exactly once and not "
                "queued; not ready => no object, nothing executed, ring untouched.  "
                "(a),(b) the PTG compiler is rebuilt on every run from $VERIF_REPO's jdf.c / jdf2c.c / jdf_unparse.c and run on the corpus "
                "spec/C01/jdf (tri.T, tri.U, box.B, neg.D = descending range with step -1); the counting part of internal_init and the whole startup generator are cut by name.  "
                "(a) internal_init adds to initial_number_tasks exactly the number of points of the declared space (written by hand from the "
                "JDF text) that are placed on this process, and evaluates the placement exactly once per point of the space, never outside "
                "(upper bounds symbolic over the box, placement of every point symbolic).  (b) the startup generator hands to the scheduler, "
                "exactly once each, the tasks of exactly the points that are in the space, local and without input dependency, carrying that "
                "point's locals (derived ones included), class, taskpool, priority, marked as startup exactly once; globals enumerated one "
                "cbmc process per tuple.  "
                "CHUNKED GENERATION (jobs startup_chunked.*): the harness plays __parsec_task_progress' part (C16) and calls the generator "
                "again and again on the same untouched task object while it answers AGAIN (re-entry through the restore_context labels), "
                "with parsec_task_startup_chunk, parsec_task_startup_iter, the placement pattern and vpid_of FIXED per cbmc process "
                "(enumerated); over all calls together every startup instance is produced exactly once, none twice, no other; every "
                "created task was handed to __parsec_schedule_vp before the generator yields; it yields only after more than "
                "startup_chunk new tasks; DONE is reached (within 12 calls) exactly with all instances produced; a non-vacuity lemma "
                "checks that each configuration really re-enters the generator.  The composition (C07 ready-once, C08 scheduler returns once, C16 progress completes once) is an "
                "argument, not a discharged obligation.",
    trusted_base=["stubs behind tc->find_deps / tc->update_deps (C07 contracts), __parsec_execute / __parsec_complete_execution (C16), "
                  "parsec_thread_mempool_allocate_when_empty (malloc of one parsec_task_t, mempool_owner set), "
                  "parsec_dependencies_mark_task_as_startup (C07; counted per point), __parsec_schedule_vp (walks the rings it is given and "
                  "accounts for each task), rank_of / vpid_of of the data collection (symbolic tables), parsec_output / parsec_task_snprintf (no-ops)",
                  "h_release.c: the constructor chain of parsec_task_t {parsec_list_item_construct, __parsec_task_constructor} is installed "
                  "directly instead of running parsec_class_initialize (object system: C34); libc memset replaced by a byte loop "
                  "(CBMC's built-in model mis-handles the non-constant size expression: spurious failure)",
                  "h_gen.c: class descriptor of parsec_task_t with an EMPTY constructor chain (the generated code sets every field the "
                  "obligations read)",
                  "the mechanical cut (spec.py _cut): prelude before the first make_key + the named functions and the generated functions they "
                  "call, verbatim; internal_init is cut after the block that adds nb_tasks to initial_number_tasks (checked to be its only "
                  "update) and closed with 'return 0; }'; the task-class objects are reduced to their task_class_id",
                  "execution-space / guard / affinity predicates of the corpus classes in h_gen.c, written by hand from the JDF text",
                  "parser/lexer tables parsec.y.c / parsec.l.c are taken from the existing build directory (not regenerated)"],
    assumptions=["C07: update_deps answers ready for exactly one release of an instance; C08: a scheduler returns each task it was given "
                 "exactly once; C16: __parsec_task_progress completes a task exactly once (composition argued, not checked)",
                 "dest_flow->flow_index < nb_flows (the code's assert)",
                 "the ready ring passed to release_local_OUT_dependencies is thread-private",
                 "a hook that answers AGAIN is invoked again on the same task object, untouched in between (C16: __parsec_task_progress); "
                 "__parsec_schedule_vp consumes and clears the rings it is given (C08)",
                 "internal_init of a class runs once per taskpool and the startup generator starts from all-zero locals "
                 "(<jdf>_startup, C16)"],
)

MANIFEST = dict(
    category="other",
    text="Three gates of 'every PTG task instance runs exactly once', each a contract on real code discharged by CBMC: the readiness "
         "check parsec_release_local_OUT_dependencies creates and queues (or, immediate class, runs) exactly one copy iff the dependency "
         "update answered ready; for a corpus of 4 JDF classes the generated internal_init counts exactly the local points of the declared "
         "space, and the generated startup generator creates exactly the local instances without input dependency, once each, with that "
         "point's locals -- in one call (placement symbolic) and, for enumerated chunking parameters, across re-entries after AGAIN.  'other' because the JDFs are a corpus, the spaces small boxes (globals enumerated for the generator), and the "
         "step from the gates to the whole statement is an argument.",
    note="History: the jobs startup.neg.D.* failed before repository commit 1363cc4 -- for a range parameter with a negative step "
         "(i = NI .. 0 .. -1) jdf_generate_startup_tasks emitted 'i <= end' whatever the sign of the step, so no startup task of such a "
         "class was created although internal_init counted them (native: spec/C01/native_demo; 4 instances declared, 0 bodies run, "
         "taskpool never completes); repaired there, recorded as fixed, selftest m7 reverts the repair and is detected.  "
         "OBSERVED, outside the corpus: range loops of LOCAL INDICES (o = [ i = NI .. 0 .. -1 ] expr; jdf2c.c ld->op == JDF_RANGE) are still "
         "emitted as 'i <= end' with the negative step both in internal_init and in the startup generator (seen in the generated C): "
         "a decreasing local-index range yields no instance for NI > 0 (counted 0, created 0: consistent, but the declared instances do "
         "not run) and leaves the declared space for NI <= 0.  "
         "NOT decided: JDFs outside the corpus (local indices, NEW/NULL flows, priorities, expression steps, user-defined startup); spaces "
         "outside the boxes; chunking parameters, placements and spaces other than the enumerated startup_chunked.* configurations (chunk 0-5, iter 0-8, "
         "boxes of 3, corpus classes tri.U / tri.T / box.B / neg.D: there the chunking clause IS decided; with a symbolic chunk, placement "
         "or rank the state at the restore_context jump is a merge and CBMC 6.11 does not finish: > 10 min, > 6 GB for 3 tasks); more than one virtual "
         "process; recycled task objects popped from a non-empty mempool; release of remote successors; agreement of successor iteration "
         "with predecessor goals (C02); the schedulers under concurrency (C08); the composition itself.",
    technique="contracts (pre/post, ghost visit counters per point) on real parsec.c and on generated code cut by name, compiler rebuilt per "
              "run, CBMC 6.11, globals / flow counts / ring lengths enumerated one process per tuple",
    design_ref="DESIGN.md section 5, C01")
