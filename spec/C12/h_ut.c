/* C12: user-triggered termination reaches every process exactly once.
 * Contracts on the REAL parsec/mca/termdet/user_trigger/termdet_user_trigger_module.c
 * (included verbatim below; its static functions are in scope of this TU).
 *
 * Ghost state
 *   g_nsent, g_dst[], g_tag[], g_size[], g_ce_ok[], g_msg_tp[], g_msg_root[]
 *       filled by the stub installed behind parsec_ce.send_am (one entry per active message handed
 *       to the communication engine by this process),
 *   g_cb_calls / g_cb_tp   filled by the stub installed as tp->tdm.callback,
 *       (the callback runs exactly once per execution of parsec_termdet_signal_termination: the callers'
 *       contracts count executions of (S) by g_cb_calls),
 *   sh(x) = (x - root + n) % n    rank of x in the world shifted so that the triggering process is 0.
 *
 * Decomposition of the property (meta-step = induction on sh(t), see h_lemma_tree):
 *   (S) signal_termination on process `me` hands to the engine at most two messages, to pairwise distinct ranks
 *       in [0,n) other than `me`, each carrying (tp_id, root), and for EVERY rank t:
 *           t is a destination  <=>  sh(t) >= 1  &&  (sh(t)-1)/2 == sh(me)
 *   (L) for every t != root exactly one rank p satisfies the right-hand side (p = parent(t)), sh(p) < sh(t);
 *       the root satisfies it for no sender.  Hence, if every reached process executes (S) exactly once, every
 *       t != root is handed exactly one message and the root none.
 *   (D) a process that receives the message stores the received root, and executes (S) exactly when its
 *       pending-action counter reaches 0 in state BUSY; (S) leaves the state TERMINATED, and no module entry
 *       point executes (S) in a state other than BUSY: at most one execution of (S) per process and taskpool.
 */
#include "verif.h"
#define VERIF_RG_POST_STEP   /* environment also acts after each of my atomic operations */
#include "verif_rg.h"
#include "parsec/parsec_config.h"
#include "parsec/parsec_internal.h"
#include "parsec/mca/termdet/termdet.h"
#include "parsec/mca/termdet/user_trigger/termdet_user_trigger.h"
#include "parsec/remote_dep.h"

#ifndef NMAX
#define NMAX 4096          /* the property's own domain: communicator sizes 1..4096 */
#endif

/* ---- ghost state (declared before the contract so that the contract can name it) ---- */
#define G_SLOTS 4          /* more than the two sends allowed: a third send is recorded, not lost */
static int      g_nsent;
static int      g_dst[G_SLOTS];
static uint64_t g_tag[G_SLOTS];
static uint64_t g_size[G_SLOTS];
static int      g_ce_ok[G_SLOTS];
static uint32_t g_msg_tp[G_SLOTS];
static int32_t  g_msg_root[G_SLOTS];
static int      g_cb_calls;
static int      g_cb_tp_ok;

#include "parsec/mca/termdet/user_trigger/termdet_user_trigger_module.c"

#define MON(tp_) ((parsec_termdet_user_trigger_monitor_t *)(tp_)->tdm.monitor)

/* Contract of parsec_termdet_signal_termination as its callers see it (clauses of (S) that the callers need).
 * Enforced against the real body in job signal.contract (goto-instrument --dfcc --enforce-contract), used in
 * place of the body in the dispatch / counter jobs (--replace-call-with-contract). */
static void parsec_termdet_signal_termination(parsec_taskpool_t *tp)
__CPROVER_requires(1 <= tp->context->nb_nodes && tp->context->nb_nodes <= NMAX)
__CPROVER_requires(0 <= tp->context->my_rank && tp->context->my_rank < tp->context->nb_nodes)
__CPROVER_requires(0 <= MON(tp)->root && MON(tp)->root < tp->context->nb_nodes)
__CPROVER_requires(g_nsent == 0)
__CPROVER_ensures(MON(tp)->state == PARSEC_TERMDET_USER_TRIGGER_TERMINATED)
__CPROVER_ensures(MON(tp)->root == __CPROVER_old(MON(tp)->root))
__CPROVER_ensures(g_cb_calls == __CPROVER_old(g_cb_calls) + 1)
__CPROVER_ensures(g_nsent >= 0 && g_nsent <= 2)
__CPROVER_assigns(MON(tp)->state, g_cb_calls, g_cb_tp_ok, g_nsent,
                  __CPROVER_object_whole(g_dst), __CPROVER_object_whole(g_tag), __CPROVER_object_whole(g_size),
                  __CPROVER_object_whole(g_ce_ok), __CPROVER_object_whole(g_msg_tp), __CPROVER_object_whole(g_msg_root));


struct vin {
    int32_t  n, root, me, t;      /* communicator size, triggering rank, executing rank, ghost target rank   */
    int32_t  me2;                 /* second ghost sender (lemma: uniqueness of the parent)                   */
    uint32_t tp_id;
    int32_t  msg_root;            /* root carried by the received message (dispatch)                          */
    uint32_t msg_tp;
    int32_t  pa;                  /* nb_pending_actions when the call starts                                  */
    int32_t  v;                   /* argument of addto / set_runtime_actions / set_nb_tasks                   */
    int32_t  nb_tasks0;
    uint8_t  state;               /* monitor state when the call starts                                       */
    uint32_t other_tp;            /* id of another taskpool whose message is also delayed                     */
    int32_t  other_root;
    uint8_t  tp_known;            /* 0: the taskpool is not registered yet when the message arrives           */
    uint8_t  order;               /* which of the two delayed messages arrives first                          */
    uint8_t  envc[6];             /* delayed path: what the application thread does at each environment step  */
    int32_t  env[2];              /* pending actions added / removed by other threads before my atomic step   */
} vin;
#include "verif_vin.h"

static parsec_context_t ctx;
static parsec_taskpool_t tp;
static parsec_termdet_user_trigger_monitor_t mon;

/* ---- rely/guarantee hooks: other threads of this process may change tp.nb_pending_actions before my atomic
 * step.  Rely: while my own unit is outstanding the counter stays >= 1 (nobody else can bring it to 0). ---- */
static int     g_env_on, g_env_k;
static int     g_lin;            /* my linearisation points on tp.nb_pending_actions */
static int32_t g_pa_after;       /* counter value just after my atomic step           */
/* ---- rely/guarantee for the delayed-message path (job msg_dispatch.delayed.rg) ----
 * Shared: "taskpool registered" (parsec_taskpool_lookup), the monitor state, the delayed list (under its lock).
 * Rely: whenever I do NOT hold the delayed-list lock, the application thread may register the taskpool and may
 *       execute taskpool_ready() on it (the REAL function is run: NOT_READY -> BUSY, counts 'the tasks', scans the
 *       delayed list under the list lock and dispatches every queued message of this taskpool), once.
 *       While I hold the lock it can at most register the taskpool (its scan needs the lock). */
static int g_rg_delayed;         /* this mode is on                                              */
static int g_in_env;             /* the environment is running: its own atomics are not hook points */
static int g_tp_registered;
static int g_ready_done;         /* the application thread has executed taskpool_ready            */
static int g_envc_k;
static int g_holding;            /* I hold the delayed-list lock                                  */
static int g_holds;              /* number of my holds of the delayed-list lock                   */
static int g_len_at_lock;
static int g_appended;           /* number of my holds in which the list grew                     */
static int g_appended_when_ready;/* ... and the taskpool had already been made ready at the append */
static int delayed_len(void);
#define DELAYED_LOCK ((volatile void *)&parsec_termdet_user_trigger_delayed_messages.atomic_lock)
static void env_application_thread(void)
{
    if (g_envc_k >= 6) return;
    uint8_t c = vin.envc[g_envc_k++];
    if (c >= 1) g_tp_registered = 1;
    if (c >= 2 && !g_holding && !g_ready_done) {
        g_in_env = 1;
        parsec_termdet_user_trigger_taskpool_ready(&tp);
        g_in_env = 0;
        g_ready_done = 1;
    }
}

void verif_env_step(int op, volatile void *loc)
{
    (void)op;
    if (g_in_env) return;
    if (g_rg_delayed) { env_application_thread(); return; }
    if (g_env_on && loc == (volatile void *)&tp.nb_pending_actions && g_env_k < 2) {
        int32_t d = vin.env[g_env_k++];
        /* while my unit is outstanding nobody else can bring the counter to 0; afterwards it only stays >= 0 */
        V_ASSUME((int64_t)tp.nb_pending_actions + d >= (g_lin ? 0 : 1) && (int64_t)tp.nb_pending_actions + d <= INT32_MAX);
        tp.nb_pending_actions += d;
    }
}
void verif_own_step(int op, volatile void *loc, int success)
{
    if (g_in_env) return;
    if (loc == (volatile void *)&tp.nb_pending_actions && (op == V_OP_FETCH || (op == V_OP_CAS && success))) {
        g_lin++; g_pa_after = tp.nb_pending_actions;
    }
    if (g_rg_delayed && loc == DELAYED_LOCK) {
        if (op == V_OP_LOCK) { g_holding = 1; g_holds++; g_len_at_lock = delayed_len(); }
        if (op == V_OP_UNLOCK) {
            /* the instant at which an append of this hold becomes visible to the scanning thread */
            if (delayed_len() > g_len_at_lock) {
                g_appended++;
                if (g_tp_registered && tp.tdm.monitor != NULL && mon.state != PARSEC_TERMDET_USER_TRIGGER_NOT_READY)
                    g_appended_when_ready++;
            }
            g_holding = 0;
        }
    }
}

/* ---- stubs (trusted base): the callback of the taskpool and the engine behind parsec_ce.send_am ---- */
static void stub_cb(parsec_taskpool_t *t_) { g_cb_calls++; g_cb_tp_ok = (t_ == &tp); }
static int stub_send_am(parsec_comm_engine_t *ce, parsec_ce_tag_t tag, int dst, void *addr, size_t size)
{
    if (g_nsent < G_SLOTS) {
        g_dst[g_nsent] = dst; g_tag[g_nsent] = tag; g_size[g_nsent] = size; g_ce_ok[g_nsent] = (ce == &parsec_ce);
        g_msg_tp[g_nsent] = ((parsec_termdet_user_trigger_msg_t *)addr)->tp_id;
        g_msg_root[g_nsent] = ((parsec_termdet_user_trigger_msg_t *)addr)->root;
    }
    g_nsent++;
    return 0;
}

static void build(int32_t root, int state)
{
    ctx.nb_nodes = vin.n; ctx.my_rank = vin.me;
    tp.context = &ctx; tp.taskpool_id = vin.tp_id;
    tp.tdm.module = &parsec_termdet_user_trigger_module.module;
    tp.tdm.monitor = &mon; tp.tdm.callback = stub_cb;
    mon.root = root; mon.state = (parsec_termdet_user_trigger_state_t)state;
    parsec_ce.send_am = stub_send_am;
    g_nsent = 0; g_cb_calls = 0; g_cb_tp_ok = 0; g_env_on = 0; g_env_k = 0; g_lin = 0;
    g_rg_delayed = 0; g_in_env = 0; g_ready_done = 0; g_envc_k = 0; g_holding = 0; g_holds = 0; g_appended = 0; g_appended_when_ready = 0;
}

/* the property's own vocabulary: rank of x in the world shifted so that the trigger is 0 */
static int32_t sh_mod(int32_t x) { return (x - vin.root + vin.n) % vin.n; }
/* the same function for 0 <= x, root < n without a division (obligation C12.lemma.shift_closed_form_equals_modulo
 * proves the two equal on the whole domain); used in the specifications to keep the solver's work on the code's
 * own divisions */
static int32_t sh(int32_t x) { return x >= vin.root ? x - vin.root : x - vin.root + vin.n; }
/* "t is a child of me in the broadcast tree rooted at the trigger" */
static int is_child(int32_t t, int32_t me) { return sh(t) >= 1 && (sh(t) - 1) / 2 == sh(me); }

#define PRE_WORLD() V_ASSUME(1 <= vin.n && vin.n <= NMAX && 0 <= vin.root && vin.root < vin.n && \
                             0 <= vin.me && vin.me < vin.n && 0 <= vin.t && vin.t < vin.n)

/* ------------------------------------------------------------------------------------------------ */
/* (S) parsec_termdet_signal_termination: all n in 1..NMAX, all roots, all executing ranks, all t    */
/* ------------------------------------------------------------------------------------------------ */
void h_signal(void)
{
    vin_load();
    PRE_WORLD();
    build(vin.root, PARSEC_TERMDET_USER_TRIGGER_BUSY);

    parsec_termdet_signal_termination(&tp);

    V_ASSERT(mon.state == PARSEC_TERMDET_USER_TRIGGER_TERMINATED, "C12.signal_termination.post.state_terminated");
    V_ASSERT(mon.root == vin.root, "C12.signal_termination.post.root_unchanged");
    V_ASSERT(g_cb_calls == 1 && g_cb_tp_ok, "C12.signal_termination.post.callback_called_exactly_once_with_tp");
    V_ASSERT(g_nsent >= 0 && g_nsent <= 2, "C12.signal_termination.post.at_most_two_messages");
    int hits = 0;
    for (int i = 0; i < 2; i++) {
        if (i < g_nsent) {
            V_ASSERT(g_dst[i] >= 0 && g_dst[i] < vin.n, "C12.signal_termination.post.destination_is_a_rank_of_the_communicator");
            V_ASSERT(g_dst[i] != vin.me, "C12.signal_termination.post.no_message_to_self");
            V_ASSERT(g_dst[i] != vin.root, "C12.signal_termination.post.no_message_to_the_trigger");
            V_ASSERT(g_msg_tp[i] == vin.tp_id && g_msg_root[i] == vin.root, "C12.signal_termination.post.message_carries_tp_id_and_root");
            V_ASSERT(g_tag[i] == PARSEC_TERMDET_USER_TRIGGER_MSG_TAG && g_size[i] == sizeof(parsec_termdet_user_trigger_msg_t) && g_ce_ok[i],
                     "C12.signal_termination.post.sent_on_the_user_trigger_tag_with_full_size");
            if (g_dst[i] == vin.t) hits++;
        }
    }
    V_ASSERT(V_IMPLIES(g_nsent == 2, g_dst[0] != g_dst[1]), "C12.signal_termination.post.destinations_distinct");
    /* for the ghost target t (universally quantified): t is notified by me exactly when it is my child, and then once */
    V_ASSERT(V_IFF(hits >= 1, is_child(vin.t, vin.me)), "C12.signal_termination.post.t_is_destination_iff_child_of_me");
    V_ASSERT(hits <= 1, "C12.signal_termination.post.t_notified_at_most_once_by_me");
    V_CANARY("signal");
}

/* ------------------------------------------------------------------------------------------------ */
/* (L) lemma, loop-free, over the property's vocabulary only: the relation is_child is a tree rooted   */
/* at the trigger that spans [0,n)                                                                    */
/* ------------------------------------------------------------------------------------------------ */
void h_lemma_tree(void)
{
    vin_load();
    PRE_WORLD();
    V_ASSUME(0 <= vin.me2 && vin.me2 < vin.n);
    int32_t t = vin.t, a = vin.me, b = vin.me2;
    V_ASSERT(sh(t) == sh_mod(t), "C12.lemma.shift_closed_form_equals_modulo");
    V_ASSERT(sh(t) >= 0 && sh(t) < vin.n, "C12.lemma.shift_stays_in_range");
    V_ASSERT(V_IFF(sh(t) == 0, t == vin.root), "C12.lemma.shifted_rank_0_is_the_trigger");
    V_ASSERT(V_IMPLIES(sh(a) == sh(b), a == b), "C12.lemma.shift_is_injective");
    /* the trigger is in nobody's send set */
    V_ASSERT(!is_child(vin.root, a), "C12.lemma.trigger_is_nobodys_child");
    /* every other rank has a parent p, which is a rank of the communicator, ... */
    if (t != vin.root) {
        int32_t p = ((sh(t) - 1) / 2 + vin.root) % vin.n;
        V_ASSERT(p >= 0 && p < vin.n, "C12.lemma.parent_is_a_rank");
        V_ASSERT(is_child(t, p), "C12.lemma.every_non_trigger_rank_has_a_parent");
        /* ... strictly closer to the trigger (induction on sh: the parent was itself reached, no cycle) */
        V_ASSERT(sh(p) < sh(t), "C12.lemma.parent_is_strictly_closer_to_the_trigger");
        V_ASSERT(p != t, "C12.lemma.parent_differs_from_child");
    }
    /* ... and only one: two senders having t in their send sets are the same process */
    V_ASSERT(V_IMPLIES(is_child(t, a) && is_child(t, b), a == b), "C12.lemma.at_most_one_parent");
    /* depth bound: the shifted rank at least halves (+1) at each hop, so at most 12 hops for n <= 4096 */
    V_ASSERT(V_IMPLIES(is_child(t, a), 2 * sh(a) + 1 <= sh(t) && sh(t) <= 2 * sh(a) + 2), "C12.lemma.child_ranks_are_2p_plus_1_and_2p_plus_2");
    V_CANARY("lemma_tree");
}

/* ------------------------------------------------------------------------------------------------ */
/* (D) the receiving side and the counter: (S) is replaced by its contract (g_cb_calls counts its       */
/* executions); parsec_termdet_signal_termination's contract is discharged by job signal.*            */
/* ------------------------------------------------------------------------------------------------ */
#define PRE_COUNTER() do { V_ASSUME(1 <= vin.n && vin.n <= NMAX && 0 <= vin.me && vin.me < vin.n); } while (0)

/* message arrives at a process whose taskpool is known and BUSY (the code's own asserts: state != TERMINATED,
 * root unknown; msg_dispatch only gets here when state != NOT_READY) */
void h_dispatch(void)
{
    vin_load();
    PRE_COUNTER();
    V_ASSUME(0 <= vin.msg_root && vin.msg_root < vin.n);          /* (S) only sends roots that are ranks       */
    V_ASSUME(vin.pa >= 1);                                          /* taskpool_ready counted 'the tasks'        */
    build(PARSEC_TERMDET_USER_TRIGGER_UNKNOWN_RANK, PARSEC_TERMDET_USER_TRIGGER_BUSY);
    tp.nb_tasks = PARSEC_UNDETERMINED_NB_TASKS; tp.nb_pending_actions = vin.pa;
    g_env_on = 1;
    parsec_termdet_user_trigger_msg_t m; m.tp_id = vin.msg_tp; m.root = vin.msg_root;

    int rc = parsec_termdet_user_trigger_msg_dispatch_taskpool(&tp, &parsec_ce, PARSEC_TERMDET_USER_TRIGGER_MSG_TAG,
                                                               &m, sizeof(m), 0, NULL);

    V_ASSERT(rc == PARSEC_SUCCESS, "C12.msg_dispatch_taskpool.post.returns_success");
    V_ASSERT(mon.root == vin.msg_root, "C12.msg_dispatch_taskpool.post.stores_the_received_root");
    V_ASSERT(tp.nb_tasks == 0, "C12.msg_dispatch_taskpool.post.nb_tasks_set_to_0");
    V_ASSERT(g_lin == 1, "C12.msg_dispatch_taskpool.post.exactly_one_decrement_of_pending_actions");
    V_ASSERT(V_IFF(g_cb_calls == 1, g_pa_after == 0) && g_cb_calls <= 1,
             "C12.msg_dispatch_taskpool.post.signals_once_iff_pending_actions_reach_0");
    V_ASSERT(V_IFF(g_cb_calls == 1, mon.state == PARSEC_TERMDET_USER_TRIGGER_TERMINATED) &&
             V_IFF(g_cb_calls == 0, mon.state == PARSEC_TERMDET_USER_TRIGGER_BUSY),
             "C12.msg_dispatch_taskpool.post.terminated_iff_signalled_else_still_busy");
    V_CANARY("dispatch");
}

/* the user triggers termination on this process: set_nb_tasks(tp, v) */
void h_set_nb_tasks(void)
{
    vin_load();
    PRE_COUNTER();
    V_ASSUME(vin.pa >= 1);
    /* root: unknown (I am the trigger) or a rank received earlier */
    V_ASSUME(vin.msg_root == PARSEC_TERMDET_USER_TRIGGER_UNKNOWN_RANK || (0 <= vin.msg_root && vin.msg_root < vin.n));
    build(vin.msg_root, PARSEC_TERMDET_USER_TRIGGER_BUSY);
    tp.nb_tasks = vin.nb_tasks0; tp.nb_pending_actions = vin.pa;
    g_env_on = 1;

    int32_t r = parsec_termdet_user_trigger_taskpool_set_nb_tasks(&tp, vin.v);

    if (vin.v != 0) {
        V_ASSERT(g_cb_calls == 0 && g_lin == 0 && mon.root == vin.msg_root && mon.state == PARSEC_TERMDET_USER_TRIGGER_BUSY &&
                 tp.nb_tasks == vin.nb_tasks0 && r == vin.nb_tasks0, "C12.set_nb_tasks.post.nonzero_value_is_ignored");
    } else {
        V_ASSERT(mon.root == (vin.msg_root == PARSEC_TERMDET_USER_TRIGGER_UNKNOWN_RANK ? vin.me : vin.msg_root),
                 "C12.set_nb_tasks.post.unknown_root_becomes_my_rank_known_root_kept");
        V_ASSERT(tp.nb_tasks == 0 && r == 0, "C12.set_nb_tasks.post.nb_tasks_set_to_0");
        V_ASSERT(g_lin == 1, "C12.set_nb_tasks.post.exactly_one_decrement_of_pending_actions");
        V_ASSERT(V_IFF(g_cb_calls == 1, g_pa_after == 0) && g_cb_calls <= 1,
                 "C12.set_nb_tasks.post.signals_once_iff_pending_actions_reach_0");
    }
    V_CANARY("set_nb_tasks");
}

/* addto_runtime_actions in ANY monitor state, any v, any counter: (S) runs iff BUSY and the counter reaches 0 */
void h_addto(void)
{
    vin_load();
    PRE_COUNTER();
    V_ASSUME(vin.state <= PARSEC_TERMDET_USER_TRIGGER_TERMINATED);
    V_ASSUME(vin.msg_root == PARSEC_TERMDET_USER_TRIGGER_UNKNOWN_RANK || (0 <= vin.msg_root && vin.msg_root < vin.n));
    /* the contract of (S) needs a known root: in state BUSY with the counter able to reach 0 the root is known,
     * because the unit counted by taskpool_ready is only released by set_nb_tasks(0), which sets the root first */
    V_ASSUME(vin.msg_root != PARSEC_TERMDET_USER_TRIGGER_UNKNOWN_RANK);
    build(vin.msg_root, vin.state);
    tp.nb_pending_actions = vin.pa;

    int32_t r = parsec_termdet_user_trigger_taskpool_addto_runtime_actions(&tp, vin.v);

    V_ASSERT(tp.nb_pending_actions == (int32_t)((uint32_t)vin.pa + (uint32_t)vin.v) && r == tp.nb_pending_actions,
             "C12.addto_runtime_actions.post.counter_updated_and_returned");
    V_ASSERT(g_lin == (vin.v != 0), "C12.addto_runtime_actions.post.one_atomic_step_unless_v_is_0");
    V_ASSERT(V_IFF(g_cb_calls == 1, vin.state == PARSEC_TERMDET_USER_TRIGGER_BUSY && vin.v != 0 &&
                                    (int32_t)((uint32_t)vin.pa + (uint32_t)vin.v) == 0) && g_cb_calls <= 1,
             "C12.addto_runtime_actions.post.signals_once_iff_busy_and_counter_reaches_0");
    V_ASSERT(V_IMPLIES(vin.state == PARSEC_TERMDET_USER_TRIGGER_TERMINATED, g_cb_calls == 0 && g_nsent == 0),
             "C12.addto_runtime_actions.post.never_signals_again_once_terminated");
    V_ASSERT(V_IMPLIES(vin.state == PARSEC_TERMDET_USER_TRIGGER_NOT_READY, g_cb_calls == 0 && g_nsent == 0),
             "C12.addto_runtime_actions.post.never_signals_before_ready");
    V_ASSERT(mon.root == vin.msg_root, "C12.addto_runtime_actions.post.root_unchanged");
    V_CANARY("addto");
}

/* set_runtime_actions: same gate (no interference: its CAS loop is unbounded under interference) */
void h_set_actions(void)
{
    vin_load();
    PRE_COUNTER();
    V_ASSUME(vin.state <= PARSEC_TERMDET_USER_TRIGGER_TERMINATED);
    V_ASSUME(0 <= vin.msg_root && vin.msg_root < vin.n);
    build(vin.msg_root, vin.state);
    tp.nb_pending_actions = vin.pa;

    int32_t r = parsec_termdet_user_trigger_taskpool_set_runtime_actions(&tp, vin.v);

    V_ASSERT(tp.nb_pending_actions == vin.v && r == vin.v, "C12.set_runtime_actions.post.counter_set_and_returned");
    V_ASSERT(V_IFF(g_cb_calls == 1, vin.state == PARSEC_TERMDET_USER_TRIGGER_BUSY && vin.v == 0) && g_cb_calls <= 1,
             "C12.set_runtime_actions.post.signals_once_iff_busy_and_set_to_0");
    V_CANARY("set_actions");
}

/* two decrements in a row on one process with the REAL (S): the second can never send or call back again
 * (exactly-once per process, concrete composition of the gate and of the TERMINATED state; small world) */
void h_twice(void)
{
    vin_load();
    PRE_WORLD();
    V_ASSUME(vin.state <= PARSEC_TERMDET_USER_TRIGGER_TERMINATED);
    build(vin.root, vin.state);
    tp.nb_pending_actions = vin.pa;
    parsec_termdet_user_trigger_taskpool_addto_runtime_actions(&tp, vin.v);
    int sent1 = g_nsent, cb1 = g_cb_calls;
    parsec_termdet_user_trigger_taskpool_addto_runtime_actions(&tp, vin.env[0]);
    parsec_termdet_user_trigger_taskpool_set_runtime_actions(&tp, vin.env[1]);
    V_ASSERT(g_cb_calls <= 1 && g_nsent <= 2, "C12.addto_runtime_actions.post.at_most_one_broadcast_per_process_over_three_calls");
    V_ASSERT(V_IMPLIES(cb1 == 1, g_nsent == sent1 && g_cb_calls == 1), "C12.addto_runtime_actions.post.no_second_broadcast_after_the_first");
    V_CANARY("twice");
}

/* ------------------------------------------------------------------------------------------------ */
/* public receive entry parsec_termdet_user_trigger_msg_dispatch + taskpool_ready (delayed messages)  */
/* ------------------------------------------------------------------------------------------------ */
/* stub (trusted base; taskpool id resolution is property C37) */
parsec_taskpool_t *parsec_taskpool_lookup(uint32_t id) { return (g_tp_registered && id == tp.taskpool_id) ? &tp : NULL; }

static void empty_delayed_list(void)   /* pre-state: the list as parsec_list_t's constructor leaves it */
{
    parsec_list_t *l = &parsec_termdet_user_trigger_delayed_messages;
    l->ghost_element.list_next = &l->ghost_element; l->ghost_element.list_prev = &l->ghost_element;
    parsec_atomic_lock_init(&l->atomic_lock);
}
static int delayed_len(void)
{
    parsec_list_t *l = &parsec_termdet_user_trigger_delayed_messages;
    int k = 0;
    for (parsec_list_item_t *it = (parsec_list_item_t *)l->ghost_element.list_next; it != &l->ghost_element && k < 4;
         it = (parsec_list_item_t *)it->list_next) k++;
    return k;
}

/* the message arrives when the taskpool is registered and BUSY: handled at once, nothing is queued */
void h_msg_direct(void)
{
    vin_load();
    PRE_COUNTER();
    V_ASSUME(0 <= vin.msg_root && vin.msg_root < vin.n && vin.pa >= 1);
    build(PARSEC_TERMDET_USER_TRIGGER_UNKNOWN_RANK, PARSEC_TERMDET_USER_TRIGGER_BUSY);
    tp.nb_tasks = PARSEC_UNDETERMINED_NB_TASKS; tp.nb_pending_actions = vin.pa;
    g_tp_registered = 1; empty_delayed_list();
    parsec_termdet_user_trigger_msg_t m; m.tp_id = vin.tp_id; m.root = vin.msg_root;

    int rc = parsec_termdet_user_trigger_msg_dispatch(&parsec_ce, PARSEC_TERMDET_USER_TRIGGER_MSG_TAG, &m, sizeof(m), 0, NULL);

    V_ASSERT(rc == PARSEC_SUCCESS && delayed_len() == 0, "C12.msg_dispatch.post.known_busy_taskpool_handled_at_once_nothing_queued");
    V_ASSERT(mon.root == vin.msg_root && tp.nb_tasks == 0, "C12.msg_dispatch.post.stores_the_received_root");
    V_ASSERT(tp.nb_pending_actions == vin.pa - 1 && g_lin == 1, "C12.msg_dispatch.post.exactly_one_decrement_of_pending_actions");
    V_ASSERT(V_IFF(g_cb_calls == 1, vin.pa == 1) && g_cb_calls <= 1, "C12.msg_dispatch.post.signals_once_iff_pending_actions_reach_0");
    V_CANARY("msg_direct");
}

/* the message arrives before the taskpool is registered / ready: it is queued, nothing is signalled; when the
 * taskpool becomes ready it is handled exactly once and removed, a message of another taskpool stays queued.
 * History from the empty list, two delayed messages (this taskpool's and another one's) in either order. */
void h_msg_delayed(void)
{
    vin_load();
    PRE_COUNTER();
    V_ASSUME(0 <= vin.msg_root && vin.msg_root < vin.n && vin.pa >= 0 && vin.pa < INT32_MAX);
    V_ASSUME(vin.other_tp != vin.tp_id);
    build(PARSEC_TERMDET_USER_TRIGGER_UNKNOWN_RANK, PARSEC_TERMDET_USER_TRIGGER_NOT_READY);
    tp.nb_tasks = PARSEC_UNDETERMINED_NB_TASKS; tp.nb_pending_actions = vin.pa;
    g_tp_registered = vin.tp_known != 0; empty_delayed_list();
    parsec_termdet_user_trigger_msg_t mine, other;
    mine.tp_id = vin.tp_id; mine.root = vin.msg_root; other.tp_id = vin.other_tp; other.root = vin.other_root;

    int rc1 = parsec_termdet_user_trigger_msg_dispatch(&parsec_ce, PARSEC_TERMDET_USER_TRIGGER_MSG_TAG,
                                                       vin.order ? &mine : &other, sizeof(mine), 0, NULL);
    int rc2 = parsec_termdet_user_trigger_msg_dispatch(&parsec_ce, PARSEC_TERMDET_USER_TRIGGER_MSG_TAG,
                                                       vin.order ? &other : &mine, sizeof(mine), 0, NULL);
    mine.root = -7; mine.tp_id = vin.other_tp;      /* the engine reuses its receive buffer: the queue must hold a copy */
    V_ASSERT(rc1 == PARSEC_SUCCESS && rc2 == PARSEC_SUCCESS && delayed_len() == 2, "C12.msg_dispatch.post.early_message_is_queued");
    V_ASSERT(g_cb_calls == 0 && g_nsent == 0 && g_lin == 0 && mon.root == PARSEC_TERMDET_USER_TRIGGER_UNKNOWN_RANK &&
             mon.state == PARSEC_TERMDET_USER_TRIGGER_NOT_READY, "C12.msg_dispatch.post.early_message_signals_nothing");

    g_tp_registered = 1;
    int rc3 = parsec_termdet_user_trigger_taskpool_ready(&tp);

    V_ASSERT(rc3 == PARSEC_SUCCESS && mon.root == vin.msg_root && tp.nb_tasks == 0, "C12.taskpool_ready.post.delayed_message_handled_with_its_root");
    V_ASSERT(tp.nb_pending_actions == vin.pa && g_lin == 2, "C12.taskpool_ready.post.counts_the_tasks_then_releases_them_once");
    V_ASSERT(V_IFF(g_cb_calls == 1, vin.pa == 0) && g_cb_calls <= 1, "C12.taskpool_ready.post.signals_once_iff_pending_actions_reach_0");
    V_ASSERT(V_IFF(g_cb_calls == 0, mon.state == PARSEC_TERMDET_USER_TRIGGER_BUSY), "C12.taskpool_ready.post.busy_unless_signalled");
    V_ASSERT(delayed_len() == 1, "C12.taskpool_ready.post.own_message_removed_other_taskpools_message_kept");
    {
        parsec_termdet_user_trigger_delayed_msg_t *d = (parsec_termdet_user_trigger_delayed_msg_t *)
            parsec_termdet_user_trigger_delayed_messages.ghost_element.list_next;
        V_ASSERT(((parsec_termdet_user_trigger_msg_t *)d->msg)->tp_id == vin.other_tp &&
                 ((parsec_termdet_user_trigger_msg_t *)d->msg)->root == vin.other_root, "C12.taskpool_ready.post.kept_message_is_intact");
    }
    V_CANARY("msg_delayed");
}

/* composition of (D) and (S) on the REAL bodies (no contract replacement): a process that receives the message with its
 * last pending action forwards it down the tree rooted at the RECEIVED root (not at itself), for all n <= NMAX */
void h_forward(void)
{
    vin_load();
    PRE_WORLD();
    V_ASSUME(vin.msg_root == vin.root && vin.pa >= 1);     /* is_child() speaks about vin.root */
    build(PARSEC_TERMDET_USER_TRIGGER_UNKNOWN_RANK, PARSEC_TERMDET_USER_TRIGGER_BUSY);
    tp.nb_tasks = PARSEC_UNDETERMINED_NB_TASKS; tp.nb_pending_actions = vin.pa;
    parsec_termdet_user_trigger_msg_t m; m.tp_id = vin.tp_id; m.root = vin.msg_root;

    parsec_termdet_user_trigger_msg_dispatch_taskpool(&tp, &parsec_ce, PARSEC_TERMDET_USER_TRIGGER_MSG_TAG, &m, sizeof(m), 0, NULL);

    int hits = 0;
    for (int i = 0; i < 2; i++)
        if (i < g_nsent) {
            V_ASSERT(g_msg_root[i] == vin.msg_root && g_msg_tp[i] == vin.tp_id, "C12.msg_dispatch_taskpool.post.forwards_the_received_root_and_tp_id");
            if (g_dst[i] == vin.t) hits++;
        }
    V_ASSERT(g_nsent <= 2 && V_IMPLIES(vin.pa > 1, g_nsent == 0 && g_cb_calls == 0), "C12.msg_dispatch_taskpool.post.no_forwarding_while_actions_are_pending");
    V_ASSERT(V_IMPLIES(vin.pa == 1, hits == (is_child(vin.t, vin.me) ? 1 : 0) && g_cb_calls == 1),
             "C12.msg_dispatch_taskpool.post.forwards_exactly_to_my_children_in_the_senders_tree");
    V_CANARY("forward");
}

/* ------------------------------------------------------------------------------------------------ */
/* delayed path under interference: the communication thread runs msg_dispatch while the application  */
/* thread registers the taskpool and makes it ready (real taskpool_ready) at any point where the      */
/* delayed-list lock is free.  The notification must be handled exactly once whatever the timing.     */
/* ------------------------------------------------------------------------------------------------ */
void h_msg_delayed_rg(void)
{
    vin_load();
    PRE_COUNTER();
    V_ASSUME(0 <= vin.msg_root && vin.msg_root < vin.n && vin.pa >= 0 && vin.pa <= 1000);
    build(PARSEC_TERMDET_USER_TRIGGER_UNKNOWN_RANK, PARSEC_TERMDET_USER_TRIGGER_NOT_READY);
    tp.nb_tasks = PARSEC_UNDETERMINED_NB_TASKS; tp.nb_pending_actions = vin.pa;
    g_tp_registered = 0; empty_delayed_list();
    g_rg_delayed = 1;
    parsec_termdet_user_trigger_msg_t m; m.tp_id = vin.tp_id; m.root = vin.msg_root;

    env_application_thread();                 /* symbolic pre-state: unknown / registered / already ready */
    int ready_before = g_ready_done;
    int rc = parsec_termdet_user_trigger_msg_dispatch(&parsec_ce, PARSEC_TERMDET_USER_TRIGGER_MSG_TAG, &m, sizeof(m), 0, NULL);
    int queued = g_appended, handled_directly = (tp.nb_tasks == 0) && !queued;

    V_ASSERT(rc == PARSEC_SUCCESS && g_holding == 0, "C12.msg_dispatch.post.returns_success_with_the_list_lock_released");
    V_ASSERT(g_appended_when_ready == 0, "C12.msg_dispatch.guar.message_queued_only_while_not_ready_under_the_same_lock_hold");
    V_ASSERT(g_appended <= 1 && V_IMPLIES(g_appended == 1, delayed_len() == 1 || g_ready_done),
             "C12.msg_dispatch.guar.message_queued_at_most_once");
    V_ASSERT(V_IMPLIES(ready_before, !queued && g_holds == 0), "C12.msg_dispatch.post.ready_taskpool_never_queues");
    V_ASSERT(queued || tp.nb_tasks == 0, "C12.msg_dispatch.post.message_is_queued_or_dispatched_never_dropped");
    V_ASSERT(!(queued && !g_ready_done && tp.nb_tasks == 0), "C12.msg_dispatch.post.message_not_both_queued_and_dispatched");
    (void)handled_directly;

    /* the application thread eventually makes the taskpool ready (assumption of the property), if it has not yet */
    if (!g_ready_done) {
        g_tp_registered = 1; g_in_env = 1;
        parsec_termdet_user_trigger_taskpool_ready(&tp);
        g_in_env = 0; g_ready_done = 1;
    }
    /* exactly one handling of the notification on this process: 'the tasks' counted once (+1) and released once (-1) */
    V_ASSERT(tp.nb_pending_actions == vin.pa, "C12.msg_dispatch.guar.notification_handled_exactly_once_whatever_the_timing");
    V_ASSERT(mon.root == vin.msg_root && tp.nb_tasks == 0, "C12.msg_dispatch.guar.received_root_stored_whatever_the_timing");
    V_ASSERT(delayed_len() == 0, "C12.msg_dispatch.guar.no_notification_left_in_the_queue_of_a_ready_taskpool");
    V_ASSERT(g_cb_calls == (vin.pa == 0 ? 1 : 0), "C12.msg_dispatch.guar.broadcast_runs_once_iff_no_other_action_pending");
    V_CANARY("msg_delayed_rg");
}
