from vlib import Job

SIG = "parsec_termdet_signal_termination"

META = dict(
    level="proof",
    functions=[SIG,
               "parsec_termdet_user_trigger_msg_dispatch_taskpool",
               "parsec_termdet_user_trigger_msg_dispatch",
               "parsec_termdet_user_trigger_taskpool_set_nb_tasks",
               "parsec_termdet_user_trigger_taskpool_addto_runtime_actions",
               "parsec_termdet_user_trigger_taskpool_set_runtime_actions",
               "parsec_termdet_user_trigger_taskpool_ready"],
    explanation="Contracts on the real termdet_user_trigger_module.c. (S) parsec_termdet_signal_termination, for every communicator "
                "size n in 1..4096, every triggering rank, every executing rank `me` and every ghost target rank t (all symbolic in one "
                "query, the code's loop of <= 2 iterations unwound completely): state becomes TERMINATED, the taskpool callback runs exactly "
                "once, at most two active messages are handed to parsec_ce.send_am, to pairwise distinct ranks of [0,n) other than `me` and "
                "other than the trigger, each carrying (taskpool id, root) on the user-trigger tag, and t is a destination <=> sh(t) >= 1 and "
                "(sh(t)-1)/2 == sh(me), at most once, where sh(x) = (x - root + n) % n.  The contract of (S) (frame included) is enforced "
                "with goto-instrument --dfcc; the named postconditions are asserted after the call.  (L) a loop-free lemma over the same "
                "vocabulary, same domain: the relation 'child of' has exactly one parent for every rank other than the trigger, none for the "
                "trigger, and the parent is strictly closer to the trigger (induction on sh is the meta-step: every rank is reached, by exactly "
                "one sender, the trigger by none).  (D) the receiving side: msg_dispatch_taskpool / msg_dispatch store the received root and "
                "release the task count once; set_nb_tasks(0) makes an unknown root my rank; addto_/set_runtime_actions execute (S) exactly when "
                "the counter reaches 0 in state BUSY, in any monitor state, for any counter value and argument, also under interference of "
                "other threads on the counter (rely: it stays >= 1 while my unit is outstanding); in these jobs (S) is replaced by its "
                "contract (--replace-call-with-contract, its requires checked at the call sites).  Since (S) leaves the state TERMINATED and "
                "every path to (S) requires BUSY, a process broadcasts at most once (job once_per_process: three consecutive counter calls with the real (S); job dispatch.forward composes receive and broadcast on the real bodies).  "
                "The delayed-message path (message arrives before the taskpool is ready) is checked from the empty list with two queued "
                "messages: a bounded stand-in, reported as bounded.",
    trusted_base=["stub behind parsec_ce.send_am: records (engine, tag, destination, payload, size) in ghost arrays and returns; delivery of "
                  "a handed-over message exactly once to the destination's parsec_termdet_user_trigger_msg_dispatch is the engine's job (C14)",
                  "stub installed as tp->tdm.callback (counts its calls)",
                  "stub parsec_taskpool_lookup (returns the harness taskpool for its id once registered, else NULL; id resolution is C37)",
                  "the delayed-message list's initial state is written by the harness as the empty ring parsec_list_t's constructor produces",
                  "rely/guarantee soundness theorem for the pending-action counter (per-thread obligations imply the claim for every interleaving)",
                  "meta-step: induction on the shifted rank sh(t) from the lemma's obligations to 'every rank is reached exactly once'"],
    assumptions=["every process of the communicator monitors the taskpool with this module, uses the same communicator size and numbering, and "
                 "its pending-action counter eventually reaches 0 after the message is handled (liveness of local work is not claimed)",
                 "exactly one process triggers (the module's documented usage: 'one task and one task only calls set_nb_tasks(0)'); two "
                 "concurrent triggers are outside the property and are not examined",
                 "when the counter reaches 0 in state BUSY the root is known (the unit counted by taskpool_ready is only released by "
                 "set_nb_tasks(0), which sets the root first); restated as requires 0 <= root < n of (S) and checked at its call sites in "
                 "dispatch / set_nb_tasks, assumed in the stand-alone addto_/set_runtime_actions jobs",
                 "the code's asserts in msg_dispatch_taskpool / set_nb_tasks (state BUSY, root unknown, nb_tasks undetermined on receipt) "
                 "are restated as preconditions of those jobs",
                 "malloc does not fail in msg_dispatch (the code does not test the result)",
                 "delayed path (job msg_dispatch.delayed.rg), rely: the application thread registers the taskpool and runs taskpool_ready "
                 "only at points where the communication thread does not hold the delayed-list lock, at most once, and eventually does so"],
)


def jobs(tier):
    full = tier == "thorough"
    K = "kissat"
    J = [
        # (S): complete over the property's domain n <= 4096 in both tiers (kissat: ~10 s)
        Job("signal.contract", "h_ut.c", entry="h_signal", enforce=SIG, unwind=3, solver=K,
            functions=[SIG], timeout=900, min_obligations=16),
        Job("lemma.tree", "h_ut.c", entry="h_lemma_tree", unwind=2, solver=K, functions=[], timeout=900, min_obligations=11),
        # (D): (S) replaced by its contract
        Job("dispatch_taskpool.rg", "h_ut.c", entry="h_dispatch", replace=[SIG], unwind=3,
            functions=["parsec_termdet_user_trigger_msg_dispatch_taskpool", "parsec_termdet_user_trigger_taskpool_set_nb_tasks",
                       "parsec_termdet_user_trigger_taskpool_addto_runtime_actions"], timeout=300, min_obligations=6),
        Job("set_nb_tasks.rg", "h_ut.c", entry="h_set_nb_tasks", replace=[SIG], unwind=3,
            functions=["parsec_termdet_user_trigger_taskpool_set_nb_tasks", "parsec_termdet_user_trigger_taskpool_addto_runtime_actions"],
            timeout=300, min_obligations=5),
        Job("addto_runtime_actions", "h_ut.c", entry="h_addto", replace=[SIG], unwind=3,
            functions=["parsec_termdet_user_trigger_taskpool_addto_runtime_actions"], timeout=300, min_obligations=6),
        Job("set_runtime_actions", "h_ut.c", entry="h_set_actions", replace=[SIG], unwind=3,
            functions=["parsec_termdet_user_trigger_taskpool_set_runtime_actions"], timeout=300, min_obligations=2),
        Job("msg_dispatch.direct", "h_ut.c", entry="h_msg_direct", replace=[SIG], unwind=5,
            functions=["parsec_termdet_user_trigger_msg_dispatch", "parsec_termdet_user_trigger_msg_dispatch_taskpool"],
            timeout=300, min_obligations=4),
        # real (S), three counter calls in a row on one process: at most one broadcast
        Job("once_per_process", "h_ut.c", entry="h_twice", unwind=3, solver=K,
            functions=["parsec_termdet_user_trigger_taskpool_addto_runtime_actions",
                       "parsec_termdet_user_trigger_taskpool_set_runtime_actions", SIG], timeout=600, min_obligations=2),
        # (D)+(S) composed on the real bodies: the received root, not my rank, roots the forwarded broadcast
        Job("dispatch.forward", "h_ut.c", entry="h_forward", unwind=3, solver=K,
            functions=["parsec_termdet_user_trigger_msg_dispatch_taskpool", SIG], timeout=600, min_obligations=3),
        # delayed messages: list shape / history bounded (stand-in)
        Job("msg_dispatch.delayed", "h_ut.c", entry="h_msg_delayed", unwind=5,
            bounded="delayed-message list: history from the empty list, exactly two queued messages (this taskpool's and another "
                    "taskpool's, either order), one taskpool becoming ready",
            functions=["parsec_termdet_user_trigger_msg_dispatch", "parsec_termdet_user_trigger_taskpool_ready",
                       "parsec_termdet_user_trigger_msg_dispatch_taskpool"], timeout=600, min_obligations=8),
        # delayed path under interference of the application thread (register / real taskpool_ready at every point
        # where the delayed-list lock is free): the notification is handled exactly once whatever the timing
        Job("msg_dispatch.delayed.rg", "h_ut.c", entry="h_msg_delayed_rg", unwind=5,
            bounded="delayed-message list starts empty and holds at most this one notification; the application thread's "
                    "taskpool_ready is atomic w.r.t. the list lock (state change and scan in one environment step)",
            functions=["parsec_termdet_user_trigger_msg_dispatch", "parsec_termdet_user_trigger_taskpool_ready",
                       "parsec_termdet_user_trigger_msg_dispatch_taskpool"], timeout=600, min_obligations=10),
    ]
    if full:
        # second back end (MiniSat) on the two arithmetic jobs: a disagreement shows up as a failed / undecided job
        J.append(Job("signal.contract.minisat", "h_ut.c", entry="h_signal", enforce=SIG, unwind=3,
                     functions=[SIG], timeout=1500, min_obligations=16))
    return J


MANIFEST = dict(
    category="proof",
    text="Every obligation of the contract of parsec_termdet_signal_termination (destinations of the binary broadcast tree rooted at the "
         "trigger: in range, distinct, not self, not the trigger, payload (tp_id, root), and 't is a destination iff t is a child of me' for "
         "a universally quantified t) is discharged by CBMC on the real code for all communicator sizes 1..4096, all roots and all executing "
         "ranks in one symbolic query (loop of <= 2 iterations unwound completely), together with a loop-free lemma on the same domain that "
         "the child relation gives every non-trigger rank exactly one parent that is strictly closer to the trigger and gives the trigger "
         "none; the receive / counter functions are proved to run the broadcast exactly when the pending-action counter reaches 0 in state "
         "BUSY and never again once TERMINATED, for all counter values and monitor states.  Complete over the property's own domain, hence "
         "proof; the delayed-message queue is a bounded stand-in reported separately.",
    note="Not decided: delivery by the communication engine (send_am is a recording stub; C14), liveness (that each reached process's "
         "counter does reach 0), two processes triggering at once, behaviour when the root is still unknown at the moment the counter reaches "
         "0, malloc failure in msg_dispatch.  The step from the per-call contracts + lemma to 'every process receives exactly one "
         "notification' is induction on the shifted rank (meta-step, not mechanised).  Delayed-message handling only for two queued messages "
         "from the empty list (the list code itself is C31).  Interference on the pending-action counter is modelled for addto (one atomic "
         "step); set_runtime_actions' CAS loop is checked without interference.",
    technique="function contracts on the real termdet_user_trigger_module.c, goto-instrument --dfcc (enforce + replace-call-with-contract), "
              "ghost send log, rely/guarantee hooks on the atomic counter, CBMC with kissat / MiniSat, complete unwinding",
    design_ref="DESIGN.md section 5, C12")
