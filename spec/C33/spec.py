from vlib import Job

FUNCS = ["parsec_atomic_rwlock_init", "parsec_atomic_rwlock_rdlock", "parsec_atomic_rwlock_rdunlock",
         "parsec_atomic_rwlock_wrlock", "parsec_atomic_rwlock_wrunlock"]
META = dict(
    level="other",
    functions=FUNCS,
    explanation="Partial decision of C33 on the real ticket (phase-fair) lock: (1) call-atomic inductive step over the abstract state "
                "(R readers, W writers inside) for ALL 32-bit values of the four ticket counters, wrap-around included: each "
                "operation started in a well-formed state with its abstract precondition returns without waiting and re-establishes "
                "well-formedness with the expected abstract state, and well-formedness contains the exclusion clause !(W && R), W<=1; "
                "(2) blocked-entry obligations: in every well-formed state with a writer inside, rdlock and wrlock cannot return; "
                "with readers inside, wrlock cannot return; once a writer has announced itself, a newly arriving reader cannot "
                "return (frozen environment; the wait conditions read shared words only, so true once means true until another "
                "thread acts).  The interleaving-level argument (waiting threads, several announced writers) and every "
                "progress/fairness clause are NOT decided.",
    trusted_base=["nanosleep is bodyless (never reached: the spin count stays below 1000 in every explored path)"],
    assumptions=["call-atomic histories: nobody is waiting at call boundaries (no thread is between its ticket draw and its entry)",
                 "sequentially consistent atomics"],
)
MANIFEST = dict(
    category="other",
    text="Function contracts over ghost reader/writer counts on the real parsec_rwlock.c (TICKET branch as configured), discharged by "
         "CBMC for all 32-bit counter values: exclusion is an inductive invariant of call-atomic histories and the wait conditions "
         "are proved to hold (entry is blocked) in every conflicting state. This is a partial decision: not a linearizability or "
         "progress proof.",
    note="Not decided: interleavings at atomic-step granularity with several waiting threads, and the whole progress/fairness clause "
         "('every waiting thread eventually acquires it'). CBMC's thread mode is unusable on this code (DESIGN 2.6) and the phase-fair "
         "invariant with per-waiter ghost state is a protocol proof outside per-function contracts.",
    technique="pre/post contracts + inductive abstract-state invariant on the real rwlock code, CBMC (SAT), frozen-environment blocked-entry obligations",
    design_ref="DESIGN.md section 5, C33")

def jobs(tier):
    J = []
    for e, n in (("h_init", 1), ("h_rdlock_free", 1), ("h_rdunlock", 1), ("h_wrlock_free", 2), ("h_wrunlock", 1), ("h_roundtrip", 3)):
        J.append(Job(e[2:], "h_rwlock.c", entry=e, unwind=1, functions=FUNCS, timeout=300, min_obligations=n))
    for e in ("h_rdlock_blocked", "h_wrlock_blocked_by_writer", "h_wrlock_blocked_by_readers", "h_rdlock_blocked_by_waiting_writer"):
        J.append(Job(e[2:], "h_rwlock.c", entry=e, unwind=4, unwinding_assertions=False, functions=FUNCS, timeout=300,
                     min_obligations=1, replay=False))
    return J
