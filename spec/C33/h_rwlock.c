/* C33 (partial): call-atomic contracts and blocked-entry obligations on the real
 * ticket (phase-fair) read-write lock of parsec/class/parsec_rwlock.c.
 *
 * Abstract state: R readers inside, W in {0,1} writers inside (ghost).
 * wf(L,R,W) at call boundaries of call-atomic histories (nobody is waiting):
 *   !(W && R)                          -- the property's exclusion clause
 *   (rin & 0xFF) == (W ? PRES|((win-1)&PHID) : 0)
 *   rout & 0xFF == 0
 *   (rin>>8) - (rout>>8) == R   (mod 2^24)
 *   win - wout == W             (mod 2^32)
 * All four 32-bit counters are otherwise arbitrary (wrap-around included).
 */
#include "verif.h"
#define VERIF_RG_POST_STEP   /* environment also acts after each of my atomic operations */
#include "verif_rg.h"
#include "parsec/class/parsec_rwlock.c"

#if PARSEC_RWLOCK_IMPL != PARSEC_RWLOCK_IMPL_TICKET
#error "C33 contracts are written for the TICKET implementation configured in /repo/_build"
#endif

struct vin { uint32_t rin_hi, rout_hi, win, R; uint8_t W; } vin;
#include "verif_vin.h"

static parsec_atomic_rwlock_t L;

/* guarantee hooks (no interference is injected: call-atomic / frozen environment) */
static int32_t g_rin_before;
/* `rin` and `rout` are updated by readers with atomic adds at ANY time (also while a writer holds the lock), so every
 * modification of them by the lock code must itself be a single atomic read-modify-write: the words are compared
 * with the value left by my last atomic operation on them at every atomic operation / fence and on return
 * (added after a seeded change replaced wrunlock's atomic AND by `L->rin &= mask`). */
static int32_t g_rin_expected, g_rout_expected; static int g_watch, g_nonatomic_update;
static void watch_check(void) { if (g_watch && (L.rin != g_rin_expected || L.rout != g_rout_expected)) g_nonatomic_update = 1; }
void verif_env_step(int op, volatile void *loc) { (void)op; watch_check(); if (loc == (volatile void *)&L.rin) g_rin_before = L.rin; }
void verif_own_step(int op, volatile void *loc, int success)
{
    (void)success;
    if (loc == (volatile void *)&L.rin && (op == V_OP_FETCH || op == V_OP_CAS)) g_rin_expected = L.rin;
    else if (loc == (volatile void *)&L.rout && (op == V_OP_FETCH || op == V_OP_CAS)) g_rout_expected = L.rout;
    else watch_check();
    if (op == V_OP_FETCH && loc == (volatile void *)&L.rin) {
        uint32_t delta = (uint32_t)L.rin - (uint32_t)g_rin_before;
        if (delta != 0 && delta < RINC) {
            /* a writer announces itself in the low bits: only the writer whose turn it is may do so
             * (its ticket win-1 equals wout), otherwise two announcements add up and corrupt the phase bits */
            V_ASSERT((uint32_t)L.wout == (uint32_t)L.win - 1, "C33.wrlock.guar.announces_only_when_holding_the_writer_turn");
            V_ASSERT((g_rin_before & 0xFF) == 0, "C33.wrlock.guar.announces_only_when_no_writer_is_announced");
        }
    }
}
#define WATCH_ON()  do { g_rin_expected = L.rin; g_rout_expected = L.rout; g_nonatomic_update = 0; g_watch = 1; } while (0)
#define WATCH_OFF(name) do { watch_check(); g_watch = 0; V_ASSERT(!g_nonatomic_update, name); } while (0)

static int wf(uint32_t R, int W)
{
    if (W && R) return 0;
    uint32_t rin = (uint32_t)L.rin, rout = (uint32_t)L.rout;
    if ((rin & 0xFF) != (uint32_t)(W ? (PRES | (((uint32_t)L.win - 1) & PHID)) : 0)) return 0;
    if (rout & 0xFF) return 0;
    if ((((rin >> 8) - (rout >> 8)) & 0xFFFFFF) != R) return 0;
    if ((uint32_t)L.win - (uint32_t)L.wout != (uint32_t)W) return 0;
    return 1;
}
static void pre_state(void)
{
    vin_load();
    V_ASSUME(vin.W <= 1 && vin.R <= 0xFFFFFE && !(vin.W && vin.R));
    V_ASSUME(vin.rout_hi <= 0xFFFFFF);
    uint32_t low = vin.W ? (PRES | ((vin.win - 1) & PHID)) : 0;
    L.rout = (int32_t)(vin.rout_hi << 8);
    L.rin = (int32_t)((((vin.rout_hi + vin.R) & 0xFFFFFF) << 8) | low);
    L.win = (int32_t)vin.win;
    L.wout = (int32_t)(vin.win - vin.W);
    V_ASSUME(wf(vin.R, vin.W));
}

void h_init(void)
{
    vin_load();
    L.rin = vin.rin_hi; L.rout = vin.rout_hi; L.win = vin.win; L.wout = vin.R;
    parsec_atomic_rwlock_init(&L);
    V_ASSERT(wf(0, 0), "C33.init.post.unlocked_state_is_wellformed");
    V_CANARY("init");
}
/* reader enters without waiting when no writer is inside; wf kept with R+1 */
void h_rdlock_free(void)
{
    pre_state();
    V_ASSUME(vin.W == 0);
    WATCH_ON();
    parsec_atomic_rwlock_rdlock(&L);          /* spin loop unwound 0 times: unwinding assertion = "does not wait" */
    WATCH_OFF("C33.rdlock.guar.reader_counters_change_only_by_single_atomic_operations");
    V_ASSERT(wf(vin.R + 1, 0), "C33.rdlock.post.reader_inside_counted_and_wf");
    V_CANARY("rdlock_free");
}
void h_rdunlock(void)
{
    pre_state();
    V_ASSUME(vin.W == 0 && vin.R >= 1);
    WATCH_ON();
    parsec_atomic_rwlock_rdunlock(&L);
    WATCH_OFF("C33.rdunlock.guar.reader_counters_change_only_by_single_atomic_operations");
    V_ASSERT(wf(vin.R - 1, 0), "C33.rdunlock.post.reader_left_and_wf");
    V_CANARY("rdunlock");
}
/* writer enters without waiting when nobody is inside; presence bits carry the ticket's phase */
void h_wrlock_free(void)
{
    pre_state();
    V_ASSUME(vin.W == 0 && vin.R == 0);
    WATCH_ON();
    parsec_atomic_rwlock_wrlock(&L);
    WATCH_OFF("C33.wrlock.guar.reader_counters_change_only_by_single_atomic_operations");
    V_ASSERT(wf(0, 1), "C33.wrlock.post.writer_inside_and_wf");
    V_ASSERT(((uint32_t)L.rin & 0xFF) == (PRES | (vin.win & PHID)), "C33.wrlock.post.presence_bits_carry_ticket_phase");
    V_CANARY("wrlock_free");
}
void h_wrunlock(void)
{
    pre_state();
    V_ASSUME(vin.W == 1);
    WATCH_ON();
    parsec_atomic_rwlock_wrunlock(&L);
    WATCH_OFF("C33.wrunlock.guar.reader_counters_change_only_by_single_atomic_operations");
    V_ASSERT(wf(0, 0), "C33.wrunlock.post.unlocked_and_wf");
    V_CANARY("wrunlock");
}
/* lock;unlock round trips (epoch invariance) */
void h_roundtrip(void)
{
    pre_state();
    V_ASSUME(vin.W == 0);
    parsec_atomic_rwlock_rdlock(&L);
    parsec_atomic_rwlock_rdunlock(&L);
    V_ASSERT(wf(vin.R, 0), "C33.rdlock_rdunlock.post.state_restored");
    if (vin.R == 0) {
        parsec_atomic_rwlock_wrlock(&L);
        parsec_atomic_rwlock_wrunlock(&L);
        V_ASSERT(wf(0, 0), "C33.wrlock_wrunlock.post.state_restored");
        /* the next writer gets the other phase: readers blocked by the previous writer see the bits change */
        V_ASSERT((uint32_t)L.win == vin.win + 1, "C33.wrlock.post.ticket_consumed");
    }
    V_CANARY("roundtrip");
}

/* ---- blocked-entry obligations: run WITHOUT unwinding assertions; the environment is frozen, so a wait
 * condition that is true once stays true: the statement after the call must be unreachable.  The
 * "reachable" canary in front of the call shows the pre-state is not contradictory. ---- */
void h_rdlock_blocked(void)
{
    pre_state();
    V_ASSUME(vin.W == 1);
    V_CANARY("rdlock_blocked.pre_state_reachable");
    parsec_atomic_rwlock_rdlock(&L);
    V_ASSERT(0, "C33.rdlock.post.reader_does_not_enter_while_a_writer_is_inside");
}
void h_wrlock_blocked_by_writer(void)
{
    pre_state();
    V_ASSUME(vin.W == 1);
    V_CANARY("wrlock_blocked_w.pre_state_reachable");
    parsec_atomic_rwlock_wrlock(&L);
    V_ASSERT(0, "C33.wrlock.post.writer_does_not_enter_while_a_writer_is_inside");
}
void h_wrlock_blocked_by_readers(void)
{
    pre_state();
    V_ASSUME(vin.W == 0 && vin.R >= 1);
    V_CANARY("wrlock_blocked_r.pre_state_reachable");
    parsec_atomic_rwlock_wrlock(&L);
    V_ASSERT(0, "C33.wrlock.post.writer_does_not_enter_while_readers_are_inside");
}
/* a reader arriving while a writer WAITS for readers (bits set, readers still inside) blocks as well:
 * phase fairness, and needed so that the writer's wait terminates */
void h_rdlock_blocked_by_waiting_writer(void)
{
    pre_state();
    V_ASSUME(vin.W == 0 && vin.R >= 1);
    /* a writer has taken its ticket and announced itself, and now waits for the R readers */
    int32_t ticket = L.win; L.win = L.win + 1;
    L.rin = L.rin | (PRES | (ticket & PHID));
    V_CANARY("rdlock_blocked_ww.pre_state_reachable");
    parsec_atomic_rwlock_rdlock(&L);
    V_ASSERT(0, "C33.rdlock.post.reader_does_not_overtake_an_announced_writer");
}
