/* C35 (scheduler max-heap): contracts on the real heap_create, heap_insert, heap_remove,
 * heap_split_and_steal, heap_destroy and hiBit of parsec/maxheap.c (included verbatim).
 *
 * The heap is a pointer tree over parsec_task_t (list_prev = left child, list_next = right child)
 * whose shape is a function of heap->size: the node with 1-based number k has children 2k and 2k+1.
 * Pre-states are therefore built concretely per size (HSIZE, one cbmc process each): pool node i sits
 * at position i+1 (the identity of the tasks does not matter), priorities are symbolic and only
 * constrained by the heap order.  The heap header comes from the real heap_create.
 *
 * wf(h, n), evaluated flat on the post-state by walking positions 1..n from h->top:
 *   shape    : every position 1..n holds a pool node, pairwise distinct; a node whose child position
 *              exceeds n has NULL there (complete binary tree of exactly n nodes)
 *   order    : priority(parent) >= priority(child)
 *   prio     : h->priority == h->top->priority
 *   set      : bit mask of the pool nodes in the tree
 */
#include "verif.h"
#include "parsec/parsec_config.h"
#include "parsec/parsec_internal.h"

#include "parsec/maxheap.c"

#ifndef HSIZE
#define HSIZE 3
#endif
#define NT (HSIZE + 1)

struct vin {
    int32_t  prio[NT];
    uint8_t  junk_links;      /* insert: the new element's list_next/list_prev are garbage          */
    uint8_t  junk_new_heap;   /* split: *new_heap_ptr is not NULL on entry                          */
    uint32_t n;               /* hiBit lemma                                                        */
} vin;
#include "verif_vin.h"

/* one static object per task (an array of these 984-byte structs would turn every write through a symbolic
 * node pointer into a whole-array update) */
static parsec_task_t
    t0, t1, t2, t3, t4, t5, t6, t7, t8, t9, t10, t11, t12,
    t13, t14, t15, t16, t17, t18, t19, t20, t21, t22, t23, t24, t25,
    t26, t27, t28, t29, t30, t31, t32, t33, t34, t35, t36, t37, t38,
    t39, t40, t41, t42, t43, t44, t45, t46, t47, t48, t49, t50, t51,
    t52, t53, t54, t55, t56, t57, t58, t59, t60, t61, t62, t63, t64;
static parsec_task_t * const ptab[65] = {
    &t0, &t1, &t2, &t3, &t4, &t5, &t6, &t7, &t8, &t9, &t10, &t11, &t12,
    &t13, &t14, &t15, &t16, &t17, &t18, &t19, &t20, &t21, &t22, &t23, &t24, &t25,
    &t26, &t27, &t28, &t29, &t30, &t31, &t32, &t33, &t34, &t35, &t36, &t37, &t38,
    &t39, &t40, &t41, &t42, &t43, &t44, &t45, &t46, &t47, &t48, &t49, &t50, &t51,
    &t52, &t53, &t54, &t55, &t56, &t57, &t58, &t59, &t60, &t61, &t62, &t63, &t64 };
#define pool(i) (*ptab[i])
_Static_assert(NT <= 65, "pool too small");
static parsec_heap_t *H;
static parsec_heap_t  dummy_heap;

static int idx_of(const volatile void *p)
{
    for (int i = 0; i < NT; i++) if (p == (const volatile void *)ptab[i]) return i;
    return -1;
}

static void build(unsigned n)
{
    H = heap_create();
    H->size = n;
    for (unsigned i = 0; i < NT; i++) {
        pool(i).priority = vin.prio[i];
        if (i < n) {
            pool(i).super.list_prev = (2 * i + 1 < n) ? &pool(2 * i + 1).super : NULL;
            pool(i).super.list_next = (2 * i + 2 < n) ? &pool(2 * i + 2).super : NULL;
            if (i > 0) V_ASSUME(vin.prio[(i - 1) / 2] >= vin.prio[i]);        /* PRE: heap order */
        }
    }
    if (n > 0) { H->top = &pool(0); H->priority = (unsigned)vin.prio[0]; }
}

struct wf { int shape, order, prio; uint64_t set; };
static struct wf heap_wf(const parsec_heap_t *h, unsigned n)
{
    struct wf r = { 1, 1, 1, 0 };
    int pos[NT + 2];
    if (h->size != n) r.shape = 0;
    if (n == 0) { if (h->top != NULL) r.shape = 0; return r; }
    pos[1] = idx_of(h->top);
    if (pos[1] < 0) { r.shape = 0; return r; }
    for (unsigned k = 2; k <= NT; k++) {
        if (k > n) break;
        int par = pos[k / 2];
        const volatile void *c = (k & 1) ? (const volatile void *)pool(par).super.list_next
                                         : (const volatile void *)pool(par).super.list_prev;
        int j = idx_of(c);
        if (j < 0) { r.shape = 0; return r; }
        pos[k] = j;
    }
    for (unsigned k = 1; k <= NT; k++) {
        if (k > n) break;
        int j = pos[k];
        if (r.set & ((uint64_t)1 << j)) r.shape = 0;
        r.set |= (uint64_t)1 << j;
        if (2 * k > n && pool(j).super.list_prev != NULL) r.shape = 0;
        if (2 * k + 1 > n && pool(j).super.list_next != NULL) r.shape = 0;
        if (k > 1 && pool(pos[k / 2]).priority < pool(j).priority) r.order = 0;
    }
    if (h->priority != (unsigned)pool(pos[1]).priority) r.prio = 0;
    return r;
}
#define ALL(n) ((n) >= 64 ? ~(uint64_t)0 : (((uint64_t)1 << (n)) - 1u))

/* ------------------------------------------------------------------ */
void h_create(void)
{
    vin_load();
    parsec_heap_t *h = heap_create();
    V_ASSERT(h != NULL && h->size == 0 && h->top == NULL, "C35.heap_create.post.empty");
    V_ASSERT(h->list_item.list_next == &h->list_item && h->list_item.list_prev == &h->list_item,
             "C35.heap_create.post.singleton_list_item");
    V_CANARY("create");
}

/* ------------------------------------------------------------------ */
/* heap_insert: from a wf heap of HSIZE nodes (0 = as created)         */
/* ------------------------------------------------------------------ */
void h_insert(void)
{
    vin_load();
    build(HSIZE);
    parsec_task_t *e = &pool(HSIZE);
    if (vin.junk_links) { e->super.list_next = &dummy_heap.list_item; e->super.list_prev = &pool(0).super; }

    heap_insert(H, e);

    struct wf w = heap_wf(H, HSIZE + 1);
    V_ASSERT(w.shape, "C35.heap_insert.post.wf_complete_tree_of_size_plus_1");
    V_ASSERT(w.order, "C35.heap_insert.post.wf_parent_priority_ge_children");
    V_ASSERT(w.prio, "C35.heap_insert.post.wf_heap_priority_is_top_priority");
    V_ASSERT(w.set == ALL(HSIZE + 1), "C35.heap_insert.post.multiset_is_old_plus_elem");
    for (int i = 0; i < NT; i++)
        V_ASSERT(pool(i).priority == vin.prio[i], "C35.heap_insert.post.priorities_untouched");
    {   /* top is the highest priority */
        int t = idx_of(H->top);
        if (t >= 0) for (int i = 0; i < NT; i++) V_ASSERT(vin.prio[t] >= vin.prio[i], "C35.heap_insert.post.top_has_highest_priority");
    }
    V_CANARY("insert");
}

/* ------------------------------------------------------------------ */
/* heap_remove: from a wf heap of HSIZE >= 1 nodes                     */
/* ------------------------------------------------------------------ */
void h_remove(void)
{
    vin_load();
    build(HSIZE);
    parsec_heap_t *hp = H;

    parsec_task_t *r = heap_remove(&hp);

    V_ASSERT(r == &pool(0), "C35.heap_remove.post.returns_old_top");
    for (int i = 0; i < HSIZE; i++) V_ASSERT(r->priority >= vin.prio[i], "C35.heap_remove.post.returned_task_has_highest_priority");
    V_ASSERT(r->super.list_next == &r->super && r->super.list_prev == &r->super, "C35.heap_remove.post.returned_task_is_singleton");
    V_ASSERT(V_IFF(hp == NULL, HSIZE == 1), "C35.heap_remove.post.heap_destroyed_iff_it_had_one_node");
    if (hp != NULL) {
        V_ASSERT(hp == H, "C35.heap_remove.post.same_heap_object");
        struct wf w = heap_wf(hp, HSIZE - 1);
        V_ASSERT(w.shape, "C35.heap_remove.post.wf_complete_tree_of_size_minus_1");
        V_ASSERT(w.order, "C35.heap_remove.post.wf_parent_priority_ge_children");
        V_ASSERT(w.prio, "C35.heap_remove.post.wf_heap_priority_is_top_priority");
        V_ASSERT(w.set == (ALL(HSIZE) & ~(uint64_t)1), "C35.heap_remove.post.multiset_is_old_minus_top");
    }
    for (int i = 0; i < HSIZE; i++)
        V_ASSERT(pool(i).priority == vin.prio[i], "C35.heap_remove.post.priorities_untouched");
    /* NULL heap: nothing */
    hp = NULL;
    V_ASSERT(heap_remove(&hp) == NULL && hp == NULL, "C35.heap_remove.post.null_heap_gives_null");
    V_CANARY("remove");
}

/* ------------------------------------------------------------------ */
/* heap_split_and_steal: from a wf heap of HSIZE >= 1 nodes            */
/* ------------------------------------------------------------------ */
void h_split(void)
{
    vin_load();
    build(HSIZE);
    parsec_heap_t *hp = H, *nh = vin.junk_new_heap ? &dummy_heap : NULL;

    parsec_task_t *r = heap_split_and_steal(&hp, &nh);

    V_ASSERT(r == &pool(0), "C35.heap_split_and_steal.post.returns_old_top");
    for (int i = 0; i < HSIZE; i++) V_ASSERT(r->priority >= vin.prio[i], "C35.heap_split_and_steal.post.returned_task_has_highest_priority");
    V_ASSERT(r->super.list_next == &r->super && r->super.list_prev == &r->super, "C35.heap_split_and_steal.post.returned_task_is_singleton");
    V_ASSERT(V_IFF(hp == NULL, HSIZE == 1), "C35.heap_split_and_steal.post.heap_destroyed_iff_it_had_one_node");
    V_ASSERT(V_IFF(nh != NULL, HSIZE >= 3), "C35.heap_split_and_steal.post.second_heap_iff_at_least_3_nodes");
    V_ASSERT(nh != &dummy_heap, "C35.heap_split_and_steal.post.new_heap_pointer_reset");
    unsigned s1 = 0, s2 = 0; uint64_t set1 = 0, set2 = 0;
    if (hp != NULL) {
        V_ASSERT(hp == H, "C35.heap_split_and_steal.post.same_heap_object");
        s1 = hp->size;
        V_ASSERT(s1 >= 1 && s1 < HSIZE, "C35.heap_split_and_steal.post.remaining_heap_not_empty");
        struct wf w = heap_wf(hp, s1 < HSIZE ? s1 : 0);
        V_ASSERT(w.shape, "C35.heap_split_and_steal.post.remaining_heap_wf_complete_tree");
        V_ASSERT(w.order, "C35.heap_split_and_steal.post.remaining_heap_wf_order");
        V_ASSERT(w.prio, "C35.heap_split_and_steal.post.remaining_heap_wf_priority_field");
        set1 = w.set;
    }
    if (nh != NULL && nh != &dummy_heap) {
        V_ASSERT(nh != H, "C35.heap_split_and_steal.post.new_heap_is_a_new_object");
        s2 = nh->size;
        V_ASSERT(s2 >= 1 && s2 < HSIZE, "C35.heap_split_and_steal.post.new_heap_not_empty");
        struct wf w = heap_wf(nh, s2 < HSIZE ? s2 : 0);
        V_ASSERT(w.shape, "C35.heap_split_and_steal.post.new_heap_wf_complete_tree");
        V_ASSERT(w.order, "C35.heap_split_and_steal.post.new_heap_wf_order");
        V_ASSERT(w.prio, "C35.heap_split_and_steal.post.new_heap_wf_priority_field");
        set2 = w.set;
        /* the two heaps form a two-element list (documented default for the caller) */
        V_ASSERT(hp != NULL && hp->list_item.list_next == &nh->list_item && hp->list_item.list_prev == &nh->list_item &&
                 nh->list_item.list_next == &hp->list_item && nh->list_item.list_prev == &hp->list_item,
                 "C35.heap_split_and_steal.post.two_heaps_linked_as_a_ring");
    } else if (hp != NULL) {
        V_ASSERT(hp->list_item.list_next == &hp->list_item && hp->list_item.list_prev == &hp->list_item,
                 "C35.heap_split_and_steal.post.single_heap_is_a_singleton_ring");
    }
    V_ASSERT(s1 + s2 == HSIZE - 1, "C35.heap_split_and_steal.post.sizes_add_up_to_size_minus_1");
    V_ASSERT((set1 & set2) == 0 && (set1 | set2) == (ALL(HSIZE) & ~(uint64_t)1), "C35.heap_split_and_steal.post.multisets_partition_the_rest");
    for (int i = 0; i < HSIZE; i++)
        V_ASSERT(pool(i).priority == vin.prio[i], "C35.heap_split_and_steal.post.priorities_untouched");
    /* NULL heap: NULL, and the new-heap pointer is cleared */
    hp = NULL; nh = &dummy_heap;
    V_ASSERT(heap_split_and_steal(&hp, &nh) == NULL && hp == NULL && nh == NULL, "C35.heap_split_and_steal.post.null_heap_gives_null");
    V_CANARY("split");
}

/* ------------------------------------------------------------------ */
/* hiBit: highest power of two not above n, for every 32-bit n >= 1    */
/* ------------------------------------------------------------------ */
void h_hibit(void)
{
    vin_load();
    V_ASSUME(vin.n >= 1);
    unsigned r = (unsigned)hiBit(vin.n);
    V_ASSERT(r != 0 && (r & (r - 1)) == 0, "C35.hiBit.post.power_of_two");
    V_ASSERT(r <= vin.n && (vin.n >> 1) < r, "C35.hiBit.post.highest_power_of_two_not_above_n");
    V_CANARY("hibit");
}
