from vlib import Job

HBB = ["parsec_hbbuffer_new", "parsec_hbbuffer_push_all", "parsec_hbbuffer_push_all_by_priority",
       "parsec_hbbuffer_pop_best", "parsec_hbbuffer_is_empty", "parsec_hbbuffer_approx_occupency"]
HEAP = ["heap_create", "heap_insert", "heap_remove", "heap_split_and_steal", "heap_destroy", "hiBit"]

META = dict(
    level="other",
    functions=HBB + HEAP,
    explanation="Pre/post contracts (harness route: assume pre, call the real function, assert the named postconditions) on the real "
                "parsec/hbbuffer.c and parsec/maxheap.c, included verbatim together with the real ring primitives of list_item.h and the real "
                "atomic layer.  (HBB, quiescent) one cbmc process per buffer size BSIZE; the buffer comes from the real constructor; slot i "
                "is empty or holds task i (every occupancy pattern), all priorities symbolic, stored tasks are singleton rings; the pushed "
                "ring has 1..RMAX tasks and is built with the real ring functions; distance, and presence of a parent, symbolic.  push_all: "
                "every task of slots+ring is afterwards exactly once in a slot or in the ring handed to the parent, existing slots untouched, "
                "parent called at most once, iff the ring does not fit (distance 0), with the parent store and distance-1, with exactly the "
                "overflow, as a well-formed ring, and only when no slot is empty; non-zero distance forwards the whole ring in order and leaves "
                "the buffer alone; new slots hold singletons.  push_all_by_priority: same conservation and parent clauses; number ejected = "
                "overflow; a stored task not worse than every pushed one stays in its slot; no ejected task that competed for a slot (stored "
                "before, or stored by my CAS during the call - ghost recorded in the CAS hook -, or the one that found no room) has higher "
                "priority than any task kept; with the ring in decreasing priority order (what the code's comment expects) no ejected task at "
                "all is better than a kept one.  pop_best: NULL iff all slots empty, else a stored task of maximal priority, exactly its slot "
                "cleared, others untouched; is_empty/approx_occupency agree with the occupancy; no CAS fails when quiescent (retry loops "
                "unwound with unwinding assertions).  (HEAP) one process per heap size n: the pre-state is the complete binary tree of n "
                "nodes in the code's numbering (children of k are 2k = list_prev, 2k+1 = list_next) with symbolic priorities satisfying the "
                "heap order, header from the real heap_create.  Flat wf on the post-state: complete tree of the stated size with distinct "
                "pool nodes and NULL beyond, parent priority >= child, heap->priority == top priority, node set as bit mask.  insert: wf of "
                "n+1 nodes, set = old + elem, top has the highest priority; remove: returns the old top (highest priority), singleton, wf of "
                "n-1 nodes on set - top, heap destroyed iff n == 1; split_and_steal: returns the old top, heap destroyed iff n == 1, second "
                "heap iff n >= 3, both wf complete trees, sizes add up to n-1, node sets partition the rest, heaps linked as documented; "
                "NULL heap gives NULL; priorities never written.  hiBit: highest power of two <= n for every 32-bit n >= 1 (loop-free, complete).",
    trusted_base=["parent store: stub parent_push records (store, ring, distance) and counts calls; what the parent does with the ring is its own contract",
                  "c35_cas_ptr: address dispatcher in front of the real parsec_atomic_cas_ptr (calls it with the same address written as "
                  "&B->items[i] for the concrete i; semantically the identity)",
                  "push_all_by_priority jobs only: while parsec/hbbuffer.h is read, the member name `items` is rewritten so that the real declaration "
                  "`items[1]` reads `items[BSIZE], *c35_tail[1]` (the struct hack made explicit: same member offsets, object one pointer larger), and "
                  "the constructor's calloc is served by a stub returning one zeroed static object of that type; the inline parsec_hbbuffer_is_empty is "
                  "garbled by the rewrite and not used in those jobs (it is checked in the pop_best/new jobs, built without the rewrite on CBMC's calloc)",
                  "induction from per-call contracts (each from every state satisfying the slot invariant, which each re-establishes) to arbitrary "
                  "push/pop histories and repeated splits: meta-step, not mechanised",
                  "bodyless debug output (parsec_debug_verbose etc.) treated as no-ops"],
    assumptions=["quiescence: no other thread touches the buffer during a call (the property's own restriction); the ABA case the code's comment "
                 "mentions for push_all_by_priority under concurrency is not examined",
                 "tasks stored in a buffer are singleton rings and pairwise distinct; a pushed ring is well formed and disjoint from the stored tasks",
                 "a buffer without parent_push_fct is only given what fits (the code asserts the parent function at the overflow call)",
                 "the heap is only used sequentially (documented 'not thread safe'); heap_insert's calloc and heap_create's calloc succeed",
                 "heap pre-states are complete trees with heap order and heap->priority/size consistent (what insert/remove/split re-establish: proved)"],
)

MANIFEST = dict(
    category="other",
    text="Contracts derived from the property statement are discharged by CBMC on the real hbbuffer.c and maxheap.c: no task is lost or "
         "duplicated by push_all / push_all_by_priority (slots + ring handed once to the parent with distance-1, only on overflow), pop_best "
         "returns a maximal-priority stored task and clears exactly its slot, push_all_by_priority never ejects a competitor better than a kept "
         "task; heap insert/remove/split keep the complete-tree shape, the heap order and the priority field, return the top, and partition the "
         "node set exactly (sizes add up), for every heap size listed, with all priorities symbolic.  Level 'other': buffer sizes, ring "
         "lengths and heap sizes are enumerated up to a bound below the property's own domain in the quick tier (rings always).",
    note="Not decided: push_all_by_priority on buffers larger than 3 (quick) / 4 (thorough) slots or rings longer than 3; push_all on buffers other "
         "than 1, 2, 4 slots (quick) / larger than 8 (thorough) or rings longer than 3 (quick) / 4 (thorough); pop_best on buffers other than "
         "1, 2, 4 slots in the quick tier (thorough: every size 1..8, the property's range); heap sizes above 7 (quick), resp. sizes other than "
         "0..16, 31, 32 (thorough; 63 and 64 were also run once by hand and pass); behaviour under concurrent access (the property says "
         "quiescent; the ABA remark in the code is not examined); histories are covered by per-call contracts plus an unmechanised induction, "
         "not by explicit random histories; memory release by heap_destroy/free; pop_best with the heap priority offset (ltq) is the same code "
         "path with another constant and is not run separately.",
    technique="pre/post contracts with ghost state on the real code, CBMC (SAT), complete unwinding per enumerated size, shape-bounded",
    design_ref="DESIGN.md section 5, C35")


def hbb_unwind(b, r):
    return {"parsec_hbbuffer_pop_best.0": b + 1, "parsec_hbbuffer_pop_best.1": 2,
            "parsec_hbbuffer_push_all.1": b + 1, "parsec_hbbuffer_push_all.2": r + 1,
            "parsec_hbbuffer_push_all_by_priority.0": b + 1, "parsec_hbbuffer_push_all_by_priority.3": r + 1}

FN = {"new": ["parsec_hbbuffer_new", "parsec_hbbuffer_is_empty", "parsec_hbbuffer_approx_occupency"],
      "push_all": ["parsec_hbbuffer_push_all"], "push_prio": ["parsec_hbbuffer_push_all_by_priority"],
      "pop_best": ["parsec_hbbuffer_pop_best", "parsec_hbbuffer_is_empty", "parsec_hbbuffer_approx_occupency"]}
MINOB = {"new": 5, "push_all": 12, "push_prio": 14, "pop_best": 8}


def hbb_job(e, b, r, full, timeout):
    D = {"BSIZE": b, "RMAX": r, "C35_FULL_TASK": None}
    if e == "push_prio":
        D["C35_EXPLICIT_SLOTS"] = None
    if e == "new":
        bnd = None                          # straight-line per size; sizes enumerated
    elif e == "pop_best":
        bnd = None if full else "buffer sizes 1, 2, 4 only (thorough: 1..8 = the property's own range)"
    elif e == "push_all":
        bnd = "pushed ring of at most %d tasks; buffer sizes %s" % (r, "1..8" if full else "1, 2, 4")
    else:
        bnd = "pushed ring of at most %d tasks; buffer sizes 1..%d" % (r, 4 if full else 3)
    return Job("hbb.%s.b%d" % (e, b), "h_hbb.c", entry="h_" + e, defines=D, unwind=b + r + 1,
               unwindset=hbb_unwind(b, r), timeout=timeout, object_bits=10, bounded=bnd,
               functions=FN[e], min_obligations=MINOB[e])


def heap_jobs(n, full, timeout=600):
    J = []
    D = {"HSIZE": n}
    L = (n + 1).bit_length() + 1
    US = {"heap_insert.0": L, "heap_insert.1": L, "heap_insert.3": L,
          "heap_remove.1": L, "heap_remove.2": L, "heap_remove.3": L}
    bnd = ("heap sizes 0..7 enumerated (thorough: 0..16, 31, 32; the property names 1..64)" if not full else
           "heap sizes 0..16, 31, 32 enumerated, not every size of 1..64")
    ents = ["insert"] + (["remove", "split"] if n >= 1 else ["create", "hibit"])
    fn = {"insert": ["heap_insert"], "remove": ["heap_remove", "heap_destroy"],
          "split": ["heap_split_and_steal", "hiBit", "heap_destroy", "heap_create"], "create": ["heap_create"], "hibit": ["hiBit"]}
    mo = {"insert": 6, "remove": 10, "split": 18, "create": 2, "hibit": 2}
    for e in ents:
        J.append(Job("heap.%s.n%d" % (e, n), "h_heap.c", entry="h_" + e, defines=D, unwind=n + 3, unwindset=US,
                     timeout=timeout, bounded=None if e in ("create", "hibit") else bnd,
                     functions=fn[e], min_obligations=mo[e]))
    return J


def jobs(tier):
    full = tier == "thorough"
    J = []
    to = 1500 if full else 280
    if full:
        J += [hbb_job("push_prio", b, 3, full, to) for b in (4, 3, 2, 1)]
        for n in (32, 31):
            J += heap_jobs(n, full, to)
        for b in (8, 7, 6, 5, 4, 3, 2, 1):
            J += [hbb_job("pop_best", b, 3, full, to), hbb_job("push_all", b, 4, full, to)]
            if b in (1, 4, 8):
                J.append(hbb_job("new", b, 3, full, to))
        for n in range(16, -1, -1):
            J += heap_jobs(n, full, to)
    else:
        J += [hbb_job("push_prio", b, 3, full, to) for b in (3, 2, 1)]
        for b in (4, 2, 1):
            J += [hbb_job("pop_best", b, 3, full, to), hbb_job("push_all", b, 3, full, to)]
            if b in (1, 4):
                J.append(hbb_job("new", b, 3, full, to))
        for n in range(7, -1, -1):
            J += heap_jobs(n, full, to)
    return J
