/* C35 (hierarchical bounded buffer): contracts on the real parsec_hbbuffer_new,
 * parsec_hbbuffer_push_all, parsec_hbbuffer_push_all_by_priority, parsec_hbbuffer_pop_best,
 * parsec_hbbuffer_is_empty and parsec_hbbuffer_approx_occupency (parsec/hbbuffer.c included
 * verbatim, with the real ring primitives of parsec/class/list_item.h).
 *
 * Quiescent contracts (the property says "when quiescent"): the atomic wrappers of
 * verif_rg.h are used only to record, as ghost state, which items my own successful
 * compare-and-swap installed in a slot; the environment does nothing.
 *
 * Pre-state, per cbmc process: a buffer of BSIZE slots made by the real constructor
 * (on CBMC's calloc; in the push_all_by_priority jobs, built with -DC35_EXPLICIT_SLOTS, on a typed object,
 * see below); slot i is either
 * empty or holds pool[i] (any occupancy pattern, any priorities; the identity of the tasks
 * does not matter, so "slot i holds pool[i]" loses no generality), every stored item being
 * a singleton ring, which is what both push functions leave behind (proved as
 * *.post.new_slots_are_singletons) and what the heap constructor gives.
 * The ring handed to push is pool(BSIZE) .. pool(BSIZE+k-1), k in 1..RMAX, built with the real
 * parsec_list_item_singleton / parsec_list_item_ring_push in that order.
 * Parent store: a stub that records (store, ring, distance) and counts its calls.
 */
#include "verif.h"
#include "verif_rg.h"
#include "parsec/parsec_internal.h"
#ifndef BSIZE
#define BSIZE 3
#endif
/* The struct hack made explicit.  parsec/hbbuffer.h declares the slot array as `items[1]` and the constructor
 * allocates size-1 further pointers behind it.  CBMC models accesses items[i], i >= 1, only on untyped (byte
 * array) heap objects, and pointers read back from a byte array lose their offset in its points-to sets, so
 * that every later write through them becomes a whole-object update of a 984-byte parsec_task_t (25M clauses
 * for 1 slot + 2 ring items).  With -DC35_EXPLICIT_SLOTS, for the duration of the
 * header the member name is therefore rewritten so that the real declaration reads
 *     volatile parsec_list_item_t *items[BSIZE], *c35_tail[1];
 * i.e. the trailing array is declared with the length it has at run time for a buffer of BSIZE slots (member
 * offsets are unchanged, checked below; the object is one pointer larger than the real one).  The function
 * bodies of hbbuffer.c are compiled verbatim. */
#if defined(C35_EXPLICIT_SLOTS) && defined(VERIF_REPLAY)
#undef C35_EXPLICIT_SLOTS      /* native replay runs on the real layout with the real calloc */
#endif
#ifdef C35_EXPLICIT_SLOTS
/* side effect: the only other use of the member name inside the header, in the inline parsec_hbbuffer_is_empty,
 * is rewritten too and still has to parse (hence the dummy c35_tail object); that function is NOT used in jobs
 * built this way (it is checked in the jobs built without the rewrite, see h_pop_best / h_new). */
static volatile parsec_list_item_t ***c35_tail;
#define items items[BSIZE], *c35_tail
#include "parsec/hbbuffer.h"
#undef items
#else
#include "parsec/hbbuffer.h"
#endif

/* Address case split in front of the real compare-and-swap (semantically the identity): the real code passes
 * &b->items[best_index] with a symbolic index; CBMC would turn the 64-bit store through that address into a
 * byte-wise update of the whole buffer object and forget what the slots point to.  The dispatcher calls the
 * same parsec_atomic_cas_ptr with the same address, written as &B->items[i] for the concrete i it equals. */
static int c35_cas_ptr(volatile void *l, void *o, void *n);
#define parsec_atomic_cas_ptr c35_cas_ptr
#include "parsec/hbbuffer.c"
#undef parsec_atomic_cas_ptr

#ifndef RMAX
#define RMAX 3
#endif
#define NT (BSIZE + RMAX)

struct vin {
    uint8_t  occ[BSIZE];        /* slot i initially holds pool[i]                       */
    int32_t  prio[NT];          /* priorities of all tasks                              */
    uint8_t  k;                 /* ring length                                          */
    int32_t  distance;
    uint8_t  has_parent;        /* parent_push_fct != NULL                              */
} vin;
#include "verif_vin.h"

/* one static object per task (an array of these large structs would turn every write through a
 * symbolic item pointer into a whole-array update) */
typedef parsec_task_t c35_task_t;
static c35_task_t         t0, t1, t2, t3, t4, t5, t6, t7, t8, t9, t10, t11, t12, t13, t14, t15;
static c35_task_t * const ptab[16] = { &t0, &t1, &t2, &t3, &t4, &t5, &t6, &t7, &t8, &t9, &t10, &t11, &t12, &t13, &t14, &t15 };
#define pool(i) (*ptab[i])
static parsec_hbbuffer_t *B;
static int                g_store;      /* the parent store object                      */

/* ---- ghost state ---- */
static int   g_parent_calls;
static void *g_parent_store;
static parsec_list_item_t *g_parent_ring;
static int32_t g_parent_distance;
static uint8_t g_installed[NT];          /* items my successful CAS wrote into a slot   */
static int   g_cas_fail;

static int idx_of(const volatile void *p)
{
    for (int i = 0; i < NT; i++) if (p == (const volatile void *)ptab[i]) return i;
    return -1;
}

void verif_env_step(int op, volatile void *loc) { (void)op; (void)loc; }   /* quiescent */
void verif_own_step(int op, volatile void *loc, int success)
{
    if (op != V_OP_CAS) return;
    if (!success) { g_cas_fail++; return; }
    int j = idx_of(*(void * volatile *)loc);
    if (j >= 0) g_installed[j] = 1;
}

static void parent_push(void *store, parsec_list_item_t *elt, int32_t distance)
{
    g_parent_calls++;
    g_parent_store = store; g_parent_ring = elt; g_parent_distance = distance;
}

/* ---- pre-state ---- */
/* The buffer object is made by the real parsec_hbbuffer_new; its calloc is served by this stub from one
 * zero-initialised static object of the (explicit-length) buffer type, once per run. */
#ifdef C35_EXPLICIT_SLOTS
_Static_assert(offsetof(parsec_hbbuffer_t, items) == 5 * sizeof(void *) &&
               sizeof(parsec_hbbuffer_t) == (5 + BSIZE + 1) * sizeof(void *), "parsec_hbbuffer_t layout changed");
static parsec_hbbuffer_t c35_buf;
static int c35_callocs;
void *calloc(size_t n, size_t sz)
{
    /* the real constructor asks for header + slots (with the explicit-length type: one spare pointer more per slot beyond the first) */
    __CPROVER_assert(n * sz >= (5 + BSIZE) * sizeof(void *), "C35.hbbuffer_new.post.allocates_header_plus_size_slots");
    __CPROVER_assert(c35_callocs == 0, "C35.harness.calloc_stub_serves_one_buffer");
    c35_callocs++;
    return &c35_buf;
}
#endif
static int nocc;
static void build(void)
{
    B = parsec_hbbuffer_new(BSIZE, BSIZE, vin.has_parent ? parent_push : NULL, &g_store);
    nocc = 0;
    for (int i = 0; i < NT; i++) {
        pool(i).priority = vin.prio[i];
        parsec_list_item_singleton(&pool(i).super);
    }
    for (int i = 0; i < BSIZE; i++)
        if (vin.occ[i]) { B->items[i] = &pool(i).super; nocc++; }
    g_parent_calls = 0; g_cas_fail = 0;
    for (int i = 0; i < NT; i++) g_installed[i] = 0;
}
static parsec_list_item_t *build_ring(void)
{
    parsec_list_item_t *ring = &pool(BSIZE).super;
    for (int m = 1; m < RMAX; m++)
        if (m < vin.k) parsec_list_item_ring_push(ring, &pool(BSIZE + m).super);
    return ring;
}

static int c35_cas_ptr(volatile void *l, void *o, void *n)
{
    for (int i = 0; i < BSIZE; i++)
        if (l == (volatile void *)&B->items[i]) return parsec_atomic_cas_ptr(&B->items[i], o, n);
    return parsec_atomic_cas_ptr(l, o, n);
}

/* ---- post-state vocabulary ---- */
static uint8_t in_parent[NT];      /* multiplicity of pool[t] in the ring given to the parent */
static uint8_t in_slot[NT];        /* multiplicity of pool[t] in the slots                    */
static int     pr_len;             /* length of the parent ring                               */
static int     pr_order[NT];       /* its elements in ring order                              */
static int     pr_wf;              /* closed, list_prev inverse of list_next, all in the pool */
static int     slots_in_pool;      /* every non-empty slot holds a pool item                  */

static void observe(void)
{
    for (int t = 0; t < NT; t++) { in_parent[t] = 0; in_slot[t] = 0; }
    slots_in_pool = 1;
    for (int i = 0; i < BSIZE; i++) {
        const volatile void *p = (const volatile void *)B->items[i];
        if (p == NULL) continue;
        int j = idx_of(p);
        if (j < 0) slots_in_pool = 0; else in_slot[j]++;
    }
    pr_len = 0; pr_wf = 1;
    if (g_parent_calls >= 1) {
        int closed = 0;
        int j = idx_of(g_parent_ring);
        for (int s = 0; s < NT; s++) {
            if (j < 0) { pr_wf = 0; break; }
            in_parent[j]++; pr_order[pr_len++] = j;
            int nx = idx_of((const volatile void *)pool(j).super.list_next);
            if (nx < 0) { pr_wf = 0; break; }
            if (pool(nx).super.list_prev != &pool(j).super) pr_wf = 0;
            j = nx;
            if (&pool(j).super == g_parent_ring) { closed = 1; break; }
        }
        if (!closed) pr_wf = 0;
    }
}
static int is_singleton(int j)
{
    return pool(j).super.list_next == &pool(j).super && pool(j).super.list_prev == &pool(j).super;
}

/* clauses common to both push functions */
#define COMMON_PUSH_POST(F)                                                                               \
    V_ASSERT(g_cas_fail == 0, "C35." F ".post.no_failed_cas_when_quiescent");                              \
    V_ASSERT(slots_in_pool, "C35." F ".post.slots_hold_only_pushed_or_old_tasks");                         \
    V_ASSERT(g_parent_calls <= 1, "C35." F ".post.parent_called_at_most_once");                            \
    V_ASSERT(pr_wf, "C35." F ".post.ring_given_to_parent_is_well_formed");                                 \
    if (g_parent_calls) {                                                                                  \
        V_ASSERT(g_parent_store == (void *)&g_store, "C35." F ".post.parent_gets_parent_store");            \
        V_ASSERT(g_parent_distance == vin.distance - 1, "C35." F ".post.parent_gets_distance_minus_1");     \
    }                                                                                                      \
    for (int t = 0; t < NT; t++) {                                                                         \
        int was = (t < BSIZE) ? (vin.occ[t] != 0) : (t - BSIZE < vin.k);                                   \
        V_ASSERT(in_slot[t] + in_parent[t] == was, "C35." F ".post.every_task_exactly_once_in_slots_or_parent_ring"); \
    }

/* ------------------------------------------------------------------ */
/* parsec_hbbuffer_new                                                 */
/* ------------------------------------------------------------------ */
void h_new(void)
{
    vin_load();
    B = parsec_hbbuffer_new(BSIZE, 1, parent_push, &g_store);
    V_ASSERT(B != NULL && B->size == BSIZE, "C35.hbbuffer_new.post.size");
    V_ASSERT(B->parent_push_fct == parent_push && B->parent_store == (void *)&g_store, "C35.hbbuffer_new.post.parent");
    for (int i = 0; i < BSIZE; i++) V_ASSERT(B->items[i] == NULL, "C35.hbbuffer_new.post.all_slots_empty");
#ifndef C35_EXPLICIT_SLOTS
    V_ASSERT(parsec_hbbuffer_is_empty(B), "C35.hbbuffer_is_empty.post.true_on_new_buffer");
#endif
    V_ASSERT(parsec_hbbuffer_approx_occupency(B) == 0, "C35.hbbuffer_approx_occupency.post.zero_on_new_buffer");
    V_CANARY("new");
}

/* ------------------------------------------------------------------ */
/* parsec_hbbuffer_push_all                                            */
/* ------------------------------------------------------------------ */
void h_push_all(void)
{
    vin_load();
    V_ASSUME(vin.k >= 1 && vin.k <= RMAX);
    build();
    /* PRE (the code's assert at push_upstream): a buffer without parent is only given what fits */
    if (!vin.has_parent) V_ASSUME(vin.k <= BSIZE - nocc);
    parsec_list_item_t *ring = build_ring();

    parsec_hbbuffer_push_all(B, ring, vin.distance);

    observe();
    COMMON_PUSH_POST("push_all")
    /* existing slots untouched */
    for (int i = 0; i < BSIZE; i++)
        if (vin.occ[i]) V_ASSERT(B->items[i] == &pool(i).super, "C35.push_all.post.existing_slots_untouched");
    if (vin.distance != 0 && vin.has_parent) {
        /* not for this level: the whole ring goes up, unchanged */
        V_ASSERT(g_parent_calls == 1 && g_parent_ring == ring && pr_len == vin.k, "C35.push_all.post.nonzero_distance_forwards_whole_ring");
        for (int m = 0; m < RMAX; m++) if (m < vin.k && m < pr_len)
            V_ASSERT(pr_order[m] == BSIZE + m, "C35.push_all.post.nonzero_distance_keeps_ring_order");
        for (int i = 0; i < BSIZE; i++)
            if (!vin.occ[i]) V_ASSERT(B->items[i] == NULL, "C35.push_all.post.nonzero_distance_leaves_buffer_unchanged");
    } else {
        int nfree = BSIZE - nocc;
        /* overflow, and only overflow, goes to the parent */
        V_ASSERT(V_IFF(g_parent_calls == 1, vin.k > nfree), "C35.push_all.post.parent_called_iff_overflow");
        V_ASSERT(pr_len == (vin.k > nfree ? vin.k - nfree : 0), "C35.push_all.post.parent_ring_is_exactly_the_overflow");
        if (g_parent_calls)
            for (int i = 0; i < BSIZE; i++) V_ASSERT(B->items[i] != NULL, "C35.push_all.post.buffer_full_when_overflowing");
        for (int i = 0; i < BSIZE; i++)
            if (!vin.occ[i] && B->items[i] != NULL) {
                int j = idx_of((const volatile void *)B->items[i]);
                if (j >= 0) V_ASSERT(is_singleton(j), "C35.push_all.post.new_slots_are_singletons");
            }
    }
    V_CANARY("push_all");
}

/* ------------------------------------------------------------------ */
/* parsec_hbbuffer_push_all_by_priority                                */
/* ------------------------------------------------------------------ */
void h_push_prio(void)
{
    vin_load();
    V_ASSUME(vin.k >= 1 && vin.k <= RMAX);
    build();
    if (!vin.has_parent) V_ASSUME(vin.k <= BSIZE - nocc);
    parsec_list_item_t *ring = build_ring();

    parsec_hbbuffer_push_all_by_priority(B, ring, vin.distance);

    observe();
    COMMON_PUSH_POST("push_all_by_priority")
    if (vin.distance != 0 && vin.has_parent) {
        V_ASSERT(g_parent_calls == 1 && g_parent_ring == ring && pr_len == vin.k, "C35.push_all_by_priority.post.nonzero_distance_forwards_whole_ring");
        for (int m = 0; m < RMAX; m++) if (m < vin.k && m < pr_len)
            V_ASSERT(pr_order[m] == BSIZE + m, "C35.push_all_by_priority.post.nonzero_distance_keeps_ring_order");
        for (int i = 0; i < BSIZE; i++)
            V_ASSERT(B->items[i] == (vin.occ[i] ? &pool(i).super : NULL), "C35.push_all_by_priority.post.nonzero_distance_leaves_buffer_unchanged");
    } else {
        int over = nocc + vin.k - BSIZE;
        /* nothing is ejected while there is room */
        V_ASSERT(V_IFF(g_parent_calls == 1, over > 0), "C35.push_all_by_priority.post.parent_called_iff_overflow");
        V_ASSERT(pr_len == (over > 0 ? over : 0), "C35.push_all_by_priority.post.ejected_count_is_exactly_the_overflow");
        if (g_parent_calls)
            for (int i = 0; i < BSIZE; i++) V_ASSERT(B->items[i] != NULL, "C35.push_all_by_priority.post.buffer_full_when_ejecting");
        /* kept tasks are singletons again (pre-state invariant of the next call) */
        for (int i = 0; i < BSIZE; i++) {
            int j = idx_of((const volatile void *)B->items[i]);
            if (j >= 0) V_ASSERT(is_singleton(j), "C35.push_all_by_priority.post.new_slots_are_singletons");
        }
        /* a stored task at least as good as everything pushed stays where it is */
        int32_t ringmax = vin.prio[BSIZE];
        for (int m = 1; m < RMAX; m++) if (m < vin.k && vin.prio[BSIZE + m] > ringmax) ringmax = vin.prio[BSIZE + m];
        for (int i = 0; i < BSIZE; i++)
            if (vin.occ[i] && vin.prio[i] >= ringmax)
                V_ASSERT(B->items[i] == &pool(i).super, "C35.push_all_by_priority.post.stored_task_not_worse_than_ring_is_untouched");
        /* prefer the best: an ejected task that competed for a slot (it was stored before the call, or my CAS
         * stored it during the call, or it is the task that found no room = head of the ejected ring) is not
         * better than any task kept */
        int head = idx_of(g_parent_ring);
        for (int e = 0; e < NT; e++) {
            if (!in_parent[e]) continue;
            int competed = (e < BSIZE) || g_installed[e] || (g_parent_calls && e == head);
            if (!competed) continue;
            for (int i = 0; i < BSIZE; i++) {
                int j = idx_of((const volatile void *)B->items[i]);
                if (j >= 0) V_ASSERT(vin.prio[e] <= vin.prio[j], "C35.push_all_by_priority.post.ejected_competitor_not_better_than_any_kept_task");
            }
        }
        /* with the ring in decreasing priority order (what the comment in the code expects from callers)
         * no ejected task at all is better than a kept one */
        int sorted = 1;
        for (int m = 1; m < RMAX; m++) if (m < vin.k && vin.prio[BSIZE + m - 1] < vin.prio[BSIZE + m]) sorted = 0;
        if (sorted)
            for (int e = 0; e < NT; e++) {
                if (!in_parent[e]) continue;
                for (int i = 0; i < BSIZE; i++) {
                    int j = idx_of((const volatile void *)B->items[i]);
                    if (j >= 0) V_ASSERT(vin.prio[e] <= vin.prio[j], "C35.push_all_by_priority.post.sorted_ring_keeps_the_best_tasks");
                }
            }
    }
    V_CANARY("push_prio");
}

/* ------------------------------------------------------------------ */
/* parsec_hbbuffer_pop_best (+ is_empty, approx_occupency)             */
/* ------------------------------------------------------------------ */
void h_pop_best(void)
{
    vin_load();
    vin.k = 0; vin.has_parent = 1;
    build();
#ifndef C35_EXPLICIT_SLOTS
    int empty_before = parsec_hbbuffer_is_empty(B);
    V_ASSERT(V_IFF(empty_before, nocc == 0), "C35.hbbuffer_is_empty.post.iff_no_slot_filled");
#endif
    V_ASSERT(parsec_hbbuffer_approx_occupency(B) == nocc, "C35.hbbuffer_approx_occupency.post.counts_filled_slots");

    parsec_list_item_t *r = parsec_hbbuffer_pop_best(B, parsec_execution_context_priority_comparator);

    V_ASSERT(g_cas_fail == 0, "C35.pop_best.post.no_failed_cas_when_quiescent");
    V_ASSERT(g_parent_calls == 0, "C35.pop_best.post.parent_not_involved");
    V_ASSERT(V_IFF(r == NULL, nocc == 0), "C35.pop_best.post.null_iff_all_slots_empty");
    int j = idx_of(r);
    if (r != NULL) {
        V_ASSERT(j >= 0 && j < BSIZE && vin.occ[j], "C35.pop_best.post.returns_a_stored_task");
        if (j >= 0 && j < BSIZE) {
            for (int i = 0; i < BSIZE; i++)
                if (vin.occ[i]) V_ASSERT(vin.prio[j] >= vin.prio[i], "C35.pop_best.post.returned_task_has_maximal_priority");
            V_ASSERT(B->items[j] == NULL, "C35.pop_best.post.slot_of_returned_task_cleared");
        }
    }
    for (int i = 0; i < BSIZE; i++)
        if (i != j) V_ASSERT(B->items[i] == (vin.occ[i] ? &pool(i).super : NULL), "C35.pop_best.post.other_slots_untouched");
    V_CANARY("pop_best");
}
