/* GENUINE DEFECT (DTD insertion pattern), known finding C10-ready-race: DTD legally inserts tasks while the monitor is
 * NOT_READY without holding a runtime action (parsec_dtd_taskpool_new / leave_wait set the runtime actions to 0, ready()
 * is called only at enter_wait), so the counts cross zero several times before readiness.
 *
 * Native demonstration: the local termination detector reports termination while
 * nb_tasks == 1 and nb_pending_actions == 1 (DTD-like use: tasks inserted and completed
 * before taskpool_ready()).  Two real threads run the real functions of libparsec.so through
 * the exported module table.  The worker is stalled exactly between its atomic decrement of
 * nb_pending_actions and its (later, plain) read of tdm.monitor by putting the counters and the
 * monitor on two different pages and protecting the second page: the read faults, the SIGSEGV
 * handler unprotects the page, waits for the main thread, and returns (the read is re-executed).
 * Nothing is patched; a preemption at that instruction gives the same interleaving. */
#define _GNU_SOURCE
#include <pthread.h>
#include <signal.h>
#include <stdio.h>
#include <stdlib.h>
#include <stddef.h>
#include <string.h>
#include <unistd.h>
#include <sys/mman.h>
#include "parsec/parsec_config.h"
#include "parsec/parsec_internal.h"
#include "parsec/mca/termdet/termdet.h"
extern const parsec_termdet_module_t parsec_termdet_local_module;
#define M (parsec_termdet_local_module.module)

static parsec_taskpool_t *tp;
static char *pageB;
static long pagesz;
static volatile int in_window, main_done, reported;

static void cb(parsec_taskpool_t *p)
{
    reported++;
    printf("[worker] TERMINATION CALLBACK #%d runs with nb_tasks=%d nb_pending_actions=%d\n",
           reported, p->nb_tasks, p->nb_pending_actions);
}
static void rel(parsec_object_t *o) { (void)o; printf("taskpool released\n"); }

static void on_segv(int sig, siginfo_t *si, void *uc)
{
    (void)sig; (void)uc;
    if ((char *)si->si_addr < pageB || (char *)si->si_addr >= pageB + pagesz) _exit(99);
    mprotect(pageB, pagesz, PROT_READ | PROT_WRITE);
    in_window = 1;                         /* worker: decrement done, monitor not read yet */
    while (!main_done) ;                   /* the stall (= a preemption)                   */
}
static void *worker(void *a)
{
    (void)a;
    /* task A completes */
    int32_t r = M.taskpool_addto_nb_tasks(tp, -1);
    printf("[worker] addto_nb_tasks(-1) returned %d\n", r);
    return NULL;
}
int main(void)
{
    pagesz = sysconf(_SC_PAGESIZE);
    char *base = mmap(NULL, 2 * pagesz, PROT_READ | PROT_WRITE, MAP_PRIVATE | MAP_ANONYMOUS, -1, 0);
    pageB = base + pagesz;
    /* counters at the end of page A, context / tdm (module, callback, monitor) at the start of page B */
    tp = (parsec_taskpool_t *)(pageB - offsetof(parsec_taskpool_t, context));
    memset(tp, 0, sizeof(*tp));
    tp->super.super.obj_reference_count = 1;
    tp->super.super.obj_release = rel;
    tp->tdm.module = &M;
    struct sigaction sa; memset(&sa, 0, sizeof(sa)); sa.sa_sigaction = on_segv; sa.sa_flags = SA_SIGINFO;
    sigaction(SIGSEGV, &sa, NULL);

    M.monitor_taskpool(tp, cb);            /* as parsec_dtd_taskpool_new() does */
    M.taskpool_set_nb_tasks(tp, 0);
    M.taskpool_set_runtime_actions(tp, 0);
    M.taskpool_addto_nb_tasks(tp, 1);      /* insert task A */
    printf("[main]   task A inserted: nb_tasks=%d nb_pending_actions=%d state=%d (1=NOT_READY)\n",
           tp->nb_tasks, tp->nb_pending_actions, M.taskpool_state(tp));

    mprotect(pageB, pagesz, PROT_NONE);
    pthread_t t; pthread_create(&t, NULL, worker, NULL);
    while (!in_window) ;
    printf("[main]   worker finished task A and is between its decrement and its read of the monitor: nb_tasks=%d nb_pending_actions=%d\n",
           tp->nb_tasks, tp->nb_pending_actions);
    M.taskpool_addto_nb_tasks(tp, 1);      /* insert task B */
    M.taskpool_ready(tp);                  /* parsec_taskpool_wait() -> on_enter_wait -> ready */
    printf("[main]   task B inserted, taskpool declared ready: nb_tasks=%d nb_pending_actions=%d state=%d (2=BUSY) reported=%d\n",
           tp->nb_tasks, tp->nb_pending_actions, M.taskpool_state(tp), reported);
    main_done = 1;
    pthread_join(t, NULL);
    int st = M.taskpool_state(tp);
    printf("[main]   final: nb_tasks=%d nb_pending_actions=%d state=%d (4=TERMINATED) callbacks=%d\n",
           tp->nb_tasks, tp->nb_pending_actions, st, reported);
    if (st == PARSEC_TERM_TP_TERMINATED && (tp->nb_tasks != 0 || tp->nb_pending_actions != 0)) {
        printf("DEFECT SHOWN: reported terminated while task B is still pending\n");
        return 1;
    }
    printf("no defect shown\n");
    return 0;
}
