#!/bin/sh
# genuine defect (DTD insertion pattern), known finding C10-ready-race: builds and runs the two-thread ready()/stale-zero
# scenario against the real libparsec.so
set -e
d=$(mktemp -d /tmp/c10demo-XXXXXX)
gcc -O1 -g -w "$(dirname "$0")/demo.c" -o "$d/demo" -I/repo/_build/parsec/include -I/repo/_build -I/repo/parsec/include -I/repo \
    -I/usr/lib/x86_64-linux-gnu/openmpi/include -L/repo/_build/parsec -lparsec -Wl,-rpath,/repo/_build/parsec -lpthread
rc=0; timeout 20 "$d/demo" || rc=$?
rm -rf "$d"
exit $rc
