/* C10 - local termination detection is exact.
 * Contracts on the REAL functions of parsec/mca/termdet/local/termdet_local_module.c
 * (all static; the file is included verbatim below).
 *
 * Shared words:  tp.nb_tasks (nt), tp.nb_pending_actions (npa), tp.tdm.monitor (mon).
 * rank(mon): NOT_READY=0 < BUSY=1 < TERMINATING=2 < TERMINATED=3 (one epoch = one monitor_taskpool()).
 *
 * Three kinds of jobs over the same harness text (g_mode):
 *  M_QUIET  call-atomic contracts (no interference): full functional postconditions, the invariant
 *             Inv:  nt >= 0, actions >= 0, npa == actions + (nt > 0)            (ghost: actions)
 *                   mon == BUSY  =>  npa > 0          (a zero count after readiness is never left undetected)
 *                   reports == (rank(mon) >= 2)       (ghost: reports = callback invocations of the epoch)
 *  M_ARB    rely/guarantee, environment acts before AND after (VERIF_RG_POST_STEP) every atomic operation of the function and
 *           inside the callback.  Rely: rank(mon) never decreases; TERMINATING->TERMINATED is done only by
 *           the winner of the BUSY->TERMINATING CAS; ready() has one caller per epoch; the two counters
 *           change ARBITRARILY (any int32).  Obligations: callback only by the CAS winner, only after the
 *           function's own atomic result on npa was 0, at most once, in state TERMINATING, TERMINATED
 *           published once and after the callback, monitor moves only along the four edges, shared words
 *           written only by atomic operations, zero crossings of nt mirrored by exactly one +-1 on npa.
 *  M_PROTO  as M_ARB, but the counters obey the PROTOCOL (DESIGN C10 GAP): work is created only by a
 *           thread that holds a pending action, a thread only retires what it holds.  Ghost per call:
 *           hold (action units the caller holds), mytasks (tasks it is about to retire), pend (+1: it
 *           moved nt 0->k and still owes npa++, -1: moved nt k->0 and still owes npa--).  Rely, state part:
 *                   npa >= hold + (nt > 0) - pend,   nt >= mytasks   (tasks I am about to retire, or just counted)
 *           Rely, step part (the protocol clause, scheduling.c "for as long as the DSL might add additional
 *           tasks into the taskpool, it should hold one reference to the runtime activities"): an
 *           environment step may INCREASE nt or npa only if, in the state before that step, somebody
 *           other than me holds an action:   others(state) = npa - mine > 0,   ghost
 *               mine = hold                                   (action units I still hold)
 *                    + 1 if pend == -1                        (I completed the last task and still owe npa--)
 *                    + 1 if pend == 0 && 0 < nt <= mytasks    (every counted task is one I am about to retire)
 *           The clause binds once the taskpool is ready (rank >= 1).  While NOT_READY the DSL may create work
 *           even from zero without holding an action (DTD: parsec_dtd_taskpool_new / leave_wait set the
 *           runtime actions to 0, tasks are inserted and completed, ready() comes only at enter_wait), so
 *           an environment step that starts in NOT_READY may increase the counters (and declare ready).
 *           Obligations: the callback runs, and TERMINATED is published, only while nt == 0 and npa == 0
 *           ("never reported terminated while a count is non-zero"); my own increasing steps happen only
 *           while npa > 0.
 *           Jobs proto.after_ready.* start with rank >= 1 and pass.  Jobs proto.ready_race.* let the call
 *           start while NOT_READY and FAIL on the unchanged tree - GENUINE DEFECT (known finding
 *           C10-ready-race): the decrement to zero made while NOT_READY is kept in a local, new work +
 *           ready() happen before the monitor is read, the stale zero wins the BUSY->TERMINATING CAS.
 *           Native two-thread reproduction: spec/C10/native_demo.
 *  All modes: a call whose own atomic step brought npa to 0 while the monitor was BUSY at that instant
 *           (ready(): which read npa == 0 after its own NOT_READY->BUSY step) must try the BUSY->TERMINATING
 *           CAS: on return it has won it or the monitor has left BUSY ("zero after readiness is reported").
 *
 * CAS retry loops (set_nb_tasks / set_runtime_actions): the environment makes the CAS fail at most
 * RETRY times per call; a failed iteration only re-reads the counter and the rely is transitive, so
 * longer runs of failures reach no new post-loop state; lock-freedom of the loop is not claimed.
 */
#include "verif.h"
#ifndef VERIF_RG_POST_STEP
#define VERIF_RG_POST_STEP
#endif                          /* the wrappers call verif_env_step again AFTER verif_own_step: interference between my
                                  atomic operation and my next plain access */
#include "verif_rg.h"
#include "parsec/parsec_config.h"
#include "parsec/parsec_internal.h"

#include "parsec/mca/termdet/local/termdet_local_module.c"

#ifndef NENV
#define NENV  24
#endif
#ifndef RETRY
#define RETRY 2          /* failed CAS attempts of a retry loop the environment may cause per call */
#endif
#define CAP   (1 << 30)        /* M_PROTO: counters stay <= 2^30 ...                                  */
#define CAPIN (1 << 28)        /* ... |v| and holdings <= 2^28, so no int32 overflow occurs            */

struct vin {
    uint8_t  rank0;            /* state of the monitor when the call starts                */
    int32_t  nt0, npa0;        /* counters when the call starts                            */
    int32_t  actions0;         /* ghost: pending actions other than "has tasks" (M_QUIET)  */
    int32_t  v;                /* argument                                                 */
    int32_t  ref0;             /* reference count of the taskpool                          */
    int32_t  hold;             /* M_PROTO: action units held by the caller                 */
    uint8_t  cb_null;          /* termination_detected: no callback registered             */
    uint8_t  module_null;      /* taskpool_state: not monitored                            */
    uint8_t  env_rank[NENV];   /* environment steps                                        */
    int32_t  env_nt[NENV];
    int32_t  env_npa[NENV];
} vin;
#include "verif_vin.h"

enum { FN_ADD_T, FN_ADD_A, FN_SET_T, FN_SET_A, FN_READY, FN_DETECTED, FN_OTHER };
enum { M_QUIET, M_ARB, M_PROTO };

static parsec_taskpool_t tp;
static int g_mode, g_fn;
/* ghost */
static int g_env_k, g_env_short, g_retry_left;
static int g_post;            /* the next verif_env_step call is the wrapper's post-step of my last atomic operation */
static int g_cb_mine, g_cb_env, g_won, g_published, g_ready_done;
static int g_bad_edge, g_plain_write, g_cb_not_winner, g_cb_mon_wrong, g_cas_without_zero, g_pub_before_cb, g_inv_broken, g_zero_broken, g_must_report;
static void   *g_mon_sh;
static int32_t g_nt_sh, g_npa_sh;
static int     g_have_lin, g_nt_lin, g_npa_lin_n;
static int32_t g_npa_lin, g_npa_seen;
static int32_t g_cb_nt, g_cb_npa, g_pub_nt, g_pub_npa;
static int64_t g_hold, g_mytasks;
static int     g_pend;
static int     g_freed;

#define MON(r) ((r) == 0 ? PARSEC_TERMDET_LOCAL_NOT_READY : (r) == 1 ? PARSEC_TERMDET_LOCAL_BUSY : \
                (r) == 2 ? PARSEC_TERMDET_LOCAL_TERMINATING : PARSEC_TERMDET_LOCAL_TERMINATED)
static int rank_of(void *m)
{
    return m == PARSEC_TERMDET_LOCAL_NOT_READY ? 0 : m == PARSEC_TERMDET_LOCAL_BUSY ? 1 :
           m == PARSEC_TERMDET_LOCAL_TERMINATING ? 2 : m == PARSEC_TERMDET_LOCAL_TERMINATED ? 3 : -1;
}
static int is_refcount(volatile void *loc) { return loc == (volatile void *)&tp.super.super.obj_reference_count; }
static void sync_shadows(void) { g_mon_sh = tp.tdm.monitor; g_nt_sh = tp.nb_tasks; g_npa_sh = tp.nb_pending_actions; }
static void check_shadows(void)
{   /* guarantee: between two hooks nothing but the hooked atomic operation wrote a shared word */
    if (tp.tdm.monitor != g_mon_sh || tp.nb_tasks != g_nt_sh || tp.nb_pending_actions != g_npa_sh) g_plain_write = 1;
}

/* ghost: action units in npa that are not mine (see header) */
static int64_t others_hold(void)
{
    int64_t mine = g_hold + (g_pend < 0) + (g_pend == 0 && tp.nb_tasks > 0 && (int64_t)tp.nb_tasks <= g_mytasks);
    return (int64_t)tp.nb_pending_actions - mine;
}

/* ---- the environment: other threads, constrained by the rely ---- */
static void env_act(void)
{
    if (g_mode == M_QUIET) return;
    if (g_env_k >= NENV) { g_env_short = 1; return; }
    int k = g_env_k++;
    int r0 = rank_of(tp.tdm.monitor), r1 = vin.env_rank[k];
    int32_t nt1 = vin.env_nt[k], npa1 = vin.env_npa[k];
    V_ASSUME(r1 >= r0 && r1 <= 3);                        /* monitor only moves forward              */
    if (g_won && !g_published) V_ASSUME(r1 == r0);        /* only the CAS winner publishes TERMINATED */
    if (g_fn == FN_READY && r0 == 0) V_ASSUME(r1 == 0);   /* ready() has a single caller per epoch    */
    if (g_fn == FN_DETECTED) V_ASSUME(r1 == r0);          /* called by the winner only                */
    if (r0 <= 1 && r1 >= 2) g_cb_env = 1;                 /* another thread won: its report           */
    /* the detector's own reference: taken by the thread that calls ready(), dropped by the winner */
    if (r0 == 0 && r1 >= 1) tp.super.super.obj_reference_count += 1;
    if (g_cb_env && r0 <= 2 && r1 == 3) tp.super.super.obj_reference_count -= 1;
    if (g_mode == M_PROTO) {
        V_ASSUME(nt1 >= 0 && nt1 <= CAP && npa1 >= 0 && npa1 <= CAP);
        V_ASSUME((int64_t)nt1 >= g_mytasks);
        V_ASSUME((int64_t)npa1 >= g_hold + (nt1 > 0) - g_pend);
        /* protocol clause: once the taskpool is ready, work is created only by a holder of a pending action (and not by
         * borrowing mine); while NOT_READY the DSL may create work even from zero (DTD inserts tasks before taskpool_wait) */
        if (r0 != 0 && others_hold() <= 0) V_ASSUME(nt1 <= tp.nb_tasks && npa1 <= tp.nb_pending_actions);
    }
    tp.nb_tasks = nt1; tp.nb_pending_actions = npa1; tp.tdm.monitor = MON(r1);
}

void verif_env_step(int op, volatile void *loc)
{
    if (is_refcount(loc)) return;
    check_shadows();
    if (g_post) {
        /* post-step (VERIF_RG_POST_STEP): others act between my atomic operation and my next plain read.  Everything
         * "at my step" (linearisation values, must-report, invariant check) was recorded in verif_own_step before this
         * point and is not touched here; the retry budget and g_npa_seen belong to the pre-step of the NEXT operation. */
        g_post = 0;
        env_act();
        sync_shadows();
        return;
    }
    if (op == V_OP_CAS && loc == (volatile void *)&tp.tdm.monitor)
        g_npa_seen = tp.nb_pending_actions;              /* what a plain read since the last hook saw */
    if (op == V_OP_CAS && (loc == (volatile void *)&tp.nb_tasks || loc == (volatile void *)&tp.nb_pending_actions)) {
        int32_t old = *(volatile int32_t *)loc;
        env_act();
        if (g_retry_left == 0) V_ASSUME(*(volatile int32_t *)loc == old);
        else if (*(volatile int32_t *)loc != old) g_retry_left--;
    } else env_act();
    sync_shadows();
}

void verif_own_step(int op, volatile void *loc, int success)
{
    if (is_refcount(loc)) {
        /* ready(): `if(tp->nb_pending_actions == 0)` is read right after PARSEC_OBJ_RETAIN; the environment does not
         * act at the reference-count hooks, so this is the state that read sees */
        if (g_fn == FN_READY && g_ready_done && !g_won && !g_cb_env &&
            tp.nb_pending_actions == 0 && tp.tdm.monitor == PARSEC_TERMDET_LOCAL_BUSY) g_must_report = 1;
        return;
    }
    if (loc == (volatile void *)&tp.tdm.monitor) {
        if (op == V_OP_CAS && success) {
            int a = rank_of(g_mon_sh), b = rank_of(tp.tdm.monitor);
            if (a == 0 && b == 1 && g_fn == FN_READY && !g_ready_done) g_ready_done = 1;
            else if (a == 1 && b == 2) {
                g_won++;
                if (g_fn == FN_READY ? (g_npa_seen != 0) : !(g_have_lin && g_npa_lin == 0)) g_cas_without_zero = 1;
            } else if (a == 2 && b == 3) {
                if ((g_fn != FN_DETECTED && g_won != 1) || g_published) g_bad_edge = 1;
                if (tp.tdm.callback != NULL && g_cb_mine != 1) g_pub_before_cb = 1;
                g_published++; g_pub_nt = tp.nb_tasks; g_pub_npa = tp.nb_pending_actions;
            } else g_bad_edge = 1;
        } else if (tp.tdm.monitor != g_mon_sh) g_plain_write = 1;
    } else if (loc == (volatile void *)&tp.nb_tasks) {
        if (!(op == V_OP_CAS && !success)) {
            int32_t o = g_nt_sh, n = tp.nb_tasks;
            if (o == 0 && n > 0) g_pend += 1;             /* I owe npa++ */
            if (o > 0 && n == 0) g_pend -= 1;             /* I owe npa-- */
            /* tasks I retire are gone; tasks I just counted cannot be retired by others before my call returns */
            g_mytasks = (n > o) ? (int64_t)n - (int64_t)o : 0; g_nt_lin++;
        } else if (tp.nb_tasks != g_nt_sh) g_plain_write = 1;
    } else if (loc == (volatile void *)&tp.nb_pending_actions) {
        if (!(op == V_OP_CAS && !success)) {
            int64_t d = (int64_t)tp.nb_pending_actions - (int64_t)g_npa_sh;
            if (g_fn == FN_ADD_T || g_fn == FN_SET_T) g_pend -= (int)d; else g_hold += d;
            g_have_lin = 1; g_npa_lin = tp.nb_pending_actions; g_npa_lin_n++;
            if (tp.nb_pending_actions == 0 && tp.tdm.monitor == PARSEC_TERMDET_LOCAL_BUSY) g_must_report = 1;
        } else if (tp.nb_pending_actions != g_npa_sh) g_plain_write = 1;
    }
    if (g_mode == M_PROTO &&
        !((int64_t)tp.nb_pending_actions >= g_hold + (tp.nb_tasks > 0) - g_pend)) g_inv_broken = 1;
    /* what the others rely on: I create work only while an action is held (npa > 0 before my step) */
    if (g_mode == M_PROTO && g_npa_sh <= 0 &&
        (tp.nb_tasks > g_nt_sh || tp.nb_pending_actions > g_npa_sh)) g_zero_broken = 1;
    sync_shadows();
    g_post = 1;                                           /* the wrapper now calls verif_env_step again: post-step */
}

/* ---- stubs (trusted base) ---- */
static void cb_stub(parsec_taskpool_t *p)
{
    g_cb_mine++;
    if (p != &tp || tp.tdm.monitor != PARSEC_TERMDET_LOCAL_TERMINATING) g_cb_mon_wrong = 1;
    if ((g_fn != FN_DETECTED && g_won != 1) || g_published) g_cb_not_winner = 1;
    g_cb_nt = tp.nb_tasks; g_cb_npa = tp.nb_pending_actions;
    check_shadows(); env_act(); sync_shadows();           /* the callback takes time: others run */
}
static void release_stub(parsec_object_t *o) { (void)o; g_freed++; }

static void setup(int mode, int fn)
{
    g_mode = mode; g_fn = fn;
    g_env_k = g_env_short = 0; g_retry_left = RETRY; g_post = 0;
    g_cb_mine = g_cb_env = g_won = g_published = g_ready_done = 0;
    g_bad_edge = g_plain_write = g_cb_not_winner = g_cb_mon_wrong = g_cas_without_zero = g_pub_before_cb = g_inv_broken = g_zero_broken = g_must_report = 0;
    g_have_lin = g_nt_lin = g_npa_lin_n = 0; g_pend = 0; g_hold = 0; g_mytasks = 0; g_freed = 0;
    V_ASSUME(vin.rank0 <= 3);
    tp.tdm.module = &parsec_termdet_local_module.module;
    tp.tdm.callback = cb_stub;
    tp.tdm.monitor = MON(vin.rank0);
    tp.nb_tasks = vin.nt0; tp.nb_pending_actions = vin.npa0;
    /* references: the caller's, plus the detector's own between ready() and the end of termination_detected() */
    V_ASSUME(vin.ref0 >= 1 + (vin.rank0 == 1 || vin.rank0 == 2) && vin.ref0 < CAP);
    tp.super.super.obj_reference_count = vin.ref0;
    tp.super.super.obj_release = release_stub;
    sync_shadows();
}

/* PRE of the call-atomic contracts: Inv */
static void assume_inv(void)
{
    V_ASSUME(vin.nt0 >= 0 && vin.actions0 >= 0 && vin.actions0 < INT32_MAX);
    V_ASSUME(vin.npa0 == vin.actions0 + (vin.nt0 > 0));
    V_ASSUME(V_IMPLIES(vin.rank0 == 1, vin.npa0 > 0));
}

/* guarantee clauses common to every mode */
#define GUAR(F) do { \
    V_ASSERT(!g_plain_write, "C10." F ".guar.shared_words_written_only_by_atomic_operations"); \
    V_ASSERT(!g_bad_edge, "C10." F ".guar.monitor_moves_only_NOT_READY_BUSY_TERMINATING_TERMINATED"); \
    V_ASSERT(g_won <= 1 && g_cb_mine == g_won && !g_cb_not_winner, "C10." F ".guar.callback_once_and_only_by_winner_of_BUSY_to_TERMINATING_CAS"); \
    V_ASSERT(!g_cas_without_zero, "C10." F ".guar.detection_CAS_only_after_own_observation_of_zero_pending_actions"); \
    V_ASSERT(!g_cb_mon_wrong, "C10." F ".post.callback_runs_in_state_TERMINATING_never_NOT_READY_or_TERMINATED"); \
    V_ASSERT(g_published == g_won && !g_pub_before_cb, "C10." F ".post.TERMINATED_published_once_and_after_the_callback"); \
    V_ASSERT(g_freed == 0, "C10." F ".post.taskpool_not_freed_while_caller_holds_a_reference"); \
    V_ASSERT(!g_env_short, "C10." F ".inv.environment_budget_covers_every_interference_point"); \
    V_ASSERT(V_IMPLIES(g_must_report, g_won || rank_of(tp.tdm.monitor) >= 2), \
             "C10." F ".post.zero_pending_actions_reached_while_BUSY_is_reported_or_already_taken"); \
} while (0)

/* call-atomic postconditions: exp_nt / exp_act are the counters the API specifies */
#define SEQ_POST(F, exp_nt, exp_act, detect, rank1, dref) do { \
    int64_t e_nt = (exp_nt), e_act = (exp_act); int det_ = (detect); \
    V_ASSERT(tp.nb_tasks == e_nt, "C10." F ".post.task_count_as_specified"); \
    V_ASSERT(tp.nb_pending_actions == e_act + (e_nt > 0), "C10." F ".post.pending_actions_equal_actions_plus_has_tasks"); \
    V_ASSERT(g_cb_mine == det_, "C10." F ".post.callback_exactly_once_iff_ready_and_both_counts_zero"); \
    V_ASSERT(rank_of(tp.tdm.monitor) == (rank1), "C10." F ".post.state_TERMINATED_iff_detected_else_unchanged"); \
    V_ASSERT(V_IMPLIES(tp.tdm.monitor == PARSEC_TERMDET_LOCAL_BUSY, tp.nb_pending_actions > 0), \
             "C10." F ".inv.BUSY_implies_pending_work_detection_not_missed"); \
    V_ASSERT((vin.rank0 >= 2) + g_cb_mine == (rank_of(tp.tdm.monitor) >= 2), "C10." F ".inv.reports_of_epoch_equal_left_BUSY"); \
    V_ASSERT(V_IMPLIES(g_cb_mine, g_cb_nt == 0 && g_cb_npa == 0), "C10." F ".post.reported_only_when_both_counts_zero"); \
    V_ASSERT(tp.super.super.obj_reference_count == vin.ref0 + (dref) - det_, "C10." F ".post.detector_reference_released_iff_detected"); \
    GUAR(F); \
} while (0)

/* =================== call-atomic contracts =================== */
void h_seq_addto_nb_tasks(void)
{
    vin_load(); setup(M_QUIET, FN_ADD_T); assume_inv();
    /* PRE (the code's assert + no overflow): 0 <= nt + v <= INT32_MAX */
    V_ASSUME((int64_t)vin.nt0 + vin.v >= 0 && (int64_t)vin.nt0 + vin.v <= INT32_MAX);
    int32_t r = parsec_termdet_local_taskpool_addto_nb_tasks(&tp, vin.v);
    int64_t nt1 = (int64_t)vin.nt0 + vin.v;
    int det = vin.rank0 == 1 && vin.actions0 == 0 && nt1 == 0;
    V_ASSERT(r == nt1, "C10.addto_nb_tasks.post.returns_new_task_count");
    SEQ_POST("addto_nb_tasks", nt1, vin.actions0, det, det ? 3 : vin.rank0, 0);
    V_CANARY("seq_addto_nb_tasks");
}
void h_seq_addto_runtime_actions(void)
{
    vin_load(); setup(M_QUIET, FN_ADD_A); assume_inv();
    /* PRE: the actions other than "has tasks" stay >= 0, no overflow */
    V_ASSUME((int64_t)vin.actions0 + vin.v >= 0 && (int64_t)vin.npa0 + vin.v <= INT32_MAX);
    int32_t r = parsec_termdet_local_taskpool_addto_runtime_actions(&tp, vin.v);
    int64_t a1 = (int64_t)vin.actions0 + vin.v;
    int det = vin.rank0 == 1 && a1 == 0 && vin.nt0 == 0;
    V_ASSERT(r == a1 + (vin.nt0 > 0), "C10.addto_runtime_actions.post.returns_new_pending_actions");
    SEQ_POST("addto_runtime_actions", vin.nt0, a1, det, det ? 3 : vin.rank0, 0);
    V_CANARY("seq_addto_runtime_actions");
}
void h_seq_set_nb_tasks(void)
{
    vin_load(); setup(M_QUIET, FN_SET_T); assume_inv();
    V_ASSUME(vin.v >= 0);       /* PRE (the code's assert; PARSEC_RUNTIME_RESERVED_NB_TASKS is not covered) */
    int32_t r = parsec_termdet_local_taskpool_set_nb_tasks(&tp, vin.v);
    int det = vin.rank0 == 1 && vin.actions0 == 0 && vin.v == 0;
    V_ASSERT(r == vin.v, "C10.set_nb_tasks.post.returns_new_task_count");
    SEQ_POST("set_nb_tasks", vin.v, vin.actions0, det, det ? 3 : vin.rank0, 0);
    V_CANARY("seq_set_nb_tasks");
}
void h_seq_set_runtime_actions(void)
{
    vin_load(); setup(M_QUIET, FN_SET_A); assume_inv();
    /* PRE: v >= 0 (the code's assert) and the unit standing for "has tasks" is not wiped */
    V_ASSUME(vin.v >= (vin.nt0 > 0));
    int32_t r = parsec_termdet_local_taskpool_set_runtime_actions(&tp, vin.v);
    int det = vin.rank0 == 1 && vin.v == 0;
    V_ASSERT(r == vin.v, "C10.set_runtime_actions.post.returns_new_pending_actions");
    SEQ_POST("set_runtime_actions", vin.nt0, (int64_t)vin.v - (vin.nt0 > 0), det, det ? 3 : vin.rank0, 0);
    V_CANARY("seq_set_runtime_actions");
}
void h_seq_ready(void)
{
    vin_load(); setup(M_QUIET, FN_READY);
    V_ASSUME(vin.nt0 >= 0 && vin.actions0 >= 0 && vin.actions0 < INT32_MAX && vin.npa0 == vin.actions0 + (vin.nt0 > 0));
    V_ASSUME(vin.rank0 == 0);   /* PRE (the code's assert): declared ready once per epoch */
    int r = parsec_termdet_local_taskpool_ready(&tp);
    int det = vin.npa0 == 0;
    V_ASSERT(r == PARSEC_SUCCESS, "C10.ready.post.returns_success");
    V_ASSERT(g_ready_done == 1, "C10.ready.post.NOT_READY_to_BUSY_exactly_once");
    SEQ_POST("ready", vin.nt0, vin.actions0, det, det ? 3 : 1, 1);
    V_CANARY("seq_ready");
}
void h_seq_termination_detected(void)
{
    vin_load(); setup(M_QUIET, FN_DETECTED);
    V_ASSUME(vin.rank0 == 2);   /* PRE (the code's assert): called by the winner of the CAS */
    if (vin.cb_null) tp.tdm.callback = NULL;
    parsec_taskpool_t *p = &tp;
    parsec_termdet_local_termination_detected(p);
    V_ASSERT(g_cb_mine == !vin.cb_null, "C10.termination_detected.post.registered_callback_called_exactly_once");
    V_ASSERT(!g_cb_mon_wrong, "C10.termination_detected.post.callback_runs_before_TERMINATED_is_visible");
    V_ASSERT(g_published == 1 && !g_pub_before_cb && tp.tdm.monitor == PARSEC_TERMDET_LOCAL_TERMINATED,
             "C10.termination_detected.post.TERMINATED_published_once_after_callback");
    V_ASSERT(tp.super.super.obj_reference_count == vin.ref0 - 1 && g_freed == 0, "C10.termination_detected.post.detector_reference_released");
    V_ASSERT(tp.nb_tasks == vin.nt0 && tp.nb_pending_actions == vin.npa0, "C10.termination_detected.post.counters_untouched");
    V_ASSERT(!g_plain_write && !g_bad_edge, "C10.termination_detected.guar.monitor_written_only_by_CAS_TERMINATING_to_TERMINATED");
    V_CANARY("seq_termination_detected");
}
void h_seq_monitor_state(void)
{
    vin_load(); setup(M_QUIET, FN_OTHER);
    if (vin.module_null) tp.tdm.module = NULL;
    parsec_termdet_taskpool_state_t s = parsec_termdet_local_taskpool_state(&tp);
    /* "reported terminated" through the polling interface: only in state TERMINATED, i.e. after the callback returned */
    V_ASSERT(V_IFF(s == PARSEC_TERM_TP_TERMINATED, !vin.module_null && vin.rank0 == 3), "C10.taskpool_state.post.TERMINATED_iff_monitor_TERMINATED");
    V_ASSERT(V_IFF(s == PARSEC_TERM_TP_BUSY, !vin.module_null && (vin.rank0 == 1 || vin.rank0 == 2)), "C10.taskpool_state.post.BUSY_while_BUSY_or_TERMINATING");
    V_ASSERT(V_IFF(s == PARSEC_TERM_TP_NOT_READY, !vin.module_null && vin.rank0 == 0), "C10.taskpool_state.post.NOT_READY_iff_not_declared_ready");
    V_ASSERT(V_IFF(s == PARSEC_TERM_TP_NOT_MONITORED, vin.module_null), "C10.taskpool_state.post.NOT_MONITORED_iff_no_module");
    V_ASSERT(tp.tdm.monitor == MON(vin.rank0) && tp.nb_tasks == vin.nt0 && tp.nb_pending_actions == vin.npa0 && g_cb_mine == 0,
             "C10.taskpool_state.post.pure");
    /* monitor_taskpool opens a new epoch: NOT_READY, callback registered, nothing reported, counters untouched */
    tp.tdm.module = &parsec_termdet_local_module.module;
    tp.tdm.callback = NULL;
    parsec_termdet_local_monitor_taskpool(&tp, cb_stub);
    V_ASSERT(tp.tdm.monitor == PARSEC_TERMDET_LOCAL_NOT_READY && tp.tdm.callback == cb_stub, "C10.monitor_taskpool.post.NOT_READY_and_callback_registered");
    V_ASSERT(g_cb_mine == 0 && tp.nb_tasks == vin.nt0 && tp.nb_pending_actions == vin.npa0, "C10.monitor_taskpool.post.no_report_counters_untouched");
    V_ASSERT(parsec_termdet_local_taskpool_state(&tp) == PARSEC_TERM_TP_NOT_READY, "C10.monitor_taskpool.post.state_NOT_READY");
    V_CANARY("seq_monitor_state");
}

/* =================== rely/guarantee, arbitrary counters =================== */
#define RG_POST(F) do { \
    GUAR(F); \
    V_ASSERT((vin.rank0 >= 2) + g_won + g_cb_env == (rank_of(tp.tdm.monitor) >= 2) && (vin.rank0 >= 2) + g_won + g_cb_env <= 1, \
             "C10." F ".inv.at_most_one_report_per_epoch_and_only_after_leaving_BUSY"); \
    V_ASSERT(rank_of(tp.tdm.monitor) >= (int)vin.rank0, "C10." F ".guar.monitor_never_moves_backwards"); \
} while (0)

void h_rg_addto_nb_tasks(void)
{
    vin_load(); setup(M_ARB, FN_ADD_T);
    parsec_termdet_local_taskpool_addto_nb_tasks(&tp, vin.v);
    V_ASSERT(g_nt_lin == (vin.v != 0), "C10.addto_nb_tasks.post.one_linearisation_point_on_task_count");
    V_ASSERT(g_pend == 0 && g_npa_lin_n <= 1, "C10.addto_nb_tasks.post.zero_crossing_of_tasks_mirrored_by_one_update_of_pending_actions");
    RG_POST("addto_nb_tasks");
    if (g_cb_mine) V_CANARY("rg_addto_nb_tasks.callback_path_reached");
    V_CANARY("rg_addto_nb_tasks");
}
void h_rg_addto_runtime_actions(void)
{
    vin_load(); setup(M_ARB, FN_ADD_A);
    parsec_termdet_local_taskpool_addto_runtime_actions(&tp, vin.v);
    V_ASSERT(g_npa_lin_n == (vin.v != 0) && g_nt_lin == 0 && (int32_t)g_hold == vin.v,
             "C10.addto_runtime_actions.post.one_linearisation_point_adding_v");
    RG_POST("addto_runtime_actions");
    if (g_cb_mine) V_CANARY("rg_addto_runtime_actions.callback_path_reached");
    V_CANARY("rg_addto_runtime_actions");
}
void h_rg_set_nb_tasks(void)
{
    vin_load(); setup(M_ARB, FN_SET_T);
    V_ASSUME(vin.v >= 0);
    parsec_termdet_local_taskpool_set_nb_tasks(&tp, vin.v);
    V_ASSERT(g_nt_lin <= 1, "C10.set_nb_tasks.post.at_most_one_linearisation_point_on_task_count");
    V_ASSERT(g_pend == 0 && g_npa_lin_n <= 1, "C10.set_nb_tasks.post.zero_crossing_of_tasks_mirrored_by_one_update_of_pending_actions");
    RG_POST("set_nb_tasks");
    if (g_cb_mine) V_CANARY("rg_set_nb_tasks.callback_path_reached");
    V_CANARY("rg_set_nb_tasks");
}
void h_rg_set_runtime_actions(void)
{
    vin_load(); setup(M_ARB, FN_SET_A);
    V_ASSUME(vin.v >= 0);
    parsec_termdet_local_taskpool_set_runtime_actions(&tp, vin.v);
    V_ASSERT(g_npa_lin_n == 1 && g_npa_lin == vin.v && g_nt_lin == 0, "C10.set_runtime_actions.post.one_linearisation_point_storing_v");
    RG_POST("set_runtime_actions");
    if (g_cb_mine) V_CANARY("rg_set_runtime_actions.callback_path_reached");
    V_CANARY("rg_set_runtime_actions");
}
void h_rg_ready(void)
{
    vin_load(); setup(M_ARB, FN_READY);
    V_ASSUME(vin.rank0 == 0);
    parsec_termdet_local_taskpool_ready(&tp);
    V_ASSERT(g_ready_done == 1, "C10.ready.post.NOT_READY_to_BUSY_exactly_once");
    V_ASSERT(g_nt_lin == 0 && g_npa_lin_n == 0, "C10.ready.post.counters_not_written");
    RG_POST("ready");
    if (g_cb_mine) V_CANARY("rg_ready.callback_path_reached");
    V_CANARY("rg_ready");
}
void h_rg_termination_detected(void)
{
    vin_load(); setup(M_ARB, FN_DETECTED);
    V_ASSUME(vin.rank0 == 2);
    parsec_taskpool_t *p = &tp;
    parsec_termdet_local_termination_detected(p);
    V_ASSERT(g_cb_mine == 1 && !g_cb_mon_wrong, "C10.termination_detected.post.callback_once_in_state_TERMINATING");
    V_ASSERT(g_published == 1 && !g_pub_before_cb && tp.tdm.monitor == PARSEC_TERMDET_LOCAL_TERMINATED,
             "C10.termination_detected.post.TERMINATED_published_once_after_callback");
    V_ASSERT(!g_plain_write && !g_bad_edge && g_nt_lin == 0 && g_npa_lin_n == 0 && !g_env_short,
             "C10.termination_detected.guar.writes_only_monitor_by_CAS");
    V_CANARY("rg_termination_detected");
}

/* =================== rely/guarantee under the protocol =================== */
#ifndef RANK0_MIN
#define RANK0_MIN 1            /* 1: the taskpool was declared ready before the call started; 0: ready() may race with it */
#endif
static void proto_pre(void)
{
    V_ASSUME(vin.nt0 >= 0 && vin.nt0 <= CAP && vin.npa0 >= 0 && vin.npa0 <= CAP);
    V_ASSUME(vin.hold >= 0 && vin.hold <= CAPIN && vin.v >= -CAPIN && vin.v <= CAPIN);
    g_hold = vin.hold;
}
#define PROTO_POST(F) do { \
    V_ASSERT(!g_inv_broken, "C10." F ".guar.own_steps_keep_pending_actions_at_least_holdings_plus_has_tasks"); \
    V_ASSERT(!g_zero_broken, "C10." F ".guar.no_work_created_while_no_action_is_held"); \
    V_ASSERT(g_pend == 0, "C10." F ".guar.every_zero_crossing_of_tasks_settled_on_return"); \
    V_ASSERT(V_IMPLIES(g_must_report, g_won || rank_of(tp.tdm.monitor) >= 2), \
             "C10." F ".post.zero_pending_actions_reached_while_BUSY_is_reported_or_already_taken"); \
    V_ASSERT(V_IMPLIES(g_cb_mine, g_cb_nt == 0 && g_cb_npa == 0), "C10." F ".post.callback_only_while_both_counts_zero"); \
    V_ASSERT(V_IMPLIES(g_published, g_pub_nt == 0 && g_pub_npa == 0), "C10." F ".post.TERMINATED_published_only_while_both_counts_zero"); \
    V_ASSERT(!g_env_short, "C10." F ".inv.environment_budget_covers_every_interference_point"); \
} while (0)

void h_proto_addto_nb_tasks(void)
{
    vin_load(); setup(M_PROTO, FN_ADD_T); proto_pre();
    V_ASSUME(vin.rank0 >= RANK0_MIN);
    /* PRE (protocol): creating tasks needs a held action; retiring tasks needs the tasks */
    if (vin.v > 0) V_ASSUME(vin.hold >= 1); else g_mytasks = -(int64_t)vin.v;
    V_ASSUME((int64_t)vin.nt0 >= g_mytasks && (int64_t)vin.npa0 >= g_hold + (vin.nt0 > 0));
    parsec_termdet_local_taskpool_addto_nb_tasks(&tp, vin.v);
    PROTO_POST("addto_nb_tasks");
    if (g_cb_mine) V_CANARY("proto_addto_nb_tasks.callback_path_reached");
    V_CANARY("proto_addto_nb_tasks");
}
void h_proto_addto_runtime_actions(void)
{
    vin_load(); setup(M_PROTO, FN_ADD_A); proto_pre();
    V_ASSUME(vin.rank0 >= RANK0_MIN);
    /* PRE (protocol): adding actions needs a held action; removing actions needs to hold them */
    if (vin.v > 0) V_ASSUME(vin.hold >= 1); else V_ASSUME((int64_t)vin.hold >= -(int64_t)vin.v);
    V_ASSUME((int64_t)vin.npa0 >= g_hold + (vin.nt0 > 0));
    parsec_termdet_local_taskpool_addto_runtime_actions(&tp, vin.v);
    PROTO_POST("addto_runtime_actions");
    if (g_cb_mine) V_CANARY("proto_addto_runtime_actions.callback_path_reached");
    V_CANARY("proto_addto_runtime_actions");
}
void h_proto_ready(void)
{
    vin_load(); setup(M_PROTO, FN_READY); proto_pre();
    V_ASSUME(vin.rank0 == 0);
    V_ASSUME((int64_t)vin.npa0 >= g_hold + (vin.nt0 > 0));
    parsec_termdet_local_taskpool_ready(&tp);
    PROTO_POST("ready");
    if (g_cb_mine) V_CANARY("proto_ready.callback_path_reached");
    V_CANARY("proto_ready");
}

/* =================== lemmas (loop-free, all 32-bit values) =================== */
struct lemma_in { uint8_t a0, a1, b0, b1, rank; int32_t nt, npa, actions, reports; } lin;
void h_lemma(void)
{
    struct lemma_in t; lin = t;
    /* exactly once: two successful monitor steps of one epoch, the second one starting where or after the first
     * one ended (rank never decreases, each step is one edge): they cannot both be BUSY->TERMINATING */
    V_ASSUME(lin.a0 <= 3 && lin.a1 == lin.a0 + 1 && lin.b0 <= 3 && lin.b1 == lin.b0 + 1 && lin.a1 <= lin.b0);
    V_ASSERT(!(lin.a0 == 1 && lin.b0 == 1), "C10.lemma.at_most_one_winner_of_BUSY_to_TERMINATING_per_epoch");
    /* Inv => the observable clauses of the property */
    V_ASSUME(lin.rank <= 3 && lin.nt >= 0 && lin.actions >= 0 && lin.actions < INT32_MAX);
    V_ASSUME(lin.npa == lin.actions + (lin.nt > 0));
    V_ASSUME(V_IMPLIES(lin.rank == 1, lin.npa > 0));
    V_ASSUME(lin.reports == (lin.rank >= 2));
    V_ASSERT(V_IMPLIES(lin.rank == 3, lin.reports == 1 && lin.rank != 0), "C10.lemma.TERMINATED_only_after_ready_and_exactly_one_callback");
    V_ASSERT(V_IMPLIES(lin.rank == 0, lin.reports == 0), "C10.lemma.no_report_before_ready");
    V_ASSERT(V_IMPLIES(lin.rank >= 1 && lin.nt == 0 && lin.npa == 0, lin.reports == 1),
             "C10.lemma.ready_and_both_counts_zero_implies_reported_call_atomic");
    V_ASSERT(V_IMPLIES(lin.npa == 0, lin.nt == 0), "C10.lemma.zero_pending_actions_implies_zero_tasks");
    V_CANARY("lemma");
}
