from vlib import Job

P = "parsec_termdet_local_"
FUNS = [P + "taskpool_addto_nb_tasks", P + "taskpool_addto_runtime_actions",
        P + "taskpool_set_nb_tasks", P + "taskpool_set_runtime_actions",
        P + "taskpool_ready", P + "termination_detected",
        P + "taskpool_state", P + "monitor_taskpool"]

META = dict(
    level="other",
    functions=FUNS,
    explanation="Contracts on the real static functions of parsec/mca/termdet/local/termdet_local_module.c (file included verbatim), "
                "for every 32-bit value of the two counters and of the argument and every state of the monitor. "
                "(1) call-atomic contracts (jobs seq.*): exact new counters, the invariant nb_pending_actions == actions + (nb_tasks>0), "
                "callback exactly once iff the taskpool was ready and both counts are zero after the call, state TERMINATED iff reported, "
                "BUSY implies pending work (a zero count after readiness is never left undetected), detector reference released iff detected. "
                "(2) rely/guarantee contracts (jobs rg.*): other threads act before and after every atomic operation of the function and "
                "inside the callback, changing the counters arbitrarily and moving the monitor forward; obligations: callback only by the "
                "winner of the BUSY->TERMINATING CAS, only after the function's own atomic result on nb_pending_actions was 0, in state "
                "TERMINATING (never NOT_READY), TERMINATED published once and after the callback, shared words written only by atomic "
                "operations, each zero crossing of nb_tasks mirrored by exactly one +-1 on nb_pending_actions, at most one report per epoch. "
                "In every mode: a call whose own atomic step brought nb_pending_actions to 0 while the monitor was BUSY at that instant, and a "
                "ready() that read 0 after its NOT_READY->BUSY step, has on return won the BUSY->TERMINATING CAS or the monitor has left BUSY. "
                "(3) the same under the counting protocol (jobs proto.*): callback and TERMINATED only while both counts are zero. Discharged when "
                "the taskpool was ready before the call started (proto.after_ready.*, proto.ready). REFUTED when the call starts while NOT_READY "
                "and new work + taskpool_ready() by another thread race with it (proto.ready_race.*: genuine defect, known finding "
                "C10-ready-race, reproduced natively with two threads in spec/C10/native_demo). "
                "(4) lemmas: CAS uniqueness; the invariant implies the observable clauses of the property.",
    trusted_base=["rely/guarantee soundness theorem (per-thread obligations imply the invariant for every interleaving)",
                  "termination callback stubbed: records the state it is called in, lets the environment act, touches nothing else",
                  "obj_release of the taskpool stubbed (counts calls); PARSEC_OBJ_RETAIN / PARSEC_OBJ_RELEASE are the real macros",
                  "interference is placed before and after every atomic operation and in the callback; two consecutive plain reads "
                  "(set_nb_tasks: `ret = tp->nb_tasks; if(tp->nb_tasks != v)`) see the same environment state",
                  "CAS retry loops of set_nb_tasks / set_runtime_actions: at most RETRY (quick 2, thorough 8) failed attempts per call are "
                  "explored; a failed attempt only re-reads the counter and the rely is transitive; lock-freedom is not claimed"],
    assumptions=["PROTOCOL CLAUSE (jobs proto.*; scheduling.c: 'for as long as the DSL might add additional tasks into the taskpool, it "
                 "should hold one reference to the runtime activities'): once the taskpool is ready, work is created only by a holder of a "
                 "pending action. In the rely: an environment step that starts in a state other than NOT_READY may increase nb_tasks or "
                 "nb_pending_actions only if nb_pending_actions minus the units still held by the caller (its own action units, or the 'has "
                 "tasks' unit while it completes the last task) is > 0. While NOT_READY the DSL may create work even from zero without "
                 "holding an action (DTD: parsec_dtd_taskpool_new / leave_wait set the runtime actions to 0, ready() only at enter_wait): "
                 "this is allowed, not assumed away. The caller itself increases a counter only while it holds an action (v > 0 requires hold >= 1)",
                 "protocol, continued: a thread retires only tasks/actions it holds, a task is retired only after the addto call that "
                 "counted it has returned; counters are at most 2^30, |v| and holdings at most 2^28 (no int32 overflow)",
                 "taskpool_ready is called once per epoch (the code's assert); a callback is registered (the NULL callback is covered for "
                 "termination_detected only)",
                 "set_nb_tasks: v >= 0 (PARSEC_RUNTIME_RESERVED_NB_TASKS, accepted by the code's assert and passed nowhere, is not covered); "
                 "set_runtime_actions: v >= (nb_tasks > 0); under the protocol set_* are not analysed (they overwrite a counter, which is "
                 "meaningful only while no other thread updates it)",
                 "call-atomic contracts: counters stay within int32 (0 <= nb_tasks + v, no overflow)",
                 "'once both counts stay zero after readiness, termination is reported': discharged for call-atomic histories (invariant "
                 "BUSY => nb_pending_actions > 0); under interference it is reduced to two discharged obligations (the thread whose atomic "
                 "step reaches 0 while BUSY tries the CAS; ready() tries it if it reads 0 after its own step to BUSY) glued by an argument that "
                 "is NOT mechanised: if 0 was reached while NOT_READY and stays 0, ready() reads it after its own step (sequential consistency)"],
)


def jobs(tier):
    H = "h_termdet.c"
    full = tier == "thorough"
    # thorough: more environment steps and more failed CAS attempts in the retry loops (insensitivity of the result to the cap)
    D = {"RETRY": 8, "NENV": 40} if full else {}
    uw = 10 if full else 4
    rb = "CAS retry loop: at most %d failed attempts caused by the environment per call (longer runs add no post-loop state: a failed attempt only re-reads the counter, rely transitive)" % (8 if full else 2)
    to = 1800 if full else 600
    J = [
        Job("seq.addto_nb_tasks", H, entry="h_seq_addto_nb_tasks", unwind=2, functions=[P + "taskpool_addto_nb_tasks", P + "termination_detected"], timeout=300, min_obligations=12),
        Job("seq.addto_runtime_actions", H, entry="h_seq_addto_runtime_actions", unwind=2, functions=[P + "taskpool_addto_runtime_actions", P + "termination_detected"], timeout=300, min_obligations=12),
        Job("seq.set_nb_tasks", H, entry="h_seq_set_nb_tasks", unwind=2, functions=[P + "taskpool_set_nb_tasks", P + "termination_detected"], timeout=300, min_obligations=12),
        Job("seq.set_runtime_actions", H, entry="h_seq_set_runtime_actions", unwind=2, functions=[P + "taskpool_set_runtime_actions", P + "termination_detected"], timeout=300, min_obligations=12),
        Job("seq.ready", H, entry="h_seq_ready", unwind=2, functions=[P + "taskpool_ready", P + "termination_detected"], timeout=300, min_obligations=12),
        Job("seq.termination_detected", H, entry="h_seq_termination_detected", unwind=2, functions=[P + "termination_detected"], timeout=300, min_obligations=6),
        Job("seq.monitor_state", H, entry="h_seq_monitor_state", unwind=2, functions=[P + "taskpool_state", P + "monitor_taskpool"], timeout=300, min_obligations=8),
        Job("rg.addto_nb_tasks", H, entry="h_rg_addto_nb_tasks", defines=D, unwind=2, canaries=2, functions=[P + "taskpool_addto_nb_tasks", P + "termination_detected"], timeout=to, min_obligations=12),
        Job("rg.addto_runtime_actions", H, entry="h_rg_addto_runtime_actions", defines=D, unwind=2, canaries=2, functions=[P + "taskpool_addto_runtime_actions", P + "termination_detected"], timeout=to, min_obligations=11),
        Job("rg.set_nb_tasks", H, entry="h_rg_set_nb_tasks", defines=D, unwind=uw, canaries=2, bounded=rb, functions=[P + "taskpool_set_nb_tasks", P + "termination_detected"], timeout=to, min_obligations=12),
        Job("rg.set_runtime_actions", H, entry="h_rg_set_runtime_actions", defines=D, unwind=uw, canaries=2, bounded=rb, functions=[P + "taskpool_set_runtime_actions", P + "termination_detected"], timeout=to, min_obligations=11),
        Job("rg.ready", H, entry="h_rg_ready", defines=D, unwind=2, canaries=2, functions=[P + "taskpool_ready", P + "termination_detected"], timeout=to, min_obligations=12),
        Job("rg.termination_detected", H, entry="h_rg_termination_detected", defines=D, unwind=2, functions=[P + "termination_detected"], timeout=to, min_obligations=3),
        Job("proto.after_ready.addto_nb_tasks", H, entry="h_proto_addto_nb_tasks", defines=D, unwind=2, canaries=2, functions=[P + "taskpool_addto_nb_tasks", P + "termination_detected"], timeout=to, min_obligations=6),
        Job("proto.after_ready.addto_runtime_actions", H, entry="h_proto_addto_runtime_actions", defines=D, unwind=2, canaries=2, functions=[P + "taskpool_addto_runtime_actions", P + "termination_detected"], timeout=to, min_obligations=6),
        Job("proto.ready", H, entry="h_proto_ready", defines=D, unwind=2, canaries=2, functions=[P + "taskpool_ready", P + "termination_detected"], timeout=to, min_obligations=6),
        # Same obligations, but the call may start while NOT_READY, where the DSL may create work from zero (DTD insertion pattern) and
        # then declare the taskpool ready.  GENUINE DEFECT of the unchanged tree, known finding C10-ready-race in
        # /verif/known_findings.json: the obligations *.only_while_both_counts_zero fail (decrement to zero kept in a local, new work +
        # ready() before the monitor is read, the stale zero wins the CAS).  Native reproduction: spec/C10/native_demo.
        # The failing obligations are confined to these two jobs; every other obligation of these jobs passes.
        Job("proto.ready_race.addto_nb_tasks", H, entry="h_proto_addto_nb_tasks", defines=dict(D, RANK0_MIN=0), unwind=2, canaries=2, functions=[P + "taskpool_addto_nb_tasks"], timeout=to, min_obligations=6),
        Job("proto.ready_race.addto_runtime_actions", H, entry="h_proto_addto_runtime_actions", defines=dict(D, RANK0_MIN=0), unwind=2, canaries=2, functions=[P + "taskpool_addto_runtime_actions"], timeout=to, min_obligations=6),
        Job("lemma", H, entry="h_lemma", unwind=2, functions=[], timeout=300, min_obligations=5, replay=False),
    ]
    return J


MANIFEST = dict(
    category="other",
    text="Deductive check of the real local termination detector (termdet_local_module.c) with CBMC over all 32-bit counter values, "
         "arguments and monitor states. Discharged: (i) call-atomic contracts of all 8 functions (exact counters, callback exactly once "
         "iff ready and both counts zero, TERMINATED iff reported, BUSY implies pending work so a zero count after readiness is always "
         "detected); (ii) under arbitrary interference on the counters and forward moves of the monitor, placed around every atomic "
         "operation: the callback is run only by the single winner of the BUSY->TERMINATING CAS, only after the caller's own atomic result "
         "on nb_pending_actions was zero, never while NOT_READY, TERMINATED is published once and after the callback, so at most one report "
         "per epoch in every interleaving; a thread that brings the count to zero while BUSY, or a ready() that reads zero, always tries "
         "the CAS; (iii) under the counting protocol a report made by a call that started after readiness, or by ready() itself, happens only "
         "while both counts are zero. REFUTED (known finding C10-ready-race, jobs proto.ready_race.*, reproduced natively with two threads): "
         "a call that decrements to zero while NOT_READY and is overtaken by new work + taskpool_ready() reports termination with non-zero "
         "counts. Level 'other': that refuted clause, the liveness clause under interference rests on a gluing argument that is not "
         "mechanised, and CAS retry loops are explored up to 2 (thorough 8) failed attempts (labelled bounded).",
    note="Assumes rely/guarantee soundness, sequentially consistent atomics, one taskpool_ready per epoch, and for clause (iii) the protocol "
         "clause 'after ready only a holder of a pending action creates work' (before ready the DSL may create work from zero: DTD insertion "
         "pattern, allowed); counters <= 2^30, |v| <= 2^28. Callback and obj_release are stubs. NOT decided: the gluing step of 'once both "
         "counts stay zero after readiness termination is reported' under interference; set_* under the protocol; "
         "PARSEC_RUNTIME_RESERVED_NB_TASKS as argument; interference between two adjacent plain reads; what the callback "
         "parsec_taskpool_termination_detected (scheduling.c) does.",
    technique="function contracts + rely/guarantee ghost state on the real termdet_local_module.c, discharged by CBMC (SAT); complete (loop-free) "
              "except CAS retry loops (bounded failed attempts, labelled)",
    design_ref="DESIGN.md section 5, C10")
