from vlib import Job

META = dict(
    level="other",
    functions=["parsec_redistribute_New", "getsize", "redistribute_region_is_stored", "redistribute_distribution_num_cols",
               "redistribute_pair_num_cols", "CORE_redistribute_reshuffle_copy", "MOVE_SUBMATRIX (macro, as expanded in the harness)"],
    explanation="Function-level contracts on the hand-written part of the redistribution (redistribute_wrapper.c and "
                "redistribute_internal.h included verbatim; generated headers redistribute.h / redistribute_reshuffle.h of the build "
                "tree used unchanged). (1) parsec_redistribute_New: NULL and nothing created iff the request is invalid (empty window, "
                "negative displacement, window not inside source / target stated in 64-bit integers, window touching unstored tiles "
                "of a symmetric-block-cyclic collection, unsupported distribution); otherwise exactly one taskpool, reshuffle "
                "constructor iff same tile sizes and all four displacements tile-aligned, else general constructor; dcY, dcT, sizes "
                "and displacements handed over unchanged, R == 0, _g_num_col == redistribute_pair_num_cols(), _g_NT by the floor "
                "formula (stated division-free), arena datatypes per ADT index. Symbolic: lmt, lnt, sizes, displacements, llm, "
                "storage, rank, uplo, distribution kinds; fixed per cbmc process: the four tile sizes and the process-grid parameters "
                "(bounded). (2) getsize: segmentation lemma (pieces in 1..mb, adjacent, inside the window, sum == size) for every "
                "32-bit size / displacement / index, tile size enumerated. (3) redistribute_region_is_stored == every touched tile is "
                "stored (ghost tile + witness), num_cols helpers case by case. (4) CORE_redistribute_reshuffle_copy / MOVE_SUBMATRIX "
                "copy exactly the block and leave the rest of the target tile unchanged, fixed small shapes, symbolic contents/offsets. "
                "Job new.overflow.*: the clause 'a window not inside the matrix is rejected' WITHOUT the restriction dis+size <= INT_MAX "
                "(every int input). History: it failed on the pinned tree (disi_Y+size_row added in int arithmetic wrapped for "
                "displacements near INT_MAX, the window was accepted); repaired in /repo by commit 0ac8e8b (64-bit comparison); the job "
                "now passes and selftest 08 reverts the fix and must be detected. demo_overflow.c is the native demonstration.",
    trusted_base=["stubs parsec_redistribute_new / parsec_redistribute_reshuffle_new (JDF-generated constructors): record their arguments, "
                  "return a static taskpool object",
                  "stubs parsec_matrix_adt_define_rect / _square: record adt pointer, type and shape",
                  "stub parsec_output_verbose (behind parsec_warning): counts calls",
                  "CBMC's model of memcpy and of double division / ceil (tabular jobs, constant operands)"],
    assumptions=["representation invariant of a tiled matrix: mb, nb >= 1, lmt, lnt >= 0, lmt*mb and lnt*nb representable as int, "
                 "dtype carries at most one of the kind bits block_cyclic / tabular / sbc",
                 "main / tabular / NT jobs: the four window ends dis+size are representable as int (the job new.overflow.* drops this "
                 "for the rejection clause; the later arithmetic disj_T+size_col-1 of the accepted path is int in the code)",
                 "grid.cols, grid.kcols in 0..32767 (num_cols helper job)",
                 "New jobs do not run --pointer-check / --bounds-check (all obligations in one SAT instance did not finish with them); "
                 "the copy / move jobs do"],
)

MANIFEST = dict(
    category="other",
    text="Contracts on the real parsec_redistribute_New and the helpers of redistribute_internal.h, discharged by CBMC: request "
         "validation (window inside source and target in mathematical integers, stored tiles, supported distribution), selection of "
         "the reshuffle vs general task graph exactly by 'same tile sizes and tile-aligned displacements', unchanged hand-over of the "
         "request to the generated constructor, the getsize segmentation lemma (pieces tile the window exactly once and sum to size), "
         "and the copy kernels CORE_redistribute_reshuffle_copy / MOVE_SUBMATRIX (exact block, frame unchanged). Tile sizes, process "
         "grids and kernel shapes are enumerated (bounded), everything else is symbolic over all 32-bit values. Level 'other': the "
         "copying itself is done by two JDF task graphs that are not under contract.",
    note="NOT decided: the two JDF task graphs redistribute.jdf / redistribute_reshuffle.jdf (which tiles exchange which pieces, the "
         "index arithmetic of their bodies), hence element equality of source window and target window end to end and 'every other "
         "target element unchanged' beyond one kernel call; every distribution / process count (grids are enumerated, rank_of is never "
         "evaluated); tile sizes beyond the enumerated tuples; the DTD variant (redistribute_dtd.c: CORE_redistribute_dtd, insert_task "
         "orchestration) was not built; parsec_redistribute (context add/start/wait) is not under contract. History: the clause 'window "
         "not inside the matrix is rejected for every int input' (job new.overflow.*) failed on the pinned tree (int overflow of dis+size "
         "in the window test, input 16x16 matrix, size_row=1, disi_Y=INT_MAX accepted); fixed in /repo by commit 0ac8e8b, the job now "
         "passes and selftest 08 (revert of the fix) is detected.",
    technique="function contracts (harness route) + ghost state / recording stubs on the real redistribute_wrapper.c and "
              "redistribute_internal.h, discharged by CBMC (SAT, kissat for arithmetic); divisions stated division-free through witnesses; "
              "tile sizes enumerated per process",
    design_ref="DESIGN.md section 5, C21 (function-level parts; DESIGN lists the property as not applicable)")

GRID = {"GCY": 2, "GKY": 1, "RY": 3, "NODY": 4, "GCT": 1, "GKT": 2, "RT": 2, "NODT": 3}
BC, SBC, TAB = 2, 16, 8


def tiles(t):
    return {"MBY": t[0], "NBY": t[1], "MBT": t[2], "NBT": t[3]}


def tn(t):
    return "%dx%d_%dx%d" % t


def jobs(tier):
    full = tier == "thorough"
    J = []
    FN = ["parsec_redistribute_New"]
    # (1) parsec_redistribute_New --------------------------------------------------------------------------------
    main_tiles = [(4, 3, 4, 3), (4, 3, 2, 5), (1, 1, 1, 1), (8, 8, 8, 8)] if full else [(4, 3, 4, 3)]
    for t in main_tiles:
        b = "tile sizes fixed to %s (source mb x nb, target mb x nb), process grids fixed; all else symbolic" % tn(t)
        J.append(Job("new.main." + tn(t), "h_new.c", entry="h_new", unwind=4, defines=dict(tiles(t), **GRID), checks=(),
                     bounded=b, functions=FN, timeout=900 if full else 400, min_obligations=20))
    tab_tiles = [((4, 3, 4, 3), 7), ((4, 3, 2, 5), 11)] if full else [((4, 3, 4, 3), 7)]
    for t, sc in tab_tiles:
        J.append(Job("new.tabular.%s.sc%d" % (tn(t), sc), "h_new.c", entry="h_new", unwind=4,
                     defines=dict(tiles(t), SIZE_COL=sc, **GRID), checks=(),
                     bounded="at least one side tabular; tile sizes %s, size_col = %d, grids fixed" % (tn(t), sc),
                     functions=FN, timeout=900 if full else 400, min_obligations=20))
    nt = [((4, 3, 4, 3), BC, SBC), ((4, 3, 2, 5), SBC, BC), ((4, 3, 4, 3), BC, BC)] if full else [((4, 3, 4, 3), BC, SBC)]
    for t, ky, kt in nt:
        J.append(Job("new.NT.%s.k%d_%d" % (tn(t), ky, kt), "h_new.c", entry="h_new", unwind=4,
                     defines=dict(tiles(t), ONLY_NT=None, KY=ky, KT=kt, **GRID), checks=(), solver="kissat",
                     bounded="NT formula: tile sizes %s, distribution kinds %d/%d, grids fixed (num_col constant)" % (tn(t), ky, kt),
                     functions=FN, timeout=600, min_obligations=2))
    # rejection clause over EVERY int input (no dis+size <= INT_MAX restriction); failed before commit 0ac8e8b, see META
    J.append(Job("new.overflow." + tn((4, 3, 4, 3)), "h_new.c", entry="h_new", unwind=4,
                 defines=dict(tiles((4, 3, 4, 3)), NEW_OVERFLOW=None, **GRID), checks=(),
                 bounded="tile sizes 4x3_4x3", functions=FN, timeout=600, min_obligations=1))
    # (2) getsize lemma --------------------------------------------------------------------------------------------
    for mb in ([1, 2, 3, 4, 5, 7, 8, 64, 1000] if full else [1, 3, 8]):
        J.append(Job("getsize.lemma.mb%d" % mb, "h_helpers.c", entry="h_getsize", unwind=2, defines={"MBFIX": mb, "NBFIX": 1},
                     checks=(), solver="kissat", bounded="tile size mb = %d; size, dis, start, index symbolic" % mb,
                     functions=["getsize"], timeout=600, min_obligations=8))
    # (3) helpers --------------------------------------------------------------------------------------------------
    for mb, nb in ([(3, 2), (1, 1), (2, 5), (8, 8)] if full else [(3, 2)]):
        J.append(Job("stored.%dx%d" % (mb, nb), "h_helpers.c", entry="h_stored", unwind=2, defines={"MBFIX": mb, "NBFIX": nb},
                     checks=(), solver="kissat", bounded="tile size %d x %d" % (mb, nb),
                     functions=["redistribute_region_is_stored"], timeout=600, min_obligations=5))
    G = {"G1": 2, "K1": 1, "G2": 1, "K2": 3}
    J.append(Job("numcols.g2x1_1x3", "h_helpers.c", entry="h_numcols", unwind=2, defines=G, checks=(),
                 bounded="process grids cols x kcols = 2x1 / 1x3; r, nodes, kinds symbolic; no tabular side",
                 functions=["redistribute_distribution_num_cols", "redistribute_pair_num_cols"], timeout=600, min_obligations=5))
    for sc, n1, n2 in ([(7, 3, 2), (1, 1, 4), (12, 4, 5)] if full else [(7, 3, 2)]):
        J.append(Job("numcols.tabular.sc%d_nb%d_%d" % (sc, n1, n2), "h_helpers.c", entry="h_numcols", unwind=2,
                     defines=dict(G, SIZE_COL=sc, NB1=n1, NB2=n2), checks=(),
                     bounded="tabular ceil((double)size_col/nb): size_col = %d, nb = %d / %d; nodes symbolic" % (sc, n1, n2),
                     functions=["redistribute_distribution_num_cols", "redistribute_pair_num_cols"], timeout=600, min_obligations=5))
    # (4) copy kernels ---------------------------------------------------------------------------------------------
    # (3,2,3,5) and (2,2,4,2): a leading dimension equal to the block height on ONE side only (tile storage on one side, LAPACK on
    # the other) -- added after seeded change C21 (a 'contiguous' fast path testing only the target's leading dimension)
    for mb, nb, tld, yld in ([(3, 2, 4, 3), (3, 2, 3, 5), (2, 2, 4, 2), (2, 3, 2, 2), (1, 1, 1, 1), (4, 3, 6, 5)] if full
                             else [(3, 2, 4, 3), (3, 2, 3, 5), (2, 2, 4, 2)]):
        J.append(Job("copy.%dx%d_ld%d_%d" % (mb, nb, tld, yld), "h_helpers.c", entry="h_copy", unwind=150,
                     defines={"CMB": mb, "CNB": nb, "CTLD": tld, "CYLD": yld},
                     bounded="block %d x %d, T_LDA %d, Y_LDA %d; contents symbolic" % (mb, nb, tld, yld),
                     functions=["CORE_redistribute_reshuffle_copy"], timeout=600, min_obligations=3))
    for m, n, sld, dld, sc, dc in ([(3, 2, 4, 3, 3, 4), (1, 3, 2, 3, 4, 3), (2, 2, 2, 4, 2, 3)] if full else [(3, 2, 4, 3, 3, 4)]):
        J.append(Job("move.%dx%d_ld%d_%d" % (m, n, sld, dld), "h_helpers.c", entry="h_move", unwind=150,
                     defines={"VM": m, "VN": n, "VSLD": sld, "VDLD": dld, "VSCOLS": sc, "VDCOLS": dc},
                     bounded="block %d x %d, source tile %d x %d, destination tile %d x %d; offsets and contents symbolic" % (m, n, sld, sc, dld, dc),
                     functions=["MOVE_SUBMATRIX"], timeout=600, min_obligations=2))
    return J
