/* native demonstration (exit 0 = the out-of-matrix window is rejected, as after /repo commit 0ac8e8b; exit 1 = accepted,
 * as on the pinned tree): parsec_redistribute_New and a window that is not inside the 16x16 source matrix
 * (the real redistribute_wrapper.c is #included; the JDF-generated constructors are replaced by recording stubs) */
#include <limits.h>
#include <stdio.h>
#include "parsec/data_dist/matrix/redistribute/redistribute_wrapper.c"
static parsec_redistribute_taskpool_t g; static parsec_redistribute_reshuffle_taskpool_t r;
parsec_redistribute_taskpool_t *parsec_redistribute_new(parsec_tiled_matrix_t *Y, parsec_tiled_matrix_t *T, int a, int b, int c, int d, int e, int f, int R)
{ printf("general constructor called: size_row=%d disi_Y=%d\n", a, c); return &g; }
parsec_redistribute_reshuffle_taskpool_t *parsec_redistribute_reshuffle_new(parsec_tiled_matrix_t *Y, parsec_tiled_matrix_t *T, int a, int b, int c, int d, int e, int f)
{ printf("reshuffle constructor called: size_row=%d disi_Y=%d\n", a, c); return &r; }
int parsec_matrix_adt_define_rect(parsec_arena_datatype_t *adt, parsec_datatype_t t, unsigned m, unsigned n, unsigned ld) { return 0; }
int parsec_matrix_adt_define_square(parsec_arena_datatype_t *adt, parsec_datatype_t t, unsigned m) { return 0; }
int main(void)
{
    static parsec_matrix_block_cyclic_t Y, T;
    Y.super.dtype = T.super.dtype = parsec_matrix_type | parsec_matrix_block_cyclic_type;
    Y.super.mb = Y.super.nb = T.super.mb = T.super.nb = 4;
    Y.super.lmt = Y.super.lnt = T.super.lmt = T.super.lnt = 4;      /* 16 x 16 elements */
    Y.grid.cols = Y.grid.kcols = T.grid.cols = T.grid.kcols = 1;
    parsec_taskpool_t *tp = parsec_redistribute_New(&Y.super, &T.super, 1, 1, INT_MAX, 0, 0, 0);
    int accepted = tp != NULL;
    printf("disi_Y = INT_MAX, size_row = 1, source 16x16: returned %s\n", tp ? "a taskpool (ACCEPTED)" : "NULL (REJECTED)");
    tp = parsec_redistribute_New(&Y.super, &T.super, 1, 1, 16, 0, 0, 0);
    printf("disi_Y = 16,      size_row = 1, source 16x16: returned %s\n", tp ? "a taskpool (ACCEPTED)" : "NULL (REJECTED)");
    return accepted ? 1 : 0;
}
