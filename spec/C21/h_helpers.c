/* C21, part 2: the static inline helpers of parsec/data_dist/matrix/redistribute/redistribute_internal.h (the real
 * header, included verbatim; it has no include guard, so it is included exactly once, here).
 *
 * h_getsize   : segmentation lemma behind "copies exactly the requested window": the window [dis, dis+size) of a
 *               dimension cut into tiles of mb rows is covered by the pieces getsize(index, start, end, mb, size, dis),
 *               index = start..end, end = start + (size+dis-1)/mb: every piece is in 1..mb, piece `index` starts at
 *               in-tile offset (index == start ? dis : 0) and stays inside its tile, consecutive pieces are adjacent
 *               (no gap, no overlap), and the pieces sum to exactly `size` (closed form first + (k-1)*mb + last).
 *               mb is fixed per call path (case split over 1..MBMAX: symbolic multiplier / divisor does not finish).
 * h_stored    : redistribute_region_is_stored == "every tile touched by the window is stored" (ghost tile).
 * h_numcols   : redistribute_distribution_num_cols / redistribute_pair_num_cols, case by case.
 * h_copy      : CORE_redistribute_reshuffle_copy copies exactly the mb x nb block, frame: rest of T unchanged.
 * h_move      : MOVE_SUBMATRIX with symbolic offsets (the macro the JDF bodies and the DTD kernel use).
 */
#include "verif.h"
#include "parsec/parsec_config.h"
#include <stdint.h>
#include <limits.h>
#include "parsec/data_dist/matrix/redistribute/redistribute_internal.h"

#ifndef MBMAX
#define MBMAX 6
#endif
#ifndef CMB
#define CMB 2
#define CNB 2
#define CTLD 3
#define CYLD 2
#endif
#define TSZ (CTLD * (CNB - 1) + CMB)      /* smallest legal column-major buffers: an over-copy is out of bounds */
#define YSZ (CYLD * (CNB - 1) + CMB)
#define MSZ 12

struct vin {
    /* getsize */
    int32_t mb, dis, size, start, index;
    /* stored / numcols */
    int32_t dtype, dtype2, tmb, tnb, size_row, size_col, disi, disj, uplo, gm, gn;
    int32_t gcols, gkcols, gcols2, gkcols2;
    uint32_t nodes, nodes2;
    uint16_t r, r2;
    /* copy / move */
    uint64_t T[MSZ * MSZ], Y[MSZ * MSZ];
    int32_t S_i, S_j, D_i, D_j;
    uint8_t gi, gj;
} vin;
#include "verif_vin.h"

/* ------------------------------------------------------------------ getsize */
static void getsize_case(const int mb)
{
    int dis = vin.dis, size = vin.size, start = vin.start, index = vin.index;
    /* PRE (call sites: dis = displacement % mb, size = window extent) */
    V_ASSUME(0 <= dis && dis < mb && size >= 1 && (int64_t)size + dis <= INT_MAX);
    int k = (size + dis - 1) / mb;                     /* number of tile boundaries crossed */
    V_ASSUME(start >= 0 && (int64_t)start + k <= INT_MAX);
    int end = start + k;
    V_ASSUME(start <= index && index <= end);

    int piece = getsize(index, start, end, mb, size, dis);
    int first = getsize(start, start, end, mb, size, dis);
    int last  = getsize(end,   start, end, mb, size, dis);

    V_ASSERT(1 <= piece && piece <= mb, "C21.getsize.lemma.every_piece_between_1_and_mb");
    int off = (index == start) ? dis : 0;              /* in-tile offset at which piece `index` starts */
    V_ASSERT(off + piece <= mb, "C21.getsize.lemma.piece_stays_inside_its_tile");
    /* window coordinate at which piece `index` starts (window-relative), = sum of the pieces before it */
    int64_t wstart = (index == start) ? 0 : (int64_t)(index - start) * mb - dis;
    int64_t wend = wstart + piece;
    V_ASSERT(0 <= wstart && wend <= size, "C21.getsize.lemma.piece_inside_window");
    V_ASSERT(V_IMPLIES(index < end, off + piece == mb), "C21.getsize.lemma.non_last_piece_reaches_tile_end_no_gap_to_next");
    V_ASSERT(V_IMPLIES(index == end, wend == size), "C21.getsize.lemma.last_piece_ends_the_window");
    V_ASSERT(V_IMPLIES(index > start && index < end, piece == mb), "C21.getsize.lemma.inner_pieces_are_full_tiles");
    /* sum of all pieces, closed form */
    int64_t sum = (k == 0) ? first : (int64_t)first + (int64_t)(k - 1) * mb + last;
    V_ASSERT(sum == size, "C21.getsize.lemma.pieces_sum_to_exactly_size");
    V_ASSERT(V_IMPLIES(k == 0, first == size && last == size), "C21.getsize.lemma.single_tile_window_is_one_piece");
}
void h_getsize(void)
{
    vin_load();
#ifdef MBFIX
    getsize_case(MBFIX);                 /* one tile size per cbmc process */
#else
    V_ASSUME(vin.mb >= 1 && vin.mb <= MBMAX);
    for (int c = 1; c <= MBMAX; c++)
        if (vin.mb == c) { getsize_case(c); break; }
#endif
    V_CANARY("getsize");
}

/* ------------------------------------------------------------------ region_is_stored */
static parsec_matrix_sbc_t g_sbc, g_sbc2;
static parsec_matrix_block_cyclic_t g_bc, g_bc2;
static parsec_matrix_tabular_t g_tab, g_tab2;
static parsec_tiled_matrix_t g_plain, g_plain2;
#define KIND_BITS (parsec_matrix_block_cyclic_type | parsec_matrix_tabular_type | parsec_matrix_sbc_type)

static void stored_case(const int mb, const int nb)
{
    int size_row = vin.size_row, size_col = vin.size_col, disi = vin.disi, disj = vin.disj;
    V_ASSUME(size_row >= 1 && size_col >= 1 && disi >= 0 && disj >= 0);
    V_ASSUME((int64_t)disi + size_row <= INT_MAX && (int64_t)disj + size_col <= INT_MAX);
    int k = vin.dtype & KIND_BITS;
    V_ASSUME(k == 0 || k == parsec_matrix_block_cyclic_type || k == parsec_matrix_tabular_type || k == parsec_matrix_sbc_type);
    parsec_tiled_matrix_t *dc = (k == parsec_matrix_sbc_type) ? &g_sbc.super :
                                (k == parsec_matrix_block_cyclic_type) ? &g_bc.super :
                                (k == parsec_matrix_tabular_type) ? &g_tab.super : &g_plain;
    dc->dtype = vin.dtype; dc->mb = mb; dc->nb = nb;
    g_sbc.uplo = (parsec_matrix_uplo_t)vin.uplo;

    int r = redistribute_region_is_stored(dc, size_row, size_col, disi, disj);

    V_ASSERT(r == 0 || r == 1, "C21.redistribute_region_is_stored.post.boolean");
    V_ASSERT(V_IMPLIES(k != parsec_matrix_sbc_type, r == 1), "C21.redistribute_region_is_stored.post.full_storage_kinds_store_everything");
    if (k == parsec_matrix_sbc_type) {
        /* ghost tile (gm, gn) touched by the window: gm*mb <= some row of the window < (gm+1)*mb, same for gn */
        int64_t gm = vin.gm, gn = vin.gn;
        int touched = gm >= 0 && gn >= 0
                   && gm * mb < (int64_t)disi + size_row && (gm + 1) * mb > disi
                   && gn * nb < (int64_t)disj + size_col && (gn + 1) * nb > disj;
        int tile_stored = (vin.uplo == PARSEC_MATRIX_LOWER) ? gm >= gn : (vin.uplo == PARSEC_MATRIX_UPPER) ? gn >= gm : 0;
        V_ASSERT(V_IMPLIES(r && touched, tile_stored), "C21.redistribute_region_is_stored.post.accepted_window_touches_only_stored_tiles");
        /* rejected => some touched tile is not stored: witness = the corner tile farthest from the stored triangle */
        int64_t m0 = disi / mb, m1 = (disi + size_row - 1) / mb, n0 = disj / nb, n1 = (disj + size_col - 1) / nb;
        int64_t wm = (vin.uplo == PARSEC_MATRIX_LOWER) ? m0 : m1, wn = (vin.uplo == PARSEC_MATRIX_LOWER) ? n1 : n0;
        int w_touched = wm * mb < (int64_t)disi + size_row && (wm + 1) * mb > disi
                     && wn * nb < (int64_t)disj + size_col && (wn + 1) * nb > disj;
        int w_stored = (vin.uplo == PARSEC_MATRIX_LOWER) ? wm >= wn : (vin.uplo == PARSEC_MATRIX_UPPER) ? wn >= wm : 0;
        V_ASSERT(w_touched, "C21.redistribute_region_is_stored.lemma.witness_tile_is_touched");
        V_ASSERT(V_IMPLIES(!r, !w_stored), "C21.redistribute_region_is_stored.post.rejected_window_touches_an_unstored_tile");
    }
}
void h_stored(void)
{
    vin_load();
#ifdef MBFIX
    stored_case(MBFIX, NBFIX);           /* one pair of tile sizes per cbmc process */
#else
    V_ASSUME(vin.tmb >= 1 && vin.tmb <= MBMAX && vin.tnb >= 1 && vin.tnb <= MBMAX);
    for (int a = 1; a <= MBMAX; a++)
        for (int b = 1; b <= MBMAX; b++)
            if (vin.tmb == a && vin.tnb == b) { stored_case(a, b); a = MBMAX + 1; break; }
#endif
    V_CANARY("stored");
}

/* ------------------------------------------------------------------ num_cols */
static parsec_tiled_matrix_t *mk(int which, int dtype, int nb)
{
    int k = dtype & KIND_BITS;
    parsec_tiled_matrix_t *dc;
    if (which == 0) {
        dc = (k == parsec_matrix_sbc_type) ? &g_sbc.super : (k == parsec_matrix_block_cyclic_type) ? &g_bc.super :
             (k == parsec_matrix_tabular_type) ? &g_tab.super : &g_plain;
        g_bc.grid.cols = vin.gcols; g_bc.grid.kcols = vin.gkcols; g_sbc.r = vin.r; dc->super.nodes = vin.nodes;
    } else {
        dc = (k == parsec_matrix_sbc_type) ? &g_sbc2.super : (k == parsec_matrix_block_cyclic_type) ? &g_bc2.super :
             (k == parsec_matrix_tabular_type) ? &g_tab2.super : &g_plain2;
        g_bc2.grid.cols = vin.gcols2; g_bc2.grid.kcols = vin.gkcols2; g_sbc2.r = vin.r2; dc->super.nodes = vin.nodes2;
    }
    dc->dtype = dtype; dc->nb = nb;
    return dc;
}
/* spec: number of process columns a distribution spreads one row of tiles over */
static int spec_cols(int dtype, int gcols, int gkcols, int r, uint32_t nodes, int size_col, int nb)
{
    int k = dtype & KIND_BITS;
    if (k == parsec_matrix_tabular_type) {
        int tile_cols = (size_col + nb - 1) / nb;                 /* integer ceiling */
        return tile_cols <= (int)nodes ? tile_cols : (int)nodes;
    }
    if (k == parsec_matrix_block_cyclic_type) return gcols * gkcols;
    if (k == parsec_matrix_sbc_type) return r;
    return -1;
}
void h_numcols(void)
{
    vin_load();
    int k1 = vin.dtype & KIND_BITS, k2 = vin.dtype2 & KIND_BITS;
    V_ASSUME(k1 == 0 || k1 == parsec_matrix_block_cyclic_type || k1 == parsec_matrix_tabular_type || k1 == parsec_matrix_sbc_type);
    V_ASSUME(k2 == 0 || k2 == parsec_matrix_block_cyclic_type || k2 == parsec_matrix_tabular_type || k2 == parsec_matrix_sbc_type);
#ifdef SIZE_COL
    /* floating point ceil((double)size_col / nb): size_col and the tile widths fixed per cbmc process */
    vin.size_col = SIZE_COL; vin.tnb = NB1; vin.tmb = NB2;
#else
    V_ASSUME(k1 != parsec_matrix_tabular_type && k2 != parsec_matrix_tabular_type);
#endif
    V_ASSUME(vin.size_col >= 1 && vin.tnb >= 1 && vin.tmb >= 1);
#ifdef G1
    /* process grids fixed per cbmc process (cols * kcols symbolic x symbolic on both sides does not finish) */
    vin.gcols = G1; vin.gkcols = K1; vin.gcols2 = G2; vin.gkcols2 = K2;
#endif
    /* grid sizes of real machines: product representable */
    V_ASSUME(vin.gcols >= 0 && vin.gcols <= 0x7fff && vin.gkcols >= 0 && vin.gkcols <= 0x7fff);
    V_ASSUME(vin.gcols2 >= 0 && vin.gcols2 <= 0x7fff && vin.gkcols2 >= 0 && vin.gkcols2 <= 0x7fff);
    V_ASSUME(vin.nodes <= INT_MAX && vin.nodes2 <= INT_MAX);
    parsec_tiled_matrix_t *Y = mk(0, vin.dtype, vin.tnb), *T = mk(1, vin.dtype2, vin.tmb);

    int cY = redistribute_distribution_num_cols(Y, vin.size_col);
    int cT = redistribute_distribution_num_cols(T, vin.size_col);
    int sY = spec_cols(vin.dtype, vin.gcols, vin.gkcols, vin.r, vin.nodes, vin.size_col, vin.tnb);
    int sT = spec_cols(vin.dtype2, vin.gcols2, vin.gkcols2, vin.r2, vin.nodes2, vin.size_col, vin.tmb);
    V_ASSERT(cY == sY && cT == sT, "C21.redistribute_distribution_num_cols.post.columns_of_each_kind");
    V_ASSERT(V_IMPLIES(k1 == 0, cY < 0), "C21.redistribute_distribution_num_cols.post.unsupported_kind_is_negative");

    int p = redistribute_pair_num_cols(Y, T, vin.size_col);
    V_ASSERT(V_IFF(p <= 0, sY <= 0 || sT <= 0), "C21.redistribute_pair_num_cols.post.non_positive_iff_a_side_is_unsupported_or_empty");
    if (p > 0) {
        int tabY = k1 == parsec_matrix_tabular_type, tabT = k2 == parsec_matrix_tabular_type;
        V_ASSERT(V_IMPLIES(tabY && !tabT, p == sT), "C21.redistribute_pair_num_cols.post.tabular_source_follows_target");
        V_ASSERT(V_IMPLIES(tabT, p == sY), "C21.redistribute_pair_num_cols.post.tabular_target_follows_source");
        V_ASSERT(V_IMPLIES(!tabY && !tabT, p == (sY >= sT ? sY : sT) && p >= sY && p >= sT),
                 "C21.redistribute_pair_num_cols.post.otherwise_the_larger_of_the_two");
    }
    V_CANARY("numcols");
}

/* ------------------------------------------------------------------ reshuffle copy */
static uint64_t bufT[TSZ], bufY[YSZ];
void h_copy(void)
{
    vin_load();
    for (int i = 0; i < TSZ; i++) bufT[i] = vin.T[i];
    for (int i = 0; i < YSZ; i++) bufY[i] = vin.Y[i];
    CORE_redistribute_reshuffle_copy((DTYPE *)bufT, (DTYPE *)bufY, CMB, CNB, CTLD, CYLD);
    int i = vin.gi, j = vin.gj;              /* ghost element of the tile */
    V_ASSUME(j < CNB && i < CTLD && j * CTLD + i < TSZ);
    if (i < CMB)
        V_ASSERT(bufT[j * CTLD + i] == vin.Y[j * CYLD + i], "C21.CORE_redistribute_reshuffle_copy.post.block_element_i_j_copied_column_major");
    else
        V_ASSERT(bufT[j * CTLD + i] == vin.T[j * CTLD + i], "C21.CORE_redistribute_reshuffle_copy.post.frame_padding_rows_of_target_unchanged");
    int y = vin.S_i;
    V_ASSUME(0 <= y && y < YSZ);
    V_ASSERT(bufY[y] == vin.Y[y], "C21.CORE_redistribute_reshuffle_copy.post.source_unchanged");
    V_CANARY("copy");
}

/* ------------------------------------------------------------------ MOVE_SUBMATRIX with offsets */
#ifndef VM
#define VM 2
#define VN 2
#define VSLD 4
#define VDLD 3
#define VSCOLS 3
#define VDCOLS 4
#endif
static uint64_t mS[VSLD * VSCOLS], mD[VDLD * VDCOLS];
void h_move(void)
{
    vin_load();
    for (int i = 0; i < VSLD * VSCOLS; i++) mS[i] = vin.Y[i];
    for (int i = 0; i < VDLD * VDCOLS; i++) mD[i] = vin.T[i];
    int S_i = vin.S_i, S_j = vin.S_j, D_i = vin.D_i, D_j = vin.D_j;
    /* PRE: both sub-blocks lie inside their tiles */
    V_ASSUME(0 <= S_i && S_i <= VSLD - VM && 0 <= S_j && S_j <= VSCOLS - VN);
    V_ASSUME(0 <= D_i && D_i <= VDLD - VM && 0 <= D_j && D_j <= VDCOLS - VN);
    DTYPE *S = (DTYPE *)mS, *D = (DTYPE *)mD;
    MOVE_SUBMATRIX(VM, VN, S, S_i, S_j, VSLD, D, D_i, D_j, VDLD);
    int i = vin.gi, j = vin.gj;              /* ghost element of the destination tile */
    V_ASSUME(i < VDLD && j < VDCOLS);
    if (i >= D_i && i < D_i + VM && j >= D_j && j < D_j + VN)
        V_ASSERT(mD[j * VDLD + i] == vin.Y[(S_j + (j - D_j)) * VSLD + S_i + (i - D_i)],
                 "C21.MOVE_SUBMATRIX.post.element_of_destination_block_equals_corresponding_source_element");
    else
        V_ASSERT(mD[j * VDLD + i] == vin.T[j * VDLD + i], "C21.MOVE_SUBMATRIX.post.frame_rest_of_destination_tile_unchanged");
    V_CANARY("move");
}
