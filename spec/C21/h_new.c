/* C21, part 1: parsec_redistribute_New (parsec/data_dist/matrix/redistribute/redistribute_wrapper.c, included
 * verbatim; it includes redistribute_internal.h and the generated headers redistribute.h / redistribute_reshuffle.h
 * of /repo/_build, which are used as they are: they only declare the taskpool structs and the constructors).
 *
 * Property clause: "copies the requested size_row-by-size_col window ... for any tile sizes, displacements and
 * source/target distributions" -- the part decided HERE is the request validation and the path selection
 * (mechanism "optimized reshuffle vs general path selection"):
 *   - NULL (nothing created) iff the request is invalid: empty window, negative displacement, window not inside
 *     the source (lmt*mb x lnt*nb) or the target -- stated in 64-bit (mathematical) integers --, window touching
 *     unstored tiles of a symmetric-block-cyclic collection, unsupported distribution;
 *   - otherwise exactly one taskpool, from the reshuffle constructor iff (same tile sizes and all four displacements
 *     multiples of the tile size) else from the general constructor, the request handed over UNCHANGED, R == 0,
 *     _g_num_col == redistribute_pair_num_cols(), _g_NT by the code's formula, datatypes defined per ADT index.
 *
 * Stubs (trusted, recording): parsec_redistribute_new, parsec_redistribute_reshuffle_new (the JDF-generated
 * constructors), parsec_matrix_adt_define_rect / _square, parsec_output_verbose (behind parsec_warning).
 *
 * h_new, jobs (spec.py):
 *   new.main.*    : every clause but NT; kinds of both collections symbolic among {none, block cyclic, sbc}.
 *   new.tabular.* : same, at least one side tabular, size_col fixed (floating-point ceil in the num_col helper).
 *   new.NT.*      : -DONLY_NT, only the NT clause (division-free, witnesses wS / wE); kinds fixed by -DKY/-DKT.
 *   new.overflow.*: -DNEW_OVERFLOW, only "a window not inside source or target is rejected", WITHOUT the restriction
 *                   dis + size <= INT_MAX of the other jobs (failed before /repo commit 0ac8e8b: int overflow of
 *                   disi_Y+size_row; demo_overflow.c is the native demonstration).
 * PRE of all jobs: representation invariant of both collections (mb, nb >= 1, lmt, lnt >= 0, lmt*mb and lnt*nb
 * representable as int: the library's own fields lm / ln are ints).  Fixed per cbmc process: the four tile sizes and the
 * process-grid parameters (a symbolic divisor / multiplier does not finish); everything else symbolic.
 * The redistribute_pair_num_cols value used on the specification side is the real helper's answer; the helper has its
 * own contract in h_helpers.c.
 */
#include "verif.h"
#include "parsec/parsec_config.h"
#include "parsec.h"
#include "parsec/data_dist/matrix/matrix.h"
#include "parsec/data_dist/matrix/two_dim_rectangle_cyclic.h"
#include "parsec/data_dist/matrix/two_dim_tabular.h"
#include "parsec/data_dist/matrix/sbc.h"
#include <stdarg.h>
#include <stdint.h>
#include <limits.h>

#include "parsec/data_dist/matrix/redistribute/redistribute_wrapper.c"

struct vdc {                      /* the fields of a collection the function may look at */
    int32_t  dtype, mb, nb, lmt, lnt, llm, storage;
    uint32_t myrank, nodes;
    int32_t  gcols, gkcols;       /* block cyclic: grid.cols, grid.kcols */
    int32_t  uplo;                /* sbc */
    uint16_t r;                   /* sbc */
};
struct vin {
    struct vdc Y, T;
    int32_t size_row, size_col, disi_Y, disj_Y, disi_T, disj_T;
    int32_t wS, wE;               /* witnesses of the two floor divisions in the NT formula */
} vin;
#include "verif_vin.h"

/* ---------------- recording stubs (trusted base) ---------------- */
static parsec_redistribute_taskpool_t           g_tp_general;
static parsec_redistribute_reshuffle_taskpool_t g_tp_reshuffle;
static int g_n_general, g_n_reshuffle, g_n_warn;
static struct { parsec_tiled_matrix_t *Y, *T; int size_row, size_col, disi_Y, disj_Y, disi_T, disj_T, R; } g_arg;

parsec_redistribute_taskpool_t *
parsec_redistribute_new(parsec_tiled_matrix_t *Y, parsec_tiled_matrix_t *T, int size_row, int size_col,
                        int disi_Y, int disj_Y, int disi_T, int disj_T, int R)
{
    g_n_general++;
    g_arg.Y = Y; g_arg.T = T; g_arg.size_row = size_row; g_arg.size_col = size_col;
    g_arg.disi_Y = disi_Y; g_arg.disj_Y = disj_Y; g_arg.disi_T = disi_T; g_arg.disj_T = disj_T; g_arg.R = R;
    return &g_tp_general;
}
parsec_redistribute_reshuffle_taskpool_t *
parsec_redistribute_reshuffle_new(parsec_tiled_matrix_t *Y, parsec_tiled_matrix_t *T, int size_row, int size_col,
                                  int disi_Y, int disj_Y, int disi_T, int disj_T)
{
    g_n_reshuffle++;
    g_arg.Y = Y; g_arg.T = T; g_arg.size_row = size_row; g_arg.size_col = size_col;
    g_arg.disi_Y = disi_Y; g_arg.disj_Y = disj_Y; g_arg.disi_T = disi_T; g_arg.disj_T = disj_T; g_arg.R = 0;
    return &g_tp_reshuffle;
}
#define NADT 4
static struct { parsec_arena_datatype_t *adt; int square; unsigned m, n, ld; parsec_datatype_t type; } g_adt[NADT];
static int g_n_adt;
int parsec_matrix_adt_define_rect(parsec_arena_datatype_t *adt, parsec_datatype_t oldtype,
                                  unsigned int m, unsigned int n, unsigned int ld)
{
    if (g_n_adt < NADT) { g_adt[g_n_adt].adt = adt; g_adt[g_n_adt].square = 0; g_adt[g_n_adt].type = oldtype;
                          g_adt[g_n_adt].m = m; g_adt[g_n_adt].n = n; g_adt[g_n_adt].ld = ld; }
    g_n_adt++;
    return 0;
}
int parsec_matrix_adt_define_square(parsec_arena_datatype_t *adt, parsec_datatype_t oldtype, unsigned int m)
{
    if (g_n_adt < NADT) { g_adt[g_n_adt].adt = adt; g_adt[g_n_adt].square = 1; g_adt[g_n_adt].type = oldtype;
                          g_adt[g_n_adt].m = m; g_adt[g_n_adt].n = m; g_adt[g_n_adt].ld = m; }
    g_n_adt++;
    return 0;
}
void parsec_output_verbose(int level, int id, const char *fmt, ...) { (void)level; (void)id; (void)fmt; g_n_warn++; }

/* ---------------- the two collections ---------------- */
/* one object per concrete collection type (a union of them makes CBMC's byte-extract flattening explode) */
typedef struct { parsec_tiled_matrix_t plain; parsec_matrix_block_cyclic_t bc; parsec_matrix_sbc_t sbc;
                 parsec_matrix_tabular_t tab; } any_dc_t;
static any_dc_t objY, objT;

#define KIND_BITS (parsec_matrix_block_cyclic_type | parsec_matrix_tabular_type | parsec_matrix_sbc_type)
static parsec_tiled_matrix_t *build_dc(any_dc_t *o, const struct vdc *v, int kind)
{
    parsec_tiled_matrix_t *d = &o->plain;
    if (kind == parsec_matrix_block_cyclic_type) { d = &o->bc.super; o->bc.grid.cols = v->gcols; o->bc.grid.kcols = v->gkcols; }
    if (kind == parsec_matrix_sbc_type) { d = &o->sbc.super; o->sbc.uplo = (parsec_matrix_uplo_t)v->uplo; o->sbc.r = v->r; }
    if (kind == parsec_matrix_tabular_type) d = &o->tab.super;
    /* representation invariant of a tiled matrix */
    V_ASSUME(v->mb >= 1 && v->nb >= 1 && v->lmt >= 0 && v->lnt >= 0);
    V_ASSUME((int64_t)v->lmt * (int64_t)v->mb <= INT_MAX);     /* lm = lmt*mb is an int field of the library */
    V_ASSUME((int64_t)v->lnt * (int64_t)v->nb <= INT_MAX);
    d->dtype = v->dtype; d->mb = v->mb; d->nb = v->nb; d->lmt = v->lmt; d->lnt = v->lnt;
    d->llm = v->llm; d->storage = (parsec_matrix_storage_t)v->storage;
    d->super.myrank = v->myrank; d->super.nodes = v->nodes;
    return d;
}

/* ---------------- specification side ---------------- */
/* all tiles touched by the window are stored (closed form; shown equivalent to the per-tile statement in h_helpers.c) */
static int spec_stored(const struct vdc *v, int size_row, int size_col, int disi, int disj)
{
    if (!(v->dtype & parsec_matrix_sbc_type)) return 1;
    int64_t m0 = disi / v->mb, m1 = ((int64_t)disi + size_row - 1) / v->mb;
    int64_t n0 = disj / v->nb, n1 = ((int64_t)disj + size_col - 1) / v->nb;
    if (v->uplo == PARSEC_MATRIX_LOWER) return m0 >= n1;      /* stored tiles: m >= n */
    if (v->uplo == PARSEC_MATRIX_UPPER) return n0 >= m1;      /* stored tiles: n >= m */
    return 0;
}
static int spec_inside(const struct vdc *v, int size_row, int size_col, int disi, int disj)
{
    return (int64_t)disi + (int64_t)size_row <= (int64_t)v->lmt * (int64_t)v->mb
        && (int64_t)disj + (int64_t)size_col <= (int64_t)v->lnt * (int64_t)v->nb;
}

/* One case = one pair of distribution kinds (constants on this path, so that num_col folds to a constant). */
/* the NT jobs (-DONLY_NT) state only the NT clause; every other job states everything but the NT clause
 * (all obligations in one SAT instance did not finish; separately each takes seconds) */
#ifdef ONLY_NT
#define V_POST(c, m) do { } while (0)
#else
#define V_POST(c, m) V_ASSERT(c, m)
#endif
static void new_case(int kindY, int kindT)
{
    vin.Y.dtype = (vin.Y.dtype & ~KIND_BITS) | kindY;
    vin.T.dtype = (vin.T.dtype & ~KIND_BITS) | kindT;
    parsec_tiled_matrix_t *dcY = build_dc(&objY, &vin.Y, kindY);
    parsec_tiled_matrix_t *dcT = build_dc(&objT, &vin.T, kindT);
    int size_row = vin.size_row, size_col = vin.size_col;
    int disi_Y = vin.disi_Y, disj_Y = vin.disj_Y, disi_T = vin.disi_T, disj_T = vin.disj_T;
    g_n_general = g_n_reshuffle = g_n_adt = g_n_warn = 0;

    int basic = size_row >= 1 && size_col >= 1 && disi_Y >= 0 && disj_Y >= 0 && disi_T >= 0 && disj_T >= 0;
    int inside = spec_inside(&vin.Y, size_row, size_col, disi_Y, disj_Y)
              && spec_inside(&vin.T, size_row, size_col, disi_T, disj_T);

#ifdef NEW_OVERFLOW
    parsec_taskpool_t *tp = parsec_redistribute_New(dcY, dcT, size_row, size_col, disi_Y, disj_Y, disi_T, disj_T);
    V_POST(V_IMPLIES(basic && !inside, tp == NULL && g_n_general + g_n_reshuffle == 0),
             "C21.parsec_redistribute_New.post.window_not_inside_source_or_target_is_rejected_for_every_int_input");
#else
    /* restriction of the main job: the four window ends are representable as int */
    V_ASSUME(V_IMPLIES(basic, (int64_t)disi_Y + size_row <= INT_MAX && (int64_t)disj_Y + size_col <= INT_MAX &&
                              (int64_t)disi_T + size_row <= INT_MAX && (int64_t)disj_T + size_col <= INT_MAX));
    int nc = redistribute_pair_num_cols(dcY, dcT, size_col);   /* helper under its own contract (h_helpers.c) */
    int stored = basic && inside && spec_stored(&vin.Y, size_row, size_col, disi_Y, disj_Y)
                                 && spec_stored(&vin.T, size_row, size_col, disi_T, disj_T);
    int valid = basic && inside && stored && nc > 0;

    parsec_taskpool_t *tp = parsec_redistribute_New(dcY, dcT, size_row, size_col, disi_Y, disj_Y, disi_T, disj_T);

    /* ---- rejection ---- */
    V_POST(V_IMPLIES(size_row < 1 || size_col < 1, tp == NULL), "C21.parsec_redistribute_New.post.empty_window_rejected");
    V_POST(V_IMPLIES(disi_Y < 0 || disj_Y < 0 || disi_T < 0 || disj_T < 0, tp == NULL),
             "C21.parsec_redistribute_New.post.negative_displacement_rejected");
    V_POST(V_IMPLIES(basic && !spec_inside(&vin.Y, size_row, size_col, disi_Y, disj_Y), tp == NULL),
             "C21.parsec_redistribute_New.post.window_not_inside_source_rejected");
    V_POST(V_IMPLIES(basic && !spec_inside(&vin.T, size_row, size_col, disi_T, disj_T), tp == NULL),
             "C21.parsec_redistribute_New.post.window_not_inside_target_rejected");
    V_POST(V_IMPLIES(basic && inside && !stored, tp == NULL),
             "C21.parsec_redistribute_New.post.window_touching_unstored_sbc_tiles_rejected");
    V_POST(V_IMPLIES(basic && inside && stored && nc <= 0, tp == NULL),
             "C21.parsec_redistribute_New.post.unsupported_distribution_rejected");
    V_POST(V_IFF(tp == NULL, !valid), "C21.parsec_redistribute_New.post.null_iff_request_invalid");
    V_POST(V_IMPLIES(tp == NULL, g_n_general == 0 && g_n_reshuffle == 0 && g_n_adt == 0),
             "C21.parsec_redistribute_New.post.rejected_request_creates_nothing");
    V_POST(V_IMPLIES(tp == NULL && (vin.Y.myrank == 0 || (basic && inside && stored)), g_n_warn == 1),
             "C21.parsec_redistribute_New.post.rejected_request_is_diagnosed_once");
    V_POST(V_IMPLIES(tp != NULL, g_n_warn == 0), "C21.parsec_redistribute_New.post.accepted_request_gives_no_warning");

    /* ---- acceptance: path selection and hand-over ---- */
    if (tp != NULL) {
        int aligned = vin.Y.mb == vin.T.mb && vin.Y.nb == vin.T.nb
                   && disi_Y % vin.Y.mb == 0 && disj_Y % vin.Y.nb == 0
                   && disi_T % vin.T.mb == 0 && disj_T % vin.T.nb == 0;
        V_POST(g_n_general + g_n_reshuffle == 1, "C21.parsec_redistribute_New.post.exactly_one_taskpool_created");
        V_POST(V_IFF(g_n_reshuffle == 1, aligned),
                 "C21.parsec_redistribute_New.post.reshuffle_iff_same_tiles_and_tile_aligned_displacements");
        V_POST(V_IFF(g_n_general == 1, !aligned),
                 "C21.parsec_redistribute_New.post.general_path_otherwise");
        V_POST(tp == (aligned ? (parsec_taskpool_t *)&g_tp_reshuffle : (parsec_taskpool_t *)&g_tp_general),
                 "C21.parsec_redistribute_New.post.returns_the_created_taskpool");
        V_POST(g_arg.Y == dcY && g_arg.T == dcT, "C21.parsec_redistribute_New.post.source_and_target_passed_unchanged");
        V_POST(g_arg.size_row == size_row && g_arg.size_col == size_col, "C21.parsec_redistribute_New.post.window_size_passed_unchanged");
        V_POST(g_arg.disi_Y == disi_Y && g_arg.disj_Y == disj_Y && g_arg.disi_T == disi_T && g_arg.disj_T == disj_T,
                 "C21.parsec_redistribute_New.post.displacements_passed_unchanged");
        V_POST(g_arg.R == 0, "C21.parsec_redistribute_New.post.ghost_radius_R_is_0");
        /* NT = floor((n_T_END - n_T_START) / num_col), n_T_START = floor(disj_T / nb_T), n_T_END = floor((size_col +
         * disj_T - 1) / nb_T): stated division-free through the (unique) witnesses wS, wE (a second divider circuit on
         * the spec side makes the SAT problem an equivalence check of two dividers, which does not finish) */
#ifdef ONLY_NT
        int64_t wS = vin.wS, wE = vin.wE, nbT = vin.T.nb;
        V_ASSUME(nbT * wS <= (int64_t)disj_T && (int64_t)disj_T < nbT * wS + nbT);
        V_ASSUME(nbT * wE <= (int64_t)size_col + disj_T - 1 && (int64_t)size_col + disj_T - 1 < nbT * wE + nbT);
#endif
#define NT_OK(x) ((int64_t)nc * (x) <= wE - wS && wE - wS < (int64_t)nc * (x) + nc)
        if (aligned) {
            V_POST(g_tp_reshuffle._g_num_col == nc, "C21.parsec_redistribute_New.post.reshuffle_num_col_is_pair_num_cols");
#ifdef ONLY_NT
            V_ASSERT(NT_OK((int64_t)g_tp_reshuffle._g_NT), "C21.parsec_redistribute_New.post.reshuffle_NT_formula");
#endif
            V_POST(g_n_adt == 1 && !g_adt[0].square
                     && g_adt[0].adt == &g_tp_reshuffle.arenas_datatypes[PARSEC_redistribute_reshuffle_DEFAULT_ADT_IDX]
                     && g_adt[0].type == parsec_datatype_double_t
                     && g_adt[0].m == (unsigned)vin.Y.mb && g_adt[0].n == (unsigned)vin.Y.nb && g_adt[0].ld == (unsigned)vin.Y.mb,
                     "C21.parsec_redistribute_New.post.reshuffle_DEFAULT_adt_is_full_tile_mb_x_nb_ld_mb");
        } else {
            int Y_LDA = vin.Y.storage == PARSEC_MATRIX_LAPACK ? vin.Y.llm : vin.Y.mb;
            int T_LDA = vin.T.storage == PARSEC_MATRIX_LAPACK ? vin.T.llm : vin.T.mb;
            V_POST(g_tp_general._g_num_col == nc, "C21.parsec_redistribute_New.post.general_num_col_is_pair_num_cols");
#ifdef ONLY_NT
            V_ASSERT(NT_OK((int64_t)g_tp_general._g_NT), "C21.parsec_redistribute_New.post.general_NT_formula");
#endif
            V_POST(g_n_adt == 3, "C21.parsec_redistribute_New.post.general_defines_three_datatypes");
            /* which ADT index gets which shape (order of definition is irrelevant) */
            int seen_def = 0, seen_tgt = 0, seen_inn = 0;
            for (int k = 0; k < 3; k++) {
                if (g_adt[k].type != parsec_datatype_double_t) continue;
                if (g_adt[k].adt == &g_tp_general.arenas_datatypes[PARSEC_redistribute_DEFAULT_ADT_IDX]
                    && g_adt[k].square && g_adt[k].m == 1) seen_def++;
                if (g_adt[k].adt == &g_tp_general.arenas_datatypes[PARSEC_redistribute_TARGET_ADT_IDX] && !g_adt[k].square
                    && g_adt[k].m == (unsigned)vin.T.mb && g_adt[k].n == (unsigned)vin.T.nb && g_adt[k].ld == (unsigned)T_LDA) seen_tgt++;
                if (g_adt[k].adt == &g_tp_general.arenas_datatypes[PARSEC_redistribute_INNER_ADT_IDX] && !g_adt[k].square
                    && g_adt[k].m == (unsigned)vin.Y.mb && g_adt[k].n == (unsigned)vin.Y.nb && g_adt[k].ld == (unsigned)Y_LDA) seen_inn++;
            }
            V_POST(seen_def == 1, "C21.parsec_redistribute_New.post.general_DEFAULT_adt_is_one_element");
            V_POST(seen_tgt == 1, "C21.parsec_redistribute_New.post.general_TARGET_adt_is_target_tile_with_target_LDA");
            V_POST(seen_inn == 1, "C21.parsec_redistribute_New.post.general_INNER_adt_is_source_tile_with_source_LDA");
        }
    }
#endif
}

#ifndef MBY
#define MBY 4
#define NBY 3
#define MBT 2
#define NBT 5
#endif
#ifndef GCY
#define GCY 2
#define GKY 1
#define RY 3
#define NODY 4
#define GCT 1
#define GKT 2
#define RT 2
#define NODT 3
#endif
void h_new(void)
{
    static const int kinds[4] = { 0, parsec_matrix_block_cyclic_type, parsec_matrix_sbc_type, parsec_matrix_tabular_type };
    vin_load();
    /* Fixed per cbmc process (enumerated by spec.py; a symbolic divisor / multiplier does not finish, measured):
     * the four tile sizes, the process-grid parameters that make up num_col, and -- in the tabular jobs only --
     * size_col (ceil((double)size_col / nb) is floating point).  Symbolic: lmt, lnt, size_row, size_col, the four
     * displacements, llm, storage, myrank, uplo, the non-kind bits of dtype, and the pair of distribution kinds. */
    vin.Y.mb = MBY; vin.Y.nb = NBY; vin.T.mb = MBT; vin.T.nb = NBT;
    vin.Y.gcols = GCY; vin.Y.gkcols = GKY; vin.Y.r = RY; vin.Y.nodes = NODY;
    vin.T.gcols = GCT; vin.T.gkcols = GKT; vin.T.r = RT; vin.T.nodes = NODT;
#ifdef SIZE_COL
    vin.size_col = SIZE_COL;
#endif
    int kY = vin.Y.dtype & KIND_BITS, kT = vin.T.dtype & KIND_BITS;
    /* representation invariant: at most one kind bit (parsec_tiled_matrix_init: dtype = parsec_matrix_type | kind) */
    V_ASSUME(kY == 0 || kY == kinds[1] || kY == kinds[2] || kY == kinds[3]);
    V_ASSUME(kT == 0 || kT == kinds[1] || kT == kinds[2] || kT == kinds[3]);
#ifdef SIZE_COL
    V_ASSUME(kY == parsec_matrix_tabular_type || kT == parsec_matrix_tabular_type);   /* tabular jobs */
#else
    V_ASSUME(kY != parsec_matrix_tabular_type && kT != parsec_matrix_tabular_type);   /* main jobs */
#endif
#ifdef KY
    /* NT jobs: the pair of kinds is fixed per cbmc process, so that num_col is a constant */
    V_ASSUME(kY == KY && kT == KT);
    new_case(KY, KT);
#else
    new_case(kY, kT);
#endif
    V_CANARY("new");
}
