/* C24 (limit clause, locals): contract on the MAX_LOCAL_COUNT check made by the real
 * jdf_generate_task_typedef (parsec/interfaces/ptg/ptg-compiler/jdf2c.c, included verbatim).
 *
 *   POST  the function ends the process (exit with a non-zero status, after exactly one
 *         jdf_fatal diagnostic)  iff  #locals + max(nb_max_local_def, 0) > MAX_LOCAL_COUNT;
 *         otherwise it returns and prints no diagnostic.
 *
 * The locals list has exactly NLOC nodes (fixed per cbmc process); nb_max_local_def is symbolic.
 * exit() is routed to verif_exit(), which checks the "rejected" half of the contract and then
 * stops the path (assume(0)), as the real exit never returns.  The generated TEXT is not
 * modelled: vsnprintf / asprintf format nothing.
 */
#include "verif.h"
#include "parsec/parsec_config.h"
#include <stdlib.h>
#include <stdio.h>
#include <stdarg.h>
#include <string.h>
#include <stdint.h>

#ifndef NLOC
#define NLOC 20
#endif
#if NLOC < 1
#error NLOC >= 1 (see one_flow below for why lists are non-empty)
#endif

struct vin {
    int32_t nb_max_local_def;
} vin;
#include "verif_vin.h"

static int g_fatal, g_warn;
static int spec_nb_locals(void) { return NLOC + (vin.nb_max_local_def > 0 ? vin.nb_max_local_def : 0); }

static char verif_txt[4] = "x";
static void verif_exit(int code);
#define vsnprintf(buf, n, fmt, ap) (0)
#define asprintf(p, ...) (*(p) = verif_txt, 1)
#define vasprintf(p, fmt, ap) (*(p) = verif_txt, 1)
#define free(p) ((void)(p))          /* pairs with the asprintf stub, which hands out a static buffer */
#define exit(c) verif_exit(c)

#include "parsec/interfaces/ptg/ptg-compiler/jdf2c.c"

#undef exit
/* diagnostics of jdf.c (not part of this translation unit): counted */
void jdf_fatal(int lineno, const char *format, ...) { (void)lineno; (void)format; g_fatal++; }
void jdf_warn(int lineno, const char *format, ...)  { (void)lineno; (void)format; g_warn++; }

static void verif_exit(int code)
{
    V_ASSERT(spec_nb_locals() > MAX_LOCAL_COUNT, "C24.jdf_generate_task_typedef.post.process_ended_only_when_locals_exceed_MAX_LOCAL_COUNT");
    V_ASSERT(code != 0, "C24.jdf_generate_task_typedef.post.rejection_has_nonzero_exit_status");
    V_ASSERT(g_fatal == 1, "C24.jdf_generate_task_typedef.post.rejection_prints_exactly_one_diagnostic");
    V_CANARY("locals_rejected");
    V_ASSUME(0);
}

static jdf_variable_list_t locs[NLOC];
static jdf_dataflow_t one_flow;      /* a NULL list would make UTIL_DUMP_LIST_FIELD's offsetof idiom compute on NULL */
static jdf_function_entry_t fn;

void h_locals(void)
{
    vin_load();
    /* the parser counts the local definitions of one task class: a source-text quantity */
    V_ASSUME(vin.nb_max_local_def >= -1000000 && vin.nb_max_local_def <= 1000000);
    for (int i = 0; i < NLOC; i++) {
        locs[i].name = "k";
        locs[i].next = (i + 1 < NLOC) ? &locs[i + 1] : NULL;
    }
    fn.fname = "F";
    fn.locals = &locs[0];
    one_flow.varname = "A"; one_flow.next = NULL;
    fn.dataflow = &one_flow;
    fn.nb_max_local_def = vin.nb_max_local_def;
    jdf_basename = "b";
    g_fatal = g_warn = 0;
    string_arena_t *sa = string_arena_new(64);

    (void)jdf_generate_task_typedef((void **)&fn, sa);

    V_ASSERT(spec_nb_locals() <= MAX_LOCAL_COUNT, "C24.jdf_generate_task_typedef.post.returns_only_when_locals_within_MAX_LOCAL_COUNT");
    V_ASSERT(g_fatal == 0 && g_warn == 0, "C24.jdf_generate_task_typedef.post.accepted_task_class_gets_no_diagnostic");
#ifdef EXPECT_REJECT
    /* NLOC alone exceeds the limit: the function must not return at all */
    V_ASSERT(0, "C24.jdf_generate_task_typedef.post.never_returns_when_the_locals_list_alone_exceeds_the_limit");
#else
    V_CANARY("locals_accepted");
#endif
}
