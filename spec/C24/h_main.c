/* C24 (limit clause, top level): what parsec-ptgpp's real main()
 * (parsec/interfaces/ptg/ptg-compiler/main.c, included verbatim) does with the verdict of
 * jdf_sanity_checks.  Property: a program that exceeds a runtime limit is REJECTED, i.e. the
 * process ends with a non-zero status and no C is emitted.
 *
 * Compositional set-up: jdf_sanity_checks is replaced here by its contract (returns -1 when a
 * check is fatal, else the number of warnings; the limit check's own contract is discharged in
 * h_limits.c), the parser / optimiser / generator are stubs that record whether they ran, and
 * getopt_long is a model delivering "-E" and, optionally, "--Werror".
 */
#include "verif.h"
#include "parsec/parsec_config.h"
#include <stdio.h>
#include <errno.h>
#include <string.h>
#include <stdlib.h>
#include <getopt.h>
#include <stdint.h>

/* main.c is #included at the end of the flex scanner (parsec.l), whose globals it uses */
FILE *yyin;
int   yydebug;
#define main ptgpp_main
#include "parsec/interfaces/ptg/ptg-compiler/main.c"
#undef main

struct vin {
    int32_t sanity_rc;     /* verdict of jdf_sanity_checks                     */
    int32_t jdf2c_rc;      /* result of the generator, if it runs              */
    uint8_t werror;        /* command line carries --Werror                    */
} vin;
#include "verif_vin.h"

static int g_werror;   /* concrete copy of vin.werror (case split in run_main) */
static int g_getopt_k, g_parsed, g_sanity_calls, g_jdf2c_calls;
static jdf_warning_mask_t g_sanity_mask;

/* model of getopt_long for the command line  "parsec-ptgpp -E [--Werror]" */
int getopt_long(int argc, char *const argv[], const char *optstring, const struct option *longopts, int *longindex)
{
    (void)argv; (void)optstring; (void)longindex;
    optarg = NULL;
    int k = g_getopt_k++;
    if (k == 0) return 'E';
    if (k == 1 && g_werror) {
        for (int i = 0; i < 32 && longopts[i].name != NULL; i++) {
            if (longopts[i].name[0] == 'W' && longopts[i].name[1] == 'e') {   /* "Werror" */
                if (longopts[i].flag != NULL) { *longopts[i].flag = longopts[i].val; return 0; }
                return longopts[i].val;
            }
        }
    }
    optind = argc;
    return -1;
}
void jdf_prepare_parsing(void) { }
int yyparse(void) { g_parsed++; return 0; }      /* the input parses */
int jdf_sanity_checks(jdf_warning_mask_t mask) { g_sanity_calls++; g_sanity_mask = mask; return vin.sanity_rc; }
int jdf_force_termdet_dynamic(jdf_t *jdf) { (void)jdf; return 0; }
int jdf_optimize(jdf_t *jdf) { (void)jdf; return 0; }
int jdf2c(const char *c, const char *h, const char *f, jdf_t *jdf) { (void)c; (void)h; (void)f; (void)jdf; g_jdf2c_calls++; return vin.jdf2c_rc; }

static char *argv_store[3] = { "parsec-ptgpp", "-E", "--Werror" };

static int run_main(void)
{
    int ret;
    g_getopt_k = g_parsed = g_sanity_calls = g_jdf2c_calls = 0;
    /* contract of jdf_sanity_checks (jdf.h): -1 fatal, 0 clean, >0 number of warnings */
    V_ASSUME(vin.sanity_rc >= -1);
    /* case split keeps the option stream concrete on each path (a symbolic option character would make
     * CBMC explore every case of parse_args' switch) */
    if (vin.werror) { g_werror = 1; ret = ptgpp_main(3, argv_store); }
    else            { g_werror = 0; ret = ptgpp_main(2, argv_store); }
    return ret;
}

/* --- obligations that hold on the unchanged tree --- */
void h_main_verdict(void)
{
    vin_load();
    int ret = run_main();
    V_ASSERT(g_parsed == 1 && g_sanity_calls == 1, "C24.main.post.sanity_checks_run_once_after_parsing");
    V_ASSERT(V_IFF((g_sanity_mask & JDF_WARNINGS_ARE_ERROR) != 0, vin.werror != 0),
             "C24.main.post.warnings_are_errors_iff_Werror_given");
    V_ASSERT(V_IMPLIES(vin.werror && vin.sanity_rc != 0, ret != 0 && g_jdf2c_calls == 0),
             "C24.main.post.with_Werror_any_diagnostic_rejects_before_code_generation");
    V_ASSERT(V_IMPLIES(ret == 0, g_jdf2c_calls == 1 && vin.jdf2c_rc >= 0),
             "C24.main.post.zero_exit_status_only_after_successful_code_generation");
    V_ASSERT(V_IMPLIES(g_jdf2c_calls == 1 && vin.jdf2c_rc < 0, ret != 0),
             "C24.main.post.generator_failure_gives_nonzero_exit_status");
    V_CANARY("main_verdict");
}

/* --- the property's clause itself: a fatal verdict (a runtime limit is exceeded) rejects the program --- */
void h_main_fatal_rejected(void)
{
    vin_load();
    int ret = run_main();
    V_ASSERT(V_IMPLIES(vin.sanity_rc < 0, ret != 0),
             "C24.main.post.fatal_sanity_verdict_gives_nonzero_exit_status");
    V_ASSERT(V_IMPLIES(vin.sanity_rc < 0, g_jdf2c_calls == 0),
             "C24.main.post.fatal_sanity_verdict_emits_no_code");
    V_CANARY("main_fatal_rejected");
}
