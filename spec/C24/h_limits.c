/* C24 (limit clause, flows and dependencies): contract on the real
 * jdf_sanity_check_flows_and_deps_number (parsec/interfaces/ptg/ptg-compiler/jdf.c,
 * included verbatim) and on the way jdf_sanity_checks hands its verdict on.
 *
 * The AST (current_jdf.functions -> jdf_function_entry_t -> jdf_dataflow_t ->
 * jdf_dep_t, all singly linked) is built from static pools.  Pool sizes are
 * NFUNC x NFLOW x NDEP (fixed per cbmc process); with -DSYMLEN the list LENGTHS
 * are symbolic (0..pool size) and independent per list, otherwise every list has
 * exactly the pool length.  Flow flags and dependency flags are symbolic.
 *
 * Diagnostics are observed through the libc calls made by the real jdf_warn /
 * jdf_fatal: vsnprintf is stubbed (formats nothing), fprintf(stderr, ...) is
 * routed to a counter that classifies the constant format string.
 */
#include "verif.h"
#include "parsec/parsec_config.h"
#include <stdio.h>
#include <string.h>
#include <stdlib.h>
#include <stdarg.h>
#include <stdint.h>

static int g_warn, g_fatal, g_otherout;
static int verif_diag(const char *fmt)
{
    if (fmt[0] == 'W' && fmt[1] == 'a') g_warn++;        /* "Warning on %s:%d: %s"     */
    else if (fmt[0] == 'F' && fmt[1] == 'a') g_fatal++;  /* "Fatal Error on %s:%d: %s" */
    else g_otherout++;
    return 0;
}
#define vsnprintf(buf, n, fmt, ap) (0)
#define fprintf(stream, ...) verif_diag(VERIF_FIRST(__VA_ARGS__, 0))
#define VERIF_FIRST(a, ...) a

const char *yyfilename = "verif.jdf";

#include "parsec/interfaces/ptg/ptg-compiler/jdf.c"

#ifdef VERIF_REPLAY
/* native replay links this translation unit alone: functions of jdf2c.c referenced by parts of jdf.c that the
 * limit check never reaches */
char *dump_expr(void **elem, void *arg) { (void)elem; (void)arg; abort(); }
jdf_expr_t *jdf_find_property(const jdf_def_list_t *p, const char *n, jdf_def_list_t **d) { (void)p; (void)n; (void)d; abort(); }
char *malloc_and_dump_jdf_expr_list(const jdf_expr_t *e) { (void)e; abort(); }
#endif

#ifndef NFUNC
#define NFUNC 2
#endif
#ifndef NFLOW
#define NFLOW 22
#endif
#ifndef NDEP
#define NDEP 12
#endif

struct vin {
    uint32_t flow_flags[NFUNC][NFLOW];
    uint16_t dep_flags[NFUNC][NFLOW][NDEP];
    uint8_t  nfunc;                    /* SYMLEN: list lengths */
    uint8_t  nflow[NFUNC];
    uint8_t  ndep[NFUNC][NFLOW];
} vin;
#include "verif_vin.h"

/* Node pools.  One static array of NDEP dependencies PER FLOW (44 separate objects) instead of one 3-d array:
 * CBMC's field-sensitive symbolic execution pays, on every access, for the size of the whole object accessed
 * (measured: 1 x 22 x 12 in one array = 140 s of symbolic execution, split = a few seconds). */
#if NFUNC > 2 || NFLOW > 22
#error pool tables below are written for at most 2 functions x 22 flows
#endif
static jdf_function_entry_t funcs[NFUNC];
static jdf_dataflow_t       flows_0[NFLOW], flows_1[NFLOW];
static jdf_dataflow_t *const flowrow[2] = { flows_0, flows_1 };
#define R4(a) static jdf_dep_t deprow_##a##0[NDEP], deprow_##a##1[NDEP], deprow_##a##2[NDEP], deprow_##a##3[NDEP];
R4(0) R4(1) R4(2) R4(3) R4(4) R4(5) R4(6) R4(7) R4(8) R4(9) R4(10)
#define P4(a) deprow_##a##0, deprow_##a##1, deprow_##a##2, deprow_##a##3
static jdf_dep_t *const deprow[44] = { P4(0), P4(1), P4(2), P4(3), P4(4), P4(5), P4(6), P4(7), P4(8), P4(9), P4(10) };
#define FLOW(f, l)   (flowrow[f][l])
#define DEP(f, l, d) (deprow[(f) * NFLOW + (l)][d])

static int len_func(void)          {
#ifdef SYMLEN
    return vin.nfunc;
#else
    return NFUNC;
#endif
}
static int len_flow(int f)         {
#ifdef SYMLEN
    return vin.nflow[f];
#else
    (void)f; return NFLOW;
#endif
}
static int len_dep(int f, int l)   {
#ifdef SYMLEN
    return vin.ndep[f][l];
#else
    (void)f; (void)l; return NDEP;
#endif
}

static void build_ast(void)
{
#ifdef SYMLEN
    V_ASSUME(vin.nfunc <= NFUNC);
#endif
    for (int f = 0; f < NFUNC; f++) {
#ifdef SYMLEN
        V_ASSUME(vin.nflow[f] <= NFLOW);
#endif
        funcs[f].fname = "F";
        funcs[f].super.lineno = 10 + f;
        funcs[f].next = (f + 1 < len_func()) ? &funcs[f + 1] : NULL;
        funcs[f].dataflow = (0 < len_flow(f)) ? &FLOW(f, 0) : NULL;
        for (int l = 0; l < NFLOW; l++) {
#ifdef SYMLEN
            V_ASSUME(vin.ndep[f][l] <= NDEP);
#endif
            FLOW(f, l).varname = "A";
            FLOW(f, l).super.lineno = 100 + l;
            FLOW(f, l).flow_flags = vin.flow_flags[f][l];
            FLOW(f, l).next = (l + 1 < len_flow(f)) ? &FLOW(f, l + 1) : NULL;
            FLOW(f, l).deps = (0 < len_dep(f, l)) ? &DEP(f, l, 0) : NULL;
            for (int d = 0; d < NDEP; d++) {
                DEP(f, l, d).dep_flags = vin.dep_flags[f][l][d];
                DEP(f, l, d).next = (d + 1 < len_dep(f, l)) ? &DEP(f, l, d + 1) : NULL;
            }
        }
    }
    current_jdf.functions = (0 < len_func()) ? &funcs[0] : NULL;
}

/* ---- specification side: written from the property statement ----
 * (branch-free on purpose: every branch makes CBMC's symbolic execution copy a state of ~25k scalars) */
static int spec_read_flows(int f)  { int n = 0; for (int l = 0; l < NFLOW; l++) n += (l < len_flow(f)) & !!(vin.flow_flags[f][l] & JDF_FLOW_TYPE_READ);  return n; }
static int spec_write_flows(int f) { int n = 0; for (int l = 0; l < NFLOW; l++) n += (l < len_flow(f)) & !!(vin.flow_flags[f][l] & JDF_FLOW_TYPE_WRITE); return n; }
static int spec_in_deps(int f, int l)  { int n = 0; for (int d = 0; d < NDEP; d++) n += (d < len_dep(f, l)) & !!(vin.dep_flags[f][l][d] & JDF_DEP_FLOW_IN);  return n; }
static int spec_out_deps(int f, int l) { int n = 0; for (int d = 0; d < NDEP; d++) n += (d < len_dep(f, l)) & !!(vin.dep_flags[f][l][d] & JDF_DEP_FLOW_OUT); return n; }

/* spec_exceeded: number of exceeded runtime limits in the whole program;
 * spec_fun_bad / spec_flow_bad: some function / some flow exceeds a limit */
static int spec_exceeded, spec_fun_bad, spec_flow_bad;
static void spec_eval(void)
{
    int n = 0, fb = 0, lb = 0;
    for (int f = 0; f < NFUNC; f++) {
        int fin = (f < len_func());
        int r = fin & (spec_read_flows(f)  > MAX_PARAM_COUNT);
        int w = fin & (spec_write_flows(f) > MAX_PARAM_COUNT);
        n += r + w; fb |= r | w;
        for (int l = 0; l < NFLOW; l++) {
            int lin = fin & (l < len_flow(f));
            int i = lin & (spec_in_deps(f, l)  > MAX_DEP_IN_COUNT);
            int o = lin & (spec_out_deps(f, l) > MAX_DEP_OUT_COUNT);
            n += i + o; lb |= i | o;
        }
    }
    spec_exceeded = n; spec_fun_bad = fb; spec_flow_bad = lb;
}

/* ------------------------------------------------------------------ */
/* contract of jdf_sanity_check_flows_and_deps_number                  */
/* ------------------------------------------------------------------ */
void h_flows_and_deps(void)
{
    vin_load();
    build_ast();
    g_warn = g_fatal = g_otherout = 0;

    int rc = jdf_sanity_check_flows_and_deps_number();

    spec_eval();
    int exceeded = spec_exceeded;
    V_ASSERT(V_IFF(rc < 0, exceeded > 0),
             "C24.jdf_sanity_check_flows_and_deps_number.post.negative_iff_some_runtime_limit_exceeded");
    V_ASSERT(rc == -exceeded,
             "C24.jdf_sanity_check_flows_and_deps_number.post.returns_minus_number_of_exceeded_limits");
    V_ASSERT(g_warn + g_fatal == exceeded && g_otherout == 0,
             "C24.jdf_sanity_check_flows_and_deps_number.post.one_diagnostic_per_exceeded_limit");
    /* the property's own wording */
    V_ASSERT(V_IMPLIES(spec_fun_bad, rc < 0),
             "C24.jdf_sanity_check_flows_and_deps_number.post.function_with_too_many_flows_is_rejected");
    V_ASSERT(V_IMPLIES(spec_flow_bad, rc < 0),
             "C24.jdf_sanity_check_flows_and_deps_number.post.flow_with_too_many_deps_is_rejected");
    /* frame: the check does not alter the program it judges (constant indexes, one conjunction per clause) */
    {
        int flags_same = 1, links_same = 1;
        for (int f = 0; f < NFUNC; f++) {
            links_same &= (funcs[f].next == ((f + 1 < len_func()) ? &funcs[f + 1] : NULL));
            links_same &= (funcs[f].dataflow == ((0 < len_flow(f)) ? &FLOW(f, 0) : NULL));
            for (int l = 0; l < NFLOW; l++) {
                flags_same &= (FLOW(f, l).flow_flags == vin.flow_flags[f][l]);
                links_same &= (FLOW(f, l).next == ((l + 1 < len_flow(f)) ? &FLOW(f, l + 1) : NULL));
                links_same &= (FLOW(f, l).deps == ((0 < len_dep(f, l)) ? &DEP(f, l, 0) : NULL));
                for (int d = 0; d < NDEP; d++) {
                    flags_same &= (DEP(f, l, d).dep_flags == vin.dep_flags[f][l][d]);
                    links_same &= (DEP(f, l, d).next == ((d + 1 < len_dep(f, l)) ? &DEP(f, l, d + 1) : NULL));
                }
            }
        }
        V_ASSERT(flags_same, "C24.jdf_sanity_check_flows_and_deps_number.post.ast_flags_unchanged");
        V_ASSERT(links_same, "C24.jdf_sanity_check_flows_and_deps_number.post.ast_links_unchanged");
    }
    V_CANARY("flows_and_deps");
}
