import os
from vlib import Job, build_dir

FN = "jdf_sanity_check_flows_and_deps_number"
FL = "jdf_generate_task_typedef (MAX_LOCAL_COUNT check)"

META = dict(
    level="other",
    functions=[FN, FL, "main (parsec-ptgpp, main.c): handling of the jdf_sanity_checks verdict"],
    explanation="Only the LIMIT clause of C24 is in reach of contracts. (1) Pre/post contract on the real "
                "jdf_sanity_check_flows_and_deps_number of ptg-compiler/jdf.c: for an AST (linked lists of task classes, flows, "
                "dependencies built from static pools, list lengths fixed per cbmc process, all flow flags and dependency flags "
                "symbolic) it returns a negative value iff some task class has more than MAX_PARAM_COUNT read or write flows or "
                "some flow more than MAX_DEP_IN_COUNT / MAX_DEP_OUT_COUNT input / output dependencies; the value is minus the "
                "number of exceeded limits; exactly one diagnostic is printed per exceeded limit; the AST is not modified. "
                "(2) Contract on the MAX_LOCAL_COUNT check of the real jdf_generate_task_typedef (jdf2c.c): the process is ended "
                "(exit, non-zero status, exactly one jdf_fatal diagnostic) iff #locals + max(nb_max_local_def,0) > MAX_LOCAL_COUNT, else "
                "the function returns without diagnostic. (3) Contract on the real main() of main.c with jdf_sanity_checks replaced by its documented contract and the "
                "parser / generator stubbed: which verdicts end the process with a non-zero status before any C is emitted. The "
                "clause taken from the property statement ('a fatal verdict rejects the program') is kept in its own job "
                "main.fatal_verdict_rejected: it FAILS on the unchanged tree (without --Werror main() ignores the -1 of "
                "jdf_sanity_checks and goes on to emit C whose '#error' guards then fail at compile time).",
    trusted_base=["vsnprintf stubbed (formats nothing, returns 0) and fprintf routed to a counter that classifies the constant format "
                  "string of jdf_warn / jdf_fatal: the TEXT of diagnostics is not checked, only their number",
                  "main harness: getopt_long modelled for the command lines 'parsec-ptgpp -E' and 'parsec-ptgpp -E --Werror'; yyparse "
                  "(succeeds), jdf_prepare_parsing, jdf_optimize, jdf_force_termdet_dynamic, jdf2c are stubs recording their calls; "
                  "jdf_sanity_checks is a stub returning an arbitrary value >= -1 (its documented range)",
                  "locals harness: vsnprintf / asprintf / vasprintf format nothing (generated text not modelled), free is a no-op, "
                  "jdf_fatal / jdf_warn (jdf.c) are counters, exit is routed to a checker that stops the path (assume(0))",
                  "CBMC's models of strcmp / strdup / malloc / calloc / exit"],
    assumptions=["jdf_sanity_checks returns -1 whenever one of its constituent checks returns a negative value (DO_CHECK macro of "
                 "jdf.c; read, not checked: the other thirteen checks need a complete AST with guards, calls and expressions)",
                 "the parser builds NULL-terminated, acyclic function / flow / dependency lists and sets JDF_FLOW_TYPE_READ/WRITE and "
                 "JDF_DEP_FLOW_IN/OUT as the grammar says (parsec.y is not under contract)",
                 "nb_max_local_def (a count of local definitions in the source text, computed by the parser) lies in [-10^6, 10^6]; "
                 "beyond 2^31-21 the int sum in the check would wrap"],
)


def jobs(tier):
    full = tier == "thorough"
    J = []
    # shapes sit around the limits 20 (flows) and 10 (dependencies): (task classes, flows per class, dependencies per flow)
    shapes = [(1, 21, 1, None), (1, 22, 2, None), (1, 2, 11, None), (2, 2, 12, None), (2, 21, 2, None)]
    if full:
        shapes += [(1, 22, 12, None), (2, 22, 12, "kissat"), (2, 21, 11, "kissat"), (1, 20, 10, None), (2, 1, 1, None)]
    for nf, nl, nd, solver in shapes:
        J.append(Job("limits.f%d.l%d.d%d" % (nf, nl, nd), "h_limits.c", entry="h_flows_and_deps",
                     defines={"NFUNC": nf, "NFLOW": nl, "NDEP": nd}, unwind=max(nl, nd) + 2, object_bits=10, solver=solver,
                     bounded="AST shape fixed: %d task class(es) x %d flows each x %d dependencies per flow (flags symbolic; the "
                             "property quantifies over ASTs of any size)" % (nf, nl, nd),
                     functions=[FN], timeout=1500 if full else 280, mem_gb=8, min_obligations=7))
    for n in ([1, 10, 19, 20, 21, 22] if full else [20, 21]):
        rej = n > 20
        J.append(Job("locals.n%d" % n, "h_locals.c", entry="h_locals", unwind=max(n, 8) + 2, object_bits=10,
                     defines=dict({"NLOC": n}, **({"EXPECT_REJECT": None} if rej else {})), canaries=1 if rej else 2, replay=False,
                     bounded="locals list of exactly %d entries (nb_max_local_def symbolic in [-10^6, 10^6]); the property quantifies "
                             "over lists of any length" % n,
                     functions=[FL], timeout=280, mem_gb=8, min_obligations=5 if not rej else 6))
    ptg_inc = "-I" + os.path.join(build_dir() or "/repo/_build", "parsec/interfaces/ptg/ptg-compiler")   # parsec.y.h
    J.append(Job("main.verdict", "h_main.c", entry="h_main_verdict", unwind=34, extra_cc=[ptg_inc], replay=False,
                 functions=["main"], timeout=280, min_obligations=5))
    # the clause of the property statement itself; fails on the unchanged tree (genuine: see the final report / known findings)
    if not os.environ.get("VERIF_C24_NO_FINDING_JOB"):
        J.append(Job("main.fatal_verdict_rejected", "h_main.c", entry="h_main_fatal_rejected", unwind=34, extra_cc=[ptg_inc],
                     replay=False, functions=["main"], timeout=280, min_obligations=2))
    return J


MANIFEST = dict(
    category="other",
    text="Contract on the real limit check of the PTG compiler (jdf_sanity_check_flows_and_deps_number): negative result iff a "
         "flow / dependency limit of the runtime is exceeded, one diagnostic per exceeded limit, AST untouched; and on the MAX_LOCAL_COUNT check of jdf_generate_task_typedef (process ended "
         "with non-zero status and one diagnostic iff the locals exceed the limit); discharged by CBMC "
         "for all flag assignments on ASTs of fixed shapes up to 2 task classes x 22 flows x 12 dependencies (bounded stand-in for "
         "'any JDF', hence 'other'). Plus a contract on main() for what happens to the verdict; the property's own clause "
         "'limit-exceeding programs are always rejected' does not hold at that level and is reported as a finding.",
    note="NOT decided: 'accepted implies the emitted C compiles' and 'same input gives identical output' (statements about an 8.6 kLoC "
         "string generator; no contract expresses 'compiles'); that jdf_generate_task_typedef is reached for every "
         "task class before output is usable (jdf2c.c's driver is not under contract); the parser; the propagation "
         "inside jdf_sanity_checks (assumed). Diagnostics are counted, their text is not checked.",
    technique="pre/post contracts (harness route) on the real jdf.c, jdf2c.c and main.c, discharged by CBMC with complete unwinding of shape-fixed ASTs",
    design_ref="DESIGN.md section 5, C24")
