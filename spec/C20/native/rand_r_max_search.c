/* parsec_matrix_tabular_set_random_table computes rank = (int)(nodes * (double)rand_r(&s) / (double)RAND_MAX): a rand_r()
 * result equal to RAND_MAX (allowed by POSIX) would give rank == nodes, not a valid rank.  This program enumerates all
 * 2^32 states of the libc's rand_r and reports how many return RAND_MAX, and the largest value returned.
 * glibc 2.x: 0 states, so the invalid rank cannot be produced with this libc (portability hazard only). */
#include <stdio.h>
#include <stdlib.h>
#include <stdint.h>
int main(void)
{
    unsigned long hits = 0; int mx = 0; unsigned int argmax = 0;
    for (uint64_t s = 0; s < (1ull << 32); s++) {
        unsigned int t = (unsigned int)s;
        int v = rand_r(&t);
        if (v == RAND_MAX) hits++;
        if (v > mx) { mx = v; argmax = (unsigned int)s; }
    }
    printf("states returning RAND_MAX: %lu; largest value %d (state %u); RAND_MAX %d\n", hits, mx, argmax, RAND_MAX);
    printf("largest rank for nodes=4: %d\n", (int)((double)4 * (double)mx / (double)RAND_MAX));
    return hits ? 1 : 0;
}
