#include <stdio.h>
#include <mpi.h>
#include "parsec.h"
#include "parsec/data_dist/matrix/vector_two_dim_cyclic.h"
int main(int argc, char **argv)
{
    MPI_Init(&argc, &argv);
    parsec_context_t *ctx = parsec_init(1, &argc, &argv);
    int P = 2, Q = 3, lmt = 8, mb = 2;
    const char *nm[] = {"ROW", "COL", "DIAG"};
    int dmax = argc > 1 ? 3 : 2;   /* pass any argument to include DIAG */
    for (int d = 0; d < dmax; d++)
        for (int r = 0; r < P * Q; r++) {
            parsec_vector_two_dim_cyclic_t v;
            if (d == 2) { printf("DIAG rank %d: calling init...\n", r); fflush(stdout); }
            parsec_vector_two_dim_cyclic_init(&v, PARSEC_MATRIX_DOUBLE, d, r, mb, lmt * mb, 0, lmt * mb, P, Q);
            int owned = 0;
            for (int m = 0; m < lmt; m++) if (v.super.super.rank_of(&v.super.super, m) == (uint32_t)r) owned++;
            printf("%s P=2 Q=3 lmt=8 rank %d: owns %d segments, nb_local_tiles=%d %s\n", nm[d], r, owned, v.super.nb_local_tiles,
                   owned == v.super.nb_local_tiles ? "" : "<-- MISMATCH");
        }
    parsec_fini(&ctx); MPI_Finalize();
    return 0;
}
