#include <stdio.h>
#include <mpi.h>
#include "parsec.h"
#include "parsec/data_internal.h"
#include "parsec/data_dist/matrix/two_dim_rectangle_cyclic.h"
int main(int argc, char **argv)
{
    int cores = 1; MPI_Init(&argc, &argv);
    parsec_context_t *ctx = parsec_init(cores, &argc, &argv);
    parsec_matrix_block_cyclic_t dc;
    /* 1 process, 6x1 tiles of 2x2 doubles, k-cyclicity kp=2 */
    parsec_matrix_block_cyclic_init(&dc, PARSEC_MATRIX_DOUBLE, PARSEC_MATRIX_TILE, 0, 2, 2, 12, 2, 0, 0, 12, 2, 1, 1, 2, 1, 0, 0);
    dc.mat = parsec_data_allocate((size_t)dc.super.nb_local_tiles * dc.super.bsiz * sizeof(double));
    parsec_data_collection_t *o = &dc.super.super;
    for (int m = 0; m < dc.super.mt; m++) {
        parsec_data_t *d = o->data_of(o, m, 0);
        printf("tile (%d,0): data_key=%llu  data_of()->key=%llu  rank_of_key(data_of key)=%u  %s\n", m,
               (unsigned long long)o->data_key(o, m, 0), (unsigned long long)d->key, o->rank_of_key(o, d->key),
               o->data_key(o, m, 0) == d->key ? "" : "<-- MISMATCH");
    }
    parsec_fini(&ctx); MPI_Finalize();
    return 0;
}
