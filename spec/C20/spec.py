from vlib import Job

META = dict(
    level="other",
    functions=["parsec_grid_2Dcyclic_init", "parsec_tiled_matrix_init", "parsec_tiled_matrix_create_data", "tiled_matrix_data_key",
               "parsec_matrix_block_cyclic_init", "parsec_matrix_block_cyclic_key2coords",
               "twoDBC_rank_of", "twoDBC_rank_of_key", "twoDBC_vpid_of", "twoDBC_vpid_of_key", "twoDBC_coordinates_to_position",
               "twoDBC_data_of",
               "twoDBC_kcyclic_rank_of", "twoDBC_kcyclic_rank_of_key", "twoDBC_kcyclic_vpid_of", "twoDBC_kcyclic_vpid_of_key",
               "twoDBC_kcyclic_data_of",
               "parsec_matrix_block_cyclic_kview", "kview_compute_m", "kview_compute_n", "twoDBC_kview_rank_of",
               "twoDBC_kview_rank_of_key", "twoDBC_kview_vpid_of", "twoDBC_kview_vpid_of_key", "twoDBC_kview_data_of",
               "parsec_matrix_block_cyclic_band_init", "twoDBC_band_rank_of", "twoDBC_band_rank_of_key", "twoDBC_band_data_of",
               "twoDBC_band_data_of_key", "twoDBC_band_vpid_of", "twoDBC_band_vpid_of_key",
               "parsec_matrix_tabular_init", "parsec_matrix_tabular_set_table", "parsec_matrix_tabular_set_random_table",
               "twoDTD_rank_of", "twoDTD_rank_of_key", "twoDTD_data_of", "twoDTD_data_of_key", "twoDTD_vpid_of", "twoDTD_vpid_of_key"],
    explanation="Harness-route contracts on the REAL two_dim_rectangle_cyclic.c, sym_two_dim_rectangle_cyclic.c, vector_two_dim_cyclic.c, "
                "grid_2Dcyclic.c and matrix.c (all #included verbatim in one translation unit per distribution).  Each job fixes the "
                "divisor-like parameters (P, Q, kp, kq, mb=nb, lmt, lnt) as constants and keeps myrank, the grid offsets ip<P, jq<Q, the "
                "stored size lm/ln inside its last tile, the submatrix (offset <= 2 tiles, any size that fits) and the tile coordinates "
                "symbolic.  The descriptor is built by the real *_init function (which runs the real parsec_tiled_matrix_init and "
                "parsec_grid_2Dcyclic_init), and rank_of / data_of / vpid_of / data_key / *_of_key are called through the function "
                "pointers init installed.  point jobs (two symbolic tiles A, B): rank_of(A) < P*Q and equals the textbook closed form; "
                "if A is local: the slot handed to parsec_data_create is data_map[position] with 0 <= position < nb_local_tiles, the "
                "address is mat + offset with the tile inside nb_local_tiles*mb*nb*8 bytes, the key is data_key(A) and key2coords maps it "
                "back to A, vpid in [0, nb_vp) (nb_vp in {1,2,4,6}, vp grid computed by the real grid init); if A != B are both local: "
                "distinct slots, distinct keys, disjoint byte ranges.  count jobs: the number of tiles of the stored matrix with "
                "rank_of == myrank equals nb_local_tiles (= nb_elem_r*nb_elem_c) as computed by init -- together with injectivity and "
                "the range clause this gives 'one-to-one ONTO the local slots' (pigeonhole, meta-step).  grid jobs: (rrank, crank) in range "
                "and inverse to the rank formula, vp_p*vp_q == nb_vp.  kview jobs: the same point contract (without closed form / key "
                "round trip, a view permutes tiles) on parsec_matrix_block_cyclic_kview of a 1-cyclic descriptor.  sym.* : the same for the "
                "stored triangle (uplo symbolic), tiles of the other triangle have no valid owner.  vector.diag.* : the same for the "
                "diagonal vector distribution on square grids.  band.* : both block-cyclic collections are built as tests/collections/"
                "two_dim_band does, then parsec_matrix_block_cyclic_band_init; rank_of equals the band (|m-n| < band_size, tile stored as "
                "(m-n+band_size-1, n) on the band grid) or off-band closed form; data_of puts a local tile into a slot of the SAME "
                "collection rank_of consulted (slot < that collection's nb_local_tiles, bytes inside that collection's storage, key of "
                "the tile in that collection), distinct local tiles get distinct (collection, slot) pairs and disjoint bytes; the "
                "_of_key variants agree; key2coords inverts data_key of the band collection.  tabular.table.* : init + set_table on a "
                "symbolic valid table (heap object): owners kept, local entries get pairwise distinct slots 0..nb_local_tiles-1 and one "
                "tile-sized block each, nb_local_tiles equals the number of owned tiles, rank_of is the table entry (< nodes), data_of / "
                "data_of_key hand out slot, block and key of the tile, vpid in range.  tabular.random.* : set_random_table with rand_r "
                "stubbed as any value in [0, RAND_MAX): every entry is a valid rank, local vpid in range.  defect.* jobs isolate obligations that FAIL on the real code (genuine "
                "defects, demonstrated natively, see native/): the row / column / non-square-diagonal cases of the vector distribution.  "
                "(The key stored by twoDBC_kcyclic_data_of was a third one: found by the key clauses, fixed in /repo 39f87f9, now passing.)  "
                "Observation (not a finding of this configuration): with rand_r allowed to return RAND_MAX itself (POSIX; harness built with "
                "-DC20_RAND_R_POSIX) the two set_random_table obligations fail (rank == nodes, vpid == nb_vp); glibc's rand_r never does "
                "(native/rand_r_max_search.c enumerates its 2^32 states).",
    trusted_base=["stub parsec_data_create: records (holder slot address, key, pointer, size) in ghost variables, returns a dummy data",
                  "stub parsec_data_collection_init: sets nodes, myrank, clears the method pointers (real one memsets the object)",
                  "stub parsec_vpmap_get_nb_vp: the job's constant NBVP (1,2,3,4,5,6,7,8 over the jobs)",
                  "stub parsec_type_size: every element type is 8 bytes (mtype fixed to PARSEC_MATRIX_DOUBLE)",
                  "stubs parsec_matrix_define_datatype / parsec_type_free / asprintf: succeed without effect",
                  "CBMC's model of ceilf/sqrtf (constant-folded for the constant NBVP) and of calloc",
                  "slot index / byte offset are recovered from the recorded addresses by integer subtraction from data_map / mat",
                  "meta-step: injective + range + count equality => bijection onto the nb_local_tiles slots",
                  "stub parsec_data_allocate (tabular): hands out consecutive tile-sized blocks of a static arena, counts calls and wrong sizes",
                  "rand_r (tabular.random), stubbed with the contract: returns any value of [0, RAND_MAX) per call, independent of the seed "
                  "(never RAND_MAX itself: glibc, enumerated natively)"],
    assumptions=["parameters inside the enumerated box; sizes small enough that i+m, lm*ln, nb_local_tiles*bsiz do not overflow (huge matrices not claimed)",
                 "tile coordinates passed to rank_of / data_of are inside the submatrix (the code's own asserts m < mt, n < nt), data_of / vpid_of are "
                 "called only for local tiles (the code's assert under DISTRIBUTED)",
                 "the user attaches local storage of nb_local_tiles * mb*nb * sizeof(type) bytes (what every test of the repository allocates)",
                 "symmetric: the submatrix starts on the diagonal (i == j); vector: diagonal distribution, square process grid",
                 "band: square matrix, the two member collections initialised by parsec_matrix_block_cyclic_init with the shapes used by "
                 "tests/collections/two_dim_band (off-band lt x lt, band (2*band_size-1) x lt), same number of nodes",
                 "tabular: set_table receives a table whose owners are < nodes and whose vpids are in [0, nb_vp) (user input)",
                 "rand_r never returns RAND_MAX (glibc: checked exhaustively over all 2^32 states, spec/C20/native/rand_r_max_search.c; "
                 "largest value RAND_MAX-2); not guaranteed by POSIX"],
)

# (P, Q, kp, kq, mb(=nb), lmt, lnt)
POINT_Q = [(2, 3, 1, 1, 2, 5, 7), (3, 2, 1, 1, 1, 8, 4),
           (2, 3, 2, 1, 2, 7, 5), (3, 2, 1, 3, 1, 5, 8)]
POINT_T = [(1, 4, 1, 1, 2, 3, 8), (4, 3, 2, 2, 1, 8, 8), (4, 4, 1, 1, 3, 8, 8), (2, 2, 3, 2, 3, 8, 7), (4, 1, 1, 1, 1, 12, 2), (3, 3, 1, 1, 2, 11, 12)]
COUNT_Q = [(2, 3, 1, 1, 2, 5, 7), (3, 2, 2, 1, 1, 8, 5), (2, 2, 3, 2, 2, 7, 8)]
COUNT_T = [(1, 3, 2, 3, 3, 4, 8), (4, 4, 1, 1, 1, 8, 8), (3, 4, 1, 2, 1, 12, 10)]
KVIEW_Q = [(2, 3, 3, 2, 2, 7, 5)]
KVIEW_T = [(3, 2, 2, 3, 1, 8, 6), (4, 2, 3, 3, 2, 9, 7)]
DEFECT_Q = [(2, 1, 2, 1, 1, 5, 2)]
DEFECT_T = [(2, 3, 1, 2, 2, 4, 7)]
GRID_Q = [(2, 3, 2, 1, 6), (4, 4, 1, 1, 4)]     # (P, Q, kp, kq, nb_vp)
GRID_T = [(3, 1, 1, 3, 7), (1, 4, 3, 2, 1), (4, 3, 2, 2, 8), (3, 4, 1, 1, 5), (2, 2, 1, 1, 3)]
# symmetric: (P, Q, mb, lmt=lnt);   vector: (P, Q, mb, lmt, distrib)  distrib 0 row, 1 column, 2 diagonal
SYM_POINT_Q = [(2, 3, 2, 5)]
SYM_POINT_T = [(3, 2, 1, 7), (4, 4, 3, 8), (1, 3, 2, 6), (3, 3, 2, 9)]
SYM_COUNT_Q = [(3, 2, 1, 6)]
SYM_COUNT_T = [(2, 3, 2, 7), (4, 3, 1, 9), (2, 2, 3, 8)]
VEC_POINT_Q = [(3, 3, 2, 8, 2)]
VEC_POINT_T = [(2, 2, 1, 7, 2), (4, 4, 3, 12, 2), (1, 1, 2, 5, 2)]
VEC_COUNT_Q = [(2, 2, 2, 7, 2)]
VEC_COUNT_T = [(3, 3, 1, 11, 2), (4, 4, 2, 12, 2)]
# band: (P, Q, kp, kq,  band P, Q, kp, kq,  mb, lt, band_size)
BAND_Q = [(2, 3, 1, 1, 3, 2, 1, 1, 2, 6, 2)]
BAND_T = [(2, 2, 2, 1, 4, 1, 1, 2, 1, 7, 3), (3, 2, 1, 1, 1, 6, 1, 1, 2, 8, 1), (4, 3, 2, 2, 2, 6, 1, 3, 1, 8, 2), (1, 1, 1, 1, 1, 1, 1, 1, 3, 5, 3)]
TAB_Q = [(3, 2, 3, 2)]
TAB_T = [(16, 1, 4, 3), (1, 2, 2, 2), (5, 3, 2, 5), (2, 2, 6, 2)]
TABR_Q = [(3, 2, 2, 2, 4)]       # (nodes, mb, lmt, lnt, nb_vp)
TABR_T = [(16, 1, 3, 2, 7), (1, 2, 2, 3, 1)]


def tname(t):
    return "P%dQ%d.k%dx%d.mb%d.%dx%d" % t


def defs(t, **kw):
    d = dict(GP=t[0], GQ=t[1], KP=t[2], KQ=t[3], MB=t[4], LMT=t[5], LNT=t[6])
    d.update(kw)
    return d


def thorough_tuples():
    """a denser sample of the box P,Q<=4, kp,kq<=3, mb<=3, lmt,lnt<=12 (every (P,Q) with every (kp,kq) once)"""
    T = []
    k = 0
    for P in (1, 2, 3, 4):
        for Q in (1, 2, 3, 4):
            for kp in (1, 2, 3):
                for kq in (1, 2, 3):
                    k += 1
                    if (P + 2 * Q + kp + 3 * kq) % 3 != k % 3:      # thin out deterministically: ~1/3 of 144
                        continue
                    mb = 1 + k % 3
                    lmt = 5 + (k * 7) % 8
                    lnt = 5 + (k * 5 + 3) % 8
                    T.append((P, Q, kp, kq, mb, lmt, lnt))
    return T


BOX = "enumerated tuples (P,Q,kp,kq,mb=nb,lmt,lnt) inside the box P,Q<=4 kp,kq<=3 mb<=3 lmt,lnt<=%d; submatrix offset <= 2 tiles; 8-byte elements; TILE storage"


def jobs(tier):
    full = tier == "thorough"
    J = []
    point = POINT_Q + (POINT_T + thorough_tuples()[::2] if full else [])
    count = COUNT_Q + (COUNT_T + thorough_tuples()[1::6] if full else [])
    bnd = BOX % (12 if full else 8)
    seen = set()
    for t in point:
        if t in seen:
            continue
        seen.add(t)
        kc = t[2] > 1 or t[3] > 1
        var = "kcyclic" if kc else "cyclic"
        fn = (["twoDBC_kcyclic_rank_of", "twoDBC_kcyclic_data_of", "twoDBC_kcyclic_vpid_of"] if kc else
              ["twoDBC_rank_of", "twoDBC_data_of", "twoDBC_vpid_of", "twoDBC_coordinates_to_position"])
        J.append(Job("2dbc.%s.point.%s" % (var, tname(t)), "h_2dbc.c", entry="h_point",
                     defines=defs(t, NBVP=(1, 2, 4, 6)[len(J) % 4]),
                     unwind=max(t[5], t[6]) + 2, bounded=bnd, timeout=600,
                     functions=fn + ["parsec_matrix_block_cyclic_init", "parsec_matrix_block_cyclic_key2coords"],
                     min_obligations=18))
    seen = set()
    for t in count:
        if t in seen:
            continue
        seen.add(t)
        J.append(Job("2dbc.count.%s" % tname(t), "h_2dbc.c", entry="h_count", defines=defs(t),
                     unwind=max(t[5], t[6]) + 2, bounded=bnd, timeout=900, object_bits=12,   # one va_list object per rank_of call
                     functions=["parsec_matrix_block_cyclic_init"], min_obligations=4))
    for t in KVIEW_Q + (KVIEW_T if full else []):
        d = defs((t[0], t[1], 1, 1, t[4], t[5], t[6]), KVIEW=1, KVP=t[2], KVQ=t[3], NBVP=4)
        J.append(Job("2dbc.kview.point.%s" % tname(t), "h_2dbc.c", entry="h_point", defines=d,
                     unwind=max(t[5], t[6], t[0] * t[2], t[1] * t[3]) + 2, bounded=bnd, timeout=600,
                     functions=["parsec_matrix_block_cyclic_kview", "twoDBC_kview_rank_of", "twoDBC_kview_data_of",
                                "twoDBC_kview_vpid_of", "kview_compute_m", "kview_compute_n"], min_obligations=15))
    for g in GRID_Q + (GRID_T if full else []):
        J.append(Job("grid.init.P%dQ%d.k%dx%d.vp%d" % g, "h_2dbc.c", entry="h_grid",
                     defines=dict(GP=g[0], GQ=g[1], KP=g[2], KQ=g[3], NBVP=g[4]), unwind=10, bounded=bnd, timeout=300,
                     functions=["parsec_grid_2Dcyclic_init", "default_vp_data_dist"], min_obligations=4))
    # the key stored by twoDBC_kcyclic_data_of (was a genuine defect, fixed in /repo 39f87f9; kept as its own small job)
    for t in DEFECT_Q + (DEFECT_T if full else []):
        J.append(Job("2dbc.kcyclic.key.%s" % tname(t), "h_2dbc.c", entry="h_key", defines=defs(t),
                     unwind=max(t[5], t[6]) + 2, bounded=bnd, timeout=600,
                     functions=["twoDBC_kcyclic_data_of"], min_obligations=3))
    # ---- symmetric block-cyclic
    SF = ["parsec_matrix_sym_block_cyclic_init", "sym_twoDBC_rank_of", "sym_twoDBC_rank_of_key", "sym_twoDBC_data_of",
          "parsec_matrix_sym_block_cyclic_coord2pos", "sym_twoDBC_vpid_of", "sym_twoDBC_vpid_of_key", "sym_twoDBC_key_to_coordinates"]
    for t in SYM_POINT_Q + (SYM_POINT_T if full else []):
        J.append(Job("sym.point.P%dQ%d.mb%d.%dx%d" % (t + (t[3],)), "h_sym.c", entry="h_sym_point",
                     defines=dict(GP=t[0], GQ=t[1], MB=t[2], LMT=t[3], NBVP=(2, 6)[t[0] % 2]), unwind=t[3] + 2, bounded=bnd,
                     timeout=600, functions=SF, min_obligations=14))
    for t in SYM_COUNT_Q + (SYM_COUNT_T if full else []):
        J.append(Job("sym.count.P%dQ%d.mb%d.%dx%d" % (t + (t[3],)), "h_sym.c", entry="h_sym_count",
                     defines=dict(GP=t[0], GQ=t[1], MB=t[2], LMT=t[3]), unwind=t[3] + 2, bounded=bnd,
                     timeout=900, object_bits=12, functions=SF[:2], min_obligations=1))
    # ---- vector: diagonal distribution on square grids (the part of the file that satisfies the property)
    VF = ["parsec_vector_two_dim_cyclic_init", "vector_twoDBC_rank_of", "vector_twoDBC_data_of", "vector_twoDBC_vpid_of"]
    vb = bnd + "; vector: diagonal distribution on SQUARE grids only (the rest: defect.vector_* jobs)"

    def vd(t, **kw):
        d = dict(GP=t[0], GQ=t[1], MB=t[2], LMT=t[3], DISTRIB=t[4]); d.update(kw); return d
    for t in VEC_POINT_Q + (VEC_POINT_T if full else []):
        J.append(Job("vector.diag.point.P%dQ%d.mb%d.lmt%d" % t[:4], "h_vector.c", entry="h_vec_point", defines=vd(t, NBVP=4),
                     unwind=t[3] + 2, bounded=vb, timeout=600, functions=VF, min_obligations=12))
    for t in VEC_COUNT_Q + (VEC_COUNT_T if full else []):
        J.append(Job("vector.diag.count.P%dQ%d.mb%d.lmt%d" % t[:4], "h_vector.c", entry="h_vec_count", defines=vd(t),
                     unwind=t[3] + 2, bounded=vb, timeout=600, object_bits=12, functions=VF[:2], min_obligations=2))
    # genuine defects of the vector distribution (own jobs)
    J.append(Job("defect.vector_rowcol.row.point.P2Q3", "h_vector.c", entry="h_vec_point", defines=vd((2, 3, 2, 8, 0)),
                 unwind=10, bounded=bnd, timeout=600, functions=VF, min_obligations=10))
    J.append(Job("defect.vector_rowcol.col.count.P2Q3", "h_vector.c", entry="h_vec_count", defines=vd((2, 3, 2, 8, 1)),
                 unwind=10, bounded=bnd, timeout=600, functions=VF[:2], min_obligations=2))
    J.append(Job("defect.vector_diag_nonsquare.count.P2Q3", "h_vector.c", entry="h_vec_count", defines=vd((2, 3, 2, 8, 2)),
                 unwind=10, bounded=bnd, timeout=600, functions=VF[:2], min_obligations=2))
    if full:
        J.append(Job("defect.vector_rowcol.col.point.P3Q2", "h_vector.c", entry="h_vec_point", defines=vd((3, 2, 1, 7, 1)),
                     unwind=10, bounded=bnd, timeout=600, functions=VF, min_obligations=10))
        J.append(Job("defect.vector_rowcol.row.count.P1Q3", "h_vector.c", entry="h_vec_count", defines=vd((1, 3, 2, 8, 0)),
                     unwind=10, bounded=bnd, timeout=600, functions=VF[:2], min_obligations=2))
    # ---- band distribution: (P, Q, kp, kq,  band P, Q, kp, kq,  mb, lt, band_size)
    BF = ["parsec_matrix_block_cyclic_band_init", "twoDBC_band_rank_of", "twoDBC_band_rank_of_key", "twoDBC_band_data_of",
          "twoDBC_band_data_of_key", "twoDBC_band_vpid_of", "twoDBC_band_vpid_of_key"]
    for t in BAND_Q + (BAND_T if full else []):
        J.append(Job("band.point.P%dQ%d.k%dx%d.bP%dQ%d.k%dx%d.mb%d.lt%d.bs%d" % t, "h_band.c", entry="h_band_point",
                     defines=dict(GP=t[0], GQ=t[1], KP=t[2], KQ=t[3], BP=t[4], BQ=t[5], BKP=t[6], BKQ=t[7], MB=t[8], LT=t[9], BS=t[10],
                                  NBVP=(2, 4, 6)[len(J) % 3]),
                     unwind=t[9] + 2, bounded=bnd + "; band: square matrix, band_size <= 3, both collections as in tests/collections/two_dim_band",
                     timeout=900, functions=BF, min_obligations=18))
    # ---- tabular distribution: (nodes, mb, lmt, lnt)
    TF = ["parsec_matrix_tabular_init", "parsec_matrix_tabular_set_table", "twoDTD_rank_of", "twoDTD_rank_of_key", "twoDTD_data_of",
          "twoDTD_data_of_key", "twoDTD_vpid_of", "twoDTD_vpid_of_key"]
    tb = "tabular: table of lmt x lnt <= %d tiles with symbolic contents, nodes <= 16, stored size a multiple of the tile size" % (12 if full else 6)
    for t in TAB_Q + (TAB_T if full else []):
        J.append(Job("tabular.table.n%d.mb%d.%dx%d" % t, "h_tabular.c", entry="h_tab_table",
                     defines=dict(NODES=t[0], MB=t[1], LMT=t[2], LNT=t[3], NBVP=4), unwind=t[2] * t[3] + 2, bounded=tb,
                     timeout=900, functions=TF, min_obligations=18))
    for t in TABR_Q + (TABR_T if full else []):
        d = dict(NODES=t[0], MB=t[1], LMT=t[2], LNT=t[3], NBVP=t[4])
        J.append(Job("tabular.random.n%d.mb%d.%dx%d.vp%d" % t, "h_tabular.c", entry="h_tab_random", defines=d,
                     unwind=t[2] * t[3] + 2, bounded=tb + "; rand_r < RAND_MAX (glibc)", timeout=900,
                     functions=["parsec_matrix_tabular_set_random_table", "parsec_matrix_tabular_set_table"], min_obligations=3))
    return J


MANIFEST = dict(
    category="other",
    text="Bounded-box evidence, not a proof: for each enumerated tuple of divisor-like parameters (quick 21 jobs, thorough ~94 jobs inside "
         "P,Q<=4, kp,kq<=3, mb<=3, lmt,lnt<=12) CBMC discharges, on the real init / rank_of / data_of / vpid_of / key functions and for every "
         "rank, grid offset, stored size, submatrix and pair of tiles, that each tile has one valid owner given by the block-cyclic closed form, "
         "local tiles get pairwise distinct in-range slots, disjoint in-range byte ranges and distinct keys that map back to their coordinates, "
         "the local tile count of init equals the number of owned tiles, and vpid is in range; for 2D block-cyclic (1-cyclic, k-cyclic, k-view), "
         "symmetric, the diagonal vector distribution on square grids, the band distribution (delegation to band / off-band collection consistent "
         "between rank_of and data_of) and the tabular distribution (set_table, set_random_table, access functions).  Category other: the tuple set samples the box, it does not cover it.",
    note="NOT decided: band: no count clause (both member collections are over-allocated by design), sym band variant "
         "(sym_two_dim_rectangle_cyclic_band.c) not covered; tabular: set_user_table, clone_table_structure, destroy not covered, set_random_table only "
         "under 'rand_r < RAND_MAX' (observation, portability hazard: a libc whose rand_r can return RAND_MAX makes set_random_table produce "
         "rank == nodes / vpid == nb_vp; the __WINDOWS__ branch divides by RAND_MAX+1, the POSIX branch by RAND_MAX); LAPACK storage (slm/sln, leading-dimension addressing) ; element types other than "
         "8 bytes; tuples of the box that are not enumerated and everything outside it (overflow for huge matrices); parsec_tiled_matrix_submatrix; "
         "vector row/column distributions and diagonal on non-square grids FAIL (genuine defects, known findings, jobs defect.vector_*).  Stubs: parsec_data_create (recording), parsec_vpmap_get_nb_vp, "
         "parsec_type_size, datatype creation.",
    technique="contracts (harness route: assume / call the real function / assert, two-point lemmas) on the real data_dist/matrix sources, "
              "discharged by CBMC; divisor-like parameters enumerated, one process per tuple",
    design_ref="DESIGN.md section 5, C20")
