/* C20: symmetric 2D block-cyclic distribution (sym_two_dim_rectangle_cyclic.c + grid_2Dcyclic.c + matrix.c, verbatim).
 * Only the tiles of one triangle (uplo) are stored.  GP x GQ, MB=NB, LMT x LNT are constants of the job;
 * myrank, uplo, lm/ln inside their last tile, the (diagonal) submatrix offset and the tile coordinates are symbolic.
 */
#include "verif.h"
#include "c20_common.h"
#include "parsec/data_dist/matrix/sym_two_dim_rectangle_cyclic.h"

#include "parsec/data_dist/matrix/matrix.c"
#include "parsec/data_dist/matrix/grid_2Dcyclic.c"
#include "parsec/data_dist/matrix/sym_two_dim_rectangle_cyclic.c"

#ifndef GP
#define GP 2
#endif
#ifndef GQ
#define GQ 3
#endif
#ifndef MB
#define MB 2
#endif
#ifndef NB
#define NB MB
#endif
#ifndef LMT
#define LMT 5
#endif
#ifndef LNT
#define LNT LMT
#endif
#ifndef OFFT
#define OFFT 2
#endif

struct vin {
    int32_t myrank;
    int32_t lm, ln;
    int32_t i, m, n;           /* submatrix starts on the diagonal: j == i */
    uint32_t m1, n1, m2, n2;
    uint8_t  upper;
    uint8_t  with_mat;
} vin;
#include "verif_vin.h"

static parsec_matrix_sym_block_cyclic_t dc;

struct rec { long position; long off; int null_ptr; parsec_data_key_t key; size_t size; };
static struct rec call_data_of(parsec_data_collection_t *o, unsigned m, unsigned n)
{
    struct rec r;
    int before = g_creates;
    parsec_data_t *d = o->data_of(o, m, n);
    V_ASSERT(g_creates == before + 1 && d == &g_data_obj, "C20.sym_data_of.post.creates_exactly_one_data");
    r.position = ((intptr_t)g_holder - (intptr_t)((parsec_tiled_matrix_t *)o)->data_map) / (long)sizeof(parsec_data_t *);
    r.off = g_ptr == NULL ? 0 : (intptr_t)g_ptr - (intptr_t)(char *)g_mat;
    r.null_ptr = g_ptr == NULL;
    r.key = g_key;
    r.size = g_size;
    return r;
}

static int in_triangle(unsigned m, unsigned n) { return vin.upper ? n >= m : m >= n; }

void h_sym_point(void)
{
    vin_load();
    V_ASSUME(vin.myrank >= 0 && vin.myrank < GP * GQ);
    V_ASSUME(vin.lm > (LMT - 1) * MB && vin.lm <= LMT * MB);
    V_ASSUME(vin.ln > (LNT - 1) * NB && vin.ln <= LNT * NB);
    V_ASSUME(vin.i >= 0 && vin.i <= OFFT * MB);
    V_ASSUME(vin.m >= 1 && vin.n >= 1 && vin.m <= vin.lm && vin.n <= vin.ln && vin.i + vin.m <= vin.lm && vin.i + vin.n <= vin.ln);
    parsec_matrix_uplo_t uplo = vin.upper ? PARSEC_MATRIX_UPPER : PARSEC_MATRIX_LOWER;

    parsec_matrix_sym_block_cyclic_init(&dc, PARSEC_MATRIX_DOUBLE, vin.myrank, MB, NB, vin.lm, vin.ln,
                                        vin.i, vin.i, vin.m, vin.n, GP, GQ, uplo);
    parsec_data_collection_t *o = &dc.super.super;
    parsec_tiled_matrix_t *T = &dc.super;
    if (vin.with_mat) dc.mat = g_mat;
    V_ASSERT(T->lmt == LMT && T->lnt == LNT, "C20.tiled_matrix_init.post.lmt_lnt");
    V_ASSERT(T->nb_local_tiles >= 0 && T->nb_local_tiles <= LMT * LNT, "C20.sym_init.post.nb_local_tiles_in_range");

    unsigned m1 = vin.m1, n1 = vin.n1, m2 = vin.m2, n2 = vin.n2;
    V_ASSUME(m1 < (unsigned)T->mt && n1 < (unsigned)T->nt && m2 < (unsigned)T->mt && n2 < (unsigned)T->nt);
    int gm1 = m1 + vin.i / MB, gn1 = n1 + vin.i / NB;

    uint32_t r1 = o->rank_of(o, m1, n1);
    uint32_t r2 = o->rank_of(o, m2, n2);
    if (!in_triangle(m1, n1)) {
        V_ASSERT(r1 >= (uint32_t)(GP * GQ), "C20.sym_rank_of.post.tile_of_the_other_triangle_has_no_owner");
    } else {
        V_ASSERT(r1 < (uint32_t)(GP * GQ), "C20.sym_rank_of.post.valid_rank");
        V_ASSERT(r1 == (uint32_t)((gm1 % GP) * GQ + gn1 % GQ), "C20.sym_rank_of.post.closed_form_block_cyclic");
        parsec_data_key_t k1 = o->data_key(o, m1, n1);
        int bm, bn;
        sym_twoDBC_key_to_coordinates(o, k1, &bm, &bn);
        V_ASSERT(bm == (int)m1 && bn == (int)n1, "C20.sym_key_to_coordinates.post.inverse_of_data_key");
        V_ASSERT(o->rank_of_key(o, k1) == r1, "C20.sym_rank_of_key.post.agrees_with_rank_of");
        if (r1 == (uint32_t)vin.myrank) {
            struct rec a = call_data_of(o, m1, n1);
            size_t tile_bytes = (size_t)MB * NB * ELT;
            V_ASSERT(a.position >= 0 && a.position < T->nb_local_tiles, "C20.sym_data_of.post.position_below_nb_local_tiles");
            V_ASSERT(a.size == tile_bytes, "C20.sym_data_of.post.tile_size");
            if (vin.with_mat)
                V_ASSERT(a.off >= 0 && (size_t)a.off + tile_bytes <= (size_t)T->nb_local_tiles * tile_bytes,
                         "C20.sym_data_of.post.tile_inside_local_storage");
            else
                V_ASSERT(a.null_ptr, "C20.sym_data_of.post.no_storage_null_pointer");
            V_ASSERT(a.key == k1, "C20.sym_data_of.post.key_is_data_key_of_the_tile");
            int32_t vp = o->vpid_of(o, m1, n1);
            V_ASSERT(vp >= 0 && vp < NBVP, "C20.sym_vpid_of.post.in_range");
            V_ASSERT(o->vpid_of_key(o, k1) == vp, "C20.sym_vpid_of_key.post.agrees_with_vpid_of");
            if (in_triangle(m2, n2) && r2 == (uint32_t)vin.myrank && (m1 != m2 || n1 != n2)) {
                struct rec b = call_data_of(o, m2, n2);
                V_ASSERT(a.position != b.position, "C20.sym_data_of.lemma.distinct_tiles_distinct_slots");
                V_ASSERT(a.key != b.key, "C20.sym_data_of.lemma.distinct_tiles_distinct_keys");
                if (vin.with_mat)
                    V_ASSERT(a.off + (long)tile_bytes <= b.off || b.off + (long)tile_bytes <= a.off,
                             "C20.sym_data_of.lemma.distinct_tiles_disjoint_bytes");
            }
        }
    }
    V_CANARY("sym_point");
}

void h_sym_count(void)
{
    vin_load();
    V_ASSUME(vin.myrank >= 0 && vin.myrank < GP * GQ);
    V_ASSUME(vin.lm > (LMT - 1) * MB && vin.lm <= LMT * MB);
    V_ASSUME(vin.ln > (LNT - 1) * NB && vin.ln <= LNT * NB);
    parsec_matrix_uplo_t uplo = vin.upper ? PARSEC_MATRIX_UPPER : PARSEC_MATRIX_LOWER;
    parsec_matrix_sym_block_cyclic_init(&dc, PARSEC_MATRIX_DOUBLE, vin.myrank, MB, NB, vin.lm, vin.ln,
                                        0, 0, vin.lm, vin.ln, GP, GQ, uplo);
    parsec_data_collection_t *o = &dc.super.super;
    int count = 0;
    for (unsigned m = 0; m < LMT; m++)
        for (unsigned n = 0; n < LNT; n++)
            if (in_triangle(m, n) && o->rank_of(o, m, n) == (uint32_t)vin.myrank) count++;
    V_ASSERT(count == dc.super.nb_local_tiles, "C20.sym_init.post.nb_local_tiles_equals_number_of_owned_tiles");
    V_CANARY("sym_count");
}
