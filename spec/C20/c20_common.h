/* C20: stubs and ghost state shared by the harnesses of the data distributions.
 *
 * The REAL distribution file, the REAL grid_2Dcyclic.c and the REAL matrix.c
 * (parsec_tiled_matrix_init, parsec_tiled_matrix_create_data, tiled_matrix_data_key)
 * are #included by the harness.  What is below them is stubbed here:
 *   parsec_data_create            records (holder slot, key, pointer, size) in ghost variables
 *   parsec_data_collection_init   nodes / myrank set, the rest zeroed field by field
 *   parsec_vpmap_get_nb_vp        the job's constant NBVP
 *   parsec_type_size              every element type is ELT bytes
 *   parsec_matrix_define_datatype / parsec_translate_matrix_type / parsec_type_free / asprintf: succeed, no effect
 */
#ifndef C20_COMMON_H
#define C20_COMMON_H
#include <stdarg.h>
#include <stddef.h>
#include <stdint.h>
#include <string.h>
#include <stdlib.h>
#include "parsec/parsec_config.h"
#include "parsec/parsec_internal.h"
#include "parsec/data.h"
#include "parsec/data_distribution.h"
#include "parsec/vpmap.h"
#include "parsec/datatype.h"
#include "parsec/data_dist/matrix/matrix.h"

#ifndef NBVP
#define NBVP 1
#endif
#ifndef ELT
#define ELT 8
#endif

/* ---- ghost record of the last parsec_data_create ---- */
static parsec_data_t   **g_holder;
static parsec_data_key_t g_key;
static char             *g_ptr;
static size_t            g_size;
static int               g_creates;
static parsec_data_t     g_data_obj;

parsec_data_t *parsec_data_create(parsec_data_t **holder, parsec_data_collection_t *desc,
                                  parsec_data_key_t key, void *ptr, size_t size, parsec_data_flag_t flags)
{
    (void)desc; (void)flags;
    g_holder = holder; g_key = key; g_ptr = (char *)ptr; g_size = size; g_creates++;
    return &g_data_obj;
}

void parsec_data_collection_init(parsec_data_collection_t *d, int nodes, int myrank)
{
    d->nodes = nodes;
    d->myrank = myrank;
    d->tile_h_table = NULL;
    d->default_dtt = PARSEC_DATATYPE_NULL;
    d->rank_of = NULL; d->vpid_of = NULL; d->data_of = NULL;
    d->rank_of_key = NULL; d->vpid_of_key = NULL; d->data_of_key = NULL;
    d->data_key = NULL;
    d->key_dim = NULL; d->key_base = NULL;
}

int parsec_vpmap_get_nb_vp(void) { return NBVP; }

int parsec_type_size(parsec_datatype_t type, int *size) { (void)type; *size = ELT; return PARSEC_SUCCESS; }
int parsec_type_free(parsec_datatype_t *type) { (void)type; return PARSEC_SUCCESS; }

int parsec_matrix_define_datatype(parsec_datatype_t *newtype, parsec_datatype_t oldtype, parsec_matrix_uplo_t uplo, int diag,
                                  unsigned int m, unsigned int n, unsigned int ld, int resized, ptrdiff_t *extent)
{ (void)newtype; (void)oldtype; (void)uplo; (void)diag; (void)m; (void)n; (void)ld; (void)resized; (void)extent; return PARSEC_SUCCESS; }

#ifndef VERIF_REPLAY
int asprintf(char **strp, const char *fmt, ...) { (void)fmt; *strp = NULL; return 0; }
#endif

/* the local storage the user attaches to a descriptor (tests: parsec_data_allocate(nb_local_tiles*bsiz*sizeof));
 * only addresses are formed from it, it is never dereferenced */
static char g_mat[16];

#endif
