/* C20: distributed vector (vector_two_dim_cyclic.c + grid_2Dcyclic.c + matrix.c, verbatim).
 * GP x GQ, MB, LMT and the distribution DISTRIB (0 row, 1 column, 2 diagonal) are constants of the job;
 * myrank, lm inside its last segment, the sub-vector and the segment indices are symbolic.
 */
#include "verif.h"
#include "c20_common.h"
#include "parsec/data_dist/matrix/vector_two_dim_cyclic.h"

#include "parsec/data_dist/matrix/matrix.c"
#include "parsec/data_dist/matrix/grid_2Dcyclic.c"
#include "parsec/data_dist/matrix/vector_two_dim_cyclic.c"

#ifndef GP
#define GP 2
#endif
#ifndef GQ
#define GQ 3
#endif
#ifndef MB
#define MB 2
#endif
#ifndef LMT
#define LMT 8
#endif
#ifndef DISTRIB
#define DISTRIB 2
#endif
#ifndef OFFT
#define OFFT 2
#endif

struct vin {
    int32_t myrank;
    int32_t lm, i, m;
    uint32_t m1, m2;
    uint8_t  with_mat;
} vin;
#include "verif_vin.h"

static parsec_vector_two_dim_cyclic_t dc;

struct rec { long position; long off; int null_ptr; parsec_data_key_t key; size_t size; };
static struct rec call_data_of(parsec_data_collection_t *o, unsigned m)
{
    struct rec r;
    int before = g_creates;
    parsec_data_t *d = o->data_of(o, m);
    V_ASSERT(g_creates == before + 1 && d == &g_data_obj, "C20.vector_data_of.post.creates_exactly_one_data");
    r.position = ((intptr_t)g_holder - (intptr_t)((parsec_tiled_matrix_t *)o)->data_map) / (long)sizeof(parsec_data_t *);
    r.off = g_ptr == NULL ? 0 : (intptr_t)g_ptr - (intptr_t)(char *)g_mat;
    r.null_ptr = g_ptr == NULL;
    r.key = g_key;
    r.size = g_size;
    return r;
}

/* documented (header): the diagonal distribution follows the diagonal tiles of a 2D block-cyclic matrix.
 * ROW / COL are not documented (and init and rank_of disagree about them): no closed form is stated. */
static int spec_owner_diag(int gm) { return (gm % GP) * GQ + gm % GQ; }

void h_vec_point(void)
{
    vin_load();
    V_ASSUME(vin.myrank >= 0 && vin.myrank < GP * GQ);
    V_ASSUME(vin.lm > (LMT - 1) * MB && vin.lm <= LMT * MB);
    V_ASSUME(vin.i >= 0 && vin.i <= OFFT * MB && vin.m >= 1 && vin.m <= vin.lm && vin.i + vin.m <= vin.lm);
    parsec_vector_two_dim_cyclic_init(&dc, PARSEC_MATRIX_DOUBLE, (enum parsec_vector_two_dim_cyclic_distrib_t)DISTRIB,
                                      vin.myrank, MB, vin.lm, vin.i, vin.m, GP, GQ);
    parsec_data_collection_t *o = &dc.super.super;
    parsec_tiled_matrix_t *T = &dc.super;
    if (vin.with_mat) dc.mat = g_mat;
    V_ASSERT(T->lmt == LMT && T->lnt == 1, "C20.tiled_matrix_init.post.lmt_lnt");
    V_ASSERT(T->nb_local_tiles >= 0 && T->nb_local_tiles <= LMT, "C20.vector_init.post.nb_local_tiles_in_range");
    V_ASSERT(T->mt >= 1 && T->i / MB + T->mt <= LMT, "C20.tiled_matrix_init.post.subvector_inside_stored_vector");

    unsigned m1 = vin.m1, m2 = vin.m2;
    V_ASSUME(m1 < (unsigned)T->mt && m2 < (unsigned)T->mt);
    int gm1 = m1 + vin.i / MB;
    uint32_t r1 = o->rank_of(o, m1);
    uint32_t r2 = o->rank_of(o, m2);
    V_ASSERT(r1 < (uint32_t)(GP * GQ), "C20.vector_rank_of.post.valid_rank");
    if (DISTRIB == PARSEC_VECTOR_DISTRIB_DIAG)
        V_ASSERT(r1 == (uint32_t)spec_owner_diag(gm1), "C20.vector_rank_of.post.closed_form_diagonal");
    if (r1 == (uint32_t)vin.myrank) {
        struct rec a = call_data_of(o, m1);
        size_t seg_bytes = (size_t)MB * ELT;
        V_ASSERT(a.position >= 0 && a.position < T->nb_local_tiles, "C20.vector_data_of.post.position_below_nb_local_tiles");
        V_ASSERT(a.size == seg_bytes, "C20.vector_data_of.post.segment_size");
        V_ASSERT(a.key == (parsec_data_key_t)gm1, "C20.vector_data_of.post.key_is_global_segment_index");
        if (vin.with_mat)
            V_ASSERT(a.off >= 0 && (size_t)a.off + seg_bytes <= (size_t)T->nb_local_tiles * seg_bytes,
                     "C20.vector_data_of.post.segment_inside_local_storage");
        else
            V_ASSERT(a.null_ptr, "C20.vector_data_of.post.no_storage_null_pointer");
        int32_t vp = o->vpid_of(o, m1);
        V_ASSERT(vp >= 0 && vp < NBVP, "C20.vector_vpid_of.post.in_range");
        if (r2 == (uint32_t)vin.myrank && m1 != m2) {
            struct rec b = call_data_of(o, m2);
            V_ASSERT(a.position != b.position, "C20.vector_data_of.lemma.distinct_segments_distinct_slots");
            V_ASSERT(a.key != b.key, "C20.vector_data_of.lemma.distinct_segments_distinct_keys");
            if (vin.with_mat)
                V_ASSERT(a.off + (long)seg_bytes <= b.off || b.off + (long)seg_bytes <= a.off,
                         "C20.vector_data_of.lemma.distinct_segments_disjoint_bytes");
        }
    }
    V_CANARY("vec_point");
}

void h_vec_count(void)
{
    vin_load();
    V_ASSUME(vin.myrank >= 0 && vin.myrank < GP * GQ);
    V_ASSUME(vin.lm > (LMT - 1) * MB && vin.lm <= LMT * MB);
    parsec_vector_two_dim_cyclic_init(&dc, PARSEC_MATRIX_DOUBLE, (enum parsec_vector_two_dim_cyclic_distrib_t)DISTRIB,
                                      vin.myrank, MB, vin.lm, 0, vin.lm, GP, GQ);
    parsec_data_collection_t *o = &dc.super.super;
    int count = 0;
    for (unsigned m = 0; m < LMT; m++)
        if (o->rank_of(o, m) == (uint32_t)vin.myrank) count++;
    V_ASSERT(count == dc.super.nb_local_tiles, "C20.vector_init.post.nb_local_tiles_equals_number_of_owned_segments");
    V_ASSERT(dc.super.llm == dc.super.nb_local_tiles * MB, "C20.vector_init.post.local_length");
    V_CANARY("vec_count");
}
