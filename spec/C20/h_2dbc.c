/* C20: 2D block-cyclic distribution (two_dim_rectangle_cyclic.c + grid_2Dcyclic.c + matrix.c, all included verbatim).
 *
 * Divisor-like parameters are compile-time constants of the job (DESIGN 2.12):
 *   GP x GQ process grid, KP/KQ k-cyclicity, MB=NB tile size, LMT x LNT tiles in the stored matrix.
 * Symbolic: myrank, ip, jq, lm/ln inside their last tile, submatrix (i,j,m,n), the tile coordinates.
 *
 * Entries
 *   h_point  contract of rank_of / data_of / vpid_of / data_key / key2coords as installed by the real
 *            parsec_matrix_block_cyclic_init, for two symbolic tiles A,B of a symbolic submatrix, on every rank
 *   h_count  the number of tiles of the stored matrix with rank_of == myrank equals nb_local_tiles computed by init
 *   h_grid   parsec_grid_2Dcyclic_init: (rrank,crank) in range and inverse to the rank formula; vp grid vp_p*vp_q == nb_vp
 */
#include "verif.h"
#include "c20_common.h"
#include "parsec/data_dist/matrix/two_dim_rectangle_cyclic.h"

#include "parsec/data_dist/matrix/matrix.c"
#include "parsec/data_dist/matrix/grid_2Dcyclic.c"
#include "parsec/data_dist/matrix/two_dim_rectangle_cyclic.c"

#ifndef GP
#define GP 2
#endif
#ifndef GQ
#define GQ 2
#endif
#ifndef KP
#define KP 1
#endif
#ifndef KQ
#define KQ 1
#endif
#ifndef MB
#define MB 2
#endif
#ifndef LMT
#define LMT 4
#endif
#ifndef LNT
#define LNT 4
#endif
#ifndef NB
#define NB MB
#endif
#ifndef OFFT
#define OFFT 2           /* submatrix offset: up to OFFT tiles */
#endif

struct vin {
    int32_t myrank, ip, jq;
    int32_t lm, ln;            /* stored matrix size (elements)  */
    int32_t i, j, m, n;        /* submatrix                       */
    uint32_t m1, n1, m2, n2;   /* tiles A and B (submatrix coordinates) */
    uint8_t  with_mat;         /* storage attached or not         */
    uint8_t  view;             /* h_point with KVIEW: unused       */
} vin;
#include "verif_vin.h"

static parsec_matrix_block_cyclic_t dc;
#ifdef KVIEW
static parsec_matrix_block_cyclic_t dcv;
#endif

static void assume_grid(void)
{
    V_ASSUME(vin.myrank >= 0 && vin.myrank < GP * GQ);
    V_ASSUME(vin.ip >= 0 && vin.ip < GP);
    V_ASSUME(vin.jq >= 0 && vin.jq < GQ);
}
static void assume_stored(void)
{
    V_ASSUME(vin.lm > (LMT - 1) * MB && vin.lm <= LMT * MB);
    V_ASSUME(vin.ln > (LNT - 1) * NB && vin.ln <= LNT * NB);
}

/* textbook closed form: block row floor(gm/kp) goes to process row (ip + floor(gm/kp)) mod P, same for columns;
 * ranks are numbered row-major on the P x Q grid (grid_2Dcyclic.h) */
static int spec_owner(int gm, int gn)
{
    int pr = (vin.ip + gm / KP) % GP;
    int pc = (vin.jq + gn / KQ) % GQ;
    return pr * GQ + pc;
}

struct rec { long position; long off; int null_ptr; parsec_data_key_t key; size_t size; };

static struct rec call_data_of(parsec_data_collection_t *o, unsigned m, unsigned n)
{
    struct rec r;
    int before = g_creates;
    parsec_data_t *d = o->data_of(o, m, n);
    V_ASSERT(g_creates == before + 1 && d == &g_data_obj, "C20.data_of.post.creates_exactly_one_data");
    /* slot index and byte offset from the addresses handed to parsec_data_create (integer arithmetic: the
     * addresses may lie outside the objects when the code is wrong) */
    r.position = ((intptr_t)g_holder - (intptr_t)((parsec_tiled_matrix_t *)o)->data_map) / (long)sizeof(parsec_data_t *);
    r.off = g_ptr == NULL ? 0 : (intptr_t)g_ptr - (intptr_t)(char *)g_mat;
    r.null_ptr = g_ptr == NULL;
    r.key = g_key;
    r.size = g_size;
    return r;
}

/* ------------------------------------------------------------------ */
void h_point(void)
{
    vin_load();
    assume_grid();
    assume_stored();
    /* submatrix: starts at most OFFT tiles in, non-empty, inside the stored matrix */
    V_ASSUME(vin.i >= 0 && vin.i <= OFFT * MB && vin.j >= 0 && vin.j <= OFFT * NB);
    V_ASSUME(vin.m >= 1 && vin.n >= 1 && vin.m <= vin.lm && vin.n <= vin.ln && vin.i + vin.m <= vin.lm && vin.j + vin.n <= vin.ln);

    parsec_matrix_block_cyclic_init(&dc, PARSEC_MATRIX_DOUBLE, PARSEC_MATRIX_TILE, vin.myrank,
                                    MB, NB, vin.lm, vin.ln, vin.i, vin.j, vin.m, vin.n, GP, GQ, KP, KQ, vin.ip, vin.jq);
    parsec_matrix_block_cyclic_t *D = &dc;
#ifdef KVIEW
    /* the k-cyclic *view* of a 1-cyclic descriptor (init was called with KP=KQ=1 by the job) */
    parsec_matrix_block_cyclic_kview(&dcv, &dc, KVP, KVQ);
    D = &dcv;
#endif
    parsec_data_collection_t *o = &D->super.super;
    parsec_tiled_matrix_t *T = &D->super;
    if (vin.with_mat) D->mat = g_mat;

    V_ASSERT(T->lmt == LMT && T->lnt == LNT, "C20.tiled_matrix_init.post.lmt_lnt");
    V_ASSERT(T->mt >= 1 && T->nt >= 1 && T->i / MB + T->mt <= LMT && T->j / NB + T->nt <= LNT,
             "C20.tiled_matrix_init.post.submatrix_tiles_inside_stored_matrix");
    V_ASSERT(T->nb_local_tiles >= 0 && T->nb_local_tiles <= LMT * LNT, "C20.block_cyclic_init.post.nb_local_tiles_in_range");
    V_ASSERT(T->bsiz == (size_t)MB * NB, "C20.tiled_matrix_init.post.bsiz");

    unsigned m1 = vin.m1, n1 = vin.n1, m2 = vin.m2, n2 = vin.n2;
    V_ASSUME(m1 < (unsigned)T->mt && n1 < (unsigned)T->nt && m2 < (unsigned)T->mt && n2 < (unsigned)T->nt);
    int gm1 = m1 + vin.i / MB, gn1 = n1 + vin.j / NB;

    /* --- every tile has exactly one valid owner --- */
    uint32_t r1 = o->rank_of(o, m1, n1);
    uint32_t r2 = o->rank_of(o, m2, n2);
    V_ASSERT(r1 < (uint32_t)(GP * GQ), "C20.rank_of.post.valid_rank");
#ifndef KVIEW
    V_ASSERT(r1 == (uint32_t)spec_owner(gm1, gn1), "C20.rank_of.post.closed_form_block_cyclic");
#endif
    /* --- key: data_key is injective on coordinates and maps back --- */
    parsec_data_key_t k1 = o->data_key(o, m1, n1);
    {
        int bm, bn;
        parsec_matrix_block_cyclic_key2coords(o, k1, &bm, &bn);
        V_ASSERT(bm == (int)m1 && bn == (int)n1, "C20.key2coords.post.inverse_of_data_key");
        V_ASSERT(k1 < (parsec_data_key_t)(LMT * LNT), "C20.data_key.post.below_lmt_x_lnt");
        V_ASSERT(o->rank_of_key(o, k1) == r1, "C20.rank_of_key.post.agrees_with_rank_of");
    }

    if (r1 == (uint32_t)vin.myrank) {
        struct rec a = call_data_of(o, m1, n1);
        size_t tile_bytes = (size_t)MB * NB * ELT;
        size_t local_bytes = (size_t)T->nb_local_tiles * tile_bytes;
        V_ASSERT(a.position >= 0 && a.position < T->nb_local_tiles, "C20.data_of.post.position_below_nb_local_tiles");
        V_ASSERT(a.size == tile_bytes, "C20.data_of.post.tile_size");
        if (vin.with_mat)
            V_ASSERT(a.off >= 0 && (size_t)a.off + tile_bytes <= local_bytes, "C20.data_of.post.tile_inside_local_storage");
        else
            V_ASSERT(a.null_ptr, "C20.data_of.post.no_storage_null_pointer");
#if !defined(KVIEW) && !defined(C20_KEY_SPLIT)
        V_ASSERT(a.key == k1, "C20.data_of.post.key_is_data_key_of_the_tile");
        {
            int bm, bn;
            parsec_matrix_block_cyclic_key2coords(o, a.key, &bm, &bn);
            V_ASSERT(bm == (int)m1 && bn == (int)n1, "C20.data_of.post.key_maps_back_to_coordinates");
        }
#endif
        V_ASSERT(a.key < (parsec_data_key_t)(LMT * LNT), "C20.data_of.post.key_below_lmt_x_lnt");
        int32_t vp = o->vpid_of(o, m1, n1);
        V_ASSERT(vp >= 0 && vp < NBVP, "C20.vpid_of.post.in_range");
        V_ASSERT(o->vpid_of_key(o, k1) == vp, "C20.vpid_of_key.post.agrees_with_vpid_of");

        if (r2 == (uint32_t)vin.myrank && (m1 != m2 || n1 != n2)) {
            struct rec b = call_data_of(o, m2, n2);
            V_ASSERT(a.position != b.position, "C20.data_of.lemma.distinct_tiles_distinct_slots");
#ifndef C20_KEY_SPLIT
            V_ASSERT(a.key != b.key, "C20.data_of.lemma.distinct_tiles_distinct_keys");
#endif
            if (vin.with_mat)
                V_ASSERT(a.off + (long)tile_bytes <= b.off || b.off + (long)tile_bytes <= a.off,
                         "C20.data_of.lemma.distinct_tiles_disjoint_bytes");
        }
    }
    V_CANARY("point");
}

/* ------------------------------------------------------------------ */
/* the key clauses of data_of alone (own small job for the k-cyclic variant, whose key was wrong before
 * /repo 39f87f9; -DC20_KEY_SPLIT removes them from h_point): the key given to the parsec_data_t of tile (m,n) is data_key(m,n), maps back to
 * (m,n) through key2coords, and distinct local tiles get distinct keys */
void h_key(void)
{
    vin_load();
    assume_grid();
    assume_stored();
    V_ASSUME(vin.i >= 0 && vin.i <= OFFT * MB && vin.j >= 0 && vin.j <= OFFT * NB);
    V_ASSUME(vin.m >= 1 && vin.n >= 1 && vin.m <= vin.lm && vin.n <= vin.ln && vin.i + vin.m <= vin.lm && vin.j + vin.n <= vin.ln);
    parsec_matrix_block_cyclic_init(&dc, PARSEC_MATRIX_DOUBLE, PARSEC_MATRIX_TILE, vin.myrank,
                                    MB, NB, vin.lm, vin.ln, vin.i, vin.j, vin.m, vin.n, GP, GQ, KP, KQ, vin.ip, vin.jq);
    parsec_data_collection_t *o = &dc.super.super;
    parsec_tiled_matrix_t *T = &dc.super;
    unsigned m1 = vin.m1, n1 = vin.n1, m2 = vin.m2, n2 = vin.n2;
    V_ASSUME(m1 < (unsigned)T->mt && n1 < (unsigned)T->nt && m2 < (unsigned)T->mt && n2 < (unsigned)T->nt);
    V_ASSUME(o->rank_of(o, m1, n1) == (uint32_t)vin.myrank && o->rank_of(o, m2, n2) == (uint32_t)vin.myrank);
    V_ASSUME(m1 != m2 || n1 != n2);
    struct rec a = call_data_of(o, m1, n1);
    struct rec b = call_data_of(o, m2, n2);
    int bm, bn;
    parsec_matrix_block_cyclic_key2coords(o, a.key, &bm, &bn);
    V_ASSERT(a.key == o->data_key(o, m1, n1), "C20.data_of.post.key_is_data_key_of_the_tile");
    V_ASSERT(bm == (int)m1 && bn == (int)n1, "C20.data_of.post.key_maps_back_to_coordinates");
    V_ASSERT(a.key != b.key, "C20.data_of.lemma.distinct_tiles_distinct_keys");
    V_CANARY("key");
}

/* ------------------------------------------------------------------ */
void h_count(void)
{
    vin_load();
    assume_grid();
    assume_stored();
    parsec_matrix_block_cyclic_init(&dc, PARSEC_MATRIX_DOUBLE, PARSEC_MATRIX_TILE, vin.myrank,
                                    MB, NB, vin.lm, vin.ln, 0, 0, vin.lm, vin.ln, GP, GQ, KP, KQ, vin.ip, vin.jq);
    parsec_data_collection_t *o = &dc.super.super;
    V_ASSERT(dc.super.mt == LMT && dc.super.nt == LNT, "C20.tiled_matrix_init.post.full_matrix_mt_nt");
    int count = 0;
    for (unsigned m = 0; m < LMT; m++)
        for (unsigned n = 0; n < LNT; n++)
            if (o->rank_of(o, m, n) == (uint32_t)vin.myrank) count++;
    V_ASSERT(dc.super.nb_local_tiles == dc.nb_elem_r * dc.nb_elem_c, "C20.block_cyclic_init.post.nb_local_tiles_is_rows_x_cols");
    V_ASSERT(count == dc.super.nb_local_tiles, "C20.block_cyclic_init.post.nb_local_tiles_equals_number_of_owned_tiles");
    V_ASSERT(dc.super.llm == dc.nb_elem_r * MB && dc.super.lln == dc.nb_elem_c * NB, "C20.block_cyclic_init.post.local_leading_dimensions");
    V_CANARY("count");
}

/* ------------------------------------------------------------------ */
void h_grid(void)
{
    vin_load();
    assume_grid();
    parsec_grid_2Dcyclic_t g;
    parsec_grid_2Dcyclic_init(&g, vin.myrank, GP, GQ, KP, KQ, vin.ip, vin.jq);
    V_ASSERT(g.rrank >= 0 && g.rrank < GP && g.crank >= 0 && g.crank < GQ, "C20.grid_init.post.row_col_rank_in_range");
    /* inverse of the rank formula: process (rrank+ip mod P, crank+jq mod Q) is myrank */
    V_ASSERT(((g.rrank + vin.ip) % GP) * GQ + (g.crank + vin.jq) % GQ == vin.myrank, "C20.grid_init.post.inverse_of_rank_formula");
    V_ASSERT(g.rows == GP && g.cols == GQ && g.krows == KP && g.kcols == KQ && g.ip == vin.ip && g.jq == vin.jq && g.rank == vin.myrank,
             "C20.grid_init.post.parameters_stored");
    V_ASSERT(g.vp_p >= 1 && g.vp_q >= 1 && g.vp_p * g.vp_q == NBVP, "C20.grid_init.post.vp_grid_covers_nb_vp");
    V_CANARY("grid");
}
