/* C20: tabular distribution (two_dim_tabular.c + matrix.c, verbatim).
 * NODES, MB=NB, LMT x LNT are constants of the job (the table is a heap object of LMT*LNT entries: its size must
 * be concrete); the table contents (owner and vpid of every tile), myrank, the submatrix and the tile coordinates
 * are symbolic.
 *
 * Entries
 *   h_tab_table   parsec_matrix_tabular_init + parsec_matrix_tabular_set_table on a symbolic valid table, then
 *                 rank_of / data_of / vpid_of / *_of_key for two symbolic tiles of a symbolic submatrix
 *   h_tab_random  parsec_matrix_tabular_set_random_table with rand_r stubbed as any value of [0, RAND_MAX) (glibc) or,
 *                 with -DC20_RAND_R_POSIX, of [0, RAND_MAX] (POSIX):
 *                 every table entry is a valid rank, vpid of local entries in range
 */
#include "verif.h"
#include "c20_common.h"
#include "parsec/runtime.h"
#include "parsec/data_dist/matrix/two_dim_tabular.h"

#ifndef NODES
#define NODES 3
#endif
#ifndef MB
#define MB 2
#endif
#ifndef NB
#define NB MB
#endif
#ifndef LMT
#define LMT 3
#endif
#ifndef LNT
#define LNT 2
#endif
#ifndef OFFT
#define OFFT 2
#endif
#define NT (LMT * LNT)
#define TILE_BYTES ((size_t)MB * NB * ELT)

struct vin {
    uint32_t myrank;
    uint32_t rank[NT];         /* the table: owner of tile k = n*LMT+m        */
    int32_t  vpid[NT];         /*            virtual process of tile k        */
    uint32_t i, j, m, n;       /* submatrix                                   */
    int32_t  m1, n1, m2, n2;   /* tiles A and B (submatrix coordinates)       */
    int32_t  rnd[2 * NT + 2];  /* values returned by rand_r                   */
    uint32_t g;                /* ghost table index                           */
} vin;
#include "verif_vin.h"

/* ---- stubs ---- */
static char   g_arena[NT + 1][MB * NB * ELT];   /* one block per allocation: distinct blocks are disjoint */
static int    g_allocs;
static size_t g_alloc_bad;
static void *c20_allocate(size_t sz)
{
    if (sz != TILE_BYTES) g_alloc_bad++;
    if (g_allocs >= NT) { g_alloc_bad++; return NULL; }
    return g_arena[g_allocs++];
}
static int g_rnd_k;
#ifndef VERIF_REPLAY
parsec_data_allocate_t parsec_data_allocate = c20_allocate;
int rand_r(unsigned int *seedp)
{
    (void)seedp;
    int v = vin.rnd[g_rnd_k < 2 * NT + 2 ? g_rnd_k : 0];
    g_rnd_k++;
#ifdef C20_RAND_R_POSIX
    V_ASSUME(v >= 0 && v <= RAND_MAX);      /* POSIX: a value in [0, RAND_MAX] */
#else
    V_ASSUME(v >= 0 && v < RAND_MAX);       /* this platform: glibc's rand_r never returns RAND_MAX itself (all 2^32
                                             * generator states enumerated by native/rand_r_max_search.c) */
#endif
    return v;
}
#endif

#include "parsec/data_dist/matrix/matrix.c"
#include "parsec/data_dist/matrix/two_dim_tabular.c"

static parsec_matrix_tabular_t dc;

static parsec_two_dim_td_table_t *make_table(void)
{
    parsec_two_dim_td_table_t *t = (parsec_two_dim_td_table_t *)malloc(sizeof(parsec_two_dim_td_table_t) +
                                                                      (NT - 1) * sizeof(parsec_two_dim_td_table_elem_t));
    t->nbelem = NT;
    for (int k = 0; k < NT; k++) {
        /* PRE of set_table (a user-supplied table): every tile has a valid owner, local tiles a valid vp */
        V_ASSUME(vin.rank[k] < NODES);
        V_ASSUME(vin.vpid[k] >= 0 && vin.vpid[k] < NBVP);
        t->elems[k].rank = vin.rank[k];
        t->elems[k].vpid = vin.vpid[k];
        t->elems[k].pos = 0x7fff;
        t->elems[k].data = NULL;
    }
    return t;
}

struct rec { long position; char *ptr; parsec_data_key_t key; size_t size; };
static struct rec take(parsec_data_t *d, int before)
{
    struct rec r;
    V_ASSERT(g_creates == before + 1 && d == &g_data_obj, "C20.tabular_data_of.post.creates_exactly_one_data");
    r.position = ((intptr_t)g_holder - (intptr_t)dc.super.data_map) / (long)sizeof(parsec_data_t *);
    r.ptr = g_ptr; r.key = g_key; r.size = g_size;
    return r;
}

void h_tab_table(void)
{
    vin_load();
#ifdef VERIF_REPLAY
    parsec_data_allocate = c20_allocate;
#endif
    V_ASSUME(vin.myrank < NODES);
    V_ASSUME(vin.i <= OFFT * MB && vin.j <= OFFT * NB && vin.m >= 1 && vin.n >= 1 &&
             vin.m <= LMT * MB && vin.n <= LNT * NB && vin.i + vin.m <= LMT * MB && vin.j + vin.n <= LNT * NB);
    parsec_two_dim_td_table_t *t = make_table();
    parsec_matrix_tabular_init(&dc, PARSEC_MATRIX_DOUBLE, NODES, vin.myrank, MB, NB, LMT * MB, LNT * NB,
                               vin.i, vin.j, vin.m, vin.n, t);
    parsec_data_collection_t *o = &dc.super.super;
    parsec_tiled_matrix_t *T = &dc.super;
    V_ASSERT(T->lmt == LMT && T->lnt == LNT && dc.tiles_table == t && t->nbelem == NT, "C20.tabular_init.post.table_installed");
    V_ASSERT(g_alloc_bad == 0, "C20.tabular_set_table.post.one_tile_sized_block_per_local_tile");

    /* --- the table after set_table: ghost entry g, and the count --- */
    int count = 0;
    for (int k = 0; k < NT; k++) if (vin.rank[k] == vin.myrank) count++;
    V_ASSERT(T->nb_local_tiles == count && g_allocs == count, "C20.tabular_set_table.post.nb_local_tiles_equals_number_of_owned_tiles");
    uint32_t g = vin.g;
    V_ASSUME(g < NT);
    V_ASSERT(t->elems[g].rank == vin.rank[g] && t->elems[g].rank < NODES, "C20.tabular_set_table.post.owner_kept_and_valid");
    if (vin.rank[g] == vin.myrank)
        V_ASSERT(t->elems[g].pos >= 0 && t->elems[g].pos < T->nb_local_tiles && t->elems[g].data != NULL &&
                 t->elems[g].vpid == vin.vpid[g], "C20.tabular_set_table.post.local_entry_has_slot_storage_and_vp");
    else
        V_ASSERT(t->elems[g].pos == -1 && t->elems[g].data == NULL, "C20.tabular_set_table.post.remote_entry_has_no_slot");

    /* --- the access functions on two tiles of the submatrix --- */
    int m1 = vin.m1, n1 = vin.n1, m2 = vin.m2, n2 = vin.n2;
    V_ASSUME(m1 >= 0 && m1 < T->mt && n1 >= 0 && n1 < T->nt && m2 >= 0 && m2 < T->mt && n2 >= 0 && n2 < T->nt);
    int gm1 = m1 + vin.i / MB, gn1 = n1 + vin.j / NB;
    V_ASSERT(gm1 < LMT && gn1 < LNT, "C20.tiled_matrix_init.post.submatrix_tiles_inside_stored_matrix");
    uint32_t r1 = o->rank_of(o, m1, n1);
    uint32_t r2 = o->rank_of(o, m2, n2);
    V_ASSERT(r1 < NODES, "C20.tabular_rank_of.post.valid_rank");
    V_ASSERT(r1 == vin.rank[gn1 * LMT + gm1], "C20.tabular_rank_of.post.is_the_table_entry_of_the_tile");
    parsec_data_key_t k1 = o->data_key(o, m1, n1);
    V_ASSERT(k1 == (parsec_data_key_t)(gn1 * LMT + gm1), "C20.data_key.post.column_major_index");
    V_ASSERT(o->rank_of_key(o, k1) == r1, "C20.tabular_rank_of_key.post.agrees_with_rank_of");
    if (r1 == vin.myrank) {
        int before = g_creates;
        struct rec a = take(o->data_of(o, m1, n1), before);
        V_ASSERT(a.position >= 0 && a.position < T->nb_local_tiles, "C20.tabular_data_of.post.position_below_nb_local_tiles");
        V_ASSERT(a.size == TILE_BYTES && a.key == k1, "C20.tabular_data_of.post.tile_size_and_key");
        V_ASSERT(a.ptr != NULL && a.ptr == (char *)t->elems[k1].data, "C20.tabular_data_of.post.pointer_is_the_tiles_block");
        before = g_creates;
        struct rec ak = take(o->data_of_key(o, k1), before);
        V_ASSERT(ak.position == a.position && ak.ptr == a.ptr && ak.key == a.key, "C20.tabular_data_of_key.post.agrees_with_data_of");
        int32_t vp = o->vpid_of(o, m1, n1);
        V_ASSERT(vp >= 0 && vp < NBVP, "C20.tabular_vpid_of.post.in_range");
        V_ASSERT(o->vpid_of_key(o, k1) == vp, "C20.tabular_vpid_of_key.post.agrees_with_vpid_of");
        if (r2 == vin.myrank && (m1 != m2 || n1 != n2)) {
            before = g_creates;
            struct rec b = take(o->data_of(o, m2, n2), before);
            V_ASSERT(a.position != b.position, "C20.tabular_data_of.lemma.distinct_tiles_distinct_slots");
            V_ASSERT(a.key != b.key, "C20.tabular_data_of.lemma.distinct_tiles_distinct_keys");
            /* each local tile has its own block of the allocator (blocks are disjoint) */
            V_ASSERT(a.ptr != b.ptr && b.ptr != NULL, "C20.tabular_data_of.lemma.distinct_tiles_distinct_blocks");
        }
    }
    V_CANARY("tab_table");
}

void h_tab_random(void)
{
    vin_load();
#ifdef VERIF_REPLAY
    parsec_data_allocate = c20_allocate;
#endif
    V_ASSUME(vin.myrank < NODES);
    parsec_matrix_tabular_init(&dc, PARSEC_MATRIX_DOUBLE, NODES, vin.myrank, MB, NB, LMT * MB, LNT * NB,
                               0, 0, LMT * MB, LNT * NB, NULL);
    parsec_matrix_tabular_set_random_table(&dc, 0);
    parsec_two_dim_td_table_t *t = dc.tiles_table;
    V_ASSERT(t != NULL && t->nbelem == NT, "C20.tabular_set_random_table.post.table_installed");
    uint32_t g = vin.g;
    V_ASSUME(g < NT);
    V_ASSERT(t->elems[g].rank < NODES, "C20.tabular_set_random_table.post.every_entry_is_a_valid_rank");
    if (t->elems[g].rank == vin.myrank)
        V_ASSERT(t->elems[g].vpid >= 0 && t->elems[g].vpid < NBVP, "C20.tabular_set_random_table.post.local_vpid_in_range");
    V_CANARY("tab_random");
}
