/* C20: band distribution (two_dim_rectangle_cyclic_band.c on top of two_dim_rectangle_cyclic.c + grid_2Dcyclic.c +
 * matrix.c, all verbatim).  A square LT x LT tile matrix; tiles with |m-n| < BS live in the `band` collection
 * (a (2*BS-1) x LT block-cyclic matrix on a BP x BQ grid, k-cyclicity BKP x BKQ, tile (m,n) stored as (m-n+BS-1, n)),
 * the others in the `off_band` collection (LT x LT on GP x GQ, KP x KQ) -- set up as tests/collections/two_dim_band does.
 * Constants of the job: GP GQ KP KQ BP BQ BKP BKQ MB LT BS (BP*BQ == GP*GQ).  Symbolic: myrank, the four grid offsets,
 * the tile coordinates, storage attached or not.
 */
#include "verif.h"
#include "c20_common.h"
#include "parsec/data_dist/matrix/two_dim_rectangle_cyclic.h"
#include "parsec/data_dist/matrix/two_dim_rectangle_cyclic_band.h"

#include "parsec/data_dist/matrix/matrix.c"
#include "parsec/data_dist/matrix/grid_2Dcyclic.c"
#include "parsec/data_dist/matrix/two_dim_rectangle_cyclic.c"
#include "parsec/data_dist/matrix/two_dim_rectangle_cyclic_band.c"

#ifndef GP
#define GP 2
#endif
#ifndef GQ
#define GQ 3
#endif
#ifndef KP
#define KP 1
#endif
#ifndef KQ
#define KQ 1
#endif
#ifndef BP
#define BP 3
#endif
#ifndef BQ
#define BQ 2
#endif
#ifndef BKP
#define BKP 1
#endif
#ifndef BKQ
#define BKQ 1
#endif
#ifndef MB
#define MB 2
#endif
#ifndef LT
#define LT 6
#endif
#ifndef BS
#define BS 2
#endif
#define NODES (GP * GQ)
#define BROWS (2 * BS - 1)

struct vin {
    int32_t myrank, ip, jq, bip, bjq;
    uint32_t m1, n1, m2, n2;
    uint8_t  with_mat;
} vin;
#include "verif_vin.h"

static parsec_matrix_block_cyclic_band_t dc;
static char g_mat_band[16];

static int in_band(unsigned m, unsigned n) { int d = (int)m - (int)n; return d < (int)BS && -d < (int)BS; }

/* defining formula: inside the band the owner of (m,n) is the block-cyclic owner of (m-n+BS-1, n) on the band grid,
 * outside it the block-cyclic owner of (m,n) on the off-band grid */
static int spec_owner(unsigned m, unsigned n)
{
    if (in_band(m, n)) {
        int bm = (int)m - (int)n + BS - 1;
        return ((vin.bip + bm / BKP) % BP) * BQ + (vin.bjq + (int)n / BKQ) % BQ;
    }
    return ((vin.ip + (int)m / KP) % GP) * GQ + (vin.jq + (int)n / KQ) % GQ;
}

/* which collection a recorded slot belongs to, its index there, and the byte offset in that collection's storage */
struct rec { int coll; long position; long off; int null_ptr; parsec_data_key_t key; size_t size; };

static struct rec take(parsec_data_t *d, int before)
{
    struct rec r;
    V_ASSERT(g_creates == before + 1 && d == &g_data_obj, "C20.band_data_of.post.creates_exactly_one_data");
    long pb = ((intptr_t)g_holder - (intptr_t)dc.band.super.data_map) / (long)sizeof(parsec_data_t *);
    long po = ((intptr_t)g_holder - (intptr_t)dc.off_band.super.data_map) / (long)sizeof(parsec_data_t *);
    if (pb >= 0 && pb < dc.band.super.nb_local_tiles && g_holder == dc.band.super.data_map + pb) {
        r.coll = 1; r.position = pb;
        r.off = g_ptr == NULL ? 0 : (intptr_t)g_ptr - (intptr_t)(char *)g_mat_band;
    } else if (po >= 0 && po < dc.off_band.super.nb_local_tiles && g_holder == dc.off_band.super.data_map + po) {
        r.coll = 2; r.position = po;
        r.off = g_ptr == NULL ? 0 : (intptr_t)g_ptr - (intptr_t)(char *)g_mat;
    } else {
        r.coll = 0; r.position = -1; r.off = -1;
    }
    r.null_ptr = g_ptr == NULL; r.key = g_key; r.size = g_size;
    return r;
}

void h_band_point(void)
{
    vin_load();
    V_ASSUME(vin.myrank >= 0 && vin.myrank < NODES);
    V_ASSUME(vin.ip >= 0 && vin.ip < GP && vin.jq >= 0 && vin.jq < GQ && vin.bip >= 0 && vin.bip < BP && vin.bjq >= 0 && vin.bjq < BQ);
    /* set-up of tests/collections/two_dim_band/main.c */
    parsec_matrix_block_cyclic_init(&dc.off_band, PARSEC_MATRIX_DOUBLE, PARSEC_MATRIX_TILE, vin.myrank, MB, MB,
                                    LT * MB, LT * MB, 0, 0, LT * MB, LT * MB, GP, GQ, KP, KQ, vin.ip, vin.jq);
    parsec_matrix_block_cyclic_init(&dc.band, PARSEC_MATRIX_DOUBLE, PARSEC_MATRIX_TILE, vin.myrank, MB, MB,
                                    BROWS * MB, LT * MB, 0, 0, BROWS * MB, LT * MB, BP, BQ, BKP, BKQ, vin.bip, vin.bjq);
    parsec_matrix_block_cyclic_band_init(&dc, NODES, vin.myrank, BS);
    parsec_data_collection_t *o = &dc.super.super;
    if (vin.with_mat) { dc.band.mat = g_mat_band; dc.off_band.mat = g_mat; }
    V_ASSERT(dc.super.lmt == LT && dc.super.lnt == LT && dc.super.mt == LT && dc.super.nt == LT && dc.band_size == BS,
             "C20.band_init.post.shape_of_the_off_band_matrix");
    V_ASSERT(o->nodes == NODES && o->myrank == (uint32_t)vin.myrank, "C20.band_init.post.nodes_myrank");
    V_ASSERT(dc.band.super.lmt == BROWS && dc.band.super.lnt == LT, "C20.block_cyclic_init.post.band_shape");

    unsigned m1 = vin.m1, n1 = vin.n1, m2 = vin.m2, n2 = vin.n2;
    V_ASSUME(m1 < LT && n1 < LT && m2 < LT && n2 < LT);
    size_t tile_bytes = (size_t)MB * MB * ELT;

    uint32_t r1 = o->rank_of(o, m1, n1);
    uint32_t r2 = o->rank_of(o, m2, n2);
    V_ASSERT(r1 < (uint32_t)NODES, "C20.band_rank_of.post.valid_rank");
    V_ASSERT(r1 == (uint32_t)spec_owner(m1, n1), "C20.band_rank_of.post.band_or_off_band_closed_form");
    /* keys of the band collection itself (it is a tiled matrix of LT x LT tiles) */
    parsec_data_key_t k1 = o->data_key(o, m1, n1);
    {
        int bm, bn;
        parsec_matrix_block_cyclic_key2coords(o, k1, &bm, &bn);
        V_ASSERT(bm == (int)m1 && bn == (int)n1, "C20.key2coords.post.inverse_of_data_key");
        V_ASSERT(o->rank_of_key(o, k1) == r1, "C20.band_rank_of_key.post.agrees_with_rank_of");
    }
    if (r1 == (uint32_t)vin.myrank) {
        int before = g_creates;
        struct rec a = take(o->data_of(o, m1, n1), before);
        /* same tile -> same owner: the data lives in the storage of the collection that rank_of consulted,
         * in one of the slots this rank owns there */
        V_ASSERT(a.coll == (in_band(m1, n1) ? 1 : 2), "C20.band_data_of.post.slot_in_the_collection_rank_of_delegates_to");
        V_ASSERT(a.position >= 0, "C20.band_data_of.post.position_below_nb_local_tiles_of_that_collection");
        V_ASSERT(a.size == tile_bytes, "C20.band_data_of.post.tile_size");
        long local_bytes = (long)((a.coll == 1 ? dc.band.super.nb_local_tiles : dc.off_band.super.nb_local_tiles) * tile_bytes);
        if (vin.with_mat)
            V_ASSERT(a.off >= 0 && a.off + (long)tile_bytes <= local_bytes, "C20.band_data_of.post.tile_inside_local_storage_of_that_collection");
        else
            V_ASSERT(a.null_ptr, "C20.band_data_of.post.no_storage_null_pointer");
        /* key of the stored data: the key of the tile in the collection that stores it */
        V_ASSERT(a.key == (in_band(m1, n1) ? (parsec_data_key_t)(n1 * BROWS + (m1 - n1 + BS - 1)) : (parsec_data_key_t)(n1 * LT + m1)),
                 "C20.band_data_of.post.key_of_the_tile_in_its_collection");
        before = g_creates;
        struct rec ak = take(o->data_of_key(o, k1), before);
        V_ASSERT(ak.coll == a.coll && ak.position == a.position && ak.off == a.off && ak.key == a.key,
                 "C20.band_data_of_key.post.agrees_with_data_of");
        int32_t vp = o->vpid_of(o, m1, n1);
        V_ASSERT(vp >= 0 && vp < NBVP, "C20.band_vpid_of.post.in_range");
        V_ASSERT(o->vpid_of_key(o, k1) == vp, "C20.band_vpid_of_key.post.agrees_with_vpid_of");
        if (r2 == (uint32_t)vin.myrank && (m1 != m2 || n1 != n2)) {
            before = g_creates;
            struct rec b = take(o->data_of(o, m2, n2), before);
            V_ASSERT(b.coll != 0 && (a.coll != b.coll || a.position != b.position), "C20.band_data_of.lemma.distinct_tiles_distinct_slots");
            V_ASSERT(a.coll != b.coll || a.key != b.key, "C20.band_data_of.lemma.distinct_tiles_distinct_keys_within_a_collection");
            if (vin.with_mat)   /* the two collections have separate storage objects */
                V_ASSERT(a.coll != b.coll || a.off + (long)tile_bytes <= b.off || b.off + (long)tile_bytes <= a.off,
                         "C20.band_data_of.lemma.distinct_tiles_disjoint_bytes");
        }
    }
    V_CANARY("band_point");
}
