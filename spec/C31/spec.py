from vlib import Job

NOLOCK = ["parsec_list_nolock_push_front", "parsec_list_nolock_push_back", "parsec_list_nolock_pop_front",
          "parsec_list_nolock_pop_back", "parsec_list_nolock_add_before", "parsec_list_nolock_add_after",
          "parsec_list_nolock_remove", "parsec_list_nolock_contains", "parsec_list_nolock_is_empty",
          "parsec_list_nolock_chain_front", "parsec_list_nolock_chain_back", "parsec_list_nolock_unchain"]
NOLOCK_ALIAS = {1: ["parsec_dequeue_nolock_push_front", "parsec_dequeue_nolock_push_back", "parsec_dequeue_nolock_pop_front",
                    "parsec_dequeue_nolock_pop_back", "parsec_dequeue_nolock_chain_front", "parsec_dequeue_nolock_chain_back",
                    "parsec_dequeue_nolock_is_empty"],
                2: ["parsec_fifo_nolock_push", "parsec_fifo_nolock_pop", "parsec_fifo_nolock_chain", "parsec_fifo_nolock_is_empty"]}
RING = ["parsec_list_item_ring_push", "parsec_list_item_ring_merge", "parsec_list_item_ring_chop", "parsec_list_item_ring",
        "parsec_list_item_singleton"]
LOCKED = ["parsec_list_lock", "parsec_list_unlock", "parsec_list_push_front", "parsec_list_push_back", "parsec_list_pop_front",
          "parsec_list_pop_back", "parsec_list_try_pop_front", "parsec_list_try_pop_back", "parsec_list_chain_front",
          "parsec_list_chain_back", "parsec_list_unchain", "parsec_list_add_after", "parsec_list_is_empty",
          "parsec_dequeue_push_front", "parsec_dequeue_push_back", "parsec_dequeue_pop_front", "parsec_dequeue_pop_back",
          "parsec_dequeue_try_pop_front", "parsec_dequeue_try_pop_back", "parsec_dequeue_chain_front", "parsec_dequeue_chain_back",
          "parsec_dequeue_is_empty", "parsec_fifo_push", "parsec_fifo_pop", "parsec_fifo_try_pop", "parsec_fifo_chain"]
LOCKED_SORTED = ["parsec_list_push_sorted", "parsec_list_chain_sorted", "parsec_list_sort"]

def MS(n):
    """complete unwinding of the four nested loops of the merge sort for a list of n items"""
    f = "parsec_list_nolock_chain_sort_mergesort."
    passes = 1 if n <= 2 else 2 if n <= 4 else 3
    return {f + "0": n + 2, f + "1": n + 2, f + "2": n + 2, f + "3": passes + 2}

def jobs(tier):
    full = tier == "thorough"
    NMAX = 5 if full else 3
    KMAX = 3 if full else 2
    J = []
    def b(n, k=None):
        return "list length fixed to %d%s, nodes in pool order (shape bounded)" % (n, "" if k is None else ", ring length %d" % k)
    for n in range(NMAX + 1):
        for k in range(1, KMAX + 1):
            d = {"N": n, "K": k}
            if k > 1: d["CHAIN_ONLY"] = None     # only chain_front / chain_back depend on the ring length
            J.append(Job("simple.n%d.k%d" % (n, k), "h_list.c", entry="h_simple", defines=d, unwind=12,
                         bounded=b(n, k), canaries=2 if k > 1 else 13 if n else 12, min_obligations=8 if k > 1 else 40, timeout=300,
                         functions=NOLOCK[9:11] if k > 1 else NOLOCK))
    for via, nm in ((1, "dequeue"), (2, "fifo")):
        J.append(Job("simple.alias_%s.n2.k1" % nm, "h_list.c", entry="h_simple", defines={"N": 2, "K": 1, "VIA": via}, unwind=12,
                     bounded=b(2, 1), canaries=13, min_obligations=40, timeout=300, functions=NOLOCK_ALIAS[via]))
    for n in range(NMAX + 1):
        J.append(Job("push_sorted.n%d" % n, "h_list.c", entry="h_push_sorted", defines={"N": n, "K": 1}, unwind=12,
                     bounded=b(n), min_obligations=8, timeout=300, functions=["parsec_list_nolock_push_sorted"]))
        J.append(Job("sort.n%d" % n, "h_list.c", entry="h_sort", defines={"N": n, "K": 1}, unwind=12,
                     unwindset=MS(n),
                     bounded=b(n), min_obligations=4, timeout=900, functions=["parsec_list_nolock_sort"]))
        J.append(Job("ring_push_sorted.k%d" % n, "h_list.c", entry="h_ring_push_sorted", defines={"N": n, "K": 1}, unwind=12,
                     bounded="ring length fixed to %d" % n, min_obligations=6, timeout=300, functions=["parsec_list_item_ring_push_sorted"]))
        for k in range(1, KMAX + 1):
            J.append(Job("chain_sorted.n%d.k%d" % (n, k), "h_list.c", entry="h_chain_sorted", defines={"N": n, "K": k}, unwind=12,
                         bounded=b(n, k), min_obligations=8, timeout=900, functions=["parsec_list_nolock_chain_sorted"]))
            if n >= 1:
                J.append(Job("ring.k%d.k%d" % (n, k), "h_list.c", entry="h_ring", defines={"N": n, "K": k}, unwind=12,
                             bounded="ring lengths fixed to %d and %d" % (n, k), canaries=5, min_obligations=20, timeout=300, functions=RING))
    for n in range(NMAX + 1):
        for k in range(1, KMAX + 1):
            d = {"N1": n, "K": k}
            if k > 1: d["CHAIN_ONLY"] = None
            J.append(Job("locked.n%d.k%d" % (n, k), "h_locked.c", entry="h_locked", defines=d, unwind=12,
                         bounded="list length at lock time fixed to %d, ring length %d" % (n, k), canaries=3 if k > 1 else 24,
                         min_obligations=20 if k > 1 else 60, timeout=300, functions=LOCKED[8:10] + LOCKED[-1:] if k > 1 else LOCKED))
            J.append(Job("locked_sorted.n%d.k%d" % (n, k), "h_locked.c", entry="h_locked_sorted", defines=d, unwind=12,
                         unwindset=MS(n), bounded="list length at lock time fixed to %d, ring length %d" % (n, k),
                         canaries=1 if k > 1 else 3, min_obligations=10 if k > 1 else 20, timeout=900,
                         functions=LOCKED_SORTED[1:2] if k > 1 else LOCKED_SORTED))
    return J
META = dict(
    level="other",
    functions=NOLOCK + ["parsec_list_nolock_push_sorted", "parsec_list_nolock_chain_sorted", "parsec_list_nolock_sort",
                        "parsec_list_nolock_chain_sort_mergesort", "parsec_list_item_ring_push_sorted"] + RING + LOCKED + LOCKED_SORTED,
    explanation="Pre/post contracts (route harness: assume the pre-state, call the REAL static-inline function from parsec/class/list.h, "
                "list_item.h, dequeue.h, fifo.h, assert the post-state) for every list / ring / dequeue / fifo operation. The abstract view of a "
                "list is the sequence of items between ghost.list_next and the ghost element; wf = forward walk and backward walk both close "
                "on the ghost element and are mirror images. Unsorted operations are checked against sequence equations (push_front: x.S, "
                "remove(x): S minus x returning the predecessor, chain_front(R): R.S, unchain: S as a ring + empty list, ...); sorted insertion "
                "(push_sorted, chain_sorted, both search directions of push_sorted) against: wf, permutation, non-increasing priority, existing "
                "elements keep their order, each new element AFTER the existing ones of equal priority (+ ring order kept among equal new ones); "
                "sort against: wf/re-closed, permutation, NON-DECREASING priority (direction as implemented by the merge sort); ring sorted "
                "insertion against: ring wf, permutation, ordered from the returned head, head returned as documented. List length n and ring "
                "length k are fixed per cbmc process (quick n<=3,k<=2; thorough n<=5,k<=3), priorities are unconstrained 32-bit ints (ties "
                "included), dangling pointers of detached items are symbolic, the position / removed item is any member. All loops of the code "
                "(search loops, the four nested merge-sort loops) are unwound completely for the fixed length, with unwinding assertions. "
                "Locked variants: rely/guarantee on the real lock layer (verif_rg.h): when the lock is requested the environment replaces the list "
                "by an arbitrary (fixed-length) wf list and may hold the lock (trylock); obligations: lock taken once / released once, no shared "
                "write before the lock is held, no write after unlock, no write on the NULL early returns, and the effect inside the critical "
                "section equals the sequential contract on the list as found at lock time => linearizable by mutual exclusion.",
    trusted_base=["rely/guarantee soundness theorem; mutual exclusion of the spin lock (parsec_atomic_lock = CAS loop, modelled by verif_rg.h as "
                  "'wait until free, then take'; liveness not claimed)",
                  "symmetry: list nodes are laid out in pool order nd0,nd1,...; the code under contract only dereferences item pointers and compares "
                  "them for equality, so every other arrangement of distinct items is a renaming",
                  "induction on history length (each operation maps any wf list of the bounded shape to the wf list given by its sequence equation)"],
    assumptions=["callers of the nolock_* / ring functions hold the list lock or own the structure exclusively (the functions' documented precondition)",
                 "preconditions from the documentation: position / removed item is a member of the list; the inserted item is not; rings passed to "
                 "chain_* are well-formed and disjoint from the list; the list given to push_sorted / chain_sorted is sorted non-increasing",
                 "parsec_list_add_after: the position is still in the list when the lock is obtained (caller's responsibility)",
                 "build without PARSEC_DEBUG_PARANOID (as in /repo/_build): attach / detach bookkeeping macros are empty",
                 "priorities are ints read at a fixed byte offset of the item (COMPARISON_VAL), HIGHER_IS_BETTER as configured"],
)

MANIFEST = dict(
    category="other",
    text="Every contract obligation on the real list.h / list_item.h / dequeue.h / fifo.h operations is discharged by CBMC for every list "
         "length n <= 3 (thorough: 5) and ring length k <= 2 (thorough: 3), with unconstrained int priorities (all tie patterns), any member as "
         "position / removed item, symbolic dangling pointers, and complete unwinding of the code's loops for those lengths: sequence equations "
         "for the dequeue operations, order + permutation + 'after existing equals' for push_sorted (both search directions) and chain_sorted, "
         "permutation + order + re-closed list for the merge sort, order + returned head for ring_push_sorted. Locked variants (incl. dequeue / fifo "
         "aliases, try_pop with a busy lock, the unlocked emptiness test followed by a list emptied meanwhile): lock discipline, no shared write "
         "outside the critical section, effect equal to the sequential contract at lock time. Level 'other' because the shapes are bounded "
         "stand-ins for unbounded lists.",
    note="NOT decided: lists longer than the bound; real interleavings (linearizability is argued by mutual exclusion from the checked lock "
         "discipline, the rely/guarantee theorem and sequentially consistent atomics; no interleaving is explored); callers that use nolock_* "
         "functions without the lock; PARSEC_DEBUG_PARANOID builds; PARSEC_LIST_ITERATOR with user code blocks; list construction / destruction "
         "(parsec_list.c). parsec_list_sort orders by NON-DECREASING priority (as implemented and as tests/class/list.c expects), the opposite of the "
         "non-increasing order kept by push_sorted / chain_sorted; stability of the sort is not claimed (the merge takes q on ties). "
         "parsec_list_item_ring_chop does not singleton the removed item in this build although its comment says so (not part of the property).",
    technique="function contracts as assume/assert harnesses on the real static-inline code, abstract sequence view + flat wf predicate, shape "
              "fixed per process and enumerated, rely/guarantee ghost state on the real lock layer, complete unwinding; CBMC 6.11 (SAT)",
    design_ref="DESIGN.md section 5, C31")
