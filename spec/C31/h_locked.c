/* C31 - the thread-safe (locked) list / dequeue / fifo operations of parsec/class/list.h, dequeue.h, fifo.h
 * (static inline code, included verbatim), checked by rely/guarantee (verif_rg.h wraps the real lock layer).
 *
 * Linearizability by mutual exclusion, per operation f:
 *   RELY  (other threads): while I do not hold list->atomic_lock the list may become ANY well-formed list of the
 *         shared nodes (here: fixed length N1 per cbmc process, nodes in pool order, symbolic priorities; sorted for the
 *         sorted operations, whose callers keep the list sorted); the lock may be held by somebody else when I try it;
 *         my private items (the ones I am about to insert) are not touched; while I hold the lock nobody writes the list.
 *   GUAR  (checked here, it is what the other threads rely on): f takes the lock at most once and releases it exactly
 *         as often; f writes no shared node / ghost element before it holds the lock and nothing at all after releasing it;
 *         a failed trylock or an observed-empty early return writes nothing.
 *   POST  the whole effect of f happens inside its critical section and equals the SEQUENTIAL contract of the
 *         corresponding not-thread-safe operation (h_list.c) applied to the list as it is when the lock is obtained
 *         => every locked operation takes effect atomically at a point between its call and its return.
 *   The unlocked emptiness test of pop_front/pop_back/try_pop_* is one read of ghost.list_next: returning NULL
 *   linearises at that read; when it sees "not empty" the list may have been emptied before the lock is obtained (N1 == 0
 *   is covered: NULL is returned and the list stays well formed).
 */
#ifndef N1
#define N1 2                            /* list length when the lock is obtained */
#endif
#ifndef K
#define K 1                             /* private items (ring length) */
#endif
#if N1 > 0
#define NSH N1                          /* shared nodes: the list before the environment step has 0 or NSH elements */
#else
#define NSH 1
#endif
#define NUSE (NSH + K)
#include "c31_common.h"

struct vin {
    int32_t prio[NPOOL];
    uint8_t op, sel;
    uint8_t pre_empty;                  /* list seen empty / non-empty before the lock is requested      */
    uint8_t env_holds;                  /* somebody else holds the lock when I try it                     */
    uint8_t junk_n[NPOOL], junk_p[NPOOL];
} vin;
#include "verif_vin.h"

/* ---- ghost state ---- */
static const volatile void *s_n[NPOOL + 1], *s_p[NPOOL + 1];
static int32_t s_lock;
static int g_attempts, g_locks, g_unlocks, g_held, g_bad_balance, g_wrote_before_lock;

static void snap_take(void)
{
    for (int i = 0; i < NUSE; i++) { s_n[i] = PN[i]->it.list_next; s_p[i] = PN[i]->it.list_prev; }
    s_n[NPOOL] = L.ghost_element.list_next; s_p[NPOOL] = L.ghost_element.list_prev; s_lock = L.atomic_lock;
}
static int snap_same(int lo, int hi)
{
    int same = 1;
    for (int i = lo; i < hi; i++) if (s_n[i] != PN[i]->it.list_next || s_p[i] != PN[i]->it.list_prev) same = 0;
    if (s_n[NPOOL] != L.ghost_element.list_next || s_p[NPOOL] != L.ghost_element.list_prev) same = 0;
    if (s_lock != L.atomic_lock) same = 0;
    return same;
}

void verif_env_step(int op, volatile void *loc)
{
    if (loc != (volatile void *)&L.atomic_lock) return;
    if (op != V_OP_LOCK && op != V_OP_TRYLOCK) return;
    g_attempts++;
    if (!snap_same(0, NSH)) g_wrote_before_lock = 1;            /* GUAR: nothing shared written so far */
    /* RELY: the list is now whatever the other threads made of it */
    build_list(0, N1);
    for (int i = N1; i < NSH; i++) { ITEM(i)->list_next = junk(vin.junk_n[i]); ITEM(i)->list_prev = junk(vin.junk_p[i]); }
    L.atomic_lock = (op == V_OP_TRYLOCK && vin.env_holds) ? 1 : 0;
    snap_take();
}
void verif_own_step(int op, volatile void *loc, int success)
{
    if (loc != (volatile void *)&L.atomic_lock) return;
    if (op == V_OP_LOCK || (op == V_OP_TRYLOCK && success)) { if (g_held) g_bad_balance = 1; g_held = 1; g_locks++; }
    if (op == V_OP_UNLOCK) { if (!g_held) g_bad_balance = 1; g_held = 0; g_unlocks++; snap_take(); }
}

static void pre_state(int n_pre)
{
    for (int i = 0; i < NUSE; i++) {
        PN[i]->prio = vin.prio[i];
        PN[i]->it.list_next = junk(vin.junk_n[i]);
        PN[i]->it.list_prev = junk(vin.junk_p[i]);
    }
    L.atomic_lock = 0;
    build_list(0, n_pre);
    g_attempts = g_locks = g_unlocks = g_held = g_bad_balance = g_wrote_before_lock = 0;
}
#define X NSH                           /* first private item */

#define POST_LOCKED(FN) do { \
    V_ASSERT(g_attempts == 1 && g_locks == 1 && g_unlocks == 1 && !g_bad_balance && !g_held, \
             "C31." FN ".guar.lock_taken_once_and_released_once"); \
    V_ASSERT(L.atomic_lock == 0, "C31." FN ".post.lock_free_on_return"); \
    V_ASSERT(!g_wrote_before_lock, "C31." FN ".guar.no_write_to_shared_list_before_lock_is_held"); \
    V_ASSERT(snap_same(0, NUSE), "C31." FN ".guar.no_write_after_unlock"); \
    POST_FRAME(FN); } while (0)
#define POST_NO_EFFECT(FN, attempts) do { \
    V_ASSERT(g_attempts == (attempts) && g_locks == 0 && g_unlocks == 0 && !g_bad_balance, \
             "C31." FN ".guar.no_lock_taken_no_unlock"); \
    V_ASSERT(!g_wrote_before_lock && snap_same(0, NUSE), "C31." FN ".guar.no_write_without_lock"); \
    POST_FRAME(FN); } while (0)

/* ---- pushes ---- */
#define PUSH_FRONT_CASE(FN, CALL, TAG) { \
    int exp[MAXV]; exp[0] = X; for (int i = 0; i < N1; i++) exp[i + 1] = i; \
    pre_state(vin.pre_empty ? 0 : NSH); snap_take(); \
    CALL; \
    POST_LOCKED(FN); POST_LIST_SEQ(FN, exp, N1 + 1); V_CANARY(TAG); }
#define PUSH_BACK_CASE(FN, CALL, TAG) { \
    int exp[MAXV]; for (int i = 0; i < N1; i++) exp[i] = i; exp[N1] = X; \
    pre_state(vin.pre_empty ? 0 : NSH); snap_take(); \
    CALL; \
    POST_LOCKED(FN); POST_LIST_SEQ(FN, exp, N1 + 1); V_CANARY(TAG); }
/* ---- pops: FRONT = 1 pops the head ---- */
#define POP_SEEN_EMPTY(FN, CALL, TAG) \
        pre_state(0); snap_take(); \
        r = CALL; \
        V_ASSERT(r == (parsec_list_item_t *)0, "C31." FN ".post.NULL_when_seen_empty"); \
        POST_NO_EFFECT(FN, 0); V_CANARY(TAG "_seen_empty");
#define POP_LOCK_BUSY(FN, CALL, TAG) \
        pre_state(NSH); snap_take(); \
        r = CALL; \
        V_ASSERT(r == (parsec_list_item_t *)0, "C31." FN ".post.NULL_when_lock_busy"); \
        POST_NO_EFFECT(FN, 1); V_CANARY(TAG "_lock_busy");
#define POP_LOCKED(FN, CALL, FRONT, TAG) \
        pre_state(NSH); snap_take(); \
        r = CALL; \
        V_ASSERT(r == (N1 ? ITEM((FRONT) ? 0 : N1 - 1) : (parsec_list_item_t *)0), \
                 "C31." FN ".post.returns_end_element_of_the_list_at_lock_time_or_NULL_when_emptied_meanwhile"); \
        POST_LOCKED(FN); POST_LIST_SEQ(FN, exp, N1 ? N1 - 1 : 0); V_CANARY(TAG);
#define POP_CASE(FN, CALL, FRONT, TAG) { \
    int exp[MAXV]; for (int i = 0; i + 1 < N1; i++) exp[i] = (FRONT) ? i + 1 : i; \
    parsec_list_item_t *r; \
    if (vin.pre_empty) { POP_SEEN_EMPTY(FN, CALL, TAG) } \
    else { POP_LOCKED(FN, CALL, FRONT, TAG) } }
#define TRYPOP_CASE(FN, CALL, FRONT, TAG) { \
    int exp[MAXV]; for (int i = 0; i + 1 < N1; i++) exp[i] = (FRONT) ? i + 1 : i; \
    parsec_list_item_t *r; \
    if (vin.pre_empty) { POP_SEEN_EMPTY(FN, CALL, TAG) } \
    else if (vin.env_holds) { POP_LOCK_BUSY(FN, CALL, TAG) } \
    else { POP_LOCKED(FN, CALL, FRONT, TAG) } }
#define CHAIN_CASE(FN, CALL, FRONT, TAG) { \
    int exp[MAXV]; \
    if (FRONT) { for (int i = 0; i < K; i++) exp[i] = NSH + i; for (int i = 0; i < N1; i++) exp[K + i] = i; } \
    else { for (int i = 0; i < N1; i++) exp[i] = i; for (int i = 0; i < K; i++) exp[N1 + i] = NSH + i; } \
    pre_state(vin.pre_empty ? 0 : NSH); build_ring(NSH, K); snap_take(); \
    CALL; \
    POST_LOCKED(FN); POST_LIST_SEQ(FN, exp, N1 + K); V_CANARY(TAG); }

static void do_add_after(int p)
{
    int exp[MAXV], m = 0;
    if (p == N1) exp[m++] = X;
    for (int i = 0; i < N1; i++) { exp[m++] = i; if (i == p) exp[m++] = X; }
    parsec_list_add_after(&L, p == N1 ? GHOST : ITEM(p), ITEM(X));
    POST_LOCKED("parsec_list_add_after"); POST_LIST_SEQ("parsec_list_add_after", exp, N1 + 1);
}

#define N_LOCKED_CANARIES 24
void h_locked(void)
{
    vin_load();
    V_ASSUME(vin.pre_empty <= 1 && vin.env_holds <= 1);
    switch (vin.op) {
#ifndef CHAIN_ONLY                       /* independent of K: checked in the K == 1 process only */
    case 0: PUSH_FRONT_CASE("parsec_list_push_front", parsec_dequeue_push_front(&L, ITEM(X)), "push_front") break;
    case 1: PUSH_BACK_CASE("parsec_list_push_back", parsec_dequeue_push_back(&L, ITEM(X)), "push_back") break;
    case 2: PUSH_BACK_CASE("parsec_fifo_push", parsec_fifo_push(&L, ITEM(X)), "fifo_push") break;
    case 3: POP_CASE("parsec_list_pop_front", parsec_dequeue_pop_front(&L), 1, "pop_front") break;
    case 4: POP_CASE("parsec_fifo_pop", parsec_fifo_pop(&L), 1, "fifo_pop") break;
    case 5: POP_CASE("parsec_list_pop_back", parsec_dequeue_pop_back(&L), 0, "pop_back") break;
    case 6: TRYPOP_CASE("parsec_list_try_pop_front", parsec_dequeue_try_pop_front(&L), 1, "try_pop_front") break;
    case 7: TRYPOP_CASE("parsec_fifo_try_pop", parsec_fifo_try_pop(&L), 1, "fifo_try_pop") break;
    case 8: TRYPOP_CASE("parsec_list_try_pop_back", parsec_dequeue_try_pop_back(&L), 0, "try_pop_back") break;
#endif
    case 9: CHAIN_CASE("parsec_list_chain_front", parsec_dequeue_chain_front(&L, ITEM(NSH)), 1, "chain_front") break;
    case 10: CHAIN_CASE("parsec_list_chain_back", parsec_dequeue_chain_back(&L, ITEM(NSH)), 0, "chain_back") break;
    case 11: CHAIN_CASE("parsec_fifo_chain", parsec_fifo_chain(&L, ITEM(NSH)), 0, "fifo_chain") break;
#ifndef CHAIN_ONLY
    case 12: {
        int exp[MAXV]; for (int i = 0; i < N1; i++) exp[i] = i;
        pre_state(vin.pre_empty ? 0 : NSH); snap_take();
        parsec_list_item_t *r = parsec_list_unchain(&L);
        V_ASSERT(r == (N1 ? ITEM(0) : (parsec_list_item_t *)0), "C31.parsec_list_unchain.post.returns_head_at_lock_time_or_NULL");
        POST_LOCKED("parsec_list_unchain");
#if N1 > 0
        POST_RING_SEQ("parsec_list_unchain(ring)", r, exp, N1);
#endif
        POST_LIST_SEQ("parsec_list_unchain(list)", exp, 0);
        V_CANARY("unchain");
        break; }
    case 13: {
        V_ASSUME(vin.sel <= N1);        /* PRE (caller): position is the ghost element or still in the list */
        pre_state(vin.pre_empty ? 0 : NSH); snap_take();
        for (int c = 0; c <= N1; c++) if (vin.sel == c) { do_add_after(c); break; }
        V_CANARY("add_after");
        break; }
    case 14: {
        int exp[MAXV]; for (int i = 0; i < N1; i++) exp[i] = i;
        pre_state(vin.pre_empty ? 0 : NSH); snap_take();
        int r = parsec_dequeue_is_empty(&L);
        V_ASSERT(r == (N1 == 0), "C31.parsec_list_is_empty.post.one_iff_empty_at_lock_time");
        POST_LOCKED("parsec_list_is_empty"); POST_LIST_SEQ("parsec_list_is_empty", exp, N1);
        V_CANARY("is_empty");
        break; }
#endif
    default: V_ASSUME(0); break;
    }
}

/* ---- the locked sorted operations: lock; sequential contract of h_list.c; unlock ---- */
void h_locked_sorted(void)
{
    vin_load();
    V_ASSUME(vin.pre_empty <= 1);
    switch (vin.op) {
#ifndef CHAIN_ONLY
    case 0:
        pre_state(vin.pre_empty ? 0 : NSH); snap_take();
        PRE_SORTED_NONINCREASING(0, N1);                          /* RELY: the list is kept sorted by everybody */
        parsec_list_push_sorted(&L, ITEM(X), OFF);
        POST_LOCKED("parsec_list_push_sorted");
        view_list();
        POST_WF_VIEWED("parsec_list_push_sorted", N1 + 1);
        for (int i = 0; i < N1; i++) V_ASSERT(g_pos[i] >= 0, "C31.parsec_list_push_sorted.post.permutation_every_element_present_exactly_once");
        V_ASSERT(g_pos[X] >= 0, "C31.parsec_list_push_sorted.post.permutation_every_element_present_exactly_once");
        POST_SORTED_NONINCREASING("parsec_list_push_sorted", N1 + 1);
        POST_ORDER_KEPT("parsec_list_push_sorted", 0, N1);
        POST_AFTER_EQUALS("parsec_list_push_sorted", X, 0, N1);
        V_CANARY("push_sorted");
        break;
#endif
    case 1:
        pre_state(vin.pre_empty ? 0 : NSH); build_ring(NSH, K); snap_take();
        PRE_SORTED_NONINCREASING(0, N1);
        parsec_list_chain_sorted(&L, ITEM(NSH), OFF);
        POST_LOCKED("parsec_list_chain_sorted");
        view_list();
        POST_WF_VIEWED("parsec_list_chain_sorted", N1 + K);
        for (int i = 0; i < N1; i++) V_ASSERT(g_pos[i] >= 0, "C31.parsec_list_chain_sorted.post.permutation_every_element_present_exactly_once");
        for (int i = NSH; i < NSH + K; i++) V_ASSERT(g_pos[i] >= 0, "C31.parsec_list_chain_sorted.post.permutation_every_element_present_exactly_once");
        POST_SORTED_NONINCREASING("parsec_list_chain_sorted", N1 + K);
        POST_ORDER_KEPT("parsec_list_chain_sorted", 0, N1);
        for (int x = NSH; x < NSH + K; x++) POST_AFTER_EQUALS("parsec_list_chain_sorted", x, 0, N1);
        V_CANARY("chain_sorted");
        break;
#ifndef CHAIN_ONLY
    case 2:
        pre_state(vin.pre_empty ? 0 : NSH); snap_take();
        parsec_list_sort(&L, OFF);
        POST_LOCKED("parsec_list_sort");
        view_list();
        POST_WF_VIEWED("parsec_list_sort", N1);
        POST_PERM("parsec_list_sort", 0, N1);
        POST_SORTED_NONDECREASING("parsec_list_sort", N1);
        V_CANARY("sort");
        break;
#endif
    default: V_ASSUME(0); break;
    }
}
