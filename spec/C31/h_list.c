/* C31 - lists and dequeues keep their contents and order: contracts on the REAL not-thread-safe operations of
 * parsec/class/list.h and parsec/class/list_item.h (static inline code, included verbatim through the headers).
 * Route: harness (V_ASSUME pre-state; call the real function; V_ASSERT post).  Shape bounded: list length N and ring
 * length K are FIXED per cbmc process (one Job per (N,K)), nodes are laid out in pool order, all priorities are
 * fully symbolic ints (ties included), dangling pointers of detached items are symbolic.
 *
 * =====================================================================================================
 * CONTRACTS (S = View(list) before the call, as a sequence of items; wf as in c31_common.h; prio(i) = the
 * int at byte offset `off` of item i; "sorted" = non-increasing prio from head to tail).  Reused by C09.
 * =====================================================================================================
 * parsec_list_nolock_push_sorted(list, x, off)
 *   requires wf(list), sorted(S), x not in S
 *   ensures  wf(list), View is a permutation of S + {x}, sorted(View), S keeps its relative order,
 *            x comes AFTER every element of S with prio == prio(x)   (hence before every smaller one);
 *            both the forward and the backward search branch meet this same contract
 *            priorities and the lock word are not written.
 * parsec_list_nolock_chain_sorted(list, R, off)       R = ring of k >= 1 items (any order), or NULL
 *   requires wf(list), sorted(S), ring(R), R and S disjoint
 *   ensures  R == NULL: nothing changes;  otherwise wf(list), View is a permutation of S + R, sorted(View),
 *            S keeps its relative order, every r in R comes after every s in S with prio(s) == prio(r),
 *            elements of R with equal priority keep their ring order (the code's "for stability").
 * parsec_list_nolock_sort(list, off) (= parsec_list_nolock_chain_sort_mergesort when S is not empty)
 *   requires wf(list)
 *   ensures  wf(list) (list re-closed on the ghost element), View is a permutation of S,
 *            View is NON-DECREASING in prio (direction as implemented: the merge takes p when
 *            A_LOWER_PRIORITY_THAN_B(p,q)); stability is not claimed.
 * parsec_list_item_ring_push_sorted(ring, x, off)     ring = NULL or sorted ring of k items starting at ring
 *   ensures  result ring (walked from the returned item) is wf, a permutation of ring + {x}, sorted non-increasing,
 *            old elements keep their order; returns x if prio(x) >= every old priority (x is the new head),
 *            otherwise returns ring.
 * push_front(x): x.S   push_back(x): S.x   pop_front: returns head(S) (NULL if empty), View = tail(S)
 * pop_back: returns last(S), View = S without last    add_before(p,x): x inserted before p (p = ghost: S.x)
 * add_after(p,x): x inserted after p (p = ghost: x.S)  remove(x): S \ x, returns the predecessor of x (ghost if none)
 * chain_front(R): R.S   chain_back(R): S.R   unchain: returns NULL if S empty, else head(S) with S closed into a ring,
 * View = empty      contains(x): 1 iff x in S     is_empty: 1 iff S empty
 * ring_push(ring,x): ring.x, returns ring   ring_merge(r1,r2): r1.r2, returns r1   ring_chop(x): ring \ x starting at
 * next(x), NULL when x was alone   parsec_list_item_ring(first,last): closes the chain first..last into a ring
 * parsec_list_item_singleton(x): ring {x}.
 * =====================================================================================================
 */
#define VERIF_RG_DEFAULT_HOOKS          /* no atomics / locks in the not-thread-safe operations */
#ifndef N
#define N 3                             /* list length before the call */
#endif
#ifndef K
#define K 2                             /* ring length / number of new items (>= 1) */
#endif
#ifndef VIA
#define VIA 0
#endif
#define NUSE (N + K)
#include "c31_common.h"

struct vin {
    int32_t prio[NPOOL];                /* priority of node i                                        */
    uint8_t op;                         /* operation selector of h_simple / h_ring                   */
    uint8_t sel;                        /* which position / item the operation is applied to         */
    uint8_t junk_n[NPOOL], junk_p[NPOOL]; /* dangling next/prev pointers of detached items           */
} vin;
#include "verif_vin.h"

/* pre-state: list = nodes 0..N-1, nodes N..N+K-1 detached with dangling pointers */
static void pre_state(void)
{
    for (int i = 0; i < NUSE; i++) {
        PN[i]->prio = vin.prio[i];
        PN[i]->it.list_next = junk(vin.junk_n[i]);
        PN[i]->it.list_prev = junk(vin.junk_p[i]);
    }
    L.atomic_lock = 0;
    build_list(0, N);
}
#define POST_LOCK_UNTOUCHED(FN) V_ASSERT(L.atomic_lock == 0, "C31." FN ".post.frame_lock_word_not_written")

/* ------------------------------------------------------------------------------------------------ */
/* the dequeue operations: sequence equations                                                         */
/* ------------------------------------------------------------------------------------------------ */
#define X N                              /* the single new item */
/* the dequeue / fifo "nolock" aliases are one-line forwards; -DVIA=1 / 2 runs the same contracts through them */
#if VIA == 1
#define F_push_front  parsec_dequeue_nolock_push_front
#define F_push_back   parsec_dequeue_nolock_push_back
#define F_pop_front   parsec_dequeue_nolock_pop_front
#define F_pop_back    parsec_dequeue_nolock_pop_back
#define F_chain_front parsec_dequeue_nolock_chain_front
#define F_chain_back  parsec_dequeue_nolock_chain_back
#define F_is_empty    parsec_dequeue_nolock_is_empty
#elif VIA == 2
#define F_push_front  parsec_list_nolock_push_front
#define F_push_back   parsec_fifo_nolock_push
#define F_pop_front   parsec_fifo_nolock_pop
#define F_pop_back    parsec_list_nolock_pop_back
#define F_chain_front parsec_list_nolock_chain_front
#define F_chain_back  parsec_fifo_nolock_chain
#define F_is_empty    parsec_fifo_nolock_is_empty
#else
#define F_push_front  parsec_list_nolock_push_front
#define F_push_back   parsec_list_nolock_push_back
#define F_pop_front   parsec_list_nolock_pop_front
#define F_pop_back    parsec_list_nolock_pop_back
#define F_chain_front parsec_list_nolock_chain_front
#define F_chain_back  parsec_list_nolock_chain_back
#define F_is_empty    parsec_list_nolock_is_empty
#endif
static void op_push_front(void)
{
    int exp[MAXV]; exp[0] = X; for (int i = 0; i < N; i++) exp[i + 1] = i;
    F_push_front(&L, ITEM(X));
    POST_LIST_SEQ("parsec_list_nolock_push_front", exp, N + 1);
    POST_FRAME("parsec_list_nolock_push_front"); POST_LOCK_UNTOUCHED("parsec_list_nolock_push_front");
    V_CANARY("push_front");
}
static void op_push_back(void)
{
    int exp[MAXV]; for (int i = 0; i < N; i++) exp[i] = i; exp[N] = X;
    F_push_back(&L, ITEM(X));
    POST_LIST_SEQ("parsec_list_nolock_push_back", exp, N + 1);
    POST_FRAME("parsec_list_nolock_push_back"); POST_LOCK_UNTOUCHED("parsec_list_nolock_push_back");
    V_CANARY("push_back");
}
static void op_pop_front(void)
{
    int exp[MAXV]; for (int i = 0; i + 1 < N; i++) exp[i] = i + 1;
    parsec_list_item_t *r = F_pop_front(&L);
    V_ASSERT(r == (N ? ITEM(0) : (parsec_list_item_t *)0), "C31.parsec_list_nolock_pop_front.post.returns_head_or_NULL_when_empty");
    POST_LIST_SEQ("parsec_list_nolock_pop_front", exp, N ? N - 1 : 0);
    POST_FRAME("parsec_list_nolock_pop_front"); POST_LOCK_UNTOUCHED("parsec_list_nolock_pop_front");
    V_CANARY("pop_front");
}
static void op_pop_back(void)
{
    int exp[MAXV]; for (int i = 0; i + 1 < N; i++) exp[i] = i;
    parsec_list_item_t *r = F_pop_back(&L);
    V_ASSERT(r == (N ? ITEM(N - 1) : (parsec_list_item_t *)0), "C31.parsec_list_nolock_pop_back.post.returns_last_or_NULL_when_empty");
    POST_LIST_SEQ("parsec_list_nolock_pop_back", exp, N ? N - 1 : 0);
    POST_FRAME("parsec_list_nolock_pop_back"); POST_LOCK_UNTOUCHED("parsec_list_nolock_pop_back");
    V_CANARY("pop_back");
}
/* position p in 0..N (N = the ghost element) */
static void do_add_before(int p)
{
    int exp[MAXV], m = 0;
    for (int i = 0; i < N; i++) { if (i == p) exp[m++] = X; exp[m++] = i; }
    if (p == N) exp[m++] = X;                                    /* before the ghost element = at the back */
    parsec_list_nolock_add_before(&L, p == N ? GHOST : ITEM(p), ITEM(X));
    POST_LIST_SEQ("parsec_list_nolock_add_before", exp, N + 1);
    POST_FRAME("parsec_list_nolock_add_before"); POST_LOCK_UNTOUCHED("parsec_list_nolock_add_before");
}
static void do_add_after(int p)
{
    int exp[MAXV], m = 0;
    if (p == N) exp[m++] = X;                                    /* after the ghost element = at the front */
    for (int i = 0; i < N; i++) { exp[m++] = i; if (i == p) exp[m++] = X; }
    parsec_list_nolock_add_after(&L, p == N ? GHOST : ITEM(p), ITEM(X));
    POST_LIST_SEQ("parsec_list_nolock_add_after", exp, N + 1);
    POST_FRAME("parsec_list_nolock_add_after"); POST_LOCK_UNTOUCHED("parsec_list_nolock_add_after");
}
static void do_remove(int p)
{
    int exp[MAXV], m = 0;
    for (int i = 0; i < N; i++) if (i != p) exp[m++] = i;
    parsec_list_item_t *r = parsec_list_nolock_remove(&L, ITEM(p));
    V_ASSERT(r == (p ? ITEM(p - 1) : GHOST), "C31.parsec_list_nolock_remove.post.returns_predecessor");
    POST_LIST_SEQ("parsec_list_nolock_remove", exp, N - 1);
    POST_FRAME("parsec_list_nolock_remove"); POST_LOCK_UNTOUCHED("parsec_list_nolock_remove");
}
static void do_contains(int p)          /* p in 0..NUSE: a list member, a detached item, or the position after the pool */
{
    int exp[MAXV]; for (int i = 0; i < N; i++) exp[i] = i;
    int r = parsec_list_nolock_contains(&L, ITEM(p));
    V_ASSERT(r == (p < N), "C31.parsec_list_nolock_contains.post.one_iff_member");
    POST_LIST_SEQ("parsec_list_nolock_contains", exp, N);
    POST_LOCK_UNTOUCHED("parsec_list_nolock_contains");
}
static void op_add_before(void)
{
    V_ASSUME(vin.sel <= N);
    for (int c = 0; c <= N; c++) if (vin.sel == c) { do_add_before(c); break; }
    V_CANARY("add_before");
}
static void op_add_after(void)
{
    V_ASSUME(vin.sel <= N);
    for (int c = 0; c <= N; c++) if (vin.sel == c) { do_add_after(c); break; }
    V_CANARY("add_after");
}
static void op_remove(void)
{
    V_ASSUME(vin.sel < N);              /* PRE: the item is in the list (N == 0: no such call) */
    for (int c = 0; c < N; c++) if (vin.sel == c) { do_remove(c); break; }
#if N > 0
    V_CANARY("remove");
#endif
}
static void op_contains(void)
{
    V_ASSUME(vin.sel < NUSE);
    for (int c = 0; c < NUSE; c++) if (vin.sel == c) { do_contains(c); break; }
    V_CANARY("contains");
}
static void op_is_empty(void)
{
    int exp[MAXV]; for (int i = 0; i < N; i++) exp[i] = i;
    int r = F_is_empty(&L);
    V_ASSERT(r == (N == 0), "C31.parsec_list_nolock_is_empty.post.one_iff_empty");
    POST_LIST_SEQ("parsec_list_nolock_is_empty", exp, N);
    V_CANARY("is_empty");
}
static void op_chain_front(void)
{
    int exp[MAXV]; for (int i = 0; i < K; i++) exp[i] = N + i; for (int i = 0; i < N; i++) exp[K + i] = i;
    build_ring(N, K);
    F_chain_front(&L, ITEM(N));
    POST_LIST_SEQ("parsec_list_nolock_chain_front", exp, N + K);
    POST_FRAME("parsec_list_nolock_chain_front"); POST_LOCK_UNTOUCHED("parsec_list_nolock_chain_front");
    V_CANARY("chain_front");
}
static void op_chain_back(void)
{
    int exp[MAXV]; for (int i = 0; i < N; i++) exp[i] = i; for (int i = 0; i < K; i++) exp[N + i] = N + i;
    build_ring(N, K);
    F_chain_back(&L, ITEM(N));
    POST_LIST_SEQ("parsec_list_nolock_chain_back", exp, N + K);
    POST_FRAME("parsec_list_nolock_chain_back"); POST_LOCK_UNTOUCHED("parsec_list_nolock_chain_back");
    V_CANARY("chain_back");
}
static void op_unchain(void)
{
    int exp[MAXV]; for (int i = 0; i < N; i++) exp[i] = i;
    parsec_list_item_t *r = parsec_list_nolock_unchain(&L);
    V_ASSERT(r == (N ? ITEM(0) : (parsec_list_item_t *)0), "C31.parsec_list_nolock_unchain.post.returns_head_or_NULL_when_empty");
#if N > 0
    POST_RING_SEQ("parsec_list_nolock_unchain(ring)", r, exp, N);
#endif
    POST_LIST_SEQ("parsec_list_nolock_unchain(list)", exp, 0);
    POST_FRAME("parsec_list_nolock_unchain"); POST_LOCK_UNTOUCHED("parsec_list_nolock_unchain");
    V_CANARY("unchain");
}
static void op_chain_sorted_null(void)
{
    int exp[MAXV]; for (int i = 0; i < N; i++) exp[i] = i;
    parsec_list_nolock_chain_sorted(&L, (parsec_list_item_t *)0, OFF);
    POST_LIST_SEQ("parsec_list_nolock_chain_sorted(NULL)", exp, N);
    V_CANARY("chain_sorted_null");
}
#define N_SIMPLE_OPS 13
void h_simple(void)
{
    vin_load();
    pre_state();
    switch (vin.op) {
#ifndef CHAIN_ONLY                       /* the operations below do not depend on K: checked in the K == 1 process only */
    case 0: op_push_front(); break;
    case 1: op_push_back(); break;
    case 2: op_pop_front(); break;
    case 3: op_pop_back(); break;
    case 4: op_add_before(); break;
    case 5: op_add_after(); break;
    case 6: op_remove(); break;
    case 7: op_contains(); break;
    case 8: op_is_empty(); break;
    case 11: op_unchain(); break;
    case 12: op_chain_sorted_null(); break;
#endif
    case 9: op_chain_front(); break;
    case 10: op_chain_back(); break;
    default: V_ASSUME(0); break;
    }
}

/* ------------------------------------------------------------------------------------------------ */
/* sorted insertion                                                                                   */
/* ------------------------------------------------------------------------------------------------ */
void h_push_sorted(void)
{
    vin_load();
    pre_state();
    PRE_SORTED_NONINCREASING(0, N);
    parsec_list_nolock_push_sorted(&L, ITEM(X), OFF);
    view_list();
    POST_WF_VIEWED("parsec_list_nolock_push_sorted", N + 1);
    POST_PERM("parsec_list_nolock_push_sorted", 0, N + 1);
    POST_SORTED_NONINCREASING("parsec_list_nolock_push_sorted", N + 1);
    POST_ORDER_KEPT("parsec_list_nolock_push_sorted", 0, N);
    POST_AFTER_EQUALS("parsec_list_nolock_push_sorted", X, 0, N);
    POST_FRAME("parsec_list_nolock_push_sorted"); POST_LOCK_UNTOUCHED("parsec_list_nolock_push_sorted");
    V_CANARY("push_sorted");
}

void h_chain_sorted(void)
{
    vin_load();
    pre_state();
    PRE_SORTED_NONINCREASING(0, N);
    build_ring(N, K);
    parsec_list_nolock_chain_sorted(&L, ITEM(N), OFF);
    view_list();
    POST_WF_VIEWED("parsec_list_nolock_chain_sorted", N + K);
    POST_PERM("parsec_list_nolock_chain_sorted", 0, N + K);
    POST_SORTED_NONINCREASING("parsec_list_nolock_chain_sorted", N + K);
    POST_ORDER_KEPT("parsec_list_nolock_chain_sorted", 0, N);
    for (int x = N; x < N + K; x++)
        POST_AFTER_EQUALS("parsec_list_nolock_chain_sorted", x, 0, N);
    for (int a = N; a < N + K; a++) for (int b = a + 1; b < N + K; b++)
        V_ASSERT(V_IMPLIES(vin.prio[a] == vin.prio[b], g_pos[a] < g_pos[b]),
                 "C31.parsec_list_nolock_chain_sorted.post.new_elements_of_equal_priority_keep_ring_order");
    POST_FRAME("parsec_list_nolock_chain_sorted"); POST_LOCK_UNTOUCHED("parsec_list_nolock_chain_sorted");
    V_CANARY("chain_sorted");
}

/* ------------------------------------------------------------------------------------------------ */
/* sort                                                                                               */
/* ------------------------------------------------------------------------------------------------ */
void h_sort(void)
{
    vin_load();
    pre_state();
    parsec_list_nolock_sort(&L, OFF);
    view_list();
    POST_WF_VIEWED("parsec_list_nolock_sort", N);
    POST_PERM("parsec_list_nolock_sort", 0, N);
    POST_SORTED_NONDECREASING("parsec_list_nolock_sort", N);
    POST_FRAME("parsec_list_nolock_sort"); POST_LOCK_UNTOUCHED("parsec_list_nolock_sort");
    V_CANARY("sort");
}

/* ------------------------------------------------------------------------------------------------ */
/* rings: ring 1 = nodes 0..N-1 (N >= 1 unless said otherwise), ring 2 / new item = nodes N..N+K-1      */
/* ------------------------------------------------------------------------------------------------ */
static void ring_pre(void)
{
    for (int i = 0; i < NUSE; i++) {
        PN[i]->prio = vin.prio[i];
        PN[i]->it.list_next = junk(vin.junk_n[i]);
        PN[i]->it.list_prev = junk(vin.junk_p[i]);
    }
    L.atomic_lock = 0; build_list(0, 0);
    if (N) build_ring(0, N);
}
static void do_chop(int p)
{
    int exp[MAXV], m = 0;
    for (int i = 1; i < N; i++) exp[m++] = (p + i) % (N ? N : 1);
    parsec_list_item_t *r = parsec_list_item_ring_chop(ITEM(p));
    V_ASSERT(r == (N > 1 ? ITEM((p + 1) % (N ? N : 1)) : (parsec_list_item_t *)0),
             "C31.parsec_list_item_ring_chop.post.returns_successor_or_NULL_when_alone");
    if (N > 1) POST_RING_SEQ("parsec_list_item_ring_chop", r, exp, N - 1);
    POST_FRAME("parsec_list_item_ring_chop");
}
void h_ring(void)
{
    vin_load();
    ring_pre();
    int exp[MAXV];
    switch (vin.op) {
    case 0: {   /* ring_push: ring . x */
        for (int i = 0; i < N; i++) exp[i] = i; exp[N] = X;
        parsec_list_item_t *r = parsec_list_item_ring_push(ITEM(0), ITEM(X));
        V_ASSERT(r == ITEM(0), "C31.parsec_list_item_ring_push.post.returns_ring");
        POST_RING_SEQ("parsec_list_item_ring_push", r, exp, N + 1);
        POST_FRAME("parsec_list_item_ring_push");
        V_CANARY("ring_push");
        break; }
    case 1: {   /* ring_merge: ring1 . ring2 */
        for (int i = 0; i < N + K; i++) exp[i] = i;
        build_ring(N, K);
        parsec_list_item_t *r = parsec_list_item_ring_merge(ITEM(0), ITEM(N));
        V_ASSERT(r == ITEM(0), "C31.parsec_list_item_ring_merge.post.returns_ring1");
        POST_RING_SEQ("parsec_list_item_ring_merge", r, exp, N + K);
        POST_FRAME("parsec_list_item_ring_merge");
        V_CANARY("ring_merge");
        break; }
    case 2: {   /* ring_chop of any member */
        V_ASSUME(vin.sel < N);
        for (int c = 0; c < N; c++) if (vin.sel == c) { do_chop(c); break; }
        V_CANARY("ring_chop");
        break; }
#if N > 0
    case 3: {   /* parsec_list_item_ring(first, last): the chain 0..N-1 with open ends is closed */
        for (int i = 0; i < N; i++) exp[i] = i;
        ITEM(0)->list_prev = junk(vin.junk_p[0]);
        ITEM(N - 1)->list_next = junk(vin.junk_n[N - 1]);
        parsec_list_item_t *r = parsec_list_item_ring(ITEM(0), ITEM(N - 1));
        V_ASSERT(r == ITEM(0), "C31.parsec_list_item_ring.post.returns_first");
        POST_RING_SEQ("parsec_list_item_ring", r, exp, N);
        V_CANARY("ring_close");
        break; }
#endif
    default: {  /* singleton */
        exp[0] = X;
        parsec_list_item_t *r = parsec_list_item_singleton(ITEM(X));
        V_ASSERT(r == ITEM(X), "C31.parsec_list_item_singleton.post.returns_item");
        POST_RING_SEQ("parsec_list_item_singleton", r, exp, 1);
        V_CANARY("singleton");
        break; }
    }
}

/* ring sorted insertion: ring = NULL (N == 0) or the sorted ring 0..N-1 headed by node 0 */
void h_ring_push_sorted(void)
{
    vin_load();
    ring_pre();
    PRE_SORTED_NONINCREASING(0, N);
    parsec_list_item_t *r = parsec_list_item_ring_push_sorted(N ? ITEM(0) : (parsec_list_item_t *)0, ITEM(X), OFF);
    int is_max = 1;
    for (int i = 0; i < N; i++) if (vin.prio[X] < vin.prio[i]) is_max = 0;
    V_ASSERT(V_IMPLIES(is_max, r == ITEM(X)), "C31.parsec_list_item_ring_push_sorted.post.returns_item_as_new_head_when_it_is_the_maximum");
    V_ASSERT(V_IMPLIES(!is_max, r == ITEM(0)), "C31.parsec_list_item_ring_push_sorted.post.returns_old_head_otherwise");
    view_ring(r);
    POST_WF_VIEWED("parsec_list_item_ring_push_sorted", N + 1);
    POST_PERM("parsec_list_item_ring_push_sorted", 0, N + 1);
    POST_SORTED_NONINCREASING("parsec_list_item_ring_push_sorted", N + 1);
    POST_ORDER_KEPT("parsec_list_item_ring_push_sorted", 0, N);
    POST_FRAME("parsec_list_item_ring_push_sorted");
    V_CANARY("ring_push_sorted");
}
