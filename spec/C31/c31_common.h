/* C31 shared harness vocabulary: node pool, pre-state builders, abstract view of a list / ring
 * (sequence of pool indexes) and the post-condition macros.  Nothing here paraphrases list.h:
 * it is the SPEC side (written from the property statement) plus pre-state construction.
 *
 * Abstract view (DESIGN 5/C31): View(L) = sequence of items met from ghost.list_next following
 * list_next until the ghost element; wf(L) = the walk reaches the ghost in <= NUSE+1 steps, the
 * backward walk (list_prev) gives the reversed sequence (next/prev mutually consistent), the
 * items are pairwise distinct pool nodes.
 */
#ifndef C31_COMMON_H
#define C31_COMMON_H
#include "verif.h"
#define VERIF_RG_POST_STEP   /* environment also acts after each of my atomic operations */
#include "verif_rg.h"
#include <stddef.h>
#include <stdint.h>
#include "parsec/class/list.h"
#include "parsec/class/dequeue.h"
#include "parsec/class/fifo.h"

/* a list item carrying an int priority, as every user of the sorted operations has (task priority,
 * dep_cmd priority): the sorted operations read it at byte offset OFF of the item */
typedef struct c31_node_s { parsec_list_item_t it; int prio; } c31_node_t;
#define OFF (offsetof(c31_node_t, prio))

/* one static object per node (an array of structs makes every write through a symbolic item pointer a
 * whole-array update, LESSONS C15) */
#define NPOOL 9
static c31_node_t nd0, nd1, nd2, nd3, nd4, nd5, nd6, nd7, nd8;
static c31_node_t *const PN[NPOOL] = { &nd0, &nd1, &nd2, &nd3, &nd4, &nd5, &nd6, &nd7, &nd8 };
#define ITEM(i) (&PN[i]->it)
#ifndef NUSE
#error "define NUSE (number of pool nodes alive in this harness) before including c31_common.h"
#endif
#define GH   NPOOL        /* view index of the ghost element */
#define NIL  (NPOOL + 1)  /* view index of NULL              */
#define BAD  (-1)         /* any other address               */
#define MAXV (NPOOL + 1)

static parsec_list_t L;
#define GHOST (&L.ghost_element)

static int idx_of(const volatile void *p)
{
    for (int i = 0; i < NUSE; i++) if (p == (const volatile void *)ITEM(i)) return i;
    if (p == (const volatile void *)GHOST) return GH;
    if (p == (const volatile void *)0) return NIL;
    return BAD;
}

/* dangling pointer of a detached item: any live node, the ghost element or NULL */
static parsec_list_item_t *junk(uint8_t j)
{
    for (int i = 0; i < NUSE; i++) if (j == i) return ITEM(i);
    if (j == NUSE) return GHOST;
    return (parsec_list_item_t *)0;
}

/* list = nodes lo .. lo+n-1 in pool order */
static void build_list(int lo, int n)
{
    L.ghost_element.list_next = n ? ITEM(lo) : GHOST;
    L.ghost_element.list_prev = n ? ITEM(lo + n - 1) : GHOST;
    for (int i = 0; i < n; i++) {
        ITEM(lo + i)->list_next = (i + 1 < n) ? ITEM(lo + i + 1) : GHOST;
        ITEM(lo + i)->list_prev = (i > 0) ? ITEM(lo + i - 1) : GHOST;
    }
}
/* ring = nodes lo .. lo+k-1 in pool order, k >= 1 */
static void build_ring(int lo, int k)
{
    for (int i = 0; i < k; i++) {
        ITEM(lo + i)->list_next = ITEM(lo + (i + 1 < k ? i + 1 : 0));
        ITEM(lo + i)->list_prev = ITEM(lo + (i > 0 ? i - 1 : k - 1));
    }
}

/* ---- view of the list ---- */
static int g_f[MAXV], g_b[MAXV], g_lf, g_lb, g_pos[NPOOL];
static int walk_list(int fwd, int *out)
{
    const volatile parsec_list_item_t *cur = fwd ? L.ghost_element.list_next : L.ghost_element.list_prev;
    int len = 0;
    for (int k = 0; k <= NUSE; k++) {
        int i = idx_of(cur);
        if (i == GH) return len;
        if (i < 0 || i >= NUSE) return -1;          /* left the pool: not a list */
        out[len++] = i;
        cur = fwd ? PN[i]->it.list_next : PN[i]->it.list_prev;
    }
    return -2;                                       /* ghost not reached in NUSE+1 steps */
}
/* ---- view of a ring starting at item `start` ---- */
static int walk_ring(const volatile parsec_list_item_t *start, int fwd, int *out)
{
    const volatile parsec_list_item_t *cur = start;
    int len = 0;
    for (int k = 0; k < NUSE; k++) {
        int i = idx_of(cur);
        if (i < 0 || i >= NUSE) return -1;
        out[len++] = i;
        cur = fwd ? PN[i]->it.list_next : PN[i]->it.list_prev;
        if (cur == start) return len;
    }
    return -2;
}
static void mk_pos(void)
{
    for (int i = 0; i < NPOOL; i++) g_pos[i] = -1;
    for (int j = 0; j < MAXV; j++) if (j < g_lf && g_f[j] >= 0 && g_f[j] < NPOOL) g_pos[g_f[j]] = j;
}
static void view_list(void) { g_lf = walk_list(1, g_f); g_lb = walk_list(0, g_b); mk_pos(); }
/* backward ring walk start, prev, prevprev ... is rotated so that g_b[] is comparable with the list case:
 * g_b[0] = last element ... g_b[m-1] = start */
static void view_ring(const volatile parsec_list_item_t *start)
{
    int t[MAXV];
    g_lf = walk_ring(start, 1, g_f);
    g_lb = walk_ring(start, 0, t);
    for (int j = 0; j < MAXV; j++) if (j < g_lb) g_b[j] = t[(j + 1 < g_lb) ? j + 1 : 0];
    mk_pos();
}

/* ---- post-condition macros; FN = name of the function under contract ---- */
/* wf + sequence equation View == exp[0..m) */
#define POST_SEQ_VIEWED(FN, exp, m) do { \
    V_ASSERT(g_lf == (m), "C31." FN ".post.wf_forward_walk_closes_with_expected_length"); \
    V_ASSERT(g_lb == (m), "C31." FN ".post.wf_backward_walk_closes_with_expected_length"); \
    for (int j_ = 0; j_ < (m); j_++) { \
        V_ASSERT(g_f[j_] == (exp)[j_], "C31." FN ".post.sequence_forward_equals_spec"); \
        V_ASSERT(g_b[(m) - 1 - j_] == (exp)[j_], "C31." FN ".post.sequence_backward_equals_spec"); \
    } } while (0)
#define POST_LIST_SEQ(FN, exp, m) do { view_list(); POST_SEQ_VIEWED(FN, exp, m); } while (0)
#define POST_RING_SEQ(FN, start, exp, m) do { view_ring(start); POST_SEQ_VIEWED(FN, exp, m); } while (0)
/* wf only (sequence decided by the clauses below) */
#define POST_WF_VIEWED(FN, m) do { \
    V_ASSERT(g_lf == (m), "C31." FN ".post.wf_forward_walk_closes_with_expected_length"); \
    V_ASSERT(g_lb == (m), "C31." FN ".post.wf_backward_walk_closes_with_expected_length"); \
    for (int j_ = 0; j_ < (m); j_++) \
        V_ASSERT(g_b[(m) - 1 - j_] == g_f[j_], "C31." FN ".post.wf_next_prev_mutually_consistent"); \
    } while (0)
/* every node lo..hi-1 occurs (with length == hi-lo: exactly once, nothing else) */
#define POST_PERM(FN, lo, hi) do { for (int i_ = (lo); i_ < (hi); i_++) \
    V_ASSERT(g_pos[i_] >= 0, "C31." FN ".post.permutation_every_element_present_exactly_once"); } while (0)
#define POST_SORTED_NONINCREASING(FN, m) do { for (int j_ = 0; j_ + 1 < (m); j_++) \
    V_ASSERT(vin.prio[g_f[j_]] >= vin.prio[g_f[j_ + 1]], "C31." FN ".post.sorted_non_increasing_priority"); } while (0)
#define POST_SORTED_NONDECREASING(FN, m) do { for (int j_ = 0; j_ + 1 < (m); j_++) \
    V_ASSERT(vin.prio[g_f[j_]] <= vin.prio[g_f[j_ + 1]], "C31." FN ".post.sorted_non_decreasing_priority"); } while (0)
/* nodes lo..hi-1 (pool order = their previous order) keep their relative order */
#define POST_ORDER_KEPT(FN, lo, hi) do { for (int a_ = (lo); a_ + 1 < (hi); a_++) \
    V_ASSERT(g_pos[a_] < g_pos[a_ + 1], "C31." FN ".post.existing_elements_keep_relative_order"); } while (0)
/* x comes after every node of lo..hi-1 that has the same priority */
#define POST_AFTER_EQUALS(FN, x, lo, hi) do { for (int o_ = (lo); o_ < (hi); o_++) \
    V_ASSERT(V_IMPLIES(vin.prio[o_] == vin.prio[x], g_pos[o_] < g_pos[x]), \
             "C31." FN ".post.new_element_after_existing_ones_of_equal_priority"); } while (0)
/* frame: priorities are not written, the lock word is not touched */
#define POST_FRAME(FN) do { for (int i_ = 0; i_ < NUSE; i_++) \
    V_ASSERT(PN[i_]->prio == vin.prio[i_], "C31." FN ".post.frame_priorities_not_written"); } while (0)

#define PRE_SORTED_NONINCREASING(lo, hi) do { for (int i_ = (lo); i_ + 1 < (hi); i_++) \
    V_ASSUME(vin.prio[i_] >= vin.prio[i_ + 1]); } while (0)
#endif
